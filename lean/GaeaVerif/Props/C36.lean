import GaeaVerif.Model.Fingerprint
import GaeaVerif.Model.FingerprintGrammar
import GaeaVerif.Lemmas.FingerprintSteps
import GaeaVerif.Gen.Consts
/-
  C36 — The SQL blacklist ignores literals, spacing, case and comments.

  Theorems about `Model/Fingerprint.lean` (transliteration of
  mysql.GetFingerprint and of parseBlackSqls / Namespace.IsSQLAllowed, tied to
  /repo by the correspondence check `gvh run C36`).

  Statements are taken from the token grammar of `Model/FingerprintGrammar.lean`:
  a statement is a sequence of items — words (keywords, identifiers, operators
  and punctuation: maximal runs of non-blank characters such as `select`,
  `t.id`, `a,`, `>=`, `count(*)`, `(c`), numeric literals, quoted strings, and
  unspaced comparisons (`id=1`, `name>='x'`: a word ending with an operator
  character glued to a literal) and value lists (`in (1, 'a')`, `values(f(b), ")")`:
  the keyword, optional white space, and a parenthesised list with balanced
  parentheses and closed quotes, followed by white space only and then by a word
  such as `and`, `)`, `order`, or by the end) — each followed by a separator (white space,
  in which complete `/* */`, `-- ` and `#` comments may be embedded after the
  first blank), optionally preceded by leading blanks and comments.  Two
  statements are *variants* of each other if they have the same skeleton
  (`Stmt.skeleton`: the lower-cased words in order, `?` for every literal):
  they differ only in literal values, letter case, amount and kind of white
  space, and comments in the separators.

  * `fingerprint_of_stmt` / `fingerprint_eq_joinSp`: the fingerprint of every
    statement of the grammar is its skeleton joined by single blanks, and
    `GetFingerprint` does not panic — for all statements (any length).
  * `fp_invariant_partial`: variants have the same fingerprint.
  * `fp_discriminates_partial`: statements with different skeletons (another
    table, column, operator, keyword, clause, or number of items) have
    different fingerprints.
  * `blacklist_rejects_variant_partial`, `blacklist_allows_mutant_partial`:
    the same two facts for `IsSQLAllowed` against `parseBlackSqls [entry]`.
  The proofs are a symbolic execution of the state machine
  (`Lemmas/FingerprintSteps.lean`): from a *clean* state every item contributes
  its normal form and one blank and leaves a clean state; every separator
  piece contributes nothing.

  `_partial`: the property quantifies over every SELECT/INSERT/UPDATE/DELETE
  statement; the theorems cover the grammar above.  NOT covered (correspondence
  and oracle only; `known/C36.json` lists the classes in which the code is known
  to fail, each with a `…_witness` theorem below): several rows of `VALUES`,
  comments around value lists, literals glued to punctuation (`f(1,2)`, `1,`), the words `null` (as a
  value) / `asc` / `in` / `value(s)` / `use`, the characters `: + - / #` inside
  words, comments glued to a token, strings with doubled quotes, numbers with an
  explicit `+` exponent sign or a leading dot, signed numbers, `\v`/`\f`.
  The model is that of the code after the fix commits b59f3d0, 12d9e41, fe0c1ed,
  5b1add8 of the repository worktree (comments containing `/`, comments in
  front of a literal, `-- ` comments in front of an unspaced comparison, the
  output buffer that `a in(1) or b in(1)` overflowed: before 5b1add8 the "no
  panic" half of `fingerprint_of_stmt` was false).
-/
namespace GaeaVerif.C36
open GaeaVerif.Fingerprint GaeaVerif.FingerprintGrammar GaeaVerif.FingerprintSteps

theorem text_space (s : Stmt) :
    s.text ++ [' '] = s.lead.flatMap SepPiece.text ++ renderItems s.allItems := by
  have h : ∀ (l : List (Item × Sep)) (x : Item × Sep), renderItems (l ++ [x]) = renderItems l ++ x.1.text ++ x.2.text := by
    intro l x
    induction l with
    | nil => simp [renderItems]
    | cons p rest ih => obtain ⟨a, b⟩ := p; simp [renderItems, ih]
  simp only [Stmt.text, Stmt.allItems, h, Stmt.lastSep]
  cases s.tail with
  | none => simp [Sep.text]
  | some t => simp [Sep.text, SepPiece.text]


theorem normAll_eq (its : List Item) : normAll its = joinSkel (its.map Item.norm) := by
  induction its with
  | nil => rfl
  | cons it rest ih => simp [normAll, joinSkel, ih]

/-! ### The fingerprint of a statement of the grammar -/

theorem clean_init : Clean 0 ({} : St) := by
  constructor
  · right; exact ⟨rfl, by decide⟩
  · rfl
  · decide
  · rfl
  · decide
  · simp
  · left; rfl
  · decide
  · rfl
  · decide
  · rfl
  · rfl

/-- **The fingerprint of every statement of the grammar is its skeleton**, each
    token followed by one blank, trailing blanks removed; `GetFingerprint` does
    not panic on it. -/
theorem fingerprint_of_stmt (s : Stmt) (hok : s.ok = true) :
    getFingerprint s.text = .ret (trimTrailing (joinSkel s.skeleton)) := by
  simp only [Stmt.ok, Bool.and_eq_true] at hok
  obtain ⟨⟨⟨⟨⟨hlead, hinit⟩, hlast⟩, htail⟩, hctx⟩, hlists⟩ := hok
  unfold getFingerprint
  simp only
  rw [text_space]
  generalize hq : s.lead.flatMap SepPiece.text ++ renderItems s.allItems = q
  have hcap : 2 * q.length < 2 * q.length + 1 := Nat.lt_succ_self _
  -- leading blanks and comments
  obtain ⟨σ1, h1, hc1, hs1⟩ := pieces_run q (2 * q.length + 1) s.lead 0 {} clean_init hlead
  -- the items
  have hdrop : q.drop (0 + (s.lead.flatMap SepPiece.text).length) = renderItems s.allItems := by
    rw [← hq]; simp
  have hitems : ∀ p ∈ s.allItems, p.1.shapeOK = true ∧ p.2.ok = true := by
    intro p hp
    simp only [Stmt.allItems, List.mem_append, List.mem_singleton] at hp
    rcases hp with hp | hp
    · have := List.all_eq_true.mp hinit p hp
      simpa using this
    · subst hp
      refine ⟨hlast, ?_⟩
      simp only [Stmt.lastSep]
      cases hts : s.tail with
      | none => simp [Sep.ok, isSpace]
      | some t =>
        rw [hts] at htail
        simp only [Sep.ok, Bool.and_eq_true] at htail ⊢
        refine ⟨htail.1, ?_⟩
        simp [List.all_append, htail.2, SepPiece.ok, isSpace]
  have hmap : s.allItems.map (·.1) = s.items := by simp [Stmt.allItems, Stmt.items]
  obtain ⟨σ2, h2, hf2⟩ := items_run q (2 * q.length + 1) hcap s.allItems _ σ1 (Or.inl hc1) hdrop hitems
    (by rw [hs1.2, hmap]; exact hctx) hlists
  have hrun : run q (2 * q.length + 1) 0 {} q = .ret (trimTrailing σ2.f) := by
    conv => lhs; rw [← hq]
    rw [hq]
    have e : q = s.lead.flatMap SepPiece.text ++ (renderItems s.allItems ++ []) := by simp [hq]
    conv => lhs; arg 5; rw [e]
    rw [run_of_runSeg q _ _ _ 0 {} σ1 h1, run_of_runSeg q _ _ _ _ σ1 σ2 h2]
    simp [run]
  rw [hrun, hf2, hs1.1, hmap, normAll_eq]
  simp [Stmt.skeleton]

/-! ### Skeletons determine fingerprints, and are determined by them -/

/-- A skeleton token: not empty, no white space inside. -/
def TokOK (t : List Char) : Prop := t ≠ [] ∧ ∀ c ∈ t, isSpace c = false

theorem trimTrailing_snoc_space (xs : List Char) : trimTrailing (xs ++ [' ']) = trimTrailing xs := by
  simp [trimTrailing, List.dropWhile, isSpace]

theorem trimTrailing_of_last (xs : List Char) (c : Char) (hc : isSpace c = false) :
    trimTrailing (xs ++ [c]) = xs ++ [c] := by
  simp [trimTrailing, List.dropWhile, hc]

theorem joinSkel_eq (sk : List (List Char)) (h : sk ≠ []) : joinSkel sk = joinSp sk ++ [' '] := by
  induction sk with
  | nil => exact absurd rfl h
  | cons t rest ih =>
    cases rest with
    | nil => simp [joinSkel, joinSp]
    | cons u r => rw [joinSkel, ih (by simp)]; simp [joinSp]

theorem joinSp_last (sk : List (List Char)) (h : sk ≠ []) (hok : ∀ t ∈ sk, TokOK t) :
    ∃ xs c, joinSp sk = xs ++ [c] ∧ isSpace c = false := by
  induction sk with
  | nil => exact absurd rfl h
  | cons t rest ih =>
    cases rest with
    | nil =>
      have ht := hok t (by simp)
      refine ⟨t.dropLast, t.getLast ht.1, ?_, ht.2 _ (List.getLast_mem ht.1)⟩
      simp [joinSp, List.dropLast_concat_getLast]
    | cons u r =>
      obtain ⟨xs, c, h1, h2⟩ := ih (by simp) (fun t ht => hok t (by simp [ht]))
      exact ⟨t ++ ' ' :: xs, c, by simp [joinSp, h1], h2⟩

theorem trim_joinSkel (sk : List (List Char)) (hok : ∀ t ∈ sk, TokOK t) :
    trimTrailing (joinSkel sk) = joinSp sk := by
  cases sk with
  | nil => simp [joinSkel, joinSp, trimTrailing]
  | cons t rest =>
    rw [joinSkel_eq _ (by simp), trimTrailing_snoc_space]
    obtain ⟨xs, c, h1, h2⟩ := joinSp_last (t :: rest) (by simp) hok
    rw [h1, trimTrailing_of_last xs c h2]

theorem split_at_space : ∀ (t u x y : List Char), (∀ c ∈ t, isSpace c = false) → (∀ c ∈ u, isSpace c = false) →
    t ++ ' ' :: x = u ++ ' ' :: y → t = u ∧ x = y := by
  intro t
  induction t with
  | nil =>
    intro u x y _ hu h
    cases u with
    | nil => simpa using h
    | cons c u' =>
      simp only [List.nil_append, List.cons_append, List.cons.injEq] at h
      have := hu c (by simp); rw [← h.1] at this; exact absurd this (by decide)
  | cons a t' ih =>
    intro u x y ht hu h
    cases u with
    | nil =>
      simp only [List.nil_append, List.cons_append, List.cons.injEq] at h
      have := ht a (by simp); rw [h.1] at this; exact absurd this (by decide)
    | cons c u' =>
      simp only [List.cons_append, List.cons.injEq] at h
      obtain ⟨h1, h2⟩ := ih u' x y (fun c hc => ht c (by simp [hc])) (fun c hc => hu c (by simp [hc])) h.2
      exact ⟨by rw [h.1, h1], h2⟩

theorem no_space_inside (t u y : List Char) (ht : ∀ c ∈ t, isSpace c = false) : t ≠ u ++ ' ' :: y := by
  intro h
  have := ht ' ' (by rw [h]; simp)
  exact absurd this (by decide)

/-- Joining with single blanks is injective on well-formed skeletons. -/
theorem joinSp_inj : ∀ (a b : List (List Char)), (∀ t ∈ a, TokOK t) → (∀ t ∈ b, TokOK t) →
    joinSp a = joinSp b → a = b := by
  intro a
  induction a with
  | nil =>
    intro b _ hb h
    cases b with
    | nil => rfl
    | cons u r =>
      cases r with
      | nil => simp only [joinSp] at h; exact absurd h.symm (hb u (by simp)).1
      | cons v r' => simp [joinSp] at h
  | cons t rest ih =>
    intro b ha hb h
    have ht := ha t (by simp)
    cases b with
    | nil =>
      cases rest with
      | nil => simp only [joinSp] at h; exact absurd h ht.1
      | cons v r' => simp [joinSp] at h
    | cons u r =>
      have hu := hb u (by simp)
      cases rest with
      | nil =>
        cases r with
        | nil => simp only [joinSp] at h; rw [h]
        | cons v r' =>
          simp only [joinSp] at h
          exact absurd h (no_space_inside t u _ ht.2)
      | cons v rest' =>
        cases r with
        | nil =>
          simp only [joinSp] at h
          exact absurd h.symm (no_space_inside u t _ hu.2)
        | cons w r' =>
          simp only [joinSp] at h
          obtain ⟨h1, h2⟩ := split_at_space t u _ _ ht.2 hu.2 h
          have := ih (w :: r') (fun t ht => ha t (by simp [ht])) (fun t ht => hb t (by simp [ht])) h2
          rw [h1, this]

theorem toLower_ne (c x : Char) (hx : x.val.toNat < 65) (hc : c ≠ x) : c.toLower ≠ x := by
  unfold Char.toLower
  split
  · rename_i h
    intro e
    have := congrArg (fun c : Char => c.val.toNat) e
    simp only [UInt32.toNat_add] at this
    have h1 := UInt32.le_iff_toNat_le.mp h.1
    have h2 := UInt32.le_iff_toNat_le.mp h.2
    have e1 : ('a'.val - 'A'.val).toNat = 32 := by decide
    have e2 : 'A'.val.toNat = 65 := by decide
    have e3 : 'Z'.val.toNat = 90 := by decide
    rw [e1] at this
    rw [e2] at h1
    rw [e3] at h2
    omega
  · exact hc

theorem toLower_space (c : Char) (h : isSpace c = false) : isSpace c.toLower = false := by
  simp only [isSpace, Bool.or_eq_false_iff, decide_eq_false_iff_not] at h ⊢
  obtain ⟨⟨⟨h1, h2⟩, h3⟩, h4⟩ := h
  exact ⟨⟨⟨toLower_ne c ' ' (by decide) h1, toLower_ne c '\t' (by decide) h2⟩, toLower_ne c '\r' (by decide) h3⟩,
    toLower_ne c '\n' (by decide) h4⟩

theorem lower_word_tokOK (w : List Char) (h : wordShape w = true) : TokOK (lower w) := by
  cases w with
  | nil => simp [wordShape] at h
  | cons c rest =>
    simp only [wordShape, Bool.and_eq_true] at h
    obtain ⟨⟨hfirst, hchain⟩, _⟩ := h
    refine ⟨by simp [lower], ?_⟩
    intro x hx
    simp only [lower, List.mem_map] at hx
    obtain ⟨y, hy, rfl⟩ := hx
    apply toLower_space
    apply isSpace_of_not_bad
    rcases List.mem_cons.mp hy with hy | hy
    · rw [hy]
      simp only [okFirst, Bool.and_eq_true, Bool.not_eq_true'] at hfirst
      exact hfirst.1.1
    · exact chainOK_notBad c rest hchain _ hy

theorem tokOK_snoc_q (t : List Char) (h : TokOK t) : TokOK (t ++ ['?']) := by
  refine ⟨by simp, ?_⟩
  intro c hc
  rcases List.mem_append.mp hc with hc | hc
  · exact h.2 c hc
  · simp at hc; subst hc; decide

theorem norm_tokOK (it : Item) (h : it.shapeOK = true) : TokOK it.norm := by
  cases it with
  | num n => exact ⟨by simp [Item.norm], by intro c hc; simp [Item.norm] at hc; subst hc; decide⟩
  | str t => exact ⟨by simp [Item.norm], by intro c hc; simp [Item.norm] at hc; subst hc; decide⟩
  | word w => exact lower_word_tokOK w h
  | cmpNum w n =>
    simp only [Item.shapeOK, cmpShape, Bool.and_eq_true] at h
    exact tokOK_snoc_q _ (lower_word_tokOK w h.1.1.1)
  | cmpStr w t =>
    simp only [Item.shapeOK, cmpShape, Bool.and_eq_true] at h
    exact tokOK_snoc_q _ (lower_word_tokOK w h.1.1.1)
  | vlist kw gap content =>
    simp only [Item.shapeOK, listShape, Bool.and_eq_true] at h
    have hk := lower_word_tokOK kw h.1.1.1.1
    refine ⟨by simp [Item.norm, hk.1], ?_⟩
    intro c hc
    simp only [Item.norm] at hc
    rcases List.mem_append.mp hc with hc | hc
    · exact hk.2 c hc
    · split at hc <;> simp at hc <;> rcases hc with rfl | rfl | rfl | rfl <;> decide

theorem skeleton_tokOK (s : Stmt) (hok : s.ok = true) : ∀ t ∈ s.skeleton, TokOK t := by
  simp only [Stmt.ok, Bool.and_eq_true] at hok
  obtain ⟨⟨⟨⟨⟨_, hinit⟩, hlast⟩, _⟩, _⟩, _⟩ := hok
  intro t ht
  simp only [Stmt.skeleton, Stmt.items, List.map_append, List.map_map, List.mem_append, List.mem_map,
    List.map_cons, List.map_nil, List.mem_singleton] at ht
  rcases ht with ⟨p, hp, rfl⟩ | rfl
  · have := List.all_eq_true.mp hinit p hp
    simp only [Bool.and_eq_true] at this
    exact norm_tokOK _ this.1
  · exact norm_tokOK _ hlast

/-- `fingerprint_of_stmt` in its readable form: the skeleton joined by single blanks. -/
theorem fingerprint_eq_joinSp (s : Stmt) (hok : s.ok = true) :
    getFingerprint s.text = .ret (joinSp s.skeleton) := by
  rw [fingerprint_of_stmt s hok, trim_joinSkel _ (skeleton_tokOK s hok)]

/-- **C36, invariance (partial: the statements of the grammar).**  Two
    statements with the same skeleton — they differ only in literal values,
    letter case, white space and comments between the items — have the same
    fingerprint, and `GetFingerprint` panics on neither. -/
theorem fp_invariant_partial (a b : Stmt) (ha : a.ok = true) (hb : b.ok = true)
    (hsk : a.skeleton = b.skeleton) :
    getFingerprint a.text = getFingerprint b.text ∧ getFingerprint a.text ≠ .panic := by
  rw [fingerprint_eq_joinSp a ha, fingerprint_eq_joinSp b hb, hsk]
  exact ⟨rfl, by simp⟩

/-- **C36, discrimination (partial: the statements of the grammar).**
    Statements with different skeletons (a different identifier, operator,
    keyword, or a different number of items) have different fingerprints. -/
theorem fp_discriminates_partial (a b : Stmt) (ha : a.ok = true) (hb : b.ok = true)
    (hsk : a.skeleton ≠ b.skeleton) :
    getFingerprint a.text ≠ getFingerprint b.text := by
  rw [fingerprint_eq_joinSp a ha, fingerprint_eq_joinSp b hb]
  intro h
  apply hsk
  exact joinSp_inj _ _ (skeleton_tokOK a ha) (skeleton_tokOK b hb) (by simpa using h)

/-! ### The blacklist -/

theorem stmt_text_ne_nil (s : Stmt) (hok : s.ok = true) : s.text.length ≠ 0 := by
  simp only [Stmt.ok, Bool.and_eq_true] at hok
  obtain ⟨⟨⟨⟨_, hlast⟩, _⟩, _⟩, _⟩ := hok
  have : s.last.text ≠ [] := by
    cases hl : s.last with
    | word w => rw [hl] at hlast; cases w <;> simp_all [Item.shapeOK, wordShape, Item.text]
    | num n => rw [hl] at hlast; cases n <;> simp_all [Item.shapeOK, numShape, Item.text]
    | str t => rw [hl] at hlast; cases t <;> simp_all [Item.shapeOK, strShape, Item.text]
    | cmpNum w n => rw [hl] at hlast; cases n <;> simp_all [Item.shapeOK, numShape, Item.text]
    | cmpStr w t => rw [hl] at hlast; cases t <;> simp_all [Item.shapeOK, strShape, Item.text]
    | vlist kw gap content => simp [Item.text]
  have hpos : 0 < s.last.text.length := List.length_pos_iff.mpr this
  simp only [Stmt.text, List.length_append]
  omega

/-- **C36, blacklist (partial).**  If the (trimmed) blacklist entry is a
    statement of the grammar, every statement of the grammar with the same
    skeleton is rejected — whatever hash function `md5` is. -/
theorem blacklist_rejects_variant_partial (md5 : List Char → List Char) (entry : List Char) (a b : Stmt)
    (ha : a.ok = true) (hb : b.ok = true) (hentry : trimSpace entry = a.text)
    (hsk : a.skeleton = b.skeleton) :
    ∃ m, parseBlackSqls md5 [entry] = some m ∧ isSQLAllowed md5 m b.text = some false := by
  refine ⟨[(md5 (joinSp a.skeleton), joinSp a.skeleton)], ?_, ?_⟩
  · simp [parseBlackSqls, hentry, stmt_text_ne_nil a ha, fingerprint_eq_joinSp a ha]
  · simp [isSQLAllowed, fingerprint_eq_joinSp b hb, hsk]

/-- **C36, blacklist (partial).**  A statement of the grammar whose skeleton
    differs from that of the entry is allowed, provided `md5` does not collide
    on the two fingerprints. -/
theorem blacklist_allows_mutant_partial (md5 : List Char → List Char) (entry : List Char) (a b : Stmt)
    (ha : a.ok = true) (hb : b.ok = true) (hentry : trimSpace entry = a.text)
    (hsk : a.skeleton ≠ b.skeleton)
    (hmd5 : md5 (joinSp a.skeleton) = md5 (joinSp b.skeleton) → joinSp a.skeleton = joinSp b.skeleton) :
    ∃ m, parseBlackSqls md5 [entry] = some m ∧ isSQLAllowed md5 m b.text = some true := by
  refine ⟨[(md5 (joinSp a.skeleton), joinSp a.skeleton)], ?_, ?_⟩
  · simp [parseBlackSqls, hentry, stmt_text_ne_nil a ha, fingerprint_eq_joinSp a ha]
  · have hne : joinSp a.skeleton ≠ joinSp b.skeleton := by
      intro h
      exact hsk (joinSp_inj _ _ (skeleton_tokOK a ha) (skeleton_tokOK b hb) h)
    have : md5 (joinSp a.skeleton) ≠ md5 (joinSp b.skeleton) := fun h => hne (hmd5 h)
    simp [isSQLAllowed, fingerprint_eq_joinSp b hb, this]

/-! ### Non-vacuity: concrete statements of the grammar -/

section Examples

private def sp1 : Sep := { first := ' ', pieces := [] }
/-- `⏎\t/*a/b */  -- x⏎# y⏎ ` -/
private def spBusy : Sep :=
  { first := '\n',
    pieces := [.ws '\t', .mlc "a/b */".toList, .ws ' ', .ws ' ', .dash ' ' "x\n".toList, .hash " y\n".toList, .ws ' '] }
private def wd (s : String) : Item := .word s.toList

/-- `select c, count(*) from t where id = 1 and name >= 'x' order by c desc limit 10` -/
private def exA : Stmt :=
  { lead := []
    init := [(wd "select", sp1), (wd "c,", sp1), (wd "count(*)", sp1), (wd "from", sp1), (wd "t", sp1),
             (wd "where", sp1), (wd "id", sp1), (wd "=", sp1), (.num "1".toList, sp1), (wd "and", sp1),
             (wd "name", sp1), (wd ">=", sp1), (.str "'x'".toList, sp1), (wd "order", sp1), (wd "by", sp1),
             (wd "c", sp1), (wd "desc", sp1), (wd "limit", sp1)]
    last := .num "10".toList
    tail := none }

/-- The same statement with other literals, other letter case, other white
    space, and comments of all three kinds. -/
private def exB : Stmt :=
  { lead := [.ws ' ', .mlc " lead */".toList, .ws '\n']
    init := [(wd "SELECT", spBusy), (wd "c,", sp1), (wd "COUNT(*)", spBusy), (wd "From", sp1), (wd "t", spBusy),
             (wd "WHERE", sp1), (wd "id", spBusy), (wd "=", spBusy), (.num "0x1F".toList, spBusy), (wd "AND", sp1),
             (wd "name", sp1), (wd ">=", spBusy), (.str "\"it's \\\" -- /* no comment */\"".toList, spBusy),
             (wd "ORDER", sp1), (wd "BY", spBusy), (wd "c", sp1), (wd "DESC", sp1), (wd "LIMIT", spBusy)]
    last := .num "2.5e-3".toList
    tail := some spBusy }

/-- A structural mutant of `exA`: another operator. -/
private def exC : Stmt := { exA with init := exA.init.map fun p => if p.1 = wd "=" then (wd "<>", p.2) else p }

example : exA.text = "select c, count(*) from t where id = 1 and name >= 'x' order by c desc limit 10".toList := by
  decide
example : exB.text.take 41 = " /* lead */\nSELECT\n\t/*a/b */  -- x\n# y\n c".toList := by decide
example : exA.ok = true ∧ exB.ok = true ∧ exC.ok = true := by decide
example : exA.skeleton = exB.skeleton ∧ exA.skeleton ≠ exC.skeleton := by decide

/-- The hypotheses of `fp_invariant_partial` are satisfiable by two really
    different texts. -/
example : getFingerprint exA.text = getFingerprint exB.text ∧ exA.text ≠ exB.text :=
  ⟨(fp_invariant_partial exA exB (by decide) (by decide) (by decide)).1, by decide⟩

example : getFingerprint exA.text ≠ getFingerprint exC.text :=
  fp_discriminates_partial exA exC (by decide) (by decide) (by decide)

example : getFingerprint exB.text =
    .ret "select c, count(*) from t where id = ? and name >= ? order by c desc limit ?".toList := by
  rw [fingerprint_eq_joinSp exB (by decide)]; decide

example (md5 : List Char → List Char) :
    ∃ m, parseBlackSqls md5 [" \t".toList ++ exA.text ++ "\n".toList] = some m ∧
      isSQLAllowed md5 m exB.text = some false :=
  blacklist_rejects_variant_partial md5 _ exA exB (by decide) (by decide) (by decide) (by decide)

/-- `update t set a=1 , name='x' where t.id>=10` -/
private def exD : Stmt :=
  { lead := []
    init := [(wd "update", sp1), (wd "t", sp1), (wd "set", sp1), (.cmpNum "a=".toList "1".toList, sp1),
             (wd ",", sp1), (.cmpStr "name=".toList "'x'".toList, sp1), (wd "where", sp1)]
    last := .cmpNum "t.id>=".toList "10".toList
    tail := none }

/-- The same with other literals, letter case, white space and comments. -/
private def exE : Stmt :=
  { lead := [.hash " batch 7\n".toList]
    init := [(wd "UPDATE", spBusy), (wd "t", sp1), (wd "SET", spBusy), (.cmpNum "a=".toList "0x2A".toList, spBusy),
             (wd ",", sp1), (.cmpStr "NAME=".toList "\"it's\"".toList, spBusy), (wd "Where", sp1)]
    last := .cmpNum "t.id>=".toList "1e5".toList
    tail := some sp1 }

example : exD.text = "update t set a=1 , name='x' where t.id>=10".toList := by decide
example : exD.ok = true ∧ exE.ok = true ∧ exD.skeleton = exE.skeleton ∧ exD.text ≠ exE.text := by decide
example : getFingerprint exE.text = .ret "update t set a=? , name=? where t.id>=?".toList := by
  rw [fingerprint_eq_joinSp exE (by decide)]; decide

/-- `insert into t (a, b) values (1, 'x)')` and
    `select c from t where a in(1) or b IN (2, f(3)) order by c` -/
private def exF : Stmt :=
  { lead := []
    init := [(wd "insert", sp1), (wd "into", sp1), (wd "t", sp1), (wd "(a,", sp1), (wd "b)", sp1)]
    last := .vlist "values".toList " ".toList "1, 'x)'".toList
    tail := none }
private def exG : Stmt :=
  { lead := []
    init := [(wd "INSERT", spBusy), (wd "into", sp1), (wd "t", sp1), (wd "(a,", spBusy), (wd "b)", sp1)]
    last := .vlist "VALUES".toList "".toList "'(((', (2 + 3) * 4".toList
    tail := some sp1 }
private def exH : Stmt :=
  { lead := []
    init := [(wd "select", sp1), (wd "c", sp1), (wd "from", sp1), (wd "t", sp1), (wd "where", sp1), (wd "a", sp1),
             (.vlist "in".toList [] "1".toList, sp1), (wd "or", sp1), (wd "b", sp1),
             (.vlist "IN".toList " ".toList "2, f(3)".toList, sp1), (wd "order", sp1), (wd "by", sp1)]
    last := wd "c"
    tail := none }

example : exF.text = "insert into t (a, b) values (1, 'x)')".toList := by decide
example : exH.text = "select c from t where a in(1) or b IN (2, f(3)) order by c".toList := by decide
example : exF.ok = true ∧ exG.ok = true ∧ exH.ok = true ∧ exF.skeleton = exG.skeleton ∧ exF.text ≠ exG.text := by
  decide
example : getFingerprint exH.text = .ret "select c from t where a in(?+) or b in(?+) order by c".toList := by
  rw [fingerprint_eq_joinSp exH (by decide)]; decide

end Examples

/-! ### Facts of the source the model depends on (regenerated on every run) -/

/-- The model fixes `ReplaceNumbersInWords` to the value the source gives it,
    and nothing outside the tests assigns it. -/
theorem replaceNumbersInWords_as_in_source :
    replaceNumbersInWords = Gen.c36ReplaceNumbersInWords ∧ Gen.c36ReplaceNumbersInWordsWrites = 0 := by
  decide

/-- `isSpace` of the model accepts exactly the runes of the source's `isSpace`,
    and the model has as many parser states as the source. -/
theorem isSpace_as_in_source :
    (∀ c : Char, isSpace c = true → c.toNat ∈ Gen.c36SpaceRunes) ∧
      (∀ n ∈ Gen.c36SpaceRunes, isSpace (Char.ofNat n) = true) ∧ Gen.c36StateCount = 18 := by
  refine ⟨?_, by decide, by decide⟩
  intro c h
  rcases isSpace_cases h with h | h | h | h <;> subst h <;> decide

/-! ### Witnesses: shapes outside the grammar on which the current code fails

Each theorem exhibits, on the model of the current code, a blacklist entry and a
statement that differs from it only in white space, comments or literal
spelling and is nevertheless allowed (`known/C36.json` lists the classes; the
same pairs are replayed against the implementation from `corpus/C36`). -/

/-- `IsSQLAllowed` of `stmt` against the blacklist `[entry]` (md5 := identity). -/
def allowedAgainst (entry stmt : String) : Option Bool :=
  match parseBlackSqls id [entry.toList] with
  | some m => isSQLAllowed id m stmt.toList
  | none => none

theorem optional_space_witness :
    allowedAgainst "select c from t where id=1" "select c from t where id = 1" = some true := by decide

theorem mlc_glued_after_word_witness :
    allowedAgainst "select c from t" "select c/* x */ from t" = some true := by decide

theorem mlc_glued_after_op_witness :
    allowedAgainst "select a, b from t" "select a,/* x */ b from t" = some true := by decide

theorem mlc_glued_after_list_witness :
    allowedAgainst "select c from t where a in (1) and b = 2" "select c from t where a in (1)/* x */and b = 2"
      = some true := by decide

theorem mlc_glued_both_sides_after_literal_witness :
    allowedAgainst "select c from t where a = 1 and b = 2" "select c from t where a = 1/* x */and b = 2"
      = some true := by decide

theorem hash_glued_after_word_witness :
    allowedAgainst "select c from t" "select c# x\nfrom t" = some true := by decide

theorem hash_glued_after_op_witness :
    allowedAgainst "select a, b from t" "select a,# x\n b from t" = some true := by decide

theorem hash_glued_after_literal_witness :
    allowedAgainst "select c from t where a = 1 and b = 2" "select c from t where a = 1# x\nand b = 2"
      = some true := by decide

theorem hash_glued_after_list_witness :
    allowedAgainst "select c from t where a in (1) and b = 2" "select c from t where a in (1)# x\nand b = 2"
      = some true := by decide

theorem dash_glued_after_list_witness :
    allowedAgainst "select c from t where a in (1) and b = 2" "select c from t where a in (1)-- x\nand b = 2"
      = some true := by decide

theorem dash_glued_after_first_word_witness :
    allowedAgainst "delete from t" "delete-- x\nfrom t" = some true := by decide

theorem dash_glued_after_literal_witness :
    allowedAgainst "select c from t where a = 1 and b = 2" "select c from t where a = 1-- x\nand b = 2"
      = some true := by decide

theorem dash_after_list_witness :
    allowedAgainst "select c from t where a in (1) and b = 2" "select c from t where a in (1) -- x\nand b = 2"
      = some true := by decide

theorem mlc_before_list_witness :
    allowedAgainst "select c from t where a in (1)" "select c from t where a in /* x */ (1)" = some true := by decide

theorem dash_before_list_witness :
    allowedAgainst "select c from t where a in (1)" "select c from t where a in -- x\n(1)" = some true := by decide

theorem hash_before_list_witness :
    allowedAgainst "select c from t where a in (1)" "select c from t where a in # x\n(1)" = some true := by decide

theorem comment_with_quote_or_paren_inside_list_witness :
    allowedAgainst "select c from t where a in (1, 2)" "select c from t where a in (1, /* it's */ 2)"
      = some true := by decide

theorem lit_doubled_quote_witness :
    allowedAgainst "select c from t where a = 'x'" "select c from t where a = 'it''s'" = some true := by decide

theorem lit_exponent_plus_witness :
    allowedAgainst "select c from t where a = 1" "select c from t where a = 1e+5" = some true := by decide

theorem lit_leading_dot_witness :
    allowedAgainst "select c from t where a = 1" "select c from t where a = .5" = some true := by decide

theorem lit_prefixed_string_glued_witness :
    allowedAgainst "select c from t where a=1" "select c from t where a=x'0F'" = some true ∧
      allowedAgainst "select c from t where a=x'0F'" "select c from t where b=x'0F'" = some false := by decide

theorem vertical_tab_form_feed_space_witness :
    allowedAgainst "select c from t" "\x0bselect c from t" = some true ∧
      allowedAgainst "\x0bselect c from t\x0c" "select c from t" = some false := by decide

/-- Over-blocking: the contents of an `IN (…)` list are collapsed, so a
    statement that compares with another column is rejected by an entry that
    compares with a literal. -/
theorem mutant_rejected_list_content_witness :
    allowedAgainst "select c from t where a in (1)" "select c from t where a in (b)" = some false := by decide

end GaeaVerif.C36
