import GaeaVerif.Model.SequenceC34
/-
  C34 — Global sequence values are never issued twice.
  Theorems about `Model/SequenceC34.lean` (tie to /repo/proxy/sequence/mysql.go:
  correspondence check `gvh run C34`).
-/
namespace GaeaVerif.C34
open GaeaVerif GaeaVerif.Sequence

/-! ### decimal text: `parseInt (fmtInt v) = v` -/

theorem parseDigits_append (l1 l2 : Bytes) (acc : Nat) :
    parseDigits (l1 ++ l2) acc = (parseDigits l1 acc).bind (fun a => parseDigits l2 a) := by
  induction l1 generalizing acc with
  | nil => simp [parseDigits]
  | cons c cs ih =>
    simp only [List.cons_append, parseDigits]
    split
    · exact ih _
    · rfl

theorem digit_toNat (d : Nat) (h : d < 10) : (digitByte d).toNat = 48 + d := by
  simp [digitByte, UInt8.toNat_ofNat']
  omega

theorem natDigitsAux_indep (n : Nat) : ∀ f, n ≤ f → natDigitsAux f n = natDigitsAux n n := by
  induction n using Nat.strongRecOn with
  | _ n ih =>
    intro f hf
    by_cases h10 : n < 10
    · cases f with
      | zero => have : n = 0 := by omega
                subst this; rfl
      | succ f =>
        cases n with
        | zero => simp [natDigitsAux]
        | succ m => simp [natDigitsAux, h10]
    · cases f with
      | zero => omega
      | succ f =>
        cases n with
        | zero => omega
        | succ m =>
          simp only [natDigitsAux, h10, ↓reduceIte]
          rw [ih ((m + 1) / 10) (by omega) f (by omega), ih ((m + 1) / 10) (by omega) m (by omega)]

/-- The defining equation of decimal formatting. -/
theorem natDigits_eq (n : Nat) :
    natDigits n = if n < 10 then [digitByte n] else natDigits (n / 10) ++ [digitByte (n % 10)] := by
  unfold natDigits
  cases n with
  | zero => simp [natDigitsAux]
  | succ m =>
    simp only [natDigitsAux]
    split
    · rfl
    · rw [natDigitsAux_indep ((m + 1) / 10) m (by omega)]

theorem parseDigits_natDigits (n : Nat) : parseDigits (natDigits n) 0 = some n := by
  induction n using Nat.strongRecOn with
  | _ n ih =>
    rw [natDigits_eq]
    split
    · rename_i h
      simp [parseDigits, digit_toNat n h]
      omega
    · rename_i h
      rw [parseDigits_append, ih (n / 10) (by omega)]
      have hd := digit_toNat (n % 10) (by omega)
      simp [parseDigits, hd]
      omega

theorem natDigits_digits (n : Nat) : ∀ b ∈ natDigits n, 48 ≤ b.toNat ∧ b.toNat ≤ 57 := by
  induction n using Nat.strongRecOn with
  | _ n ih =>
    rw [natDigits_eq]
    split
    · rename_i h
      intro b hb
      simp at hb
      subst hb
      rw [digit_toNat n h]; omega
    · rename_i h
      intro b hb
      simp only [List.mem_append, List.mem_singleton] at hb
      rcases hb with hb | hb
      · exact ih (n / 10) (by omega) b hb
      · subst hb
        rw [digit_toNat (n % 10) (by omega)]; omega

theorem natDigits_ne_nil (n : Nat) : natDigits n ≠ [] := by
  rw [natDigits_eq]
  split <;> simp

theorem parseMag_natDigits (neg : Bool) (n : Nat) :
    parseMag neg (natDigits n) =
      if neg then (if n ≤ 9223372036854775808 then some (-(n : Int)) else none)
      else (if n < 9223372036854775808 then some (n : Int) else none) := by
  have hne := natDigits_ne_nil n
  have he : (natDigits n).isEmpty = false := by
    cases h : natDigits n with
    | nil => exact absurd h hne
    | cons _ _ => rfl
  simp only [parseMag, he, Bool.false_eq_true, ↓reduceIte, parseDigits_natDigits]

theorem parseInt_natDigits (n : Nat) :
    parseInt (natDigits n) = if n < 9223372036854775808 then some (n : Int) else none := by
  have hne := natDigits_ne_nil n
  have hd := natDigits_digits n
  have hm := parseMag_natDigits false n
  cases hs : natDigits n with
  | nil => exact absurd hs hne
  | cons c rest =>
    rw [hs] at hd hm
    have hc := hd c (by simp)
    have h43 : (c == 43) = false := by
      simp only [beq_eq_false_iff_ne, ne_eq]
      intro h; rw [h] at hc; simp at hc
    have h45 : (c == 45) = false := by
      simp only [beq_eq_false_iff_ne, ne_eq]
      intro h; rw [h] at hc; simp at hc
    simp only [parseInt, h43, h45, Bool.false_eq_true, ↓reduceIte, hm]

theorem parseInt_neg_natDigits (n : Nat) :
    parseInt (45 :: natDigits n) = if n ≤ 9223372036854775808 then some (-(n : Int)) else none := by
  have hm := parseMag_natDigits true n
  have : ((45 : UInt8) == 43) = false := by decide
  simp only [parseInt, this, Bool.false_eq_true, ↓reduceIte, beq_self_eq_true, hm]

/-- `strconv.ParseInt` reads back what `strconv.FormatInt` (MySQL's
    `CAST(… AS CHAR)`) writes, and rejects exactly the values outside int64. -/
theorem parseInt_fmtInt (v : Int) :
    parseInt (fmtInt v) = if minInt64 ≤ v ∧ v ≤ maxInt64 then some v else none := by
  unfold fmtInt
  by_cases hr : minInt64 ≤ v ∧ v ≤ maxInt64
  · rw [if_pos hr]
    simp only [minInt64, maxInt64] at hr
    split
    · rw [parseInt_neg_natDigits, if_pos (by omega)]
      congr 1; omega
    · rw [parseInt_natDigits, if_pos (by omega)]
      congr 1; omega
  · rw [if_neg hr]
    simp only [minInt64, maxInt64] at hr
    split
    · rw [parseInt_neg_natDigits, if_neg (by omega)]
    · rw [parseInt_natDigits, if_neg (by omega)]

theorem fmtInt_no_comma (v : Int) : ∀ b ∈ fmtInt v, b ≠ 44 := by
  intro b hb
  unfold fmtInt at hb
  have hd := natDigits_digits v.natAbs
  split at hb
  · simp only [List.mem_cons] at hb
    rcases hb with hb | hb
    · subst hb; decide
    · have := hd b hb
      intro h; rw [h] at this; simp at this
  · have := hd b hb
    intro h; rw [h] at this; simp at this

theorem splitComma_no_comma (s : Bytes) (h : ∀ b ∈ s, b ≠ 44) : splitComma s = [s] := by
  induction s with
  | nil => rfl
  | cons c cs ih =>
    have hc : (c == 44) = false := by simpa using h c (by simp)
    simp [splitComma, ih (fun b hb => h b (by simp [hb])), hc]

theorem splitComma_append (a b : Bytes) (h : ∀ x ∈ a, x ≠ 44) :
    splitComma (a ++ 44 :: b) = a :: splitComma b := by
  induction a with
  | nil =>
    simp only [List.nil_append, splitComma]
    cases hb : splitComma b with
    | nil =>
      exfalso
      cases b with
      | nil => simp [splitComma] at hb
      | cons x xs =>
        simp only [splitComma] at hb
        split at hb
        · simp at hb
        · split at hb <;> simp at hb
    | cons f fs => simp
  | cons c cs ih =>
    have hc : (c == 44) = false := by simpa using h c (by simp)
    simp [splitComma, ih (fun x hx => h x (by simp [hx])), hc]

/-- The reply of `mycat_seq_nextval` for an existing row is accepted exactly
    when both numbers are int64s, the increment is positive and the block does
    not overflow — and then it is read back as written. -/
theorem parseReply_fmt (c i : Int) :
    parseReply (fmtInt c ++ 44 :: fmtInt i) =
      if minInt64 ≤ c ∧ c ≤ maxInt64 ∧ minInt64 ≤ i ∧ i ≤ maxInt64 ∧ 0 < i ∧ c ≤ maxInt64 - i
      then some (c, i) else none := by
  unfold parseReply
  rw [splitComma_append _ _ (fmtInt_no_comma c), splitComma_no_comma _ (fmtInt_no_comma i)]
  simp only [List.length_cons, List.length_nil, ne_eq, not_true_eq_false, ↓reduceIte,
    List.getD_cons_zero, List.getD_cons_succ, parseInt_fmtInt]
  by_cases h1 : minInt64 ≤ c ∧ c ≤ maxInt64
  · by_cases h2 : minInt64 ≤ i ∧ i ≤ maxInt64
    · simp only [h1, h2, and_self, ↓reduceIte, true_and]
      by_cases h3 : i ≤ 0
      · simp [h3]; omega
      · by_cases h4 : c > maxInt64 - i
        · simp [h3, h4]
        · simp [h3, h4]
    · simp only [h1, h2, and_self, ↓reduceIte]
      split
      · omega
      · rfl
  · simp only [h1, ↓reduceIte]
    split
    · omega
    · rfl

/-- The stored function's default for a missing row is rejected. -/
theorem parseReply_missing_row :
    parseReply (fmtInt (-999999999) ++ [44, 110, 117, 108, 108]) = none := by
  unfold parseReply
  rw [splitComma_append _ _ (fmtInt_no_comma _), splitComma_no_comma _ (by decide)]
  simp only [List.length_cons, List.length_nil, ne_eq, not_true_eq_false, ↓reduceIte,
    List.getD_cons_zero, List.getD_cons_succ, parseInt_fmtInt]
  have : parseInt [110, 117, 108, 108] = none := by decide
  rw [this]
  split <;> rfl

/-! ### what one call does -/

theorem step_nofetch (σ : Sys) (op : Op) (h : (σ.seqs op.p).curr < (σ.seqs op.p).max) :
    step σ op =
      ({ table := σ.table,
         seqs := fun q => if q = op.p then { σ.seqs op.p with curr := (σ.seqs op.p).curr + 1 } else σ.seqs q },
       ⟨op.p, if (σ.seqs op.p).maxLimit > 0 ∧ (σ.seqs op.p).curr + 1 ≥ (σ.seqs op.p).maxLimit then none
              else some ((σ.seqs op.p).curr + 1), false⟩) := by
  have hn : needsFetch (σ.seqs op.p) = false := by simp [needsFetch]; omega
  simp only [step, hn, Bool.false_eq_true, ↓reduceIte, nextSeq]
  split <;> simp_all

theorem step_fetch (σ : Sys) (op : Op) (h : (σ.seqs op.p).max ≤ (σ.seqs op.p).curr) :
    step σ op =
      match getSeqFromDB (σ.seqs op.p) (dbFetch σ.table op.fault).2 with
      | none => ({ table := (dbFetch σ.table op.fault).1, seqs := σ.seqs }, ⟨op.p, none, true⟩)
      | some s1 =>
        ({ table := (dbFetch σ.table op.fault).1,
           seqs := fun q => if q = op.p then { s1 with curr := s1.curr + 1 } else σ.seqs q },
         ⟨op.p, if s1.maxLimit > 0 ∧ s1.curr + 1 ≥ s1.maxLimit then none else some (s1.curr + 1), true⟩) := by
  have hn : needsFetch (σ.seqs op.p) = true := by simp [needsFetch]; omega
  simp only [step, hn, ↓reduceIte, nextSeq]
  cases hg : getSeqFromDB (σ.seqs op.p) (dbFetch σ.table op.fault).2 with
  | none =>
    simp only [Prod.mk.injEq, and_true]
    congr 1
    funext q
    split
    · rename_i hq; rw [hq]
    · rfl
  | some s1 =>
    simp only
    split <;> simp_all

/-- With a row whose increment is positive, a fetch either fails (the row
    stays or advances by one block, the proxy is unchanged) or advances the
    row by one block and hands exactly that block to the proxy. -/
theorem fetch_cases (s : MySQLSequence) (T I : Int) (f : Fault)
    (hg : ∀ ret, f = .garbage ret → parseReply ret = none) :
    (((dbFetch (some ⟨T, I⟩) f).1 = some ⟨T, I⟩ ∨ (dbFetch (some ⟨T, I⟩) f).1 = some ⟨T + I, I⟩) ∧
      getSeqFromDB s (dbFetch (some ⟨T, I⟩) f).2 = none) ∨
    ((dbFetch (some ⟨T, I⟩) f).1 = some ⟨T + I, I⟩ ∧ 0 < I ∧ T + I + I ≤ maxInt64 ∧
      getSeqFromDB s (dbFetch (some ⟨T, I⟩) f).2 = some { s with max := T + I + I, curr := T + I }) := by
  have hnv : (nextval (some ⟨T, I⟩)).1 = some ⟨T, I⟩ ∨ (nextval (some ⟨T, I⟩)).1 = some ⟨T + I, I⟩ := by
    simp only [nextval]
    split
    · left; rfl
    · right; rfl
  cases f with
  | errBefore => left; simp [dbFetch, getSeqFromDB]
  | errAfter => left; simp only [dbFetch, getSeqFromDB, and_true]; exact hnv
  | garbage ret =>
    left
    simp only [dbFetch, getSeqFromDB, hg ret rfl, and_true]; exact hnv
  | none =>
    simp only [dbFetch, nextval]
    split
    · left; simp [getSeqFromDB]
    · rename_i hr
      simp only [getSeqFromDB, parseReply_fmt]
      by_cases hc : minInt64 ≤ T + I ∧ T + I ≤ maxInt64 ∧ minInt64 ≤ I ∧ I ≤ maxInt64 ∧ 0 < I ∧ T + I ≤ maxInt64 - I
      · right
        rw [if_pos hc]
        exact ⟨trivial, by omega, by omega, rfl⟩
      · left
        rw [if_neg hc]
        simp

/-! ### the invariant -/

/-- `x` is a value the proxy may still hand out from its cached block. -/
def InRange (s : MySQLSequence) (x : Int) : Prop := s.curr < x ∧ x ≤ s.max

/-- Invariant of a system whose row has the positive increment `I`, relative
    to the values `past` handed out so far (with the proxy that did):
    no handed-out value is in any proxy's remaining range; remaining ranges of
    different proxies are disjoint; everything handed out or still cached lies
    at or below `current + increment` (the end of the last block given away);
    a proxy's own past values are below what it will hand out next. -/
def Inv (I : Int) (σ : Sys) (past : List (Nat × Int)) : Prop :=
  ∃ T, σ.table = some ⟨T, I⟩ ∧
    (∀ q v, (q, v) ∈ past → ∀ p, ¬ InRange (σ.seqs p) v) ∧
    (∀ p q, p ≠ q → ∀ x, ¬ (InRange (σ.seqs p) x ∧ InRange (σ.seqs q) x)) ∧
    (∀ q v, (q, v) ∈ past → v ≤ T + I) ∧
    (∀ p x, InRange (σ.seqs p) x → x ≤ T + I) ∧
    (∀ p v, (p, v) ∈ past → (σ.seqs p).curr < (σ.seqs p).max → v ≤ (σ.seqs p).curr)

/-- `past` extended by the value (if any) proxy `p` has just handed out. -/
def addVal (past : List (Nat × Int)) (p : Nat) : Option Int → List (Nat × Int)
  | some v => (p, v) :: past
  | none => past

/-- One proxy `p` moves from `σ.seqs p` to `s'`, the row from `T` to `T'`, and
    `new` (zero or one value, by `p`) is handed out: sufficient conditions for
    the invariant to be kept. -/
theorem inv_update (I : Int) (σ : Sys) (past : List (Nat × Int)) (p : Nat) (s' : MySQLSequence)
    (T T' : Int) (new : Option Int)
    (ha : ∀ q v, (q, v) ∈ past → ∀ p, ¬ InRange (σ.seqs p) v)
    (hb : ∀ p q, p ≠ q → ∀ x, ¬ (InRange (σ.seqs p) x ∧ InRange (σ.seqs q) x))
    (hc1 : ∀ q v, (q, v) ∈ past → v ≤ T + I)
    (hc2 : ∀ p x, InRange (σ.seqs p) x → x ≤ T + I)
    (he : ∀ p v, (p, v) ∈ past → (σ.seqs p).curr < (σ.seqs p).max → v ≤ (σ.seqs p).curr)
    (hT : T ≤ T')
    (hR : ∀ x, InRange s' x → (InRange (σ.seqs p) x ∨ T + I < x) ∧ x ≤ T' + I)
    (hV : ∀ v, new = some v → ¬ InRange s' v ∧ (InRange (σ.seqs p) v ∨ T + I < v) ∧ v ≤ T' + I ∧
        (s'.curr < s'.max → v ≤ s'.curr))
    (hE : s'.curr < s'.max →
        ((σ.seqs p).curr < (σ.seqs p).max ∧ (σ.seqs p).curr ≤ s'.curr) ∨ T + I ≤ s'.curr) :
    Inv I { table := some ⟨T', I⟩, seqs := fun q => if q = p then s' else σ.seqs q }
      (addVal past p new) := by
  refine ⟨T', rfl, ?_, ?_, ?_, ?_, ?_⟩
  · -- no handed-out value in a remaining range
    intro q w hw p''
    simp only
    have hold : (q, w) ∈ past → ¬ InRange (if p'' = p then s' else σ.seqs p'') w := by
      intro hw hin
      by_cases hp : p'' = p
      · simp only [hp, ↓reduceIte] at hin
        rcases (hR w hin).1 with h | h
        · exact ha q w hw p h
        · have := hc1 q w hw; omega
      · simp only [hp, ↓reduceIte] at hin
        exact ha q w hw p'' hin
    cases new with
    | none => exact hold hw
    | some v =>
      simp only [addVal, List.mem_cons, Prod.mk.injEq] at hw
      rcases hw with ⟨_, hwv⟩ | hw
      · subst hwv
        obtain ⟨h1, h2, _, _⟩ := hV w rfl
        by_cases hp : p'' = p
        · simpa only [hp, ↓reduceIte] using h1
        · simp only [hp, ↓reduceIte]
          intro hin
          rcases h2 with h2 | h2
          · exact hb p'' p hp w ⟨hin, h2⟩
          · have := hc2 p'' w hin; omega
      · exact hold hw
  · -- remaining ranges of different proxies are disjoint
    intro p1 p2 hne x
    simp only
    intro ⟨h1, h2⟩
    by_cases hp1 : p1 = p
    · have hp2 : ¬ p2 = p := fun h => hne (hp1.trans h.symm)
      simp only [hp1, hp2, ↓reduceIte] at h1 h2
      rcases (hR x h1).1 with h | h
      · exact hb p p2 (fun h => hp2 h.symm) x ⟨h, h2⟩
      · have := hc2 p2 x h2; omega
    · by_cases hp2 : p2 = p
      · simp only [hp1, hp2, ↓reduceIte] at h1 h2
        rcases (hR x h2).1 with h | h
        · exact hb p1 p hp1 x ⟨h1, h⟩
        · have := hc2 p1 x h1; omega
      · simp only [hp1, hp2, ↓reduceIte] at h1 h2
        exact hb p1 p2 hne x ⟨h1, h2⟩
  · -- handed-out values are below the end of the last block
    intro q w hw
    have hold : (q, w) ∈ past → w ≤ T' + I := fun h => by have := hc1 q w h; omega
    cases new with
    | none => exact hold hw
    | some v =>
      simp only [addVal, List.mem_cons, Prod.mk.injEq] at hw
      rcases hw with ⟨_, hwv⟩ | hw
      · subst hwv; exact (hV w rfl).2.2.1
      · exact hold hw
  · -- so are the cached blocks
    intro p'' x hin
    simp only at hin
    by_cases hp : p'' = p
    · simp only [hp, ↓reduceIte] at hin
      exact (hR x hin).2
    · simp only [hp, ↓reduceIte] at hin
      have := hc2 p'' x hin; omega
  · -- a proxy's own values are below its next one
    intro p'' w hw
    simp only
    have hold : (p'', w) ∈ past →
        (if p'' = p then s' else σ.seqs p'').curr < (if p'' = p then s' else σ.seqs p'').max →
        w ≤ (if p'' = p then s' else σ.seqs p'').curr := by
      intro hw
      by_cases hp : p'' = p
      · simp only [hp, ↓reduceIte]
        intro hlt
        rcases hE hlt with ⟨h1, h2⟩ | h
        · have := he p w (hp ▸ hw) h1; omega
        · have := hc1 p w (hp ▸ hw); omega
      · simp only [hp, ↓reduceIte]
        exact he p'' w hw
    cases new with
    | none => exact hold hw
    | some v =>
      simp only [addVal, List.mem_cons, Prod.mk.injEq] at hw
      rcases hw with ⟨hpp, hwv⟩ | hw
      · subst hwv
        simp only [hpp, ↓reduceIte]
        exact (hV w rfl).2.2.2
      · exact hold hw

/-- The values a step adds to the ones handed out so far. -/
def extend (past : List (Nat × Int)) (e : Ev) : List (Nat × Int) := addVal past e.p e.val

/-- One call keeps the invariant, and a value it returns is new and above
    every value the same proxy returned before. -/
theorem step_inv (I : Int) (hI : 0 < I) (σ : Sys) (past : List (Nat × Int)) (op : Op)
    (hg : ∀ ret, op.fault = .garbage ret → parseReply ret = none) (h : Inv I σ past) :
    Inv I (step σ op).1 (extend past (step σ op).2) ∧ (step σ op).2.p = op.p ∧
    ∀ v, (step σ op).2.val = some v →
      (∀ q w, (q, w) ∈ past → w ≠ v) ∧ (∀ w, (op.p, w) ∈ past → w < v) := by
  obtain ⟨T, ht, ha, hb, hc1, hc2, he⟩ := h
  by_cases hf : (σ.seqs op.p).curr < (σ.seqs op.p).max
  · -- served from the cached block
    rw [step_nofetch σ op hf]
    refine ⟨?_, rfl, ?_⟩
    · have := inv_update I σ past op.p { σ.seqs op.p with curr := (σ.seqs op.p).curr + 1 } T T
        (if (σ.seqs op.p).maxLimit > 0 ∧ (σ.seqs op.p).curr + 1 ≥ (σ.seqs op.p).maxLimit then none
          else some ((σ.seqs op.p).curr + 1))
        ha hb hc1 hc2 he (Int.le_refl _)
        (by
          intro x hx
          simp only [InRange] at hx ⊢
          have := hc2 op.p x ⟨by omega, hx.2⟩
          exact ⟨Or.inl ⟨by omega, hx.2⟩, this⟩)
        (by
          intro v hv
          split at hv
          · cases hv
          · simp only [Option.some.injEq] at hv
            subst hv
            simp only [InRange]
            have := hc2 op.p ((σ.seqs op.p).curr + 1) ⟨by omega, by omega⟩
            exact ⟨by omega, Or.inl ⟨by omega, by omega⟩, this, fun _ => Int.le_refl _⟩)
        (by intro _; exact Or.inl ⟨hf, Int.le_add_one (Int.le_refl _)⟩)
      rw [ht]
      exact this
    · intro v hv
      simp only at hv
      split at hv
      · cases hv
      · simp only [Option.some.injEq] at hv
        subst hv
        refine ⟨?_, ?_⟩
        · intro q w hw heq
          exact ha q w hw op.p ⟨by omega, by omega⟩
        · intro w hw
          have := he op.p w hw hf
          omega
  · -- a block is fetched
    have hmax : (σ.seqs op.p).max ≤ (σ.seqs op.p).curr := by omega
    rw [step_fetch σ op hmax, ht]
    rcases fetch_cases (σ.seqs op.p) T I op.fault hg with ⟨htab, hnone⟩ | ⟨htab, _, hle, hsome⟩
    · -- the fetch fails: the proxy is unchanged
      rw [hnone]
      refine ⟨?_, rfl, by intro v hv; cases hv⟩
      simp only [extend]
      rcases htab with htab | htab
      · rw [htab]; exact ⟨T, rfl, ha, hb, hc1, hc2, he⟩
      · rw [htab]
        refine ⟨T + I, rfl, ha, hb, ?_, ?_, he⟩
        · intro q v hv; have := hc1 q v hv; omega
        · intro p x hx; have := hc2 p x hx; omega
    · -- the fetch succeeds: the proxy owns the block (T + I, T + I + I]
      rw [hsome, htab]
      refine ⟨?_, rfl, ?_⟩
      · have := inv_update I σ past op.p
          { curr := T + I + 1, max := T + I + I, maxLimit := (σ.seqs op.p).maxLimit } T (T + I)
          (if (σ.seqs op.p).maxLimit > 0 ∧ T + I + 1 ≥ (σ.seqs op.p).maxLimit then none
            else some (T + I + 1))
          ha hb hc1 hc2 he (by omega)
          (by
            intro x hx
            simp only [InRange] at hx ⊢
            exact ⟨Or.inr (by omega), by omega⟩)
          (by
            intro v hv
            split at hv
            · cases hv
            · simp only [Option.some.injEq] at hv
              subst hv
              simp only [InRange]
              exact ⟨by omega, Or.inr (by omega), by omega, fun _ => Int.le_refl _⟩)
          (by intro _; exact Or.inr (Int.le_add_one (Int.le_refl _)))
        exact this
      · intro v hv
        simp only at hv
        split at hv
        · cases hv
        · simp only [Option.some.injEq] at hv
          subst hv
          refine ⟨?_, ?_⟩
          · intro q w hw heq
            have := hc1 q w hw; omega
          · intro w hw
            have := hc1 op.p w hw; omega

/-! ### rows from which no block can be taken -/

/-- The row is missing or its increment is not positive. -/
def BadTable (t : Option Row) : Prop := t = none ∨ ∃ T I, t = some ⟨T, I⟩ ∧ I ≤ 0

theorem fetch_bad (s : MySQLSequence) (t : Option Row) (f : Fault) (ht : BadTable t)
    (hg : ∀ ret, f = .garbage ret → parseReply ret = none) :
    BadTable (dbFetch t f).1 ∧ getSeqFromDB s (dbFetch t f).2 = none := by
  have hnv : BadTable (nextval t).1 ∧ getSeqFromDB s (nextval t).2 = none := by
    rcases ht with ht | ⟨T, I, ht, hI⟩
    · subst ht
      simp only [nextval, getSeqFromDB, parseReply_missing_row, and_true]
      exact Or.inl rfl
    · subst ht
      simp only [nextval]
      split
      · exact ⟨Or.inr ⟨T, I, rfl, hI⟩, rfl⟩
      · refine ⟨Or.inr ⟨T + I, I, rfl, hI⟩, ?_⟩
        simp only [getSeqFromDB, parseReply_fmt]
        rw [if_neg (by omega)]
  cases f with
  | none => exact hnv
  | errBefore => exact ⟨ht, rfl⟩
  | errAfter => exact ⟨hnv.1, rfl⟩
  | garbage ret => exact ⟨hnv.1, by simp [dbFetch, getSeqFromDB, hg ret rfl]⟩

/-- With such a row every call fails and no proxy ever obtains a block. -/
theorem step_bad (σ : Sys) (op : Op) (ht : BadTable σ.table)
    (hs : ∀ p, (σ.seqs p).max ≤ (σ.seqs p).curr)
    (hg : ∀ ret, op.fault = .garbage ret → parseReply ret = none) :
    BadTable (step σ op).1.table ∧ (step σ op).1.seqs = σ.seqs ∧ (step σ op).2 = ⟨op.p, none, true⟩ := by
  rw [step_fetch σ op (hs op.p)]
  obtain ⟨h1, h2⟩ := fetch_bad (σ.seqs op.p) σ.table op.fault ht hg
  rw [h2]
  exact ⟨h1, rfl, rfl⟩

/-! ### histories -/

/-- Every scripted reply of the history is one `getSeqFromDB` rejects (a
    well-formed reply that does not come from the row is outside the property:
    a database answering `5,5` twice does make two proxies issue 6). -/
def Malformed (ops : List Op) : Prop :=
  ∀ op ∈ ops, ∀ ret, op.fault = .garbage ret → parseReply ret = none

/-- The values proxy `p` handed out, in order. -/
def valuesOf (p : Nat) (vs : List (Nat × Int)) : List Int :=
  (vs.filter (fun x => x.1 == p)).map (·.2)

theorem run_bad (ops : List Op) (hm : Malformed ops) (σ : Sys) (ht : BadTable σ.table)
    (hs : ∀ p, (σ.seqs p).max ≤ (σ.seqs p).curr) :
    issued (run σ ops).2 = [] := by
  induction ops generalizing σ with
  | nil => rfl
  | cons op ops ih =>
    obtain ⟨h1, h2, h3⟩ := step_bad σ op ht hs (hm op (by simp))
    simp only [run, issued, h3]
    exact ih (fun o ho => hm o (by simp [ho])) _ h1 (by rw [h2]; exact hs)

theorem run_good (I : Int) (hI : 0 < I) (ops : List Op) (hm : Malformed ops) (σ : Sys)
    (past : List (Nat × Int)) (h : Inv I σ past) :
    ((issued (run σ ops).2).map (·.2)).Nodup ∧
    (∀ q v, (q, v) ∈ issued (run σ ops).2 → ∀ q' w, (q', w) ∈ past → w ≠ v) ∧
    (∀ p, (valuesOf p (issued (run σ ops).2)).Pairwise (· < ·)) ∧
    (∀ p v, (p, v) ∈ issued (run σ ops).2 → ∀ w, (p, w) ∈ past → w < v) := by
  induction ops generalizing σ past with
  | nil => simp [run, issued, valuesOf]
  | cons op ops ih =>
    obtain ⟨hinv, hp, hnew⟩ := step_inv I hI σ past op (hm op (by simp)) h
    obtain ⟨ih1, ih2, ih3, ih4⟩ := ih (fun o ho => hm o (by simp [ho])) (step σ op).1 _ hinv
    simp only [run]
    cases hv : (step σ op).2.val with
    | none =>
      simp only [issued, hv]
      simp only [extend, hv, addVal] at ih2 ih4
      exact ⟨ih1, ih2, ih3, ih4⟩
    | some v =>
      simp only [issued, hv]
      simp only [extend, hv, addVal, hp] at ih2 ih4
      obtain ⟨hn1, hn2⟩ := hnew v hv
      refine ⟨?_, ?_, ?_, ?_⟩
      · simp only [List.map_cons, List.nodup_cons]
        refine ⟨?_, ih1⟩
        intro hmem
        obtain ⟨⟨q, w⟩, hqw, hwv⟩ := List.mem_map.mp hmem
        simp only at hwv
        subst hwv
        exact ih2 q w hqw op.p w (by simp) rfl
      · intro q w hqw q' w' hw'
        simp only [List.mem_cons, Prod.mk.injEq] at hqw
        rcases hqw with ⟨_, hwv⟩ | hqw
        · subst hwv; exact hn1 q' w' hw'
        · exact ih2 q w hqw q' w' (by simp [hw'])
      · intro p
        by_cases hpp : (step σ op).2.p = p
        · simp only [valuesOf, List.filter_cons, hpp, beq_self_eq_true, ↓reduceIte, List.map_cons,
            List.pairwise_cons]
          refine ⟨?_, ih3 p⟩
          intro w hw
          obtain ⟨⟨q, w'⟩, hqw, hwv⟩ := List.mem_map.mp hw
          simp only at hwv
          subst hwv
          simp only [List.mem_filter, beq_iff_eq] at hqw
          obtain ⟨hmem, hq⟩ := hqw
          subst hq
          rw [← hpp, hp] at hmem
          exact ih4 op.p w' hmem v (by simp)
        · have : ((step σ op).2.p == p) = false := by simpa using hpp
          simp only [valuesOf, List.filter_cons, this, Bool.false_eq_true, ↓reduceIte]
          exact ih3 p
      · intro p w hpw w' hw'
        simp only [List.mem_cons, Prod.mk.injEq] at hpw
        rcases hpw with ⟨hpp, hwv⟩ | hpw
        · subst hwv
          rw [hpp, hp] at hw'
          exact hn2 w' hw'
        · exact ih4 p w hpw w' (by simp [hw'])

theorem init_inv (T I : Int) (limits : Nat → Int) : Inv I (init (some ⟨T, I⟩) limits) [] := by
  refine ⟨T, rfl, ?_, ?_, ?_, ?_, ?_⟩
  · intro q v h; simp at h
  · intro p q _ x ⟨h1, _⟩
    simp only [init, newMySQLSequence, InRange] at h1; omega
  · intro q v h; simp at h
  · intro p x h
    simp only [init, newMySQLSequence, InRange] at h; omega
  · intro p v h; simp at h

/-! ### the property -/

/-- **C34, uniqueness.**  Any number of proxies (`Op.p : Nat`), each caching its
    own block, share one sequence row — present or missing, with any current
    value and any increment (positive or not), each proxy with any `maxLimit`.
    For every interleaving of `NextSeq` calls and every fate of the block
    fetches they perform (the query runs; no connection; the reply is lost
    after the row was advanced; a malformed string is read): no value is handed
    out twice, and the values one proxy hands out are strictly increasing. -/
theorem seq_unique (table : Option Row) (limits : Nat → Int) (ops : List Op) (hm : Malformed ops) :
    ((issued (run (init table limits) ops).2).map (·.2)).Nodup ∧
    ∀ p, (valuesOf p (issued (run (init table limits) ops).2)).Pairwise (· < ·) := by
  have hbad : BadTable table → issued (run (init table limits) ops).2 = [] := fun hb =>
    run_bad ops hm (init table limits) hb (by intro p; simp [init, newMySQLSequence])
  cases table with
  | none => rw [hbad (Or.inl rfl)]; simp [valuesOf]
  | some r =>
    obtain ⟨T, I⟩ := r
    by_cases hI : 0 < I
    · obtain ⟨h1, _, h3, _⟩ := run_good I hI ops hm _ [] (init_inv T I limits)
      exact ⟨h1, h3⟩
    · rw [hbad (Or.inr ⟨T, I, rfl, by omega⟩)]; simp [valuesOf]

/-- **C34, fail closed (function level).**  When `NextSeq` has to fetch a block
    and the fetch fails — an error, or a string `getSeqFromDB` rejects — it
    returns an error and the proxy's state is unchanged. -/
theorem seq_fail_closed (s : MySQLSequence) (r : Reply) (hneed : s.max ≤ s.curr)
    (hbad : r = .err ∨ ∃ ret, r = .row ret ∧ parseReply ret = none) :
    nextSeq s r = (s, none) := by
  have hn : needsFetch s = true := by simp [needsFetch]; omega
  have hg : getSeqFromDB s r = none := by
    rcases hbad with h | ⟨ret, h, hp⟩
    · subst h; rfl
    · subst h; simp [getSeqFromDB, hp]
  simp [nextSeq, hn, hg]

/-- **C34, fail closed (system level).**  A call that queries the database and
    gets an error or a rejected string produces no value and changes no
    proxy's state. -/
theorem step_fail_closed (σ : Sys) (op : Op) (hneed : (σ.seqs op.p).max ≤ (σ.seqs op.p).curr)
    (hbad : (dbFetch σ.table op.fault).2 = .err ∨
      ∃ ret, (dbFetch σ.table op.fault).2 = .row ret ∧ parseReply ret = none) :
    (step σ op).2 = ⟨op.p, none, true⟩ ∧ (step σ op).1.seqs = σ.seqs := by
  have hg : getSeqFromDB (σ.seqs op.p) (dbFetch σ.table op.fault).2 = none := by
    rcases hbad with h | ⟨ret, h, hp⟩
    · rw [h]; rfl
    · rw [h]; simp [getSeqFromDB, hp]
  rw [step_fetch σ op hneed, hg]
  exact ⟨rfl, rfl⟩

/-- What `getSeqFromDB` accepts: exactly two comma-separated fields, both
    int64 decimals, a positive increment, a block that ends inside int64. -/
theorem parseReply_some_iff (ret : Bytes) (c i : Int) :
    parseReply ret = some (c, i) ↔
      ∃ a b, splitComma ret = [a, b] ∧ parseInt a = some c ∧ parseInt b = some i ∧ 0 < i ∧
        c + i ≤ maxInt64 := by
  simp only [parseReply]
  constructor
  · intro h
    by_cases hl : (splitComma ret).length ≠ 2
    · rw [if_pos hl] at h; cases h
    · rw [if_neg hl] at h
      match hs : splitComma ret, hl with
      | [a, b], _ =>
        rw [hs] at h
        simp only [List.getD_cons_zero, List.getD_cons_succ] at h
        refine ⟨a, b, rfl, ?_⟩
        cases ha : parseInt a with
        | none => simp [ha] at h
        | some c' =>
          cases hb : parseInt b with
          | none => simp [ha, hb] at h
          | some i' =>
            simp only [ha, hb] at h
            by_cases h1 : i' ≤ 0
            · rw [if_pos h1] at h; cases h
            · rw [if_neg h1] at h
              by_cases h2 : c' > maxInt64 - i'
              · rw [if_pos h2] at h; cases h
              · rw [if_neg h2] at h
                simp only [Option.some.injEq, Prod.mk.injEq] at h
                obtain ⟨h3, h4⟩ := h
                subst h3; subst h4
                exact ⟨rfl, rfl, by omega, by omega⟩
      | [], hl => simp at hl
      | [_], hl => simp at hl
      | _ :: _ :: _ :: _, hl => simp at hl
  · intro ⟨a, b, hs, ha, hb, hi, hc⟩
    simp only [hs, List.length_cons, List.length_nil, ne_eq, not_true_eq_false, ↓reduceIte,
      List.getD_cons_zero, List.getD_cons_succ, ha, hb]
    rw [if_neg (by omega), if_neg (by omega)]

theorem parseDigits_digits (l : Bytes) (acc n : Nat) (h : parseDigits l acc = some n) :
    ∀ b ∈ l, 48 ≤ b.toNat ∧ b.toNat ≤ 57 := by
  induction l generalizing acc with
  | nil => intro b hb; simp at hb
  | cons c cs ih =>
    intro b hb
    simp only [parseDigits] at h
    split at h
    · rename_i hc
      simp only [List.mem_cons] at hb
      rcases hb with hb | hb
      · subst hb; exact hc
      · exact ih _ h b hb
    · cases h

theorem parseMag_some (neg : Bool) (ds : Bytes) (v : Int) (h : parseMag neg ds = some v) :
    ds ≠ [] ∧ (∀ b ∈ ds, 48 ≤ b.toNat ∧ b.toNat ≤ 57) ∧ minInt64 ≤ v ∧ v ≤ maxInt64 := by
  simp only [parseMag] at h
  by_cases he : ds.isEmpty = true
  · rw [if_pos he] at h; cases h
  · rw [if_neg he] at h
    cases hp : parseDigits ds 0 with
    | none => simp [hp] at h
    | some n =>
      simp only [hp] at h
      refine ⟨by intro hn; subst hn; simp at he, parseDigits_digits ds 0 n hp, ?_⟩
      simp only [minInt64, maxInt64]
      cases neg with
      | true =>
        simp only [↓reduceIte] at h
        by_cases hn : n ≤ 9223372036854775808
        · rw [if_pos hn] at h; simp only [Option.some.injEq] at h; omega
        · rw [if_neg hn] at h; cases h
      | false =>
        simp only [Bool.false_eq_true, ↓reduceIte] at h
        by_cases hn : n < 9223372036854775808
        · rw [if_pos hn] at h; simp only [Option.some.injEq] at h; omega
        · rw [if_neg hn] at h; cases h

/-- Only an optional sign followed by at least one decimal digit parses, and
    only to an int64 (so `null`, `x`, an empty field, `1e3`, `0x10`, `1_000`,
    `9223372036854775808` are errors). -/
theorem parseInt_some (s : Bytes) (v : Int) (h : parseInt s = some v) :
    (∃ c rest, s = c :: rest ∧
      ((c = 43 ∨ c = 45) ∧ rest ≠ [] ∧ (∀ b ∈ rest, 48 ≤ b.toNat ∧ b.toNat ≤ 57) ∨
       (∀ b ∈ s, 48 ≤ b.toNat ∧ b.toNat ≤ 57))) ∧
    minInt64 ≤ v ∧ v ≤ maxInt64 := by
  cases s with
  | nil => simp [parseInt] at h
  | cons c rest =>
    simp only [parseInt] at h
    by_cases h43 : (c == 43) = true
    · rw [if_pos h43] at h
      obtain ⟨h1, h2, h3⟩ := parseMag_some _ _ _ h
      exact ⟨⟨c, rest, rfl, Or.inl ⟨Or.inl (by simpa using h43), h1, h2⟩⟩, h3⟩
    · rw [if_neg h43] at h
      by_cases h45 : (c == 45) = true
      · rw [if_pos h45] at h
        obtain ⟨h1, h2, h3⟩ := parseMag_some _ _ _ h
        exact ⟨⟨c, rest, rfl, Or.inl ⟨Or.inr (by simpa using h45), h1, h2⟩⟩, h3⟩
      · rw [if_neg h45] at h
        obtain ⟨_, h2, h3⟩ := parseMag_some _ _ _ h
        exact ⟨⟨c, rest, rfl, Or.inr h2⟩, h3⟩

/-! ### the hypotheses are satisfiable, the statements are not vacuous -/

/-- "103,3" -/
example : parseReply [49, 48, 51, 44, 51] = some (103, 3) := by decide
/-- "-999999999,null", "x,y", "100,0", "100,-2", "7", "1,2,3", "", "9223372036854775807,1" -/
example : parseReply [45, 57, 57, 57, 57, 57, 57, 57, 57, 57, 44, 110, 117, 108, 108] = none := by decide
example : parseReply [120, 44, 121] = none := by decide
example : parseReply [49, 48, 48, 44, 48] = none := by decide
example : parseReply [49, 48, 48, 44, 45, 50] = none := by decide
example : parseReply [55] = none := by decide
example : parseReply [49, 44, 50, 44, 51] = none := by decide
example : parseReply [] = none := by decide
example : parseReply [57, 50, 50, 51, 51, 55, 50, 48, 51, 54, 56, 53, 52, 55, 55, 53, 56, 48, 55, 44, 49] = none := by decide

/-- A proxy with an empty cache that is handed the block "103,3" returns 104. -/
example : nextSeq (newMySQLSequence 0) (.row [49, 48, 51, 44, 51]) = (⟨104, 106, 0⟩, some 104) := by decide
/-- … and with `maxLimit = 104` it fails (but has consumed the value). -/
example : nextSeq (newMySQLSequence 104) (.row [49, 48, 51, 44, 51]) = (⟨104, 106, 104⟩, none) := by decide

/-- A history satisfying `Malformed` in which values are handed out by two
    proxies around a lost reply and a malformed one. -/
def exampleOps : List Op :=
  [⟨0, .none⟩, ⟨1, .none⟩, ⟨0, .none⟩, ⟨0, .errAfter⟩, ⟨0, .garbage [120, 44, 121]⟩, ⟨1, .none⟩, ⟨0, .none⟩]

example : Malformed exampleOps := by
  intro op hop ret hret
  simp only [exampleOps, List.mem_cons, List.not_mem_nil, or_false] at hop
  rcases hop with h | h | h | h | h | h | h <;> subst h <;> simp at hret
  subst hret
  decide

/-- … and `seq_unique` speaks about non-empty outputs: the values it hands out. -/
example : issued (run (init (some ⟨100, 3⟩) (fun _ => 0)) exampleOps).2 =
    [(0, 104), (1, 107), (0, 105), (0, 106), (1, 108), (0, 113)] := by decide

end GaeaVerif.C34
