import GaeaVerif.Model.StmtSession
/-
  C16 — Prepared statements are isolated and never reuse stale parameters.

  Theorems about `Model/StmtSession.lean` (the prepared-statement commands of a
  session, one step per command; tied to the real `SessionExecutor` by
  `gvh run C16`).  All of them hold for every state reachable by any command
  history (`inv_reachable`), i.e. for all histories and interleavings of
  commands over any number of statements, with well-formed and malformed
  packets:

    inv_step, inv_run, inv_reachable   between commands every argument slot of every open
                              statement is empty or holds long data, ids are never reused
    unknown_id_fails          execute / send-long-data / reset on an id that is not open fail
                              and change nothing
    close_removes, closed_stays_unknown   a closed id is unknown, for ever
    isolation, isolation_open a command changes no statement but the one it addresses
    args_clean_after_exec     after any execution attempt that found its statement — accepted,
                              rejected at any point, or panicking — all its slots are empty
    long_data_since           over any stretch of commands without execute/reset/close of a
                              statement, its slots hold exactly the chunks sent for it
    bindLoop_eq_spec, bind_eq_spec, exec_uses_own_values
                              the in-place binding loop (which skips "already bound" slots of
                              the very slice it writes) computes the reference semantics
                              `specArgs`: NULL bit / long data / the value at this packet's
                              own position
    exec_after_any_attempt    a failed execution leaves no bound value behind
-/
namespace GaeaVerif.C16
open GaeaVerif GaeaVerif.StmtBind GaeaVerif.StmtSession

/-! ### the statement table -/

theorem lookup_erase_self (m : List (Nat × Stmt)) (id : Nat) : lookup (erase m id) id = none := by
  induction m with
  | nil => rfl
  | cons p rest ih =>
    obtain ⟨k, s⟩ := p
    simp only [erase]
    split
    · exact ih
    · rename_i h; simp only [lookup, if_neg h]; exact ih

theorem lookup_erase_ne (m : List (Nat × Stmt)) (id id' : Nat) (h : id' ≠ id) :
    lookup (erase m id) id' = lookup m id' := by
  induction m with
  | nil => rfl
  | cons p rest ih =>
    obtain ⟨k, s⟩ := p
    simp only [erase]
    split
    · rename_i hk; subst hk
      simp only [lookup, if_neg (Ne.symm h)]; exact ih
    · simp only [lookup]; split
      · rfl
      · exact ih

theorem lookup_insert_self (m : List (Nat × Stmt)) (id : Nat) (s : Stmt) :
    lookup (insert m id s) id = some s := by
  simp [StmtSession.insert, lookup]

theorem lookup_insert_ne (m : List (Nat × Stmt)) (id id' : Nat) (s : Stmt) (h : id' ≠ id) :
    lookup (insert m id s) id' = lookup m id' := by
  simp only [StmtSession.insert, lookup, if_neg (Ne.symm h)]
  exact lookup_erase_ne m id id' h

/-! ### the invariant between commands -/

/-- Between commands an argument slot holds nothing or accumulated long data
    (never a value decoded from an execute packet). -/
def ArgOK : Arg → Prop
  | .null => True
  | .bytes _ => True
  | _ => False

def StmtOK (s : Stmt) : Prop := s.args.length = s.paramCount ∧ ∀ a ∈ s.args, ArgOK a

/-- Every open statement has an id that was issued (ids are never reused), an
    argument slot per parameter, and only long data in the slots. -/
def Inv (st : State) : Prop := ∀ id s, lookup st.stmts id = some s → id < st.stmtID ∧ StmtOK s

theorem stmtOK_mk (sql : Bytes) (n : Nat) (items : List Bytes) (types : Bytes) :
    StmtOK ⟨sql, n, items, types, nulls n⟩ := by
  refine ⟨by simp [nulls], ?_⟩
  intro a ha
  simp [nulls] at ha
  rw [ha.2]; trivial

theorem stmtOK_nulls (s : Stmt) (args : List Arg) (h : args = nulls s.paramCount) :
    StmtOK { s with args := args } := by
  subst h; exact stmtOK_mk _ _ _ _

theorem inv_init : Inv State.init := by
  intro id s h; simp [State.init, lookup] at h

theorem inv_insert (st : State) (id : Nat) (s : Stmt) (hinv : Inv st) (hid : id < st.stmtID) (hs : StmtOK s) :
    Inv { st with stmts := insert st.stmts id s } := by
  intro id' s' h
  by_cases e : id' = id
  · subst e
    rw [lookup_insert_self] at h
    cases h; exact ⟨hid, hs⟩
  · rw [lookup_insert_ne _ _ _ _ e] at h
    exact hinv id' s' h

theorem stmtOK_set (s : Stmt) (i : Nat) (b : Bytes) (hs : StmtOK s) :
    StmtOK { s with args := s.args.set i (.bytes b) } := by
  refine ⟨by simpa using hs.1, ?_⟩
  intro a ha
  rcases List.mem_or_eq_of_mem_set ha with h | h
  · exact hs.2 a h
  · rw [h]; trivial

/-- **Invariant.**  Every command preserves `Inv`. -/
theorem inv_step (st : State) (op : Op) (hinv : Inv st) : Inv (step st op).1 := by
  cases op with
  | prepare sql =>
    simp only [step, handleStmtPrepare]
    split
    · exact hinv
    · exact hinv
    · rename_i n offs items _
      intro id' s' h
      by_cases e : id' = st.stmtID
      · subst e
        simp only [lookup_insert_self] at h
        cases h
        exact ⟨Nat.lt_succ_self _, stmtOK_mk _ _ _ _⟩
      · simp only [lookup_insert_ne _ _ _ _ e] at h
        have := hinv id' s' h
        exact ⟨Nat.lt_succ_of_lt this.1, this.2⟩
  | execute data =>
    simp only [step, handleStmtExecute]
    split
    · exact hinv
    · split
      · exact hinv
      · rename_i s hl
        exact inv_insert st _ _ hinv (hinv _ _ hl).1 (stmtOK_nulls _ _ rfl)
  | sendLongData data =>
    simp only [step, handleStmtSendLongData]
    split
    · exact hinv
    · split
      · exact hinv
      · rename_i s hl
        have hs := hinv _ _ hl
        split
        · exact hinv
        · split
          · exact hinv
          · exact inv_insert st _ _ hinv hs.1 (stmtOK_set s _ _ hs.2)
          · exact inv_insert st _ _ hinv hs.1 (stmtOK_set s _ _ hs.2)
          · exact hinv
  | reset data =>
    simp only [step, handleStmtReset]
    split
    · exact hinv
    · split
      · exact hinv
      · rename_i s hl
        exact inv_insert st _ _ hinv (hinv _ _ hl).1 (stmtOK_nulls _ _ rfl)
  | close data =>
    simp only [step, handleStmtClose]
    split
    · exact hinv
    · intro id' s' h
      by_cases e : id' = stmtIdOf data
      · subst e; simp [lookup_erase_self] at h
      · rw [lookup_erase_ne _ _ _ e] at h; exact hinv id' s' h
  | setMode nbe => exact hinv

theorem run_append_state (st : State) (ops : List Op) (op : Op) :
    (run st (ops ++ [op])).1 = (step (run st ops).1 op).1 := by
  induction ops generalizing st with
  | nil => simp [run]
  | cons o os ih => simp [run, ih]

theorem inv_run (st : State) (ops : List Op) (hinv : Inv st) : Inv (run st ops).1 := by
  induction ops generalizing st with
  | nil => exact hinv
  | cons o os ih => simp only [run]; exact ih _ (inv_step st o hinv)


/-! ### unknown and closed statement ids -/

/-- The statement a command addresses (`none`: the packet is too short to name one,
    or the command is a prepare). -/
def target : Op → Option Nat
  | .prepare _ => none
  | .execute d => if d.length < 9 then none else some (stmtIdOf d)
  | .sendLongData d => if d.length < 6 then none else some (stmtIdOf d)
  | .reset d => if d.length < 4 then none else some (stmtIdOf d)
  | .close d => if d.length < 4 then none else some (stmtIdOf d)
  | .setMode _ => none

/-- **Unknown ids fail.**  Execute, send-long-data and reset on an id that is
    not open (never issued, or closed) return an error and change nothing. -/
theorem unknown_id_fails (st : State) (op : Op) (id : Nat) (ht : target op = some id)
    (hnone : lookup st.stmts id = none) (hop : ∀ d, op ≠ .close d) :
    step st op = (st, .err .unknownStmt) := by
  cases op with
  | prepare sql => simp [target] at ht
  | execute d =>
    simp only [target] at ht
    split at ht
    · simp at ht
    · rename_i h9; cases ht
      simp [step, handleStmtExecute, h9, hnone]
  | sendLongData d =>
    simp only [target] at ht
    split at ht
    · simp at ht
    · rename_i h; cases ht
      simp [step, handleStmtSendLongData, h, hnone]
  | reset d =>
    simp only [target] at ht
    split at ht
    · simp at ht
    · rename_i h; cases ht
      simp [step, handleStmtReset, h, hnone]
  | close d => exact absurd rfl (hop d)
  | setMode nbe => simp [target] at ht

/-- Closing makes the id unknown. -/
theorem close_removes (st : State) (d : Bytes) (h : ¬ d.length < 4) :
    lookup (step st (.close d)).1.stmts (stmtIdOf d) = none := by
  simp [step, handleStmtClose, h, lookup_erase_self]

/-- An id that was issued and is not open stays unknown for ever (ids are not reused). -/
theorem closed_stays_unknown (st : State) (id : Nat) (hid : id < st.stmtID)
    (hnone : lookup st.stmts id = none) (ops : List Op) :
    lookup (run st ops).1.stmts id = none ∧ id < (run st ops).1.stmtID := by
  induction ops generalizing st with
  | nil => exact ⟨hnone, hid⟩
  | cons op ops ih =>
    simp only [run]
    apply ih
    · cases op <;> simp only [step, handleStmtPrepare, handleStmtExecute, handleStmtSendLongData,
        handleStmtReset, handleStmtClose] <;> repeat' split
      all_goals first | exact hid | exact Nat.lt_succ_of_lt hid
    · cases op with
      | prepare sql =>
        simp only [step, handleStmtPrepare]
        split
        · exact hnone
        · exact hnone
        · rw [lookup_insert_ne _ _ _ _ (Nat.ne_of_lt hid)]; exact hnone
      | execute d =>
        simp only [step, handleStmtExecute]
        split
        · exact hnone
        · split
          · exact hnone
          · rename_i s hl
            by_cases e : id = stmtIdOf d
            · subst e; rw [hnone] at hl; cases hl
            · rw [lookup_insert_ne _ _ _ _ e]; exact hnone
      | sendLongData d =>
        simp only [step, handleStmtSendLongData]
        split
        · exact hnone
        · split
          · exact hnone
          · rename_i s hl
            by_cases e : id = stmtIdOf d
            · subst e; rw [hnone] at hl; cases hl
            · repeat' split
              all_goals first | exact hnone | (rw [lookup_insert_ne _ _ _ _ e]; exact hnone)
      | reset d =>
        simp only [step, handleStmtReset]
        split
        · exact hnone
        · split
          · exact hnone
          · rename_i s hl
            by_cases e : id = stmtIdOf d
            · subst e; rw [hnone] at hl; cases hl
            · rw [lookup_insert_ne _ _ _ _ e]; exact hnone
      | close d =>
        simp only [step, handleStmtClose]
        split
        · exact hnone
        · by_cases e : id = stmtIdOf d
          · subst e; exact lookup_erase_self _ _
          · rw [lookup_erase_ne _ _ _ e]; exact hnone
      | setMode nbe => exact hnone

/-! ### isolation -/

/-- **Isolation.**  A command changes no statement other than the one it
    addresses; a prepare changes no statement other than the new one. -/
theorem isolation (st : State) (op : Op) (id' : Nat) (ht : target op ≠ some id')
    (hp : ∀ sql, op = .prepare sql → id' ≠ st.stmtID) :
    lookup (step st op).1.stmts id' = lookup st.stmts id' := by
  cases op with
  | prepare sql =>
    simp only [step, handleStmtPrepare]
    split
    · rfl
    · rfl
    · exact lookup_insert_ne _ _ _ _ (hp sql rfl)
  | execute d =>
    simp only [step, handleStmtExecute]
    split
    · rfl
    · rename_i h9
      have e : id' ≠ stmtIdOf d := by
        intro e; apply ht; simp [target, h9, e]
      split
      · rfl
      · exact lookup_insert_ne _ _ _ _ e
  | sendLongData d =>
    simp only [step, handleStmtSendLongData]
    split
    · rfl
    · rename_i h
      have e : id' ≠ stmtIdOf d := by
        intro e; apply ht; simp [target, h, e]
      repeat' split
      all_goals first | rfl | exact lookup_insert_ne _ _ _ _ e
  | reset d =>
    simp only [step, handleStmtReset]
    split
    · rfl
    · rename_i h
      have e : id' ≠ stmtIdOf d := by
        intro e; apply ht; simp [target, h, e]
      split
      · rfl
      · exact lookup_insert_ne _ _ _ _ e
  | close d =>
    simp only [step, handleStmtClose]
    split
    · rfl
    · rename_i h
      have e : id' ≠ stmtIdOf d := by
        intro e; apply ht; simp [target, h, e]
      exact lookup_erase_ne _ _ _ e
  | setMode nbe => rfl

/-- With the invariant: no command changes an open statement it does not address
    (a prepare never lands on an open id). -/
theorem isolation_open (st : State) (hinv : Inv st) (op : Op) (id' : Nat) (s' : Stmt)
    (hl : lookup st.stmts id' = some s') (ht : target op ≠ some id') :
    lookup (step st op).1.stmts id' = some s' := by
  rw [isolation st op id' ht]
  · exact hl
  · intro sql _; exact Nat.ne_of_lt (hinv id' s' hl).1

/-! ### an execution attempt leaves no value behind -/

/-- **No stale parameters.**  After an execution attempt that found its
    statement — successful, rejected (malformed packet, unknown type, cursor
    flag …) or even panicking — the statement is the same template with every
    argument slot empty. -/
theorem args_clean_after_exec (st : State) (d : Bytes) (s : Stmt) (h9 : ¬ d.length < 9)
    (hl : lookup st.stmts (stmtIdOf d) = some s) :
    ∃ types, lookup (step st (.execute d)).1.stmts (stmtIdOf d) =
      some { s with paramTypes := types, args := nulls s.paramCount } := by
  simp only [step, handleStmtExecute, if_neg h9, hl]
  exact ⟨_, lookup_insert_self _ _ _⟩


/-! ### long data since the previous execution attempt -/

/-- `binary.LittleEndian.Uint16(data[4:6])` -/
def paramIdOf (d : Bytes) : Nat := leNat ((d.drop 4).take 2)

/-- A slot after one more accepted chunk. -/
def addChunk (args : List Arg) (i : Nat) (chunk : Bytes) : List Arg :=
  match args[i]? with
  | some .null => args.set i (.bytes chunk)
  | some (.bytes b) => args.set i (.bytes (b ++ chunk))
  | _ => args

/-- The long data a statement `id` with `n` parameters has accumulated over a
    stretch of commands: the chunks of the well-formed send-long-data commands
    addressed to it, per parameter, in order. -/
def collect (id n : Nat) : List Arg → List Op → List Arg
  | args, [] => args
  | args, .sendLongData d :: ops =>
    if ¬ d.length < 6 ∧ stmtIdOf d = id ∧ ¬ paramIdOf d ≥ n % 65536 then
      collect id n (addChunk args (paramIdOf d) (d.drop 6)) ops
    else collect id n args ops
  | args, _ :: ops => collect id n args ops

/-- **Long data.**  Over any stretch of commands that contains no execute,
    reset or close of statement `id`, whatever else the session does (other
    statements prepared, executed, failed, closed), the slots of `id` hold
    exactly the chunks sent for it in that stretch. -/
theorem long_data_since (ops : List Op) : ∀ (st : State) (id : Nat) (s : Stmt), Inv st →
    lookup st.stmts id = some s →
    (∀ op ∈ ops, target op = some id → ∃ d, op = .sendLongData d) →
    lookup (run st ops).1.stmts id = some { s with args := collect id s.paramCount s.args ops } := by
  induction ops with
  | nil => intro st id s _ hl _; simpa [run, collect] using hl
  | cons op ops ih =>
    intro st id s hinv hl hops
    simp only [run]
    have hinv' := inv_step st op hinv
    have hops' : ∀ op' ∈ ops, target op' = some id → ∃ d, op' = .sendLongData d :=
      fun op' h => hops op' (List.mem_cons_of_mem _ h)
    by_cases ht : target op = some id
    · obtain ⟨d, rfl⟩ := hops _ List.mem_cons_self ht
      simp only [target] at ht
      split at ht
      · simp at ht
      · rename_i h6
        cases ht
        have hs := (hinv _ _ hl).2
        by_cases hp : paramIdOf d ≥ s.paramCount % 65536
        · -- rejected: nothing changes
          have e : step st (.sendLongData d) = (st, .err .wrongArguments) := by
            simp only [step, handleStmtSendLongData, if_neg h6, hl]
            simp only [paramIdOf] at hp
            simp [hp]
          rw [e]
          simp only [collect, h6, hp, not_true_eq_false, and_false, if_false]
          exact ih st _ s hinv hl hops'
        · have hlt : paramIdOf d < s.args.length := by
            rw [hs.1]; have := Nat.mod_le s.paramCount 65536; omega
          have hget : s.args[paramIdOf d]? = some s.args[paramIdOf d] := List.getElem?_eq_getElem hlt
          have hok := hs.2 _ (List.getElem_mem hlt)
          simp only [collect, h6, hp, not_false_eq_true, and_self, if_true]
          cases hv : s.args[paramIdOf d] with
          | null =>
            have e : (step st (.sendLongData d)).1 =
                ⟨StmtSession.insert st.stmts (stmtIdOf d) { s with args := s.args.set (paramIdOf d) (.bytes (d.drop 6)) }, st.stmtID, st.nbe⟩ := by
              simp only [step, handleStmtSendLongData, if_neg h6, hl]
              simp only [paramIdOf] at hp hget hv ⊢
              simp [hp, hget, hv]
            have := ih _ (stmtIdOf d) _ hinv' (by rw [e]; exact lookup_insert_self _ _ _) hops'
            rw [this]
            simp [addChunk, hget, hv]
          | bytes b =>
            have e : (step st (.sendLongData d)).1 =
                ⟨StmtSession.insert st.stmts (stmtIdOf d) { s with args := s.args.set (paramIdOf d) (.bytes (b ++ d.drop 6)) }, st.stmtID, st.nbe⟩ := by
              simp only [step, handleStmtSendLongData, if_neg h6, hl]
              simp only [paramIdOf] at hp hget hv ⊢
              simp [hp, hget, hv]
            have := ih _ (stmtIdOf d) _ hinv' (by rw [e]; exact lookup_insert_self _ _ _) hops'
            rw [this]
            simp [addChunk, hget, hv]
          | int v => rw [hv] at hok; exact absurd hok (by simp [ArgOK])
          | float a b => rw [hv] at hok; exact absurd hok (by simp [ArgOK])
    · have hl' := isolation_open st hinv op id s hl ht
      have hc : collect id s.paramCount s.args (op :: ops) = collect id s.paramCount s.args ops := by
        cases op with
        | sendLongData d =>
          simp only [collect]
          split
          · rename_i h; exfalso; apply ht; simp [target, h.1, h.2.1]
          · rfl
        | _ => rfl
      rw [hc]
      exact ih _ id s hinv' hl' hops'


/-! ### the values an execution uses -/

/-- Reference semantics of the values of one execution, written without any
    mutable state: parameter `i` is NULL if its bit is set in the packet's NULL
    bitmap; else the long data sent for it, if any (then the packet holds no
    value for it); else the value decoded from the packet at the position that
    follows the values of the earlier parameters *of this packet*.  `long` is
    read, never written. -/
def specArgs (nullBitmap paramTypes paramValues : Bytes) (long : List Arg) : Nat → Nat → Int → O (List Arg)
  | 0, _, _ => .ok []
  | k + 1, i, pos =>
    match goIdx nullBitmap ((i / 8 : Nat) : Int) with
    | .panic => .panic
    | .fail => .panic
    | .ok nb =>
      if nb.toNat / 2 ^ (i % 8) % 2 = 1 then
        (specArgs nullBitmap paramTypes paramValues long k (i + 1) pos).bind fun rest => .ok (.null :: rest)
      else if 2 * i + 1 ≥ paramTypes.length then .err .malformed
      else
        match goIdx paramTypes ((2 * i : Nat) : Int), goIdx paramTypes ((2 * i + 1 : Nat) : Int), long[i]? with
        | .ok tp, .ok fl, some .null =>
          (bindOne tp (fl.toNat / 128 % 2 = 1) paramValues pos).bind fun r =>
            (specArgs nullBitmap paramTypes paramValues long k (i + 1) r.2).bind fun rest => .ok (r.1 :: rest)
        | .ok _, .ok _, some a =>
          (specArgs nullBitmap paramTypes paramValues long k (i + 1) pos).bind fun rest => .ok (a :: rest)
        | _, _, _ => .panic

theorem take_succ_set {α : Type} (l : List α) (i : Nat) (v : α) (h : i < l.length) :
    (l.set i v).take (i + 1) = l.take i ++ [v] := by
  induction l generalizing i with
  | nil => simp at h
  | cons a l ih =>
    cases i with
    | zero => simp
    | succ i => simp at h; simp [ih i h]

theorem drop_succ_set {α : Type} (l : List α) (i : Nat) (v : α) :
    (l.set i v).drop (i + 1) = l.drop (i + 1) := by
  induction l generalizing i with
  | nil => simp
  | cons a l ih =>
    cases i with
    | zero => simp
    | succ i => simp [ih i]

/-- **The in-place binding loop computes the reference semantics.**  Started on
    slots that hold only long data, `bindStmtArgs` (which writes into the very
    slice it tests for "already holds a value") returns exactly `specArgs` of
    the packet and that long data. -/
theorem bindLoop_eq_spec (nb types values : Bytes) (long : List Arg) (hlong : ∀ a ∈ long, ArgOK a) :
    ∀ (k i : Nat) (pos : Int) (args : List Arg), i + k = long.length → args.length = long.length →
      args.drop i = long.drop i →
      bindLoop nb types values k i pos args =
        (specArgs nb types values long k i pos).bind fun rest => .ok (args.take i ++ rest) := by
  intro k
  induction k with
  | zero =>
    intro i pos args hik hlen _
    simp only [bindLoop, specArgs, O.bind]
    have : i = args.length := by omega
    subst this; simp
  | succ k ih =>
    intro i pos args hik hlen hdrop
    have hi : i < long.length := by omega
    have hia : i < args.length := by omega
    have hget : args[i]? = long[i]? := by
      have := congrArg (fun l => l[0]?) hdrop
      simpa using this
    rw [bindLoop, specArgs]
    cases h1 : goIdx nb ((i / 8 : Nat) : Int) with
    | panic => simp [ofR, bind, O.bind]
    | fail => simp [goIdx] at h1; split at h1 <;> simp at h1
    | ok b =>
      simp only [ofR, bind, O.bind]
      split
      · -- NULL in the bitmap
        simp only [argSet, if_pos hia]
        rw [ih (i + 1) pos _ (by omega) (by simpa using hlen) (by rw [drop_succ_set]; simpa using congrArg (List.drop 1) hdrop)]
        cases specArgs nb types values long k (i + 1) pos <;> simp [O.bind, take_succ_set _ _ _ hia]
      · split
        · rfl
        · cases h2 : goIdx types ((2 * i : Nat) : Int) with
          | panic => simp
          | fail => simp [goIdx] at h2; split at h2 <;> simp at h2
          | ok tp =>
            cases h3 : goIdx types ((2 * i + 1 : Nat) : Int) with
            | panic => simp
            | fail => simp [goIdx] at h3; split at h3 <;> simp at h3
            | ok fl =>
              simp only [argIdx, hget]
              have hli : long[i]? = some long[i] := List.getElem?_eq_getElem hi
              have hok := hlong _ (List.getElem_mem hi)
              rw [hli]
              cases hv : long[i] with
              | null =>
                simp only [ne_eq, not_true_eq_false, if_false]
                cases bindOne tp (decide (fl.toNat / 128 % 2 = 1)) values pos with
                | err e => simp [O.bind]
                | panic => simp [O.bind]
                | ok r =>
                  obtain ⟨v, pos'⟩ := r
                  simp only [O.bind, argSet, if_pos hia]
                  rw [ih (i + 1) pos' _ (by omega) (by simpa using hlen) (by rw [drop_succ_set]; simpa using congrArg (List.drop 1) hdrop)]
                  cases specArgs nb types values long k (i + 1) pos' <;> simp [O.bind, take_succ_set _ _ _ hia]
              | bytes bb =>
                simp only [ne_eq, reduceCtorEq, not_false_eq_true, if_true]
                rw [ih (i + 1) pos args (by omega) hlen (by simpa using congrArg (List.drop 1) hdrop)]
                have hta : args.take (i + 1) = args.take i ++ [Arg.bytes bb] := by
                  rw [List.take_add_one, hget, hli, hv]; rfl
                cases specArgs nb types values long k (i + 1) pos <;> simp [O.bind, hta]
              | int v => rw [hv] at hok; exact absurd hok (by simp [ArgOK])
              | float a b => rw [hv] at hok; exact absurd hok (by simp [ArgOK])


theorem O_bind_ok {α : Type} (x : O α) : (x.bind fun a => .ok a) = x := by cases x <;> rfl

/-- `bindStmtArgs` on a statement whose slots hold only long data. -/
theorem bind_eq_spec (s : Stmt) (hs : StmtOK s) (nb types values : Bytes) :
    bindStmtArgs s.paramCount s.args nb types values = specArgs nb types values s.args s.paramCount 0 0 := by
  unfold bindStmtArgs
  rw [bindLoop_eq_spec nb types values s.args hs.2 s.paramCount 0 0 s.args (by simp [hs.1]) rfl rfl]
  simpa using O_bind_ok _

/-- **Each execution uses only its own values.**  In every reachable state, the
    statement text an execution hands to `handleQuery` (or its error) is the
    template rewritten with `specArgs` of this packet and the long data in the
    slots — and by `args_clean_after_exec`, `long_data_since` and `isolation`
    those slots hold exactly the chunks sent for this statement since its
    previous execution attempt, reset or prepare. -/
theorem exec_uses_own_values (nbe : Bool) (s : Stmt) (hs : StmtOK s) (d : Bytes) :
    executeBody nbe s d =
      executeBodyWith (fun n long nb types values => specArgs nb types values long n 0 0) nbe s d := by
  unfold executeBody executeBodyWith
  repeat' split
  all_goals first
    | rfl
    | (simp only [bind_eq_spec s hs])

/-- What an execute command returns depends on the session only through the
    statement it addresses. -/
theorem exec_out (st : State) (d : Bytes) (h9 : ¬ d.length < 9) :
    (step st (.execute d)).2 =
      match lookup st.stmts (stmtIdOf d) with
      | none => .err .unknownStmt
      | some s =>
        match (executeBody st.nbe s d).1 with
        | .ok sql => .exec sql
        | .err e => .err e
        | .panic => .panic := by
  simp only [step, handleStmtExecute, if_neg h9]
  cases lookup st.stmts (stmtIdOf d) <;> rfl

/-- **A failed execution leaves no bound value behind.**  Whatever the first
    execute packet `d1` was (malformed after some parameters were bound,
    panicking, or fine), the next execution of the same statement behaves as on
    a statement whose slots are all empty. -/
theorem exec_after_any_attempt (st : State) (d1 d2 : Bytes) (s : Stmt) (h1 : ¬ d1.length < 9)
    (h2 : ¬ d2.length < 9) (hid : stmtIdOf d2 = stmtIdOf d1) (hl : lookup st.stmts (stmtIdOf d1) = some s) :
    ∃ types, (step (step st (.execute d1)).1 (.execute d2)).2 =
      match (executeBody st.nbe { s with paramTypes := types, args := nulls s.paramCount } d2).1 with
      | .ok sql => .exec sql
      | .err e => .err e
      | .panic => .panic := by
  obtain ⟨types, h⟩ := args_clean_after_exec st d1 s h1 hl
  refine ⟨types, ?_⟩
  have hn : (step st (.execute d1)).1.nbe = st.nbe := by
    simp only [step, handleStmtExecute, if_neg h1, hl]
  rw [exec_out _ d2 h2, hid, h, hn]


/-- Everything above holds along every command history from a fresh session. -/
theorem inv_reachable (ops : List Op) : Inv (run State.init ops).1 := inv_run _ ops inv_init

/-! ### the statements are not vacuous; the probed defect of the pinned tree -/

/-- `select ?, ?` -/
def tpl : Bytes := [0x73, 0x65, 0x6c, 0x65, 0x63, 0x74, 0x20, 0x3f, 0x2c, 0x20, 0x3f]
/-- execute of statement 0: types LONGLONG, LONGLONG; first value 7, second value cut to one byte -/
def execBad : Bytes := [0,0,0,0, 0, 1,0,0,0, 0, 1, 8,0,8,0, 7,0,0,0,0,0,0,0, 1]
/-- execute of statement 0 with the values 9 and 5 -/
def execGood : Bytes := [0,0,0,0, 0, 1,0,0,0, 0, 1, 8,0,8,0, 9,0,0,0,0,0,0,0, 5,0,0,0,0,0,0,0]
/-- long data "xy" for parameter 0 of statement 0 -/
def longXY : Bytes := [0,0,0,0, 0,0, 0x78, 0x79]
/-- execute of statement 0: types VAR_STRING, LONGLONG, one value 5 (parameter 0 comes as long data) -/
def execLong : Bytes := [0,0,0,0, 0, 1,0,0,0, 0, 1, 0xfd,0,8,0, 5,0,0,0,0,0,0,0]

set_option maxRecDepth 100000 in
/-- The probed history: a failed execution that had bound 7, then (9, 5).  The
    pinned code ran `select 7, 9`; the repaired code runs `select 9, 5`. -/
example : (run State.init [.prepare tpl, .execute execBad, .execute execGood]).2 =
    [.prepared 0 2, .err .malformed,
     .exec [0x73, 0x65, 0x6c, 0x65, 0x63, 0x74, 0x20, 0x39, 0x2c, 0x20, 0x35]] := by decide

set_option maxRecDepth 100000 in
/-- Long data is used by the next execution, is gone after it, and a closed
    statement is unknown: `select 'xy', 5`, then a malformed packet (no value for
    parameter 0 any more), then unknown. -/
example : (run State.init [.prepare tpl, .sendLongData longXY, .execute execLong, .execute execLong,
      .close [0,0,0,0], .execute execGood]).2 =
    [.prepared 0 2, .done,
     .exec [0x73, 0x65, 0x6c, 0x65, 0x63, 0x74, 0x20, 0x27, 0x78, 0x79, 0x27, 0x2c, 0x20, 0x35],
     .err .malformed, .done, .err .unknownStmt] := by decide

set_option maxRecDepth 100000 in
/-- `long_data_since`, `args_clean_after_exec`, `isolation_open` have satisfiable hypotheses:
    after `prepare tpl` statement 0 is open, with two empty slots. -/
example : lookup (run State.init [.prepare tpl]).1.stmts 0 =
    some ⟨tpl, 2, [[0x73, 0x65, 0x6c, 0x65, 0x63, 0x74, 0x20], [0x3f], [0x2c, 0x20], [0x3f]], [], [.null, .null]⟩ := by
  decide

end GaeaVerif.C16
