import GaeaVerif.Lemmas.MergePlan
import GaeaVerif.Lemmas.MergeTopKNodup
import GaeaVerif.Lemmas.MergeLead
import GaeaVerif.Lemmas.MergeKeyDec
import GaeaVerif.Model.MergeUnion
import GaeaVerif.Model.MergeJoin
/-
  C02 — a cross-shard SELECT returns what one database holding all shards would
  return.

  The model (Model/Merge.lean) transliterates the rewriting of HandleSelectStmt,
  SelectPlan.ExecuteIn and MergeSelectResult after the C02 `fix:` commits; the
  reference (Model/MergeSql.lean) is the statement evaluated on the union of
  the sub-tables.  Main statements, in this order:

    Answer                        what the property asks of a result
    merge_plain                   projections, ORDER BY (also hidden columns), LIMIT/OFFSET (top-k merge)
    merge_aggregate               COUNT / SUM / MAX / MIN without GROUP BY
    merge_group                   GROUP BY under the injective map key, ORDER BY, LIMIT at the proxy
    merge_plain_distinct          SELECT DISTINCT of plain columns
    zero_route, single_table      statements routed to no / to one sub-table
    merge_group_limit             GROUP BY with the per-table LIMIT kept (ORDER BY starts with the GROUP BY columns)
    merge_aggregate_any, merge_group_distinct   SELECT DISTINCT over aggregate functions / over GROUP BY
    C02_select_correct_partial    the assembled theorem for the decidable class `Supported`
    union_correct                 UNION [ALL | DISTINCT] of such statements
    join_linked_correct, join_global_correct   such statements over a join with a linked child / a global table
    keyInj_of_typed, rowKeyInj_of_typed   its key-injectivity hypotheses hold for BIGINT / character columns
    agg_homomorphism, group_merge, mapkey_injective, topk_merge_rows   the core lemmas under their names

  Helper lemmas: Lemmas/Merge{Order,TopK,Agg,Key,Row,Group,Sort,Plan}.lean.
-/
namespace GaeaVerif.C02
open GaeaVerif GaeaVerif.Merge

/-- **What the property asks of an answer**: the rows of the statement on one
    database holding all rows, in some order that respects ORDER BY (ties in any
    order), of which LIMIT keeps the window `[offset, offset+count)`. -/
def Answer (cq : CQ) (rows : List Row) (out : List Row) : Prop :=
  ∃ S : List OutRow, S.Perm (evalPre cq rows) ∧ S.Pairwise (fun a b => leOut cq.dirs a b = true) ∧
    out = (window cq.limit S).map (·.vis)

/-- the answer of one sub-table to the per-table statement -/
def shardResult (cq' : CQ) (T : List Row) : Result :=
  { nfields := cq'.items.length, rows := (evalCQ cq' T).map (·.vis) }

section
variable {schema : List Ty} {p : Plan} {cq cq' : CQ}

theorem evalPre_plain (cq : CQ) (h : cq.aggregated = false) (hd : cq.distinct = false) (T : List Row) :
    evalPre cq T = T.map fun r => outOf cq [r] := by
  simp [evalPre, groupsOf, h, hd, List.map_map]

theorem outOf_vis (cq : CQ) (grp : List Row) : (outOf cq grp).vis = fullRow cq.items grp := rfl

/-- the rows a sub-table returns for a statement without aggregation: its rows,
    sorted by the ORDER BY key, cut by the per-table LIMIT -/
theorem shard_plain (inv : PlanInv schema p cq cq') (h' : cq'.aggregated = false) (hd : cq.distinct = false)
    (T : List Row) :
    (evalCQ cq' T).map (·.vis) =
      window cq'.limit ((T.map fun r => fullRow cq'.items [r]).mergeSort (leFull cq.dirs (sortCols p cq'))) := by
  have hd' : cq'.distinct = false := by rw [inv.cdistinct]; exact hd
  have hdirs : cq'.dirs = cq.dirs := by simp [CQ.dirs, inv.keys]
  simp only [evalCQ, ← window_map, evalSorted, evalPre_plain cq' h' hd']
  congr 1
  split
  · rename_i he
    have : cq.dirs = [] := by
      rw [← hdirs]; simp [CQ.dirs, List.isEmpty_iff.mp he]
    rw [this, mergeSort_true _ _ (leFull_nil _)]
    simp [List.map_map, outOf_vis]
  · rw [List.map_mergeSort (s := leFull cq.dirs (sortCols p cq'))]
    · simp only [List.map_map]; rfl
    · intro a ha b hb
      simp only [List.mem_map] at ha hb
      obtain ⟨ra, _, rfl⟩ := ha
      obtain ⟨rb, _, rfl⟩ := hb
      simp only [leOut, leFull, outOf_vis, inv_keyAt inv, hdirs]
      simp [outOf, inv.keys]


theorem evalPre_mem (cq : CQ) (T : List Row) : ∀ o ∈ evalPre cq T, ∃ grp, o = outOf cq grp := by
  intro o ho
  simp only [evalPre] at ho
  split at ho
  · have : ∀ (l : List OutRow) (seen : List Row), ∀ x ∈ dedupByAux OutRow.vis seen l, x ∈ l := by
      intro l
      induction l with
      | nil => intro seen x hx; simp [dedupByAux] at hx
      | cons a l ih =>
        intro seen x hx
        simp only [dedupByAux] at hx
        split at hx
        · exact List.mem_cons_of_mem _ (ih _ x hx)
        · rcases List.mem_cons.mp hx with rfl | hx
          · simp
          · exact List.mem_cons_of_mem _ (ih _ x hx)
    have := this _ _ o ho
    obtain ⟨g, _, rfl⟩ := List.mem_map.mp this
    exact ⟨g, rfl⟩
  · obtain ⟨g, _, rfl⟩ := List.mem_map.mp ho
    exact ⟨g, rfl⟩

theorem shardResult_row_length (cq' : CQ) (T : List Row) : ∀ x ∈ (shardResult cq' T).rows, x.length = cq'.items.length := by
  intro x hx
  simp only [shardResult, List.mem_map] at hx
  obtain ⟨o, ho, rfl⟩ := hx
  have ho' : o ∈ evalPre cq' T := by
    simp only [evalCQ] at ho
    have := mem_window _ _ _ ho
    simp only [evalSorted] at this
    split at this
    · exact this
    · exact List.mem_mergeSort.mp this
  obtain ⟨g, rfl⟩ := evalPre_mem cq' T o ho'
  simp [outOf]

theorem flatten_perm_of_forall {α : Type} : ∀ (A B : List (List α)), A.length = B.length →
    (∀ i (h1 : i < A.length) (h2 : i < B.length), (A[i]).Perm (B[i])) → A.flatten.Perm B.flatten
  | [], [], _, _ => by simp
  | [], _ :: _, h, _ => by simp at h
  | _ :: _, [], h, _ => by simp at h
  | a :: A, b :: B, hl, h => by
    simp only [List.flatten_cons]
    have h0 := h 0 (by simp) (by simp)
    simp only [List.getElem_cons_zero] at h0
    have ih := flatten_perm_of_forall A B (by simpa using hl) (fun i h1 h2 => by
      have := h (i + 1) (by simp; omega) (by simp; omega)
      simpa using this)
    exact h0.append ih

theorem flatten_map_perm {α β : Type} (f g : α → List β) (l : List α) (h : ∀ a ∈ l, (f a).Perm (g a)) :
    (l.map f).flatten.Perm (l.map g).flatten := by
  induction l with
  | nil => simp
  | cons a l ih =>
    simp only [List.map_cons, List.flatten_cons]
    exact (h a (by simp)).append (ih (fun x hx => h x (by simp [hx])))

theorem map_window_none {α : Type} (Ls : List (List α)) : Ls.map (window none) = Ls := by
  induction Ls with
  | nil => rfl
  | cons a l ih => simp [window, ih]

theorem map_window_take {α : Type} (n : Nat) (Ls : List (List α)) :
    Ls.map (window (some (0, n))) = Ls.map (List.take n) := by
  induction Ls with
  | nil => rfl
  | cons a l ih => simp [window, ih]

/-- **Statements without aggregation** (projection, ORDER BY on selected or
    hidden columns, LIMIT/OFFSET pushed to the shards as `offset+count`):
    what `MergeSelectResult` returns is an answer of the statement on the union
    of the sub-tables. -/
theorem merge_plain (inv : PlanInv schema p cq cq') (h : cq.aggregated = false) (h' : cq'.aggregated = false)
    (hd : cq.distinct = false) (tables : List (List Row)) (hne : tables ≠ []) (res : Result)
    (hm : mergeSelectResult p (tables.map (shardResult cq')) = .ok res) :
    Answer cq tables.flatten res.rows := by
  -- notation
  let LF := leFull cq.dirs (sortCols p cq')
  let full := fun r : Row => fullRow cq'.items [r]
  have hgroup : cq.group = none := by
    simp only [CQ.aggregated, Bool.or_eq_false_iff] at h
    cases hg : cq.group with
    | none => rfl
    | some g => rw [hg] at h; simp at h
  have hpg : p.hasGroupBy = false := by rw [inv.pgroup, hgroup]; rfl
  have hpd : p.distinct = false := by rw [inv.pdistinct]; exact hd
  have haggs : p.aggs = [] := by
    rw [inv.aggs]
    apply aggPositions_nil_of_no_agg
    simp only [CQ.aggregated, Bool.or_eq_false_iff, List.any_eq_false] at h'
    intro it hit
    have := h'.1.2 it hit
    simpa using this
  -- merge the result sets
  obtain ⟨T, Ts, rfl⟩ := List.exists_cons_of_ne_nil hne
  rw [mergeSelectResult_eq] at hm
  simp only [List.map_cons] at hm
  rw [mergeMulti_uniform cq'.items.length (shardResult cq' T) (Ts.map (shardResult cq')) rfl
    (by intro x hx; obtain ⟨t, _, rfl⟩ := List.mem_map.mp hx; rfl)] at hm
  simp only [R.bind_ok, hpg, hpd, Bool.false_eq_true, if_false, buildSelectOnlyResult, haggs,
    List.isEmpty_nil, if_true, R.pure_eq] at hm
  have hrows : ∀ x ∈ (((shardResult cq' T) :: Ts.map (shardResult cq')).map (·.rows)).flatten,
      x.length = cq'.items.length := by
    intro x hx
    simp only [List.mem_flatten, List.mem_map] at hx
    obtain ⟨l, ⟨r, hr, rfl⟩, hxl⟩ := hx
    rcases List.mem_cons.mp hr with rfl | hr
    · exact shardResult_row_length cq' T x hxl
    · obtain ⟨t, _, rfl⟩ := List.mem_map.mp hr
      exact shardResult_row_length cq' t x hxl
  have hres := mergeTail_spec inv _ res rfl hrows hm
  -- the shard lists
  let Ls : List (List Row) := (T :: Ts).map fun t => (t.map full).mergeSort LF
  have hflat : (((shardResult cq' T) :: Ts.map (shardResult cq')).map (·.rows)).flatten
      = (Ls.map (window cq'.limit)).flatten := by
    simp only [Ls, shardResult, List.map_cons, List.map_map]
    rw [shard_plain inv h' hd T]
    congr 2
    apply List.map_congr_left
    intro t _
    exact shard_plain inv h' hd t
  have hLs_sorted : ∀ L ∈ Ls, L.Pairwise (fun a b => LF a b = true) := by
    intro L hL
    obtain ⟨t, _, rfl⟩ := List.mem_map.mp hL
    exact List.pairwise_mergeSort (leFull_trans _ _) (leFull_total _ _) _
  have hLs_perm : Ls.flatten.Perm ((T :: Ts).flatten.map full) := by
    rw [List.map_flatten]
    exact flatten_map_perm _ _ _ (fun t _ => List.mergeSort_perm _ _)
  -- an arrangement of all rows whose window is what the merge returns
  have hS : ∃ S : List Row, S.Perm Ls.flatten ∧ S.Pairwise (fun a b => LF a b = true) ∧
      window cq.limit S = window cq.limit ((Ls.map (window cq'.limit)).flatten.mergeSort LF) := by
    have hl := inv.limit
    cases hlim : cq.limit with
    | none =>
      rw [hlim] at hl
      refine ⟨Ls.flatten.mergeSort LF, List.mergeSort_perm _ _,
        List.pairwise_mergeSort (leFull_trans _ _) (leFull_total _ _) _, ?_⟩
      rw [hl.2, map_window_none]
    | some oc =>
      obtain ⟨o, c⟩ := oc
      rw [hlim] at hl
      rcases hl.2.2 with hl' | hl'
      · obtain ⟨S, hp, hs, hw⟩ := topk_merge (leFull_trans _ _) (leFull_total _ _) Ls hLs_sorted o c
        refine ⟨S, hp, hs, ?_⟩
        rw [hl', map_window_take]
        simp only [window]
        rw [hw]; rfl
      · refine ⟨Ls.flatten.mergeSort LF, List.mergeSort_perm _ _,
          List.pairwise_mergeSort (leFull_trans _ _) (leFull_total _ _) _, ?_⟩
        rw [hl', map_window_none]
  obtain ⟨S, hSp, hSs, hSw⟩ := hS
  refine ⟨S.map (toOut cq.items.length (sortCols p cq')), ?_, ?_, ?_⟩
  · rw [evalPre_plain cq h hd]
    have := ((hSp.trans hLs_perm).map (toOut cq.items.length (sortCols p cq')))
    simp only [List.map_map] at this
    refine this.trans (List.Perm.of_eq ?_)
    apply List.map_congr_left
    intro r _
    exact inv_toOut inv [r]
  · rw [List.pairwise_map]
    exact hSs
  · rw [hres, hflat, ← hSw, window_map, List.map_map]
    apply List.map_congr_left
    intro r _
    rfl

/-! ### aggregate functions without GROUP BY -/

theorem evalPre_single (cq : CQ) (hagg : cq.aggregated = true) (hg : cq.group = none) (hd : cq.distinct = false)
    (T : List Row) : evalPre cq T = [outOf cq T] := by
  simp [evalPre, groupsOf, hagg, hg, hd]

/-- the row a sub-table returns for aggregate functions without GROUP BY -/
theorem shard_single (cq' : CQ) (hagg : cq'.aggregated = true) (hg : cq'.group = none) (hd : cq'.distinct = false)
    (T : List Row) :
    (evalCQ cq' T).map (·.vis) = window cq'.limit [fullRow cq'.items T] := by
  simp only [evalCQ, ← window_map, evalSorted, evalPre_single cq' hagg hg hd]
  congr 1
  split <;> simp [outOf_vis]

theorem onlyLoop_spec {schema : List Ty} (items : List Item) (hok : ∀ it ∈ items, it.aggOK schema = true)
    (hnocol : ∀ it ∈ items, ∀ c, it ≠ .col c) :
    ∀ (Ts : List (List Row)) (acc : List Row), TypedRows schema acc → (∀ t ∈ Ts, TypedRows schema t) →
    onlyLoop (aggPositions items) (fullRow items acc) (Ts.map (fullRow items)) =
      .ok (fullRow items (acc ++ Ts.flatten))
  | [], acc, _, _ => by simp [onlyLoop]
  | t :: Ts, acc, hacc, hts => by
    simp only [List.map_cons, onlyLoop]
    rw [row_homomorphism items acc t hacc (hts t (by simp)) (Or.inr hnocol) hok]
    simp only
    rw [onlyLoop_spec items hok hnocol Ts (acc ++ t) (hacc.append (hts t (by simp)))
      (fun x hx => hts x (by simp [hx]))]
    simp

theorem typedRows_flatten {schema : List Ty} (Ts : List (List Row)) (h : ∀ t ∈ Ts, TypedRows schema t) :
    TypedRows schema Ts.flatten := by
  intro r hr
  obtain ⟨t, ht, hrt⟩ := List.mem_flatten.mp hr
  exact h t ht r hrt

/-- **Aggregate functions without GROUP BY**: the one-row answers of the
    sub-tables are merged into the row of the union (COUNT added, SUM added as
    decimals, MAX/MIN compared; NULL for sub-tables without a value). -/
theorem merge_aggregate (inv : PlanInv schema p cq cq') (hagg : cq.aggregated = true) (hagg' : cq'.aggregated = true)
    (hany : cq'.items.any Item.isAgg = true)
    (hg : cq.group = none) (hd : cq.distinct = false) (hnocol : ∀ it ∈ cq'.items, ∀ c, it ≠ .col c)
    (tables : List (List Row)) (hne : tables ≠ []) (htyped : ∀ t ∈ tables, TypedRows schema t) (res : Result)
    (hm : mergeSelectResult p (tables.map (shardResult cq')) = .ok res) :
    Answer cq tables.flatten res.rows := by
  have hg' : cq'.group = none := by rw [inv.group]; exact hg
  have hd' : cq'.distinct = false := by rw [inv.cdistinct]; exact hd
  have hpg : p.hasGroupBy = false := by rw [inv.pgroup, hg]; rfl
  have hpd : p.distinct = false := by rw [inv.pdistinct]; exact hd
  have haggs : p.aggs.isEmpty = false := by
    rw [inv.aggs]
    simp only [List.any_eq_true] at hany
    obtain ⟨it, hit, hagg⟩ := hany
    obtain ⟨n, hn⟩ := List.getElem?_of_mem hit
    cases it with
    | agg k a d =>
      have : (n, k) ∈ aggPositions cq'.items := (mem_aggPosFrom _ 0 n k).mpr ⟨n, a, d, by simp, hn⟩
      cases hh : aggPositions cq'.items with
      | nil => rw [hh] at this; cases this
      | cons x xs => rfl
    | col c => simp [Item.isAgg] at hagg
    | const c => simp [Item.isAgg] at hagg
  obtain ⟨T, Ts, rfl⟩ := List.exists_cons_of_ne_nil hne
  rw [mergeSelectResult_eq] at hm
  simp only [List.map_cons] at hm
  rw [mergeMulti_uniform cq'.items.length (shardResult cq' T) (Ts.map (shardResult cq')) rfl
    (by intro x hx; obtain ⟨t, _, rfl⟩ := List.mem_map.mp hx; rfl)] at hm
  simp only [R.bind_ok, hpg, hpd, Bool.false_eq_true, if_false, R.pure_eq] at hm
  have hrowsEq : (((shardResult cq' T) :: Ts.map (shardResult cq')).map (·.rows)).flatten
      = (((T :: Ts).map fun t => window cq'.limit [fullRow cq'.items t])).flatten := by
    simp only [shardResult, List.map_cons, List.map_map]
    rw [shard_single cq' hagg' hg' hd' T]
    congr 2
    apply List.map_congr_left
    intro t _
    exact shard_single cq' hagg' hg' hd' t
  rw [hrowsEq] at hm
  -- the reference answer
  have href : evalPre cq (T :: Ts).flatten = [outOf cq (T :: Ts).flatten] := evalPre_single cq hagg hg hd _
  have hl := inv.limit
  -- does the per-table LIMIT keep the row?
  by_cases hzero : cq'.limit = some (0, 0)
  · -- LIMIT 0: every sub-table returns nothing, and so does the statement
    have hc : ∃ o, cq.limit = some (o, 0) ∧ o = 0 := by
      cases hlim : cq.limit with
      | none => rw [hlim] at hl; rw [hl.2] at hzero; cases hzero
      | some oc =>
        obtain ⟨o, c⟩ := oc
        rw [hlim] at hl
        rcases hl.2.2 with h1 | h1
        · rw [h1] at hzero
          simp only [Option.some.injEq, Prod.mk.injEq, true_and] at hzero
          exact ⟨o, by congr 2; omega, by omega⟩
        · rw [h1] at hzero; cases hzero
    obtain ⟨o, hlim, ho⟩ := hc
    subst ho
    have hempty : (((T :: Ts).map fun t => window cq'.limit [fullRow cq'.items t])).flatten = [] := by
      rw [hzero]
      apply List.flatten_eq_nil_iff.mpr
      intro l hl'
      obtain ⟨t, _, rfl⟩ := List.mem_map.mp hl'
      simp [window]
    rw [hempty] at hm
    simp only [buildSelectOnlyResult, haggs, Bool.false_eq_true, if_false, R.bind_ok] at hm
    have hres := mergeTail_spec inv _ res rfl (by intro x hx; cases hx) hm
    refine ⟨[outOf cq (T :: Ts).flatten], by rw [href], by simp, ?_⟩
    rw [hres, hlim]
    simp [window]
  · have hkeep : ∀ t : List Row, window cq'.limit [fullRow cq'.items t] = [fullRow cq'.items t] := by
      intro t
      cases hlim' : cq'.limit with
      | none => rfl
      | some oc =>
        obtain ⟨o', c'⟩ := oc
        have : o' = 0 ∧ c' ≠ 0 := by
          cases hlim : cq.limit with
          | none => rw [hlim] at hl; rw [hl.2] at hlim'; cases hlim'
          | some oc =>
            obtain ⟨o, c⟩ := oc
            rw [hlim] at hl
            rcases hl.2.2 with h1 | h1
            · rw [h1] at hlim'
              simp only [Option.some.injEq, Prod.mk.injEq] at hlim'
              refine ⟨hlim'.1.symm, ?_⟩
              intro hc'
              apply hzero
              rw [h1]
              congr 2
              omega
            · rw [h1] at hlim'; cases hlim'
        obtain ⟨rfl, hc'⟩ := this
        obtain ⟨n, rfl⟩ := Nat.exists_eq_succ_of_ne_zero hc'
        simp [window]
    have hflat : (((T :: Ts).map fun t => window cq'.limit [fullRow cq'.items t])).flatten
        = (T :: Ts).map (fullRow cq'.items) := by
      simp only [hkeep]
      induction (T :: Ts) with
      | nil => rfl
      | cons a l ih => simp [ih]
    rw [hflat] at hm
    simp only [List.map_cons, buildSelectOnlyResult, haggs, Bool.false_eq_true, if_false] at hm
    rw [inv.aggs, onlyLoop_spec cq'.items inv.aggOK hnocol Ts T (htyped T (by simp))
      (fun t ht => htyped t (by simp [ht]))] at hm
    simp only [R.bind_ok] at hm
    have hres := mergeTail_spec inv _ res rfl (by
      intro x hx
      simp only [List.mem_singleton] at hx
      subst hx
      exact fullRow_length _ _) hm
    refine ⟨[outOf cq (T :: Ts).flatten], by rw [href], by simp, ?_⟩
    rw [hres]
    simp only [List.mergeSort_singleton, List.flatten_cons]
    rw [← inv_toOut inv, ← List.map_singleton (f := toOut cq.items.length (sortCols p cq')), window_map, List.map_map]
    apply List.map_congr_left
    intro r _
    rfl

end

/-! ### GROUP BY -/

theorem keySliceOf_spec (d : Int) (v : Row) : ∀ (cols : List Int), InRange (cols.map (· + d)) v →
    keySliceOf cols d v = .ok (keyAt (cols.map (· + d)) v)
  | [], _ => rfl
  | c :: cols, h => by
    have hc := h (c + d) (by simp)
    simp only [keySliceOf, rowIdx]
    rw [if_pos hc, keySliceOf_spec d v cols (fun x hx => h x (by simp at hx ⊢; exact Or.inr hx))]
    simp [keyAt]

/-- the GROUP BY key of a chunk of rows: that of its first row -/
def kcOf (g : List Nat) : List Row → List Val
  | [] => []
  | r :: _ => groupKey g r

theorem groupKey_eq_evalItem (g : List Nat) (r : Row) (rs : List Row) :
    g.map (fun c => evalItem (r :: rs) (.col c)) = groupKey g r := by
  simp [groupKey, evalItem]

/-- the groups of `groupRows`: non-empty, of one key, and all rows of that key -/
theorem groupRows_mem (g : List Nat) (T : List Row) (c : List Row) (hc : c ∈ groupRows g T) :
    c ≠ [] ∧ c = T.filter (fun r => groupKey g r = kcOf g c) ∧ kcOf g c ∈ T.map (groupKey g) := by
  simp only [groupRows, List.mem_map] at hc
  obtain ⟨k, hk, rfl⟩ := hc
  have hk' : k ∈ T.map (groupKey g) := (mem_dedup _ _).mp hk
  obtain ⟨r, hr, rfl⟩ := List.mem_map.mp hk'
  have hmem : r ∈ T.filter (fun r' => groupKey g r' = groupKey g r) := by simp [hr]
  have hne : T.filter (fun r' => decide (groupKey g r' = groupKey g r)) ≠ [] := List.ne_nil_of_mem hmem
  have hkc : kcOf g (T.filter (fun r' => decide (groupKey g r' = groupKey g r))) = groupKey g r := by
    cases hf : T.filter (fun r' => decide (groupKey g r' = groupKey g r)) with
    | nil => exact absurd hf hne
    | cons x xs =>
      have : x ∈ T.filter (fun r' => decide (groupKey g r' = groupKey g r)) := by rw [hf]; simp
      simpa [kcOf] using (List.mem_filter.mp this).2
  refine ⟨hne, ?_, ?_⟩
  · rw [hkc]
  · rw [hkc]; exact hk'

theorem filter_eq_nodup {α : Type} [DecidableEq α] (k : α) : ∀ (l : List α), l.Nodup →
    l.filter (fun x => x = k) = if k ∈ l then [k] else []
  | [], _ => by simp
  | a :: l, h => by
    rw [List.nodup_cons] at h
    have ih := filter_eq_nodup k l h.2
    by_cases e : a = k
    · subst e
      have : a ∉ l := h.1
      simp [this] at ih
      simp [List.filter_cons]
      exact ih
    · have e' : ¬ k = a := fun x => e x.symm
      simp [List.filter_cons, e, e', ih]

theorem kcOf_filter (g : List Nat) (T : List Row) (k : List Val) (hk : k ∈ T.map (groupKey g)) :
    kcOf g (T.filter fun r => groupKey g r = k) = k := by
  obtain ⟨r, hr, rfl⟩ := List.mem_map.mp hk
  cases hf : T.filter (fun r' => decide (groupKey g r' = groupKey g r)) with
  | nil =>
    have : r ∈ T.filter (fun r' => decide (groupKey g r' = groupKey g r)) := by simp [hr]
    rw [hf] at this; cases this
  | cons x xs =>
    have : x ∈ T.filter (fun r' => decide (groupKey g r' = groupKey g r)) := by rw [hf]; simp
    simpa [kcOf] using (List.mem_filter.mp this).2

theorem groupRows_filter (g : List Nat) (T : List Row) (k : List Val) :
    (groupRows g T).filter (fun c => kcOf g c = k) =
      if k ∈ T.map (groupKey g) then [T.filter fun r => groupKey g r = k] else [] := by
  simp only [groupRows, List.filter_map]
  have hcongr : (dedup (T.map (groupKey g))).filter
      ((fun c => decide (kcOf g c = k)) ∘ fun κ => T.filter fun r => decide (groupKey g r = κ))
      = (dedup (T.map (groupKey g))).filter (fun κ => κ = k) := by
    apply List.filter_congr
    intro κ hκ
    have := kcOf_filter g T κ ((mem_dedup _ _).mp hκ)
    simp [this]
  rw [hcongr, filter_eq_nodup k _ (nodup_dedup _)]
  by_cases hk : k ∈ T.map (groupKey g)
  · have : k ∈ dedup (T.map (groupKey g)) := (mem_dedup _ _).mpr hk
    simp [hk, this]
  · have : k ∉ dedup (T.map (groupKey g)) := fun h => hk ((mem_dedup _ _).mp h)
    simp [hk, this]

/-- the rows with key `k` that a shard's groups (in any order) hold are the shard's rows with key `k` -/
theorem chunks_filter_flatten (g : List Nat) (T : List Row) (C : List (List Row)) (hC : C.Perm (groupRows g T))
    (k : List Val) : (C.filter fun c => kcOf g c = k).flatten = T.filter fun r => groupKey g r = k := by
  have hp := hC.filter (fun c => kcOf g c = k)
  rw [groupRows_filter] at hp
  by_cases hk : k ∈ T.map (groupKey g)
  · rw [if_pos hk] at hp
    rw [List.perm_singleton.mp hp]
    simp
  · rw [if_neg hk] at hp
    rw [List.perm_nil.mp hp]
    symm
    apply List.filter_eq_nil_iff.mpr
    intro r hr he
    apply hk
    simp only [decide_eq_true_eq] at he
    exact List.mem_map.mpr ⟨r, hr, he⟩

/-- across shards -/
theorem chunkRows_all (g : List Nat) : ∀ (Ts : List (List Row)) (Cs : List (List (List Row))),
    Cs.length = Ts.length → (∀ i (h1 : i < Cs.length) (h2 : i < Ts.length), (Cs[i]).Perm (groupRows g Ts[i])) →
    ∀ k, chunkRows (kcOf g) Cs.flatten k = Ts.flatten.filter fun r => groupKey g r = k
  | [], [], _, _, k => by simp [chunkRows]
  | [], _ :: _, h, _, _ => by simp at h
  | _ :: _, [], h, _, _ => by simp at h
  | T :: Ts, C :: Cs, hl, h, k => by
    have h0 := h 0 (by simp) (by simp)
    simp only [List.getElem_cons_zero] at h0
    have ih := chunkRows_all g Ts Cs (by simpa using hl) (fun i h1 h2 => by
      have := h (i + 1) (by simp; omega) (by simp; omega)
      simpa using this) k
    simp only [chunkRows, List.flatten_cons, List.filter_append, List.flatten_append] at ih ⊢
    rw [chunks_filter_flatten g T C h0 k, ih]

section
variable {schema : List Ty} {p : Plan} {cq cq' : CQ}

/-- the groups of one sub-table in the order the sub-table returns them -/
def chunksOf (cq' : CQ) (g : List Nat) (T : List Row) : List (List Row) :=
  if cq'.keys.isEmpty then groupRows g T
  else (groupRows g T).mergeSort fun a b => leOut cq'.dirs (outOf cq' a) (outOf cq' b)

theorem chunksOf_perm (cq' : CQ) (g : List Nat) (T : List Row) : (chunksOf cq' g T).Perm (groupRows g T) := by
  simp only [chunksOf]
  split
  · exact List.Perm.refl _
  · exact List.mergeSort_perm _ _

theorem evalPre_group (cq : CQ) (g : List Nat) (hg : cq.group = some g) (hd : cq.distinct = false) (T : List Row) :
    evalPre cq T = (groupRows g T).map (outOf cq) := by
  simp [evalPre, groupsOf, CQ.aggregated, hg, hd]

/-- the rows a sub-table returns for a GROUP BY statement without per-table LIMIT: one per group -/
theorem shard_group (cq' : CQ) (g : List Nat) (hg : cq'.group = some g) (hd : cq'.distinct = false)
    (hlim : cq'.limit = none) (T : List Row) :
    (evalCQ cq' T).map (·.vis) = (chunksOf cq' g T).map (fullRow cq'.items) := by
  simp only [evalCQ, hlim, window, evalSorted, evalPre_group cq' g hg hd, chunksOf]
  split
  · simp only [List.map_map]; rfl
  · rw [← List.map_mergeSort (r := fun a b => leOut cq'.dirs (outOf cq' a) (outOf cq' b))
      (s := leOut cq'.dirs) (f := outOf cq') (fun a _ b _ => rfl)]
    simp only [List.map_map]; rfl

theorem typedRows_filter {schema : List Ty} (T : List Row) (q : Row → Bool) (h : TypedRows schema T) :
    TypedRows schema (T.filter q) := fun r hr => h r (List.mem_filter.mp hr).1

/-- **GROUP BY** (no per-table LIMIT): the groups of the sub-tables are merged
    under the (injective) key encoding into the groups of the union, every
    aggregate column by its merger; then sorted, cut and trimmed. -/
theorem merge_group (inv : PlanInv schema p cq cq') (g : List Nat) (hg : cq.group = some g)
    (hd : cq.distinct = false) (hlim : cq'.limit = none)
    (tables : List (List Row)) (hne : tables ≠ []) (htyped : ∀ t ∈ tables, TypedRows schema t)
    (hkey : ∀ r ∈ tables.flatten, ∀ r' ∈ tables.flatten,
      generateMapKey (groupKey g r) = generateMapKey (groupKey g r') → groupKey g r = groupKey g r')
    (res : Result) (hm : mergeSelectResult p (tables.map (shardResult cq')) = .ok res) :
    Answer cq tables.flatten res.rows := by
  have hg' : cq'.group = some g := by rw [inv.group]; exact hg
  have hd' : cq'.distinct = false := by rw [inv.cdistinct]; exact hd
  have hpg : p.hasGroupBy = true := by rw [inv.pgroup, hg]; rfl
  have hpd : p.distinct = false := by rw [inv.pdistinct]; exact hd
  let Cs : List (List (List Row)) := tables.map (chunksOf cq' g)
  let kc := kcOf g
  -- the chunks: groups of some sub-table
  have hchunk : ∀ c ∈ Cs.flatten, ∃ t ∈ tables, c ∈ groupRows g t := by
    intro c hc
    obtain ⟨C, hC, hcC⟩ := List.mem_flatten.mp hc
    obtain ⟨t, ht, rfl⟩ := List.mem_map.mp hC
    exact ⟨t, ht, (chunksOf_perm cq' g t).mem_iff.mp hcC⟩
  have hgrpItems := inv.grp g hg
  have hchunkOK : ∀ c ∈ Cs.flatten, c ≠ [] ∧ TypedRows schema c ∧
      keySliceOf p.groupByColumn (planDelta p cq') (fullRow cq'.items c) = .ok (kc c) := by
    intro c hc
    obtain ⟨t, ht, hct⟩ := hchunk c hc
    obtain ⟨hne', hfil, _⟩ := groupRows_mem g t c hct
    refine ⟨hne', ?_, ?_⟩
    · rw [hfil]; exact typedRows_filter t _ (htyped t ht)
    · have hr := inRange_of_itemAt cq'.items (fullRow cq'.items c) (fullRow_length _ _) (groupCols' p cq')
        (g.map Item.col) (by rw [hgrpItems]; simp)
      rw [keySliceOf_spec _ _ _ hr]
      have := keyAt_of_itemAt cq'.items c (groupCols' p cq') (g.map Item.col) (by rw [hgrpItems]; simp)
      simp only [groupCols'] at this
      rw [this]
      cases c with
      | nil => exact absurd rfl hne'
      | cons r rs => simp [kc, kcOf, List.map_map, groupKey, evalItem]
  have hkc_mem : ∀ c ∈ Cs.flatten, ∃ r ∈ tables.flatten, kc c = groupKey g r := by
    intro c hc
    obtain ⟨t, ht, hct⟩ := hchunk c hc
    obtain ⟨_, _, hk⟩ := groupRows_mem g t c hct
    obtain ⟨r, hr, hrk⟩ := List.mem_map.mp hk
    exact ⟨r, List.mem_flatten.mpr ⟨t, ht, hr⟩, hrk.symm⟩
  have hinj : ∀ c ∈ Cs.flatten, ∀ c' ∈ Cs.flatten,
      generateMapKey (kc c) = generateMapKey (kc c') → kc c = kc c' := by
    intro c hc c' hc' e
    obtain ⟨r, hr, h1⟩ := hkc_mem c hc
    obtain ⟨r', hr', h2⟩ := hkc_mem c' hc'
    rw [h1, h2] at e ⊢
    exact hkey r hr r' hr' e
  -- the merged result sets
  obtain ⟨T, Ts, hT⟩ := List.exists_cons_of_ne_nil hne
  rw [mergeSelectResult_eq] at hm
  have hmm : mergeMultiResultSet (tables.map (shardResult cq')) =
      .ok { nfields := cq'.items.length, rows := Cs.flatten.map (fullRow cq'.items) } := by
    rw [hT, List.map_cons, mergeMulti_uniform cq'.items.length (shardResult cq' T) (Ts.map (shardResult cq')) rfl
      (by intro x hx; obtain ⟨t, _, rfl⟩ := List.mem_map.mp hx; rfl)]
    congr 2
    rw [← List.map_cons (f := shardResult cq'), ← hT]
    simp only [Cs, List.map_map, List.map_flatten]
    congr 1
    apply List.map_congr_left
    intro t _
    exact shard_group cq' g hg' hd' hlim t
  rw [hmm] at hm
  simp only [R.bind_ok, hpg, if_true, hpd, Bool.false_eq_true, if_false, R.pure_eq] at hm
  have hloop := groupLoop_chunks (schema := schema) p (planDelta p cq') cq'.items kc inv.aggs inv.aggOK
    Cs.flatten [] (by simpa using hchunkOK) (by simpa using hinj)
  have hstate0 : chunkState cq'.items kc [] = [] := by simp [chunkState, dedup, dedupAux]
  rw [hstate0, List.nil_append] at hloop
  have hdelta : delta p { nfields := cq'.items.length, rows := Cs.flatten.map (fullRow cq'.items) } = planDelta p cq' := by
    simp [delta, planDelta]
  simp only [buildSelectGroupByResult, hdelta, hloop, R.bind_ok] at hm
  -- the merged rows
  let K1 := dedup (Cs.flatten.map kc)
  have hmerged : (chunkState cq'.items kc Cs.flatten).map (·.2) =
      K1.map fun k => fullRow cq'.items (chunkRows kc Cs.flatten k) := by
    simp [chunkState, K1, List.map_map]
  rw [hmerged] at hm
  have hres := mergeTail_spec inv _ res rfl (by
    intro x hx
    obtain ⟨k, _, rfl⟩ := List.mem_map.mp hx
    exact fullRow_length _ _) hm
  -- keys and rows against the union
  have hrowsAll : ∀ k, chunkRows kc Cs.flatten k = tables.flatten.filter fun r => groupKey g r = k :=
    chunkRows_all g tables Cs (by simp [Cs]) (fun i h1 h2 => by
      simp only [Cs, List.getElem_map]
      exact chunksOf_perm cq' g _)
  have hK : K1.Perm (dedup (tables.flatten.map (groupKey g))) := by
    rw [List.perm_ext_iff_of_nodup (nodup_dedup _) (nodup_dedup _)]
    intro k
    rw [mem_dedup, mem_dedup]
    constructor
    · intro hk
      obtain ⟨c, hc, rfl⟩ := List.mem_map.mp hk
      obtain ⟨r, hr, h1⟩ := hkc_mem c hc
      exact List.mem_map.mpr ⟨r, hr, h1.symm⟩
    · intro hk
      obtain ⟨r, hr, rfl⟩ := List.mem_map.mp hk
      obtain ⟨t, ht, hrt⟩ := List.mem_flatten.mp hr
      have hkt : groupKey g r ∈ t.map (groupKey g) := List.mem_map.mpr ⟨r, hrt, rfl⟩
      have hc : (t.filter fun r' => groupKey g r' = groupKey g r) ∈ groupRows g t := by
        simp only [groupRows, List.mem_map]
        exact ⟨groupKey g r, (mem_dedup _ _).mpr hkt, rfl⟩
      have hc' : (t.filter fun r' => groupKey g r' = groupKey g r) ∈ Cs.flatten :=
        List.mem_flatten.mpr ⟨chunksOf cq' g t, List.mem_map.mpr ⟨t, ht, rfl⟩,
          (chunksOf_perm cq' g t).mem_iff.mpr hc⟩
      exact List.mem_map.mpr ⟨_, hc', kcOf_filter g t _ hkt⟩
  have hagg : cq.aggregated = true := by simp [CQ.aggregated, hg]
  let LF := leFull cq.dirs (sortCols p cq')
  let merged := K1.map fun k => fullRow cq'.items (chunkRows kc Cs.flatten k)
  refine ⟨(merged.mergeSort LF).map (toOut cq.items.length (sortCols p cq')), ?_, ?_, ?_⟩
  · rw [evalPre_group cq g hg hd]
    refine ((List.mergeSort_perm merged LF).map _).trans ?_
    simp only [merged, List.map_map, groupRows]
    refine (List.Perm.of_eq ?_).trans (hK.map _)
    apply List.map_congr_left
    intro k _
    simp only [Function.comp]
    rw [inv_toOut inv, hrowsAll k]
  · rw [List.pairwise_map]
    exact List.pairwise_mergeSort (leFull_trans _ _) (leFull_total _ _) _
  · rw [hres, window_map, List.map_map]
    apply List.map_congr_left
    intro r _
    rfl

end

/-! ### SELECT DISTINCT -/

theorem dedup_perm {α : Type} [DecidableEq α] {l1 l2 : List α} (h : l1.Perm l2) : (dedup l1).Perm (dedup l2) := by
  rw [List.perm_ext_iff_of_nodup (nodup_dedup _) (nodup_dedup _)]
  intro a
  rw [mem_dedup, mem_dedup]
  exact h.mem_iff

/-- first occurrences by a projection that is injective on the list are first occurrences -/
theorem dedupByAux_eq_dedupAux {α β : Type} [DecidableEq α] [DecidableEq β] (f : α → β) :
    ∀ (l seen : List α), (∀ a ∈ seen ++ l, ∀ b ∈ seen ++ l, f a = f b → a = b) →
    dedupByAux f (seen.map f) l = dedupAux seen l
  | [], _, _ => rfl
  | a :: l, seen, hinj => by
    simp only [dedupByAux, dedupAux]
    have hiff : f a ∈ seen.map f ↔ a ∈ seen := by
      constructor
      · intro h
        obtain ⟨b, hb, e⟩ := List.mem_map.mp h
        have := hinj b (by simp [hb]) a (by simp) e
        exact this ▸ hb
      · intro h; exact List.mem_map.mpr ⟨a, h, rfl⟩
    by_cases h : a ∈ seen
    · rw [if_pos (hiff.mpr h), if_pos h]
      exact dedupByAux_eq_dedupAux f l seen (fun x hx y hy => hinj x (by
        rcases List.mem_append.mp hx with h1 | h1
        · simp [h1]
        · simp [h1]) y (by
        rcases List.mem_append.mp hy with h1 | h1
        · simp [h1]
        · simp [h1]))
    · rw [if_neg (fun h' => h (hiff.mp h')), if_neg h]
      congr 1
      have := dedupByAux_eq_dedupAux f l (a :: seen) (fun x hx y hy => hinj x (by
        simp only [List.cons_append, List.mem_cons, List.mem_append] at hx ⊢
        rcases hx with h1 | h1 | h1 <;> simp [h1]) y (by
        simp only [List.cons_append, List.mem_cons, List.mem_append] at hy ⊢
        rcases hy with h1 | h1 | h1 <;> simp [h1]))
      simpa using this

theorem dedupBy_eq_dedup {α β : Type} [DecidableEq α] [DecidableEq β] (f : α → β) (l : List α)
    (hinj : ∀ a ∈ l, ∀ b ∈ l, f a = f b → a = b) : dedupBy f l = dedup l := by
  have := dedupByAux_eq_dedupAux f l [] (by simpa using hinj)
  simpa [dedupBy, dedup] using this

/-- first occurrences by `f` of a list of images under a section `g` of `f` -/
theorem dedupByAux_map_section {α β : Type} [DecidableEq α] [DecidableEq β] (f : β → α) (g : α → β) :
    ∀ (l seen : List α), (∀ a ∈ l, f (g a) = a) →
    dedupByAux f seen (l.map g) = (dedupAux seen l).map g
  | [], _, _ => rfl
  | a :: l, seen, hs => by
    have ha := hs a (by simp)
    have ih := fun seen' => dedupByAux_map_section f g l seen' (fun x hx => hs x (by simp [hx]))
    simp only [List.map_cons, dedupByAux, dedupAux, ha]
    split
    · exact ih seen
    · simp only [List.map_cons]
      congr 1
      exact ih (a :: seen)

/-- `removeDistinctRowInResult` on rows of full width: first occurrences by the map key -/
theorem removeDistinctRows_spec (N : Nat) : ∀ (rows : List Row) (seen : List (List UInt8)),
    (∀ r ∈ rows, r.length = N) →
    removeDistinctRows (N : Int) seen rows = .ok (dedupByAux generateMapKey seen rows)
  | [], _, _ => rfl
  | r :: rows, seen, h => by
    have hr := h r (by simp)
    have ih := fun seen' => removeDistinctRows_spec N rows seen' (fun x hx => h x (by simp [hx]))
    have hp : rowPrefix r (N : Int) = .ok r := by
      simp only [rowPrefix]
      rw [if_pos (by omega)]
      simp [← hr]
    simp only [removeDistinctRows, hp, dedupByAux]
    by_cases hm : generateMapKey r ∈ seen
    · have : seen.contains (generateMapKey r) = true := by simpa using hm
      rw [if_pos hm]
      simp only [this, if_true]
      exact ih seen
    · have : seen.contains (generateMapKey r) = false := by simpa using hm
      rw [if_neg hm]
      simp only [this, Bool.false_eq_true, if_false, ih]

/-- the core of the top-k argument: `P` are the candidates kept, `R` the rest, every `r ∈ R`
    has `o+c` candidates before it -/
theorem topk_core {α : Type} {le : α → α → Bool} (trans : ∀ a b c, le a b → le b c → le a c)
    (total : ∀ a b, le a b || le b a) (P R : List α) (o c : Nat)
    (H : ∀ r ∈ R, o + c ≤ countLe le P r) :
    ∃ S : List α, S.Perm (P ++ R) ∧ S.Pairwise (fun a b => le a b) ∧
      (S.drop o).take c = ((P.mergeSort le).drop o).take c := by
  refine ⟨(P.mergeSort le).take (o + c) ++ ((P.mergeSort le).drop (o + c) ++ R).mergeSort le,
    topk_perm P R (o + c), topk_sorted trans total P R (o + c) H, ?_⟩
  rw [window_prefix, take_drop_take]
  intro hne
  rw [List.length_take, List.length_mergeSort]
  have : o + c ≤ P.length := by
    by_cases hd : (P.mergeSort le).drop (o + c) = []
    · have hR : R ≠ [] := by
        intro hR
        apply hne
        simp [hd, hR]
      obtain ⟨r, hr⟩ := List.exists_mem_of_ne_nil R hR
      have h1 : o + c ≤ countLe le P r := H r hr
      have h2 : countLe le P r ≤ P.length := List.length_filter_le _ _
      omega
    · have h1 := List.length_pos_iff.mpr hd
      rw [List.length_drop, List.length_mergeSort] at h1
      omega
  omega

theorem map_dedupByAux {α β : Type} [DecidableEq β] (f : α → β) : ∀ (l : List α) (seen : List β),
    (dedupByAux f seen l).map f = dedupAux seen (l.map f)
  | [], _ => rfl
  | a :: l, seen => by
    simp only [dedupByAux, List.map_cons, dedupAux]
    split
    · exact map_dedupByAux f l seen
    · simp only [List.map_cons]; congr 1; exact map_dedupByAux f l (f a :: seen)

theorem mem_dedupByAux {α β : Type} [DecidableEq β] (f : α → β) : ∀ (l : List α) (seen : List β) (x : α),
    x ∈ dedupByAux f seen l → x ∈ l
  | [], _, _, h => by simp [dedupByAux] at h
  | a :: l, seen, x, h => by
    simp only [dedupByAux] at h
    split at h
    · exact List.mem_cons_of_mem _ (mem_dedupByAux f l seen x h)
    · rcases List.mem_cons.mp h with rfl | h
      · simp
      · exact List.mem_cons_of_mem _ (mem_dedupByAux f l _ x h)

section
variable {schema : List Ty} {p : Plan} {cq cq' : CQ}

theorem evalPre_plain_distinct (cq : CQ) (h : cq.aggregated = false) (hd : cq.distinct = true) (T : List Row) :
    evalPre cq T = dedupBy OutRow.vis (T.map fun r => outOf cq [r]) := by
  simp [evalPre, groupsOf, h, hd, List.map_map]
  rfl

/-- the rows a sub-table returns for SELECT DISTINCT without aggregation -/
theorem shard_plain_distinct (inv : PlanInv schema p cq cq') (h' : cq'.aggregated = false) (hd : cq.distinct = true)
    (T : List Row) :
    (evalCQ cq' T).map (·.vis) =
      window cq'.limit ((dedup (T.map fun r => fullRow cq'.items [r])).mergeSort (leFull cq.dirs (sortCols p cq'))) := by
  have hd' : cq'.distinct = true := by rw [inv.cdistinct]; exact hd
  have hdirs : cq'.dirs = cq.dirs := by simp [CQ.dirs, inv.keys]
  have hvis : (dedupBy OutRow.vis (T.map fun r => outOf cq' [r])).map (·.vis)
      = dedup (T.map fun r => fullRow cq'.items [r]) := by
    simp only [dedupBy, dedup, map_dedupByAux, List.map_map]; rfl
  simp only [evalCQ, ← window_map, evalSorted, evalPre_plain_distinct cq' h' hd']
  congr 1
  split
  · rename_i he
    have : cq.dirs = [] := by
      rw [← hdirs]; simp [CQ.dirs, List.isEmpty_iff.mp he]
    rw [this, mergeSort_true _ _ (leFull_nil _), hvis]
  · rw [List.map_mergeSort (s := leFull cq.dirs (sortCols p cq')), hvis]
    intro a ha b hb
    have ha' := mem_dedupByAux _ _ _ _ ha
    have hb' := mem_dedupByAux _ _ _ _ hb
    simp only [List.mem_map] at ha' hb'
    obtain ⟨ra, _, rfl⟩ := ha'
    obtain ⟨rb, _, rfl⟩ := hb'
    simp only [leOut, leFull, outOf_vis, inv_keyAt inv, hdirs]
    simp [outOf, inv.keys]

theorem nodup_length_le_of_subset {α : Type} [DecidableEq α] : ∀ (l Q : List α), l.Nodup → (∀ x ∈ l, x ∈ Q) →
    l.length ≤ Q.length
  | [], _, _, _ => by simp
  | a :: l, Q, hl, hsub => by
    rw [List.nodup_cons] at hl
    have ha : a ∈ Q := hsub a (by simp)
    have ih := nodup_length_le_of_subset l (Q.erase a) hl.2 (fun x hx => by
      have hne : x ≠ a := fun e => hl.1 (e ▸ hx)
      exact (List.mem_erase_of_ne hne).mpr (hsub x (by simp [hx])))
    rw [List.length_erase_of_mem ha] at ih
    have := List.length_pos_of_mem ha
    simp only [List.length_cons]
    omega

theorem nodup_length_le_filter {α : Type} [DecidableEq α] (l P : List α) (q : α → Bool) (hl : l.Nodup)
    (hsub : ∀ x ∈ l, x ∈ P ∧ q x = true) : l.length ≤ (P.filter q).length :=
  nodup_length_le_of_subset l (P.filter q) hl (fun x hx => List.mem_filter.mpr (hsub x hx))

/-- **SELECT DISTINCT without aggregation and without hidden columns**: the
    sub-tables return their distinct rows (sorted, cut to `offset+count`), the
    merge removes the duplicates between the sub-tables under the (injective)
    row key, sorts and cuts. -/
theorem merge_plain_distinct (inv : PlanInv schema p cq cq') (h : cq.aggregated = false) (h' : cq'.aggregated = false)
    (hd : cq.distinct = true) (hw : cq'.items.length = cq.items.length)
    (tables : List (List Row)) (hne : tables ≠ [])
    (hkey : ∀ r ∈ tables.flatten, ∀ r' ∈ tables.flatten,
      generateMapKey (fullRow cq'.items [r]) = generateMapKey (fullRow cq'.items [r']) →
      fullRow cq'.items [r] = fullRow cq'.items [r'])
    (res : Result) (hm : mergeSelectResult p (tables.map (shardResult cq')) = .ok res) :
    Answer cq tables.flatten res.rows := by
  let LF := leFull cq.dirs (sortCols p cq')
  let full := fun r : Row => fullRow cq'.items [r]
  have hgroup : cq.group = none := by
    simp only [CQ.aggregated, Bool.or_eq_false_iff] at h
    cases hg : cq.group with
    | none => rfl
    | some g => rw [hg] at h; simp at h
  have hpg : p.hasGroupBy = false := by rw [inv.pgroup, hgroup]; rfl
  have hpd : p.distinct = true := by rw [inv.pdistinct]; exact hd
  have haggs : p.aggs = [] := by
    rw [inv.aggs]
    apply aggPositions_nil_of_no_agg
    simp only [CQ.aggregated, Bool.or_eq_false_iff, List.any_eq_false] at h'
    intro it hit
    have := h'.1.2 it hit
    simpa using this
  -- the shard lists: distinct rows of each sub-table, sorted
  let Ls : List (List Row) := tables.map fun t => (dedup (t.map full)).mergeSort LF
  have hLs_mem : ∀ x, x ∈ Ls.flatten ↔ x ∈ tables.flatten.map full := by
    intro x
    simp only [Ls, List.mem_flatten, List.mem_map]
    constructor
    · rintro ⟨l, ⟨t, ht, rfl⟩, hx⟩
      rw [List.mem_mergeSort, mem_dedup] at hx
      obtain ⟨r, hr, rfl⟩ := List.mem_map.mp hx
      exact ⟨r, ⟨t, ht, hr⟩, rfl⟩
    · rintro ⟨r, ⟨t, ht, hr⟩, rfl⟩
      exact ⟨_, ⟨t, ht, rfl⟩, by rw [List.mem_mergeSort, mem_dedup]; exact List.mem_map.mpr ⟨r, hr, rfl⟩⟩
  -- merge the result sets
  obtain ⟨T, Ts, hT⟩ := List.exists_cons_of_ne_nil hne
  rw [mergeSelectResult_eq] at hm
  have hmm : mergeMultiResultSet (tables.map (shardResult cq')) =
      .ok { nfields := cq'.items.length, rows := (Ls.map (window cq'.limit)).flatten } := by
    rw [hT, List.map_cons, mergeMulti_uniform cq'.items.length (shardResult cq' T) (Ts.map (shardResult cq')) rfl
      (by intro x hx; obtain ⟨t, _, rfl⟩ := List.mem_map.mp hx; rfl)]
    congr 2
    rw [← List.map_cons (f := shardResult cq'), ← hT]
    simp only [Ls, List.map_map]
    congr 1
    apply List.map_congr_left
    intro t _
    exact shard_plain_distinct inv h' hd t
  rw [hmm] at hm
  let flat := (Ls.map (window cq'.limit)).flatten
  have hflat_sub : ∀ x ∈ flat, x ∈ tables.flatten.map full := by
    intro x hx
    simp only [flat, List.mem_flatten, List.mem_map] at hx
    obtain ⟨l, ⟨L, hL, rfl⟩, hxl⟩ := hx
    exact (hLs_mem x).mp (List.mem_flatten.mpr ⟨L, hL, mem_window _ _ _ hxl⟩)
  have hflat_len : ∀ x ∈ flat, x.length = cq'.items.length := by
    intro x hx
    obtain ⟨r, _, rfl⟩ := List.mem_map.mp (hflat_sub x hx)
    exact fullRow_length _ _
  have hcolcnt : (p.originColumnCount : Int) + delta p { nfields := cq'.items.length, rows := flat } = (cq'.items.length : Nat) := by
    have := inv.trim
    simp only [delta, planDelta] at this ⊢
    omega
  have hdistinct : removeDistinctRowInResult p { nfields := cq'.items.length, rows := flat } =
      .ok { nfields := cq'.items.length, rows := dedup flat } := by
    simp only [removeDistinctRowInResult, hcolcnt]
    rw [removeDistinctRows_spec cq'.items.length flat [] hflat_len]
    have : dedupByAux generateMapKey [] flat = dedup flat := by
      apply dedupBy_eq_dedup generateMapKey flat
      intro a ha b hb e
      obtain ⟨ra, hra, rfl⟩ := List.mem_map.mp (hflat_sub a ha)
      obtain ⟨rb, hrb, rfl⟩ := List.mem_map.mp (hflat_sub b hb)
      exact hkey ra hra rb hrb e
    rw [this]
  simp only [R.bind_ok, hpg, hpd, Bool.false_eq_true, if_false, if_true, buildSelectOnlyResult, haggs,
    List.isEmpty_nil] at hm
  rw [hdistinct] at hm
  simp only [R.bind_ok] at hm
  have hres := mergeTail_spec inv _ res rfl (by
    intro x hx
    exact hflat_len x ((mem_dedup _ _).mp hx)) hm
  -- the reference rows
  let Dall := dedup (tables.flatten.map full)
  have hLs_sorted : ∀ L ∈ Ls, L.Pairwise (fun a b => LF a b = true) := by
    intro L hL
    obtain ⟨t, _, rfl⟩ := List.mem_map.mp hL
    exact List.pairwise_mergeSort (leFull_trans _ _) (leFull_total _ _) _
  have hLs_nodup : ∀ L ∈ Ls, L.Nodup := by
    intro L hL
    obtain ⟨t, _, rfl⟩ := List.mem_map.mp hL
    exact (List.mergeSort_perm _ _).nodup_iff.mpr (nodup_dedup _)
  have hS : ∃ S : List Row, S.Perm Dall ∧ S.Pairwise (fun a b => LF a b = true) ∧
      window cq.limit S = window cq.limit ((dedup flat).mergeSort LF) := by
    have hl := inv.limit
    -- without a per-table LIMIT the candidates are all rows
    have hall : cq'.limit = none → (dedup flat).Perm Dall := by
      intro hnone
      rw [List.perm_ext_iff_of_nodup (nodup_dedup _) (nodup_dedup _)]
      intro x
      rw [mem_dedup, mem_dedup]
      simp only [flat, hnone, map_window_none]
      exact hLs_mem x
    cases hlim : cq.limit with
    | none =>
      rw [hlim] at hl
      exact ⟨(dedup flat).mergeSort LF, (List.mergeSort_perm _ _).trans (hall hl.2),
        List.pairwise_mergeSort (leFull_trans _ _) (leFull_total _ _) _, rfl⟩
    | some oc =>
      obtain ⟨o, c⟩ := oc
      rw [hlim] at hl
      rcases hl.2.2 with hl' | hl'
      · -- the candidates P and the rest R
        let P := dedup flat
        let R := Dall.filter fun x => x ∉ P
        have hP_sub : ∀ x ∈ P, x ∈ Dall := by
          intro x hx
          exact (mem_dedup _ _).mpr (hflat_sub x ((mem_dedup _ _).mp hx))
        have hPR : (P ++ R).Perm Dall := by
          rw [List.perm_ext_iff_of_nodup _ (nodup_dedup _)]
          · intro x
            simp only [R, List.mem_append, List.mem_filter, decide_eq_true_eq]
            constructor
            · rintro (hx | ⟨hx, _⟩)
              · exact hP_sub x hx
              · exact hx
            · intro hx
              by_cases hxP : x ∈ P
              · exact Or.inl hxP
              · exact Or.inr ⟨hx, hxP⟩
          · rw [List.nodup_append]
            refine ⟨nodup_dedup _, (nodup_dedup _).filter _, ?_⟩
            intro a ha b hb e
            simp only [R, List.mem_filter, decide_eq_true_eq] at hb
            exact hb.2 (e ▸ ha)
        have H : ∀ r ∈ R, o + c ≤ countLe LF P r := by
          intro r hr
          simp only [R, List.mem_filter, decide_eq_true_eq] at hr
          obtain ⟨hrD, hrP⟩ := hr
          have hrL : r ∈ Ls.flatten := (hLs_mem r).mpr ((mem_dedup _ _).mp hrD)
          obtain ⟨L, hL, hrL'⟩ := List.mem_flatten.mp hrL
          have hnot : r ∉ L.take (o + c) := by
            intro hin
            apply hrP
            rw [mem_dedup]
            simp only [flat, hl', map_window_take]
            exact List.mem_flatten.mpr ⟨_, List.mem_map.mpr ⟨L, hL, rfl⟩, hin⟩
          have hdrop : r ∈ L.drop (o + c) := by
            have := List.take_append_drop (o + c) L
            rw [← this] at hrL'
            rcases List.mem_append.mp hrL' with h1 | h1
            · exact absurd h1 hnot
            · exact h1
          have hsL := hLs_sorted L hL
          have hlen : o + c < L.length := by
            have := List.length_pos_of_mem hdrop
            simp at this; omega
          have hall' : ∀ x ∈ L.take (o + c), LF x r = true := by
            rw [← List.take_append_drop (o + c) L, List.pairwise_append] at hsL
            exact fun x hx => hsL.2.2 x hx r hdrop
          have hcount := nodup_length_le_filter (L.take (o + c)) P (fun x => LF x r)
            ((hLs_nodup L hL).sublist (List.take_sublist _ _)) (by
              intro x hx
              refine ⟨?_, hall' x hx⟩
              rw [mem_dedup]
              simp only [flat, hl', map_window_take]
              exact List.mem_flatten.mpr ⟨_, List.mem_map.mpr ⟨L, hL, rfl⟩, hx⟩)
          simp only [List.length_take] at hcount
          simp only [countLe]
          omega
        obtain ⟨S, hp, hs, hwin⟩ := topk_core (leFull_trans _ _) (leFull_total _ _) P R o c H
        exact ⟨S, hp.trans hPR, hs, by simpa [window] using hwin⟩
      · exact ⟨(dedup flat).mergeSort LF, (List.mergeSort_perm _ _).trans (hall hl'),
          List.pairwise_mergeSort (leFull_trans _ _) (leFull_total _ _) _, rfl⟩
  obtain ⟨S, hSp, hSs, hSw⟩ := hS
  refine ⟨S.map (toOut cq.items.length (sortCols p cq')), ?_, ?_, ?_⟩
  · rw [evalPre_plain_distinct cq h hd]
    have e1 : (tables.flatten.map fun r => outOf cq [r]) =
        (tables.flatten.map full).map (toOut cq.items.length (sortCols p cq')) := by
      simp only [List.map_map]
      apply List.map_congr_left
      intro r _
      exact (inv_toOut inv [r]).symm
    rw [e1]
    have e2 : dedupBy OutRow.vis ((tables.flatten.map full).map (toOut cq.items.length (sortCols p cq')))
        = Dall.map (toOut cq.items.length (sortCols p cq')) := by
      simp only [dedupBy, Dall, dedup]
      apply dedupByAux_map_section
      intro a ha
      obtain ⟨r, _, rfl⟩ := List.mem_map.mp ha
      simp only [toOut]
      apply List.take_of_length_le
      rw [fullRow_length]; omega
    rw [e2]
    exact hSp.map _
  · rw [List.pairwise_map]
    exact hSs
  · rw [hres, ← hSw, window_map, List.map_map]
    apply List.map_congr_left
    intro r _
    rfl

end

/-! ### GROUP BY with the per-table LIMIT kept -/

theorem chunksOf_eq (cq' : CQ) (g : List Nat) (T : List Row) :
    chunksOf cq' g T = (groupRows g T).mergeSort fun a b => leOut cq'.dirs (outOf cq' a) (outOf cq' b) := by
  simp only [chunksOf]
  split
  · rename_i he
    have : cq'.dirs = [] := by simp [CQ.dirs, List.isEmpty_iff.mp he]
    rw [mergeSort_true]
    intro a b
    simp [leOut, this, leKey]
  · rfl

/-- the rows a sub-table returns for a GROUP BY statement, before its LIMIT: one per group, sorted -/
theorem sorted_group (cq' : CQ) (g : List Nat) (hg : cq'.group = some g) (hd : cq'.distinct = false) (T : List Row) :
    (evalSorted cq' T).map (·.vis) = (chunksOf cq' g T).map (fullRow cq'.items) := by
  simp only [evalSorted, evalPre_group cq' g hg hd, chunksOf]
  split
  · simp only [List.map_map]; rfl
  · rw [← List.map_mergeSort (r := fun a b => leOut cq'.dirs (outOf cq' a) (outOf cq' b))
      (s := leOut cq'.dirs) (f := outOf cq') (fun a _ b _ => rfl)]
    simp only [List.map_map]; rfl

theorem shard_group_limit (cq' : CQ) (g : List Nat) (hg : cq'.group = some g) (hd : cq'.distinct = false)
    (n : Nat) (hlim : cq'.limit = some (0, n)) (T : List Row) :
    (evalCQ cq' T).map (·.vis) = ((chunksOf cq' g T).take n).map (fullRow cq'.items) := by
  simp only [evalCQ, hlim, ← window_map, sorted_group cq' g hg hd]
  simp [window, List.map_take]

theorem groupRows_keys (g : List Nat) (T : List Row) : (groupRows g T).map (kcOf g) = dedup (T.map (groupKey g)) := by
  simp only [groupRows, List.map_map]
  conv => rhs; rw [← List.map_id (dedup (T.map (groupKey g)))]
  apply List.map_congr_left
  intro k hk
  exact kcOf_filter g T k ((mem_dedup _ _).mp hk)

/-- a group of a sub-table: a first row carrying the key, all rows with that key -/
theorem chunk_head (g : List Nat) (T : List Row) (c : List Row) (hc : c ∈ groupRows g T) :
    ∃ r rs, c = r :: rs ∧ groupKey g r = kcOf g c ∧ ∀ x ∈ c, groupKey g x = kcOf g c := by
  obtain ⟨hne, hfil, _⟩ := groupRows_mem g T c hc
  have hall : ∀ x ∈ c, groupKey g x = kcOf g c := by
    intro x hx
    rw [hfil] at hx
    simpa using (List.mem_filter.mp hx).2
  cases c with
  | nil => exact absurd rfl hne
  | cons r rs => exact ⟨r, rs, rfl, hall r (by simp), hall⟩

section
variable {schema : List Ty} {p : Plan} {cq cq' : CQ}

theorem leFull_fullRow (inv : PlanInv schema p cq cq') (X Y : List Row) :
    leFull cq.dirs (sortCols p cq') (fullRow cq'.items X) (fullRow cq'.items Y) =
      leKey (cq.keys.map (·.2)) (cq.keys.map fun k => evalItem X k.1) (cq.keys.map fun k => evalItem Y k.1) := by
  simp only [leFull, inv_keyAt inv, CQ.dirs]

theorem filter_take_of_nodup {α β : Type} [DecidableEq β] (f : α → β) (C : List α) (n : Nat) (k : β)
    (hnd : (C.map f).Nodup) (hk : k ∈ C.map f → k ∈ (C.map f).take n) :
    (C.take n).filter (fun x => f x = k) = C.filter (fun x => f x = k) := by
  conv => rhs; rw [← List.take_append_drop n C]
  rw [List.filter_append]
  have : (C.drop n).filter (fun x => decide (f x = k)) = [] := by
    apply List.filter_eq_nil_iff.mpr
    intro x hx hfx
    simp only [decide_eq_true_eq] at hfx
    have hkC : k ∈ C.map f := List.mem_map.mpr ⟨x, List.mem_of_mem_drop hx, hfx⟩
    have hkT := hk hkC
    rw [← List.take_append_drop n C, List.map_append, List.nodup_append] at hnd
    rw [← List.map_take] at hkT
    exact hnd.2.2 k hkT k (List.mem_map.mpr ⟨x, hx, hfx⟩) rfl
  rw [this, List.append_nil]

theorem mem_window_take {α : Type} (l : List α) (o c : Nat) (x : α) (h : x ∈ (l.drop o).take c) : x ∈ l.take (o + c) := by
  rw [← take_drop_take] at h
  exact List.mem_of_mem_drop (List.mem_of_mem_take h)

/-- **GROUP BY with the per-table LIMIT kept** (ORDER BY starts with the GROUP BY
    columns and names all of them, so that the order of the groups is that of
    their keys): every sub-table returns its first `offset+count` groups; the
    groups among the first `offset+count` of the union are among the first
    `offset+count` of every sub-table that holds them, so their merged rows are
    complete, and they sort before every other (possibly incomplete) candidate. -/
theorem merge_group_limit (inv : PlanInv schema p cq cq') (g : List Nat) (hg : cq.group = some g)
    (hd : cq.distinct = false) (n : Nat) (hlim : cq'.limit = some (0, n)) (hcov : leadCovers g cq.keys = true)
    (tables : List (List Row)) (hne : tables ≠ []) (htyped : ∀ t ∈ tables, TypedRows schema t)
    (hkey : ∀ r ∈ tables.flatten, ∀ r' ∈ tables.flatten,
      generateMapKey (groupKey g r) = generateMapKey (groupKey g r') → groupKey g r = groupKey g r')
    (res : Result) (hm : mergeSelectResult p (tables.map (shardResult cq')) = .ok res) :
    Answer cq tables.flatten res.rows := by
  have hg' : cq'.group = some g := by rw [inv.group]; exact hg
  have hd' : cq'.distinct = false := by rw [inv.cdistinct]; exact hd
  have hpg : p.hasGroupBy = true := by rw [inv.pgroup, hg]; rfl
  have hpd : p.distinct = false := by rw [inv.pdistinct]; exact hd
  have hkeys' : cq'.keys = cq.keys := inv.keys
  -- the LIMIT of the statement
  obtain ⟨o, c, hcl, hn⟩ : ∃ o c, cq.limit = some (o, c) ∧ n = o + c := by
    have hl := inv.limit
    cases hlim' : cq.limit with
    | none => rw [hlim'] at hl; rw [hl.2] at hlim; cases hlim
    | some oc =>
      obtain ⟨o, c⟩ := oc
      rw [hlim'] at hl
      rcases hl.2.2 with h1 | h1
      · rw [h1] at hlim
        simp only [Option.some.injEq, Prod.mk.injEq, true_and] at hlim
        exact ⟨o, c, rfl, hlim.symm⟩
      · rw [h1] at hlim; cases hlim
  subst hn
  let lead := leadCols g cq.keys
  let leK := leG g lead cq.dirs
  have ktrans : ∀ a b c, leK a b → leK b c → leK a c := fun a b c => leG_trans g lead cq.dirs a b c
  have ktotal : ∀ a b, leK a b || leK b a := fun a b => leG_total g lead cq.dirs a b
  let kc := kcOf g
  let All : List (List (List Row)) := tables.map (chunksOf cq' g)
  let Cs : List (List (List Row)) := All.map (List.take (o + c))
  let Ls : List (List (List Val)) := All.map (List.map kc)
  -- the chunks: groups of some sub-table
  have hchunkAll : ∀ x ∈ All.flatten, ∃ t ∈ tables, x ∈ groupRows g t := by
    intro x hx
    obtain ⟨C, hC, hxC⟩ := List.mem_flatten.mp hx
    obtain ⟨t, ht, rfl⟩ := List.mem_map.mp hC
    exact ⟨t, ht, (chunksOf_perm cq' g t).mem_iff.mp hxC⟩
  have hkept_sub : ∀ x ∈ Cs.flatten, x ∈ All.flatten := by
    intro x hx
    obtain ⟨C', hC', hxC'⟩ := List.mem_flatten.mp hx
    obtain ⟨C, hC, rfl⟩ := List.mem_map.mp hC'
    exact List.mem_flatten.mpr ⟨C, hC, List.mem_of_mem_take hxC'⟩
  have hchunk : ∀ x ∈ Cs.flatten, ∃ t ∈ tables, x ∈ groupRows g t := fun x hx => hchunkAll x (hkept_sub x hx)
  have hgrpItems := inv.grp g hg
  have hchunkOK : ∀ x ∈ Cs.flatten, x ≠ [] ∧ TypedRows schema x ∧
      keySliceOf p.groupByColumn (planDelta p cq') (fullRow cq'.items x) = .ok (kc x) := by
    intro x hx
    obtain ⟨t, ht, hct⟩ := hchunk x hx
    obtain ⟨hne', hfil, _⟩ := groupRows_mem g t x hct
    refine ⟨hne', ?_, ?_⟩
    · rw [hfil]; exact typedRows_filter t _ (htyped t ht)
    · have hr := inRange_of_itemAt cq'.items (fullRow cq'.items x) (fullRow_length _ _) (groupCols' p cq')
        (g.map Item.col) (by rw [hgrpItems]; simp)
      rw [keySliceOf_spec _ _ _ hr]
      have := keyAt_of_itemAt cq'.items x (groupCols' p cq') (g.map Item.col) (by rw [hgrpItems]; simp)
      simp only [groupCols'] at this
      rw [this]
      cases x with
      | nil => exact absurd rfl hne'
      | cons r rs => simp [kc, kcOf, List.map_map, groupKey, evalItem]
  have hkc_memAll : ∀ x ∈ All.flatten, ∃ r ∈ tables.flatten, kc x = groupKey g r := by
    intro x hx
    obtain ⟨t, ht, hct⟩ := hchunkAll x hx
    obtain ⟨_, _, hk⟩ := groupRows_mem g t x hct
    obtain ⟨r, hr, hrk⟩ := List.mem_map.mp hk
    exact ⟨r, List.mem_flatten.mpr ⟨t, ht, hr⟩, hrk.symm⟩
  have hinj : ∀ x ∈ Cs.flatten, ∀ x' ∈ Cs.flatten,
      generateMapKey (kc x) = generateMapKey (kc x') → kc x = kc x' := by
    intro x hx x' hx' e
    obtain ⟨r, hr, h1⟩ := hkc_memAll x (hkept_sub x hx)
    obtain ⟨r', hr', h2⟩ := hkc_memAll x' (hkept_sub x' hx')
    rw [h1, h2] at e ⊢
    exact hkey r hr r' hr' e
  -- the merged result sets
  obtain ⟨T, Ts, hT⟩ := List.exists_cons_of_ne_nil hne
  rw [mergeSelectResult_eq] at hm
  have hmm : mergeMultiResultSet (tables.map (shardResult cq')) =
      .ok { nfields := cq'.items.length, rows := Cs.flatten.map (fullRow cq'.items) } := by
    rw [hT, List.map_cons, mergeMulti_uniform cq'.items.length (shardResult cq' T) (Ts.map (shardResult cq')) rfl
      (by intro x hx; obtain ⟨t, _, rfl⟩ := List.mem_map.mp hx; rfl)]
    congr 2
    rw [← List.map_cons (f := shardResult cq'), ← hT]
    simp only [Cs, All, List.map_map, List.map_flatten]
    congr 1
    apply List.map_congr_left
    intro t _
    exact shard_group_limit cq' g hg' hd' (o + c) hlim t
  rw [hmm] at hm
  simp only [R.bind_ok, hpg, if_true, hpd, Bool.false_eq_true, if_false, R.pure_eq] at hm
  have hloop := groupLoop_chunks (schema := schema) p (planDelta p cq') cq'.items kc inv.aggs inv.aggOK
    Cs.flatten [] (by simpa using hchunkOK) (by simpa using hinj)
  have hstate0 : chunkState cq'.items kc [] = [] := by simp [chunkState, dedup, dedupAux]
  rw [hstate0, List.nil_append] at hloop
  have hdelta : delta p { nfields := cq'.items.length, rows := Cs.flatten.map (fullRow cq'.items) } = planDelta p cq' := by
    simp [delta, planDelta]
  simp only [buildSelectGroupByResult, hdelta, hloop, R.bind_ok] at hm
  -- the merged rows: one per candidate key
  have hheads : heads (o + c) Ls = Cs.flatten.map kc := by
    simp only [heads, Ls, Cs, List.map_map, List.map_flatten]
    congr 1
    apply List.map_congr_left
    intro C _
    simp [List.map_take]
  let K1 := dedup (heads (o + c) Ls)
  let cand : List Val → Row := fun k => fullRow cq'.items (chunkRows kc Cs.flatten k)
  have hmerged : (chunkState cq'.items kc Cs.flatten).map (·.2) = K1.map cand := by
    simp [chunkState, K1, hheads, List.map_map, cand]
  rw [hmerged] at hm
  have hres := mergeTail_spec inv _ res rfl (by
    intro x hx
    obtain ⟨k, _, rfl⟩ := List.mem_map.mp hx
    exact fullRow_length _ _) hm
  -- the key lists of the sub-tables
  have hLsflat : Ls.flatten = All.flatten.map kc := by
    simp only [Ls, List.map_flatten]
  have hLs_nodup : ∀ L ∈ Ls, L.Nodup := by
    intro L hL
    obtain ⟨C, hC, rfl⟩ := List.mem_map.mp hL
    obtain ⟨t, ht, rfl⟩ := List.mem_map.mp hC
    rw [((chunksOf_perm cq' g t).map kc).nodup_iff, groupRows_keys]
    exact nodup_dedup _
  have hLs_sorted : ∀ L ∈ Ls, L.Pairwise (fun a b => leK a b = true) := by
    intro L hL
    obtain ⟨C, hC, rfl⟩ := List.mem_map.mp hL
    obtain ⟨t, ht, rfl⟩ := List.mem_map.mp hC
    rw [List.pairwise_map]
    have hs : (chunksOf cq' g t).Pairwise (fun a b => leOut cq'.dirs (outOf cq' a) (outOf cq' b) = true) := by
      rw [chunksOf_eq]
      exact List.pairwise_mergeSort (le := fun a b => leOut cq'.dirs (outOf cq' a) (outOf cq' b))
        (fun a b c => leOut_trans _ _ _ _) (fun a b => leOut_total _ _ _) _
    refine hs.imp_of_mem ?_
    intro a b ha hb hab
    obtain ⟨r, rs, rfl, hra, _⟩ := chunk_head g t a ((chunksOf_perm cq' g t).mem_iff.mp ha)
    obtain ⟨r', rs', rfl, hrb, _⟩ := chunk_head g t b ((chunksOf_perm cq' g t).mem_iff.mp hb)
    simp only [leOut, outOf, CQ.dirs, hkeys'] at hab
    have := leKey_groups_le g cq.keys r r' rs rs' hab
    simp only [leK, lead, kc, CQ.dirs, ← hra, ← hrb]
    exact this
  have hanti : ∀ a ∈ Ls.flatten, ∀ b ∈ Ls.flatten, leK a b = true → leK b a = true → a = b := by
    intro a ha b hb h1 h2
    rw [hLsflat] at ha hb
    obtain ⟨xa, hxa, rfl⟩ := List.mem_map.mp ha
    obtain ⟨xb, hxb, rfl⟩ := List.mem_map.mp hb
    obtain ⟨ra, _, hka⟩ := hkc_memAll xa hxa
    obtain ⟨rb, _, hkb⟩ := hkc_memAll xb hxb
    rw [hka, hkb] at h1 h2 ⊢
    refine leG_antisymm g lead cq.dirs (leadCols_mem g cq.keys) ?_ ?_ ra rb h1 h2
    · intro x hx
      have := List.all_eq_true.mp hcov x hx
      simpa using this
    · have := leadCols_length_le g cq.keys
      simpa [CQ.dirs, lead] using this
  obtain ⟨S, hSp, hSs, hSw⟩ := topk_nodup ktrans ktotal Ls hLs_sorted hLs_nodup o c
  have hcomplete := take_complete ktrans ktotal Ls hLs_sorted hLs_nodup hanti (o + c)
  -- keys and rows against the union
  let tru : List Val → List Row := fun k => tables.flatten.filter fun r => groupKey g r = k
  have hrowsAll : ∀ k, chunkRows kc All.flatten k = tru k :=
    chunkRows_all g tables All (by simp [All]) (fun i h1 h2 => by
      simp only [All, List.getElem_map]
      exact chunksOf_perm cq' g _)
  have hD : (dedup Ls.flatten).Perm (dedup (tables.flatten.map (groupKey g))) := by
    rw [List.perm_ext_iff_of_nodup (nodup_dedup _) (nodup_dedup _)]
    intro k
    rw [mem_dedup, mem_dedup, hLsflat]
    constructor
    · intro hk
      obtain ⟨x, hx, rfl⟩ := List.mem_map.mp hk
      obtain ⟨r, hr, h1⟩ := hkc_memAll x hx
      exact List.mem_map.mpr ⟨r, hr, h1.symm⟩
    · intro hk
      obtain ⟨r, hr, rfl⟩ := List.mem_map.mp hk
      obtain ⟨t, ht, hrt⟩ := List.mem_flatten.mp hr
      have hkt : groupKey g r ∈ t.map (groupKey g) := List.mem_map.mpr ⟨r, hrt, rfl⟩
      have hc : (t.filter fun r' => groupKey g r' = groupKey g r) ∈ groupRows g t := by
        simp only [groupRows, List.mem_map]
        exact ⟨groupKey g r, (mem_dedup _ _).mpr hkt, rfl⟩
      have hc' : (t.filter fun r' => groupKey g r' = groupKey g r) ∈ All.flatten :=
        List.mem_flatten.mpr ⟨chunksOf cq' g t, List.mem_map.mpr ⟨t, ht, rfl⟩,
          (chunksOf_perm cq' g t).mem_iff.mpr hc⟩
      exact List.mem_map.mpr ⟨_, hc', kcOf_filter g t _ hkt⟩
  -- a candidate / a group of the union: a first row carrying the key
  have hcand_head : ∀ k ∈ K1, ∃ r rs, chunkRows kc Cs.flatten k = r :: rs ∧ groupKey g r = k := by
    intro k hk
    have hk' : k ∈ Cs.flatten.map kc := by rw [← hheads]; exact (mem_dedup _ _).mp hk
    have hne' := chunkRows_ne_nil kc Cs.flatten k (fun x hx => (hchunkOK x hx).1) hk'
    cases hX : chunkRows kc Cs.flatten k with
    | nil => exact absurd hX hne'
    | cons r rs =>
      refine ⟨r, rs, rfl, ?_⟩
      have hr : r ∈ chunkRows kc Cs.flatten k := by rw [hX]; simp
      simp only [chunkRows] at hr
      obtain ⟨x, hxf, hrx⟩ := List.mem_flatten.mp hr
      have hx := (List.mem_filter.mp hxf).1
      have hkx : kc x = k := by simpa using (List.mem_filter.mp hxf).2
      obtain ⟨t, ht, hct⟩ := hchunk x hx
      obtain ⟨_, _, _, _, hall⟩ := chunk_head g t x hct
      rw [← hkx]
      exact hall r hrx
  have htru_head : ∀ k ∈ dedup (tables.flatten.map (groupKey g)), ∃ r rs, tru k = r :: rs ∧ groupKey g r = k := by
    intro k hk
    obtain ⟨r0, hr0, rfl⟩ := List.mem_map.mp ((mem_dedup _ _).mp hk)
    cases hX : tru (groupKey g r0) with
    | nil =>
      have : r0 ∈ tru (groupKey g r0) := List.mem_filter.mpr ⟨hr0, by simp⟩
      rw [hX] at this; cases this
    | cons r rs =>
      refine ⟨r, rs, rfl, ?_⟩
      have hr : r ∈ tru (groupKey g r0) := by rw [hX]; simp
      simpa [tru] using (List.mem_filter.mp hr).2
  let LF := leFull cq.dirs (sortCols p cq')
  -- sorting the candidates is sorting their keys
  have hsortmap : (K1.map cand).mergeSort LF = (K1.mergeSort leK).map cand := by
    symm
    apply List.map_mergeSort
    intro a ha b hb
    by_cases e : a = b
    · subst e
      have h1 : leK a a = true := by have := ktotal a a; simpa using this
      have h2 : LF (cand a) (cand a) = true := by
        have := leFull_total cq.dirs (sortCols p cq') (cand a) (cand a); simpa using this
      rw [h1, h2]
    · obtain ⟨r, rs, hra, hka⟩ := hcand_head a ha
      obtain ⟨r', rs', hrb, hkb⟩ := hcand_head b hb
      simp only [LF, cand, hra, hrb, leFull_fullRow inv]
      rw [leKey_groups_ne g cq.keys r r' rs rs' (by rw [hka, hkb]; exact e) hcov, hka, hkb]
      rfl
  -- the candidates of the window are complete
  have hcand_tru : ∀ k ∈ (K1.mergeSort leK).take (o + c), cand k = fullRow cq'.items (tru k) := by
    intro k hk
    simp only [cand]
    rw [← hrowsAll k]
    congr 1
    simp only [chunkRows, Cs, List.filter_flatten, List.map_map]
    congr 2
    apply List.map_congr_left
    intro C hC
    simp only [Function.comp]
    apply filter_take_of_nodup kc C (o + c) k
    · exact hLs_nodup _ (List.mem_map.mpr ⟨C, hC, rfl⟩)
    · intro hkC
      exact hcomplete k hk (C.map kc) (List.mem_map.mpr ⟨C, hC, rfl⟩) hkC
  have hSD := hSp.trans hD
  refine ⟨S.map (fun k => outOf cq (tru k)), ?_, ?_, ?_⟩
  · rw [evalPre_group cq g hg hd]
    simp only [groupRows, List.map_map]
    exact hSD.map _
  · rw [List.pairwise_map]
    have hnd : S.Nodup := hSD.nodup_iff.mpr (nodup_dedup _)
    have hboth := hSs.and hnd
    refine hboth.imp_of_mem ?_
    intro a b ha hb hab
    obtain ⟨r, rs, hra, hka⟩ := htru_head a (hSD.mem_iff.mp ha)
    obtain ⟨r', rs', hrb, hkb⟩ := htru_head b (hSD.mem_iff.mp hb)
    simp only [leOut, outOf, hra, hrb, CQ.dirs]
    rw [leKey_groups_ne g cq.keys r r' rs rs' (by rw [hka, hkb]; exact hab.2) hcov, hka, hkb]
    exact hab.1
  · rw [hres, hsortmap, hcl]
    simp only [window]
    rw [← List.map_drop, ← List.map_take, ← hSw, List.map_map, ← List.map_drop, ← List.map_take, List.map_map]
    apply List.map_congr_left
    intro k hk
    have hk' : k ∈ (K1.mergeSort leK).take (o + c) := by
      rw [hSw] at hk
      exact mem_window_take _ o c k hk
    simp only [Function.comp]
    rw [hcand_tru k hk', ← inv_toOut inv]
    rfl

end

/-! ### SELECT DISTINCT over aggregated / grouped statements -/

theorem dedupBy_singleton {α β : Type} [DecidableEq β] (f : α → β) (a : α) : dedupBy f [a] = [a] := by
  simp [dedupBy, dedupByAux]

theorem evalPre_single' (cq : CQ) (hagg : cq.aggregated = true) (hg : cq.group = none) (T : List Row) :
    evalPre cq T = [outOf cq T] := by
  cases hd : cq.distinct <;> simp [evalPre, groupsOf, hagg, hg, hd, dedupBy_singleton]

theorem shard_single' (cq' : CQ) (hagg : cq'.aggregated = true) (hg : cq'.group = none) (T : List Row) :
    (evalCQ cq' T).map (·.vis) = window cq'.limit [fullRow cq'.items T] := by
  simp only [evalCQ, ← window_map, evalSorted, evalPre_single' cq' hagg hg]
  congr 1
  split <;> simp [outOf_vis]

/-- `removeDistinctRowInResult` on rows at least as wide as the key: first occurrences by the key of the prefix -/
theorem removeDistinctRows_prefix (W : Nat) : ∀ (rows : List Row) (seen : List (List UInt8)),
    (∀ r ∈ rows, W ≤ r.length) →
    removeDistinctRows (W : Int) seen rows = .ok (dedupByAux (fun r => generateMapKey (r.take W)) seen rows)
  | [], _, _ => rfl
  | r :: rows, seen, h => by
    have hr := h r (by simp)
    have ih := fun seen' => removeDistinctRows_prefix W rows seen' (fun x hx => h x (by simp [hx]))
    have hp : rowPrefix r (W : Int) = .ok (r.take W) := by
      simp only [rowPrefix]
      rw [if_pos (by omega)]
      simp
    simp only [removeDistinctRows, hp, dedupByAux]
    by_cases hm : generateMapKey (r.take W) ∈ seen
    · have : seen.contains (generateMapKey (r.take W)) = true := by simpa using hm
      rw [if_pos hm]
      simp only [this, if_true]
      exact ih seen
    · have : seen.contains (generateMapKey (r.take W)) = false := by simpa using hm
      rw [if_neg hm]
      simp only [this, Bool.false_eq_true, if_false, ih]

section
variable {schema : List Ty} {p : Plan} {cq cq' : CQ}

theorem removeDistinct_spec (inv : PlanInv schema p cq cq') (rows : List Row)
    (hrows : ∀ r ∈ rows, r.length = cq'.items.length) :
    removeDistinctRowInResult p { nfields := cq'.items.length, rows := rows } =
      .ok { nfields := cq'.items.length,
            rows := dedupBy (fun r => generateMapKey (r.take cq.items.length)) rows } := by
  have hcolcnt : (p.originColumnCount : Int) + delta p { nfields := cq'.items.length, rows := rows } = (cq.items.length : Nat) := by
    have := inv.trim
    simp only [delta, planDelta] at this ⊢
    omega
  simp only [removeDistinctRowInResult, hcolcnt]
  rw [removeDistinctRows_prefix cq.items.length rows [] (fun r hr => by rw [hrows r hr]; exact inv.width)]
  rfl

theorem dedupBy_le_one {α β : Type} [DecidableEq β] (f : α → β) (l : List α) (h : l.length ≤ 1) : dedupBy f l = l := by
  match l, h with
  | [], _ => rfl
  | [a], _ => exact dedupBy_singleton f a
  | _ :: _ :: _, h => simp at h


/-- the DISTINCT step of `MergeSelectResult` on at most one row -/
theorem distinct_step_le_one (inv : PlanInv schema p cq cq') (rows : List Row)
    (hrows : ∀ r ∈ rows, r.length = cq'.items.length) (hlen : rows.length ≤ 1) :
    (if p.distinct = true then removeDistinctRowInResult p { nfields := cq'.items.length, rows := rows }
      else pure { nfields := cq'.items.length, rows := rows }) =
      R.ok { nfields := cq'.items.length, rows := rows } := by
  split
  · rw [removeDistinct_spec inv rows hrows, dedupBy_le_one _ _ hlen]
  · rfl

/-- **Aggregate functions without GROUP BY, with or without SELECT DISTINCT**
    (DISTINCT of the one row is the row). -/
theorem merge_aggregate_any (inv : PlanInv schema p cq cq') (hagg : cq.aggregated = true) (hagg' : cq'.aggregated = true)
    (hany : cq'.items.any Item.isAgg = true)
    (hg : cq.group = none) (hnocol : ∀ it ∈ cq'.items, ∀ c, it ≠ .col c)
    (tables : List (List Row)) (hne : tables ≠ []) (htyped : ∀ t ∈ tables, TypedRows schema t) (res : Result)
    (hm : mergeSelectResult p (tables.map (shardResult cq')) = .ok res) :
    Answer cq tables.flatten res.rows := by
  have hg' : cq'.group = none := by rw [inv.group]; exact hg
  have hpg : p.hasGroupBy = false := by rw [inv.pgroup, hg]; rfl
  have haggs : p.aggs.isEmpty = false := by
    rw [inv.aggs]
    simp only [List.any_eq_true] at hany
    obtain ⟨it, hit, hagg⟩ := hany
    obtain ⟨n, hn⟩ := List.getElem?_of_mem hit
    cases it with
    | agg k a d =>
      have : (n, k) ∈ aggPositions cq'.items := (mem_aggPosFrom _ 0 n k).mpr ⟨n, a, d, by simp, hn⟩
      cases hh : aggPositions cq'.items with
      | nil => rw [hh] at this; cases this
      | cons x xs => rfl
    | col c => simp [Item.isAgg] at hagg
    | const c => simp [Item.isAgg] at hagg
  obtain ⟨T, Ts, rfl⟩ := List.exists_cons_of_ne_nil hne
  rw [mergeSelectResult_eq] at hm
  simp only [List.map_cons] at hm
  rw [mergeMulti_uniform cq'.items.length (shardResult cq' T) (Ts.map (shardResult cq')) rfl
    (by intro x hx; obtain ⟨t, _, rfl⟩ := List.mem_map.mp hx; rfl)] at hm
  simp only [R.bind_ok, hpg, Bool.false_eq_true, if_false] at hm
  have hrowsEq : (((shardResult cq' T) :: Ts.map (shardResult cq')).map (·.rows)).flatten
      = (((T :: Ts).map fun t => window cq'.limit [fullRow cq'.items t])).flatten := by
    simp only [shardResult, List.map_cons, List.map_map]
    rw [shard_single' cq' hagg' hg' T]
    congr 2
    apply List.map_congr_left
    intro t _
    exact shard_single' cq' hagg' hg' t
  rw [hrowsEq] at hm
  -- the reference answer
  have href : evalPre cq (T :: Ts).flatten = [outOf cq (T :: Ts).flatten] := evalPre_single' cq hagg hg _
  have hl := inv.limit
  -- does the per-table LIMIT keep the row?
  by_cases hzero : cq'.limit = some (0, 0)
  · -- LIMIT 0: every sub-table returns nothing, and so does the statement
    have hc : ∃ o, cq.limit = some (o, 0) ∧ o = 0 := by
      cases hlim : cq.limit with
      | none => rw [hlim] at hl; rw [hl.2] at hzero; cases hzero
      | some oc =>
        obtain ⟨o, c⟩ := oc
        rw [hlim] at hl
        rcases hl.2.2 with h1 | h1
        · rw [h1] at hzero
          simp only [Option.some.injEq, Prod.mk.injEq, true_and] at hzero
          exact ⟨o, by congr 2; omega, by omega⟩
        · rw [h1] at hzero; cases hzero
    obtain ⟨o, hlim, ho⟩ := hc
    subst ho
    have hempty : (((T :: Ts).map fun t => window cq'.limit [fullRow cq'.items t])).flatten = [] := by
      rw [hzero]
      apply List.flatten_eq_nil_iff.mpr
      intro l hl'
      obtain ⟨t, _, rfl⟩ := List.mem_map.mp hl'
      simp [window]
    rw [hempty] at hm
    simp only [buildSelectOnlyResult, haggs, Bool.false_eq_true, if_false, R.bind_ok] at hm
    have hm' : mergeTail p { nfields := cq'.items.length, rows := [] } = .ok res := by
      by_cases hpd : p.distinct = true
      · rw [if_pos hpd, removeDistinct_spec inv [] (by intro x hx; cases hx), dedupBy_le_one _ _ (by simp)] at hm
        simpa using hm
      · rw [if_neg hpd] at hm
        simpa using hm
    have hres := mergeTail_spec inv _ res rfl (by intro x hx; cases hx) hm'
    refine ⟨[outOf cq (T :: Ts).flatten], by rw [href], by simp, ?_⟩
    rw [hres, hlim]
    simp [window]
  · have hkeep : ∀ t : List Row, window cq'.limit [fullRow cq'.items t] = [fullRow cq'.items t] := by
      intro t
      cases hlim' : cq'.limit with
      | none => rfl
      | some oc =>
        obtain ⟨o', c'⟩ := oc
        have : o' = 0 ∧ c' ≠ 0 := by
          cases hlim : cq.limit with
          | none => rw [hlim] at hl; rw [hl.2] at hlim'; cases hlim'
          | some oc =>
            obtain ⟨o, c⟩ := oc
            rw [hlim] at hl
            rcases hl.2.2 with h1 | h1
            · rw [h1] at hlim'
              simp only [Option.some.injEq, Prod.mk.injEq] at hlim'
              refine ⟨hlim'.1.symm, ?_⟩
              intro hc'
              apply hzero
              rw [h1]
              congr 2
              omega
            · rw [h1] at hlim'; cases hlim'
        obtain ⟨rfl, hc'⟩ := this
        obtain ⟨n, rfl⟩ := Nat.exists_eq_succ_of_ne_zero hc'
        simp [window]
    have hflat : (((T :: Ts).map fun t => window cq'.limit [fullRow cq'.items t])).flatten
        = (T :: Ts).map (fullRow cq'.items) := by
      simp only [hkeep]
      induction (T :: Ts) with
      | nil => rfl
      | cons a l ih => simp [ih]
    rw [hflat] at hm
    simp only [List.map_cons, buildSelectOnlyResult, haggs, Bool.false_eq_true, if_false] at hm
    rw [inv.aggs, onlyLoop_spec cq'.items inv.aggOK hnocol Ts T (htyped T (by simp))
      (fun t ht => htyped t (by simp [ht]))] at hm
    simp only [R.bind_ok] at hm
    have hlen1 : ∀ x ∈ [fullRow cq'.items (T ++ Ts.flatten)], x.length = cq'.items.length := by
      intro x hx
      simp only [List.mem_singleton] at hx
      subst hx
      exact fullRow_length _ _
    have hm' : mergeTail p { nfields := cq'.items.length, rows := [fullRow cq'.items (T ++ Ts.flatten)] } = .ok res := by
      by_cases hpd : p.distinct = true
      · rw [if_pos hpd, removeDistinct_spec inv _ hlen1, dedupBy_le_one _ _ (by simp)] at hm
        simpa using hm
      · rw [if_neg hpd] at hm
        simpa using hm
    have hres := mergeTail_spec inv _ res rfl hlen1 hm'
    refine ⟨[outOf cq (T :: Ts).flatten], by rw [href], by simp, ?_⟩
    rw [hres]
    simp only [List.mergeSort_singleton, List.flatten_cons]
    rw [← inv_toOut inv, ← List.map_singleton (f := toOut cq.items.length (sortCols p cq')), window_map, List.map_map]
    apply List.map_congr_left
    intro r _
    rfl

end

theorem dedupByAux_of_nodup {α β : Type} [DecidableEq β] (f : α → β) : ∀ (l : List α) (seen : List β),
    (l.map f).Nodup → (∀ a ∈ l, f a ∉ seen) → dedupByAux f seen l = l
  | [], _, _, _ => rfl
  | a :: l, seen, hnd, hs => by
    simp only [List.map_cons, List.nodup_cons] at hnd
    simp only [dedupByAux]
    rw [if_neg (hs a (by simp))]
    congr 1
    apply dedupByAux_of_nodup f l (f a :: seen) hnd.2
    intro b hb
    simp only [List.mem_cons, not_or]
    exact ⟨fun e => hnd.1 (e ▸ List.mem_map.mpr ⟨b, hb, rfl⟩), hs b (by simp [hb])⟩

theorem dedupBy_of_nodup {α β : Type} [DecidableEq β] (f : α → β) (l : List α) (h : (l.map f).Nodup) :
    dedupBy f l = l :=
  dedupByAux_of_nodup f l [] h (by simp)

/-- first occurrences by `f ∘ h` are first occurrences by `h` when `f` is injective on the `h`-values present -/
theorem dedupByAux_comp_inj {α β γ : Type} [DecidableEq β] [DecidableEq γ] (h : α → β) (f : β → γ) :
    ∀ (l : List α) (seen : List β), (∀ a ∈ seen ++ l.map h, ∀ b ∈ seen ++ l.map h, f a = f b → a = b) →
    dedupByAux (fun x => f (h x)) (seen.map f) l = dedupByAux h seen l
  | [], _, _ => rfl
  | a :: l, seen, hinj => by
    simp only [dedupByAux]
    have hiff : f (h a) ∈ seen.map f ↔ h a ∈ seen := by
      constructor
      · intro hm
        obtain ⟨b, hb, e⟩ := List.mem_map.mp hm
        have := hinj b (by simp [hb]) (h a) (by simp) e
        exact this ▸ hb
      · intro hm; exact List.mem_map.mpr ⟨h a, hm, rfl⟩
    by_cases hm : h a ∈ seen
    · rw [if_pos (hiff.mpr hm), if_pos hm]
      exact dedupByAux_comp_inj h f l seen (fun x hx y hy => hinj x (by
        rcases List.mem_append.mp hx with h1 | h1
        · simp [h1]
        · simp only [List.map_cons, List.mem_append, List.mem_cons]; exact Or.inr (Or.inr h1)) y (by
        rcases List.mem_append.mp hy with h1 | h1
        · simp [h1]
        · simp only [List.map_cons, List.mem_append, List.mem_cons]; exact Or.inr (Or.inr h1)))
    · rw [if_neg (fun h' => hm (hiff.mp h')), if_neg hm]
      congr 1
      have := dedupByAux_comp_inj h f l (h a :: seen) (fun x hx y hy => hinj x (by
        simp only [List.cons_append, List.mem_cons, List.mem_append, List.map_cons] at hx ⊢
        rcases hx with h1 | h1 | h1
        · exact Or.inr (Or.inl h1)
        · exact Or.inl h1
        · exact Or.inr (Or.inr h1)) y (by
        simp only [List.cons_append, List.mem_cons, List.mem_append, List.map_cons] at hy ⊢
        rcases hy with h1 | h1 | h1
        · exact Or.inr (Or.inl h1)
        · exact Or.inl h1
        · exact Or.inr (Or.inr h1)))
      simpa using this

theorem dedupBy_comp_inj {α β γ : Type} [DecidableEq β] [DecidableEq γ] (h : α → β) (f : β → γ) (l : List α)
    (hinj : ∀ a ∈ l.map h, ∀ b ∈ l.map h, f a = f b → a = b) :
    dedupBy (fun x => f (h x)) l = dedupBy h l := by
  have := dedupByAux_comp_inj h f l [] (by simpa using hinj)
  simpa [dedupBy] using this

theorem evalPre_group_nodup (cq : CQ) (g : List Nat) (hg : cq.group = some g) (T : List Row)
    (hnd : ((groupRows g T).map fun c => (outOf cq c).vis).Nodup) :
    evalPre cq T = (groupRows g T).map (outOf cq) := by
  simp only [evalPre, groupsOf, CQ.aggregated, hg, Option.isSome_some, Bool.true_or, Bool.not_true,
    Bool.false_eq_true, if_false]
  split
  · apply dedupBy_of_nodup
    rw [List.map_map]
    exact hnd
  · rfl

/-- the rows a sub-table returns for a GROUP BY statement, before its LIMIT -/
theorem sorted_group' (cq' : CQ) (g : List Nat) (T : List Row)
    (hpre : evalPre cq' T = (groupRows g T).map (outOf cq')) :
    (evalSorted cq' T).map (·.vis) = (chunksOf cq' g T).map (fullRow cq'.items) := by
  simp only [evalSorted, hpre, chunksOf]
  split
  · simp only [List.map_map]; rfl
  · rw [← List.map_mergeSort (r := fun a b => leOut cq'.dirs (outOf cq' a) (outOf cq' b))
      (s := leOut cq'.dirs) (f := outOf cq') (fun a _ b _ => rfl)]
    simp only [List.map_map]; rfl

section
variable {schema : List Ty} {p : Plan} {cq cq' : CQ}

/-- the GROUP BY key of a group, read from its (per-table) row -/
theorem keyAt_groupCols (inv : PlanInv schema p cq cq') (g : List Nat) (hg : cq.group = some g)
    (r : Row) (rs : List Row) :
    keyAt (groupCols' p cq') (fullRow cq'.items (r :: rs)) = groupKey g r := by
  have := keyAt_of_itemAt cq'.items (r :: rs) (groupCols' p cq') (g.map Item.col) (by rw [inv.grp g hg]; simp)
  rw [this]
  simp [List.map_map, groupKey, evalItem]

/-- the per-table rows of different groups differ (every GROUP BY column is among their columns),
    so SELECT DISTINCT removes nothing on a sub-table -/
theorem shard_vis_nodup (inv : PlanInv schema p cq cq') (g : List Nat) (hg : cq.group = some g) (T : List Row) :
    ((groupRows g T).map fun c => (outOf cq' c).vis).Nodup := by
  have hk : ((groupRows g T).map fun c => (outOf cq' c).vis).map (keyAt (groupCols' p cq')) =
      (groupRows g T).map (kcOf g) := by
    rw [List.map_map]
    apply List.map_congr_left
    intro c hc
    obtain ⟨r, rs, rfl, hr, _⟩ := chunk_head g T c hc
    simp only [Function.comp, outOf_vis, keyAt_groupCols inv g hg, kcOf]
  have hnd : (((groupRows g T).map fun c => (outOf cq' c).vis).map (keyAt (groupCols' p cq'))).Nodup := by
    rw [hk, groupRows_keys]; exact nodup_dedup _
  exact List.Pairwise.of_map (keyAt (groupCols' p cq')) (fun a b h e => h (congrArg _ e)) hnd

theorem keyAt_take (cols : List Int) (W : Nat) (row : Row) (hvis : ∀ c ∈ cols, 0 ≤ c ∧ c < (W : Int)) :
    keyAt cols (row.take W) = keyAt cols row := by
  simp only [keyAt]
  apply List.map_congr_left
  intro c hc
  have := hvis c hc
  have hlt : c.toNat < W := by omega
  simp [List.getD, hlt]

/-- **SELECT DISTINCT over a GROUP BY statement** (no per-table LIMIT; ORDER BY names
    selected expressions only): the sub-tables return their groups (DISTINCT removes
    nothing there, the GROUP BY columns are among the columns they return), the
    groups are merged, then DISTINCT keeps one row per visible row. -/
theorem merge_group_distinct (inv : PlanInv schema p cq cq') (g : List Nat) (hg : cq.group = some g)
    (hd : cq.distinct = true) (hlim : cq'.limit = none)
    (hvis : ∀ c ∈ sortCols p cq', 0 ≤ c ∧ c < (cq.items.length : Int))
    (tables : List (List Row)) (hne : tables ≠ []) (htyped : ∀ t ∈ tables, TypedRows schema t)
    (hkey : ∀ r ∈ tables.flatten, ∀ r' ∈ tables.flatten,
      generateMapKey (groupKey g r) = generateMapKey (groupKey g r') → groupKey g r = groupKey g r')
    (hrow : ∀ G ∈ groupRows g tables.flatten, ∀ G' ∈ groupRows g tables.flatten,
      generateMapKey (outOf cq G).vis = generateMapKey (outOf cq G').vis → (outOf cq G).vis = (outOf cq G').vis)
    (res : Result) (hm : mergeSelectResult p (tables.map (shardResult cq')) = .ok res) :
    Answer cq tables.flatten res.rows := by
  have hg' : cq'.group = some g := by rw [inv.group]; exact hg
  have hpg : p.hasGroupBy = true := by rw [inv.pgroup, hg]; rfl
  have hpd : p.distinct = true := by rw [inv.pdistinct]; exact hd
  let Cs : List (List (List Row)) := tables.map (chunksOf cq' g)
  let kc := kcOf g
  -- the chunks: groups of some sub-table
  have hchunk : ∀ c ∈ Cs.flatten, ∃ t ∈ tables, c ∈ groupRows g t := by
    intro c hc
    obtain ⟨C, hC, hcC⟩ := List.mem_flatten.mp hc
    obtain ⟨t, ht, rfl⟩ := List.mem_map.mp hC
    exact ⟨t, ht, (chunksOf_perm cq' g t).mem_iff.mp hcC⟩
  have hgrpItems := inv.grp g hg
  have hchunkOK : ∀ c ∈ Cs.flatten, c ≠ [] ∧ TypedRows schema c ∧
      keySliceOf p.groupByColumn (planDelta p cq') (fullRow cq'.items c) = .ok (kc c) := by
    intro c hc
    obtain ⟨t, ht, hct⟩ := hchunk c hc
    obtain ⟨hne', hfil, _⟩ := groupRows_mem g t c hct
    refine ⟨hne', ?_, ?_⟩
    · rw [hfil]; exact typedRows_filter t _ (htyped t ht)
    · have hr := inRange_of_itemAt cq'.items (fullRow cq'.items c) (fullRow_length _ _) (groupCols' p cq')
        (g.map Item.col) (by rw [hgrpItems]; simp)
      rw [keySliceOf_spec _ _ _ hr]
      have := keyAt_of_itemAt cq'.items c (groupCols' p cq') (g.map Item.col) (by rw [hgrpItems]; simp)
      simp only [groupCols'] at this
      rw [this]
      cases c with
      | nil => exact absurd rfl hne'
      | cons r rs => simp [kc, kcOf, List.map_map, groupKey, evalItem]
  have hkc_mem : ∀ c ∈ Cs.flatten, ∃ r ∈ tables.flatten, kc c = groupKey g r := by
    intro c hc
    obtain ⟨t, ht, hct⟩ := hchunk c hc
    obtain ⟨_, _, hk⟩ := groupRows_mem g t c hct
    obtain ⟨r, hr, hrk⟩ := List.mem_map.mp hk
    exact ⟨r, List.mem_flatten.mpr ⟨t, ht, hr⟩, hrk.symm⟩
  have hinj : ∀ c ∈ Cs.flatten, ∀ c' ∈ Cs.flatten,
      generateMapKey (kc c) = generateMapKey (kc c') → kc c = kc c' := by
    intro c hc c' hc' e
    obtain ⟨r, hr, h1⟩ := hkc_mem c hc
    obtain ⟨r', hr', h2⟩ := hkc_mem c' hc'
    rw [h1, h2] at e ⊢
    exact hkey r hr r' hr' e
  -- the merged result sets
  obtain ⟨T, Ts, hT⟩ := List.exists_cons_of_ne_nil hne
  rw [mergeSelectResult_eq] at hm
  have hmm : mergeMultiResultSet (tables.map (shardResult cq')) =
      .ok { nfields := cq'.items.length, rows := Cs.flatten.map (fullRow cq'.items) } := by
    rw [hT, List.map_cons, mergeMulti_uniform cq'.items.length (shardResult cq' T) (Ts.map (shardResult cq')) rfl
      (by intro x hx; obtain ⟨t, _, rfl⟩ := List.mem_map.mp hx; rfl)]
    congr 2
    rw [← List.map_cons (f := shardResult cq'), ← hT]
    simp only [Cs, List.map_map, List.map_flatten]
    congr 1
    apply List.map_congr_left
    intro t _
    simp only [Function.comp, shardResult, evalCQ, hlim, window]
    exact sorted_group' cq' g t (evalPre_group_nodup cq' g hg' t (shard_vis_nodup inv g hg t))
  rw [hmm] at hm
  simp only [R.bind_ok, hpg, if_true, hpd] at hm
  have hloop := groupLoop_chunks (schema := schema) p (planDelta p cq') cq'.items kc inv.aggs inv.aggOK
    Cs.flatten [] (by simpa using hchunkOK) (by simpa using hinj)
  have hstate0 : chunkState cq'.items kc [] = [] := by simp [chunkState, dedup, dedupAux]
  rw [hstate0, List.nil_append] at hloop
  have hdelta : delta p { nfields := cq'.items.length, rows := Cs.flatten.map (fullRow cq'.items) } = planDelta p cq' := by
    simp [delta, planDelta]
  simp only [buildSelectGroupByResult, hdelta, hloop, R.bind_ok] at hm
  -- the merged rows
  let K1 := dedup (Cs.flatten.map kc)
  let tru : List Val → List Row := fun k => tables.flatten.filter fun r => groupKey g r = k
  have hrowsAll : ∀ k, chunkRows kc Cs.flatten k = tru k :=
    chunkRows_all g tables Cs (by simp [Cs]) (fun i h1 h2 => by
      simp only [Cs, List.getElem_map]
      exact chunksOf_perm cq' g _)
  have hmerged : (chunkState cq'.items kc Cs.flatten).map (·.2) =
      K1.map fun k => fullRow cq'.items (tru k) := by
    simp only [chunkState, K1, List.map_map]
    apply List.map_congr_left
    intro k _
    simp only [Function.comp, hrowsAll]
  rw [hmerged] at hm
  let merged := K1.map fun k => fullRow cq'.items (tru k)
  have hlenm : ∀ x ∈ merged, x.length = cq'.items.length := by
    intro x hx
    obtain ⟨k, _, rfl⟩ := List.mem_map.mp hx
    exact fullRow_length _ _
  let D := dedup (tables.flatten.map (groupKey g))
  have hK : K1.Perm D := by
    rw [List.perm_ext_iff_of_nodup (nodup_dedup _) (nodup_dedup _)]
    intro k
    rw [mem_dedup, mem_dedup]
    constructor
    · intro hk
      obtain ⟨c, hc, rfl⟩ := List.mem_map.mp hk
      obtain ⟨r, hr, h1⟩ := hkc_mem c hc
      exact List.mem_map.mpr ⟨r, hr, h1.symm⟩
    · intro hk
      obtain ⟨r, hr, rfl⟩ := List.mem_map.mp hk
      obtain ⟨t, ht, hrt⟩ := List.mem_flatten.mp hr
      have hkt : groupKey g r ∈ t.map (groupKey g) := List.mem_map.mpr ⟨r, hrt, rfl⟩
      have hc : (t.filter fun r' => groupKey g r' = groupKey g r) ∈ groupRows g t := by
        simp only [groupRows, List.mem_map]
        exact ⟨groupKey g r, (mem_dedup _ _).mpr hkt, rfl⟩
      have hc' : (t.filter fun r' => groupKey g r' = groupKey g r) ∈ Cs.flatten :=
        List.mem_flatten.mpr ⟨chunksOf cq' g t, List.mem_map.mpr ⟨t, ht, rfl⟩,
          (chunksOf_perm cq' g t).mem_iff.mpr hc⟩
      exact List.mem_map.mpr ⟨_, hc', kcOf_filter g t _ hkt⟩
  -- the DISTINCT step: one row per visible row
  let W := cq.items.length
  let v : List Val → Row := fun k => (outOf cq (tru k)).vis
  have hvtake : ∀ k, (fullRow cq'.items (tru k)).take W = v k := by
    intro k
    simp only [v, W, outOf, inv_take inv]
  have hmv : merged.map (List.take W) = K1.map v := by
    simp only [merged, List.map_map]
    apply List.map_congr_left
    intro k _
    exact hvtake k
  rw [removeDistinct_spec inv merged hlenm] at hm
  have hdd : dedupBy (fun r : Row => generateMapKey (r.take W)) merged = dedupBy (List.take W) merged := by
    apply dedupBy_comp_inj (List.take W) generateMapKey merged
    rw [hmv]
    intro a ha b hb e
    obtain ⟨ka, hka, rfl⟩ := List.mem_map.mp ha
    obtain ⟨kb, hkb, rfl⟩ := List.mem_map.mp hb
    have hga : tru ka ∈ groupRows g tables.flatten := by
      simp only [groupRows, List.mem_map]
      exact ⟨ka, hK.mem_iff.mp hka, rfl⟩
    have hgb : tru kb ∈ groupRows g tables.flatten := by
      simp only [groupRows, List.mem_map]
      exact ⟨kb, hK.mem_iff.mp hkb, rfl⟩
    exact hrow _ hga _ hgb e
  rw [hdd] at hm
  simp only [R.bind_ok] at hm
  let A := dedupBy (List.take W) merged
  have hA_sub : ∀ x ∈ A, x ∈ merged := fun x hx => mem_dedupByAux _ _ _ x hx
  have hres := mergeTail_spec inv _ res rfl (fun x hx => hlenm x (hA_sub x hx)) hm
  let LF := leFull cq.dirs (sortCols p cq')
  let cols := sortCols p cq'
  let mk : Row → OutRow := fun x => { vis := x, key := keyAt cols x }
  have htoOut : ∀ x : Row, toOut W cols x = mk (x.take W) := by
    intro x
    simp only [toOut, mk, keyAt_take cols W x hvis]
  have houtmk : ∀ k, outOf cq (tru k) = mk (v k) := by
    intro k
    rw [← inv_toOut inv, htoOut, hvtake]
  refine ⟨(A.mergeSort LF).map (toOut W cols), ?_, ?_, ?_⟩
  · -- the reference rows
    have href : evalPre cq tables.flatten = (dedup (D.map v)).map mk := by
      have h1 : evalPre cq tables.flatten = dedupBy OutRow.vis ((groupRows g tables.flatten).map (outOf cq)) := by
        simp [evalPre, groupsOf, CQ.aggregated, hg, hd]
      rw [h1]
      have h2 : (groupRows g tables.flatten).map (outOf cq) = (D.map v).map mk := by
        simp only [groupRows, List.map_map, D]
        apply List.map_congr_left
        intro k _
        exact houtmk k
      rw [h2]
      simp only [dedupBy, dedup]
      apply dedupByAux_map_section
      intro a _
      rfl
    rw [href]
    refine ((List.mergeSort_perm A LF).map _).trans ?_
    have h3 : A.map (toOut W cols) = (A.map (List.take W)).map mk := by
      rw [List.map_map]
      apply List.map_congr_left
      intro x _
      exact htoOut x
    rw [h3]
    apply List.Perm.map
    have h4 : A.map (List.take W) = dedup (merged.map (List.take W)) := by
      simp only [A, dedupBy, dedup, map_dedupByAux]
    rw [h4, hmv]
    exact dedup_perm (hK.map v)
  · rw [List.pairwise_map]
    exact List.pairwise_mergeSort (leFull_trans _ _) (leFull_total _ _) _
  · rw [hres, window_map, List.map_map]
    apply List.map_congr_left
    intro r _
    rfl

end

/-! ### SELECT DISTINCT with hidden copies of selected expressions -/

/-- the value of a selected item, read from the visible row -/
def visVal (items : List Item) (x : Row) (it : Item) : Val := x.getD (items.idxOf it) .null

theorem visVal_vis (items : List Item) (G : List Row) (it : Item) (h : it ∈ items) :
    visVal items (items.map (evalItem G)) it = evalItem G it := by
  have hlt : items.idxOf it < items.length := List.idxOf_lt_length_of_mem h
  simp only [visVal, List.getD, List.getElem?_map, List.getElem?_eq_getElem hlt, Option.map_some, Option.getD_some]
  rw [List.getElem_idxOf hlt]

/-- when ORDER BY names selected expressions only, an answer row is determined by its visible part -/
theorem outOf_of_vis (cq : CQ) (hvis : ∀ k ∈ cq.keys, k.1 ∈ cq.items) (G : List Row) :
    outOf cq G = { vis := (outOf cq G).vis, key := cq.keys.map fun k => visVal cq.items (outOf cq G).vis k.1 } := by
  simp only [outOf]
  congr 1
  apply List.map_congr_left
  intro k hk
  exact (visVal_vis cq.items G k.1 (hvis k hk)).symm

theorem dedupByAux_map {α β γ : Type} [DecidableEq γ] (f : β → γ) (g : α → β) : ∀ (l : List α) (seen : List γ),
    dedupByAux f seen (l.map g) = (dedupByAux (fun x => f (g x)) seen l).map g
  | [], _ => rfl
  | a :: l, seen => by
    simp only [List.map_cons, dedupByAux]
    split
    · exact dedupByAux_map f g l seen
    · simp only [List.map_cons]; congr 1; exact dedupByAux_map f g l _

section
variable {schema : List Ty} {p : Plan} {cq cq' : CQ}

/-- when every hidden column repeats a selected expression, the per-table row is determined by its visible part -/
theorem fullRow_of_vis (inv : PlanInv schema p cq cq') (hdup : ∀ it ∈ cq'.items.drop cq.items.length, it ∈ cq.items)
    (G G' : List Row) (e : fullRow cq.items G = fullRow cq.items G') : fullRow cq'.items G = fullRow cq'.items G' := by
  have hsplit : cq'.items = cq.items ++ cq'.items.drop cq.items.length := by
    conv => lhs; rw [← List.take_append_drop cq.items.length cq'.items, inv.items]
  have hpt : ∀ it ∈ cq.items, evalItem G it = evalItem G' it := by
    intro it hit
    have := visVal_vis cq.items G it hit
    have h2 := visVal_vis cq.items G' it hit
    simp only [fullRow] at e
    rw [← this, ← h2, e]
  rw [hsplit]
  simp only [fullRow, List.map_append]
  congr 1
  apply List.map_congr_left
  intro it hit
  exact hpt it (hdup it hit)

/-- **SELECT DISTINCT without aggregation; hidden columns only as copies of selected ones**: the
    sub-tables return their distinct rows (sorted, cut to `offset+count`), the
    merge removes the duplicates between the sub-tables under the (injective)
    row key, sorts and cuts. -/
theorem merge_plain_distinct2 (inv : PlanInv schema p cq cq') (h : cq.aggregated = false) (h' : cq'.aggregated = false)
    (hd : cq.distinct = true) (hdup : ∀ it ∈ cq'.items.drop cq.items.length, it ∈ cq.items)
    (tables : List (List Row)) (hne : tables ≠ [])
    (hkey : ∀ r ∈ tables.flatten, ∀ r' ∈ tables.flatten,
      generateMapKey (fullRow cq.items [r]) = generateMapKey (fullRow cq.items [r']) →
      fullRow cq.items [r] = fullRow cq.items [r'])
    (res : Result) (hm : mergeSelectResult p (tables.map (shardResult cq')) = .ok res) :
    Answer cq tables.flatten res.rows := by
  let LF := leFull cq.dirs (sortCols p cq')
  let full := fun r : Row => fullRow cq'.items [r]
  let W := cq.items.length
  have hfull : ∀ r r' : Row, fullRow cq.items [r] = fullRow cq.items [r'] → full r = full r' :=
    fun r r' e => fullRow_of_vis inv hdup [r] [r'] e
  have htakeW : ∀ r : Row, (full r).take W = fullRow cq.items [r] := fun r => inv_take inv [r]
  have htake_inj : ∀ a ∈ tables.flatten.map full, ∀ b ∈ tables.flatten.map full, a.take W = b.take W → a = b := by
    intro a ha b hb e
    obtain ⟨ra, _, rfl⟩ := List.mem_map.mp ha
    obtain ⟨rb, _, rfl⟩ := List.mem_map.mp hb
    rw [htakeW, htakeW] at e
    exact hfull ra rb e
  have hgroup : cq.group = none := by
    simp only [CQ.aggregated, Bool.or_eq_false_iff] at h
    cases hg : cq.group with
    | none => rfl
    | some g => rw [hg] at h; simp at h
  have hpg : p.hasGroupBy = false := by rw [inv.pgroup, hgroup]; rfl
  have hpd : p.distinct = true := by rw [inv.pdistinct]; exact hd
  have haggs : p.aggs = [] := by
    rw [inv.aggs]
    apply aggPositions_nil_of_no_agg
    simp only [CQ.aggregated, Bool.or_eq_false_iff, List.any_eq_false] at h'
    intro it hit
    have := h'.1.2 it hit
    simpa using this
  -- the shard lists: distinct rows of each sub-table, sorted
  let Ls : List (List Row) := tables.map fun t => (dedup (t.map full)).mergeSort LF
  have hLs_mem : ∀ x, x ∈ Ls.flatten ↔ x ∈ tables.flatten.map full := by
    intro x
    simp only [Ls, List.mem_flatten, List.mem_map]
    constructor
    · rintro ⟨l, ⟨t, ht, rfl⟩, hx⟩
      rw [List.mem_mergeSort, mem_dedup] at hx
      obtain ⟨r, hr, rfl⟩ := List.mem_map.mp hx
      exact ⟨r, ⟨t, ht, hr⟩, rfl⟩
    · rintro ⟨r, ⟨t, ht, hr⟩, rfl⟩
      exact ⟨_, ⟨t, ht, rfl⟩, by rw [List.mem_mergeSort, mem_dedup]; exact List.mem_map.mpr ⟨r, hr, rfl⟩⟩
  -- merge the result sets
  obtain ⟨T, Ts, hT⟩ := List.exists_cons_of_ne_nil hne
  rw [mergeSelectResult_eq] at hm
  have hmm : mergeMultiResultSet (tables.map (shardResult cq')) =
      .ok { nfields := cq'.items.length, rows := (Ls.map (window cq'.limit)).flatten } := by
    rw [hT, List.map_cons, mergeMulti_uniform cq'.items.length (shardResult cq' T) (Ts.map (shardResult cq')) rfl
      (by intro x hx; obtain ⟨t, _, rfl⟩ := List.mem_map.mp hx; rfl)]
    congr 2
    rw [← List.map_cons (f := shardResult cq'), ← hT]
    simp only [Ls, List.map_map]
    congr 1
    apply List.map_congr_left
    intro t _
    exact shard_plain_distinct inv h' hd t
  rw [hmm] at hm
  let flat := (Ls.map (window cq'.limit)).flatten
  have hflat_sub : ∀ x ∈ flat, x ∈ tables.flatten.map full := by
    intro x hx
    simp only [flat, List.mem_flatten, List.mem_map] at hx
    obtain ⟨l, ⟨L, hL, rfl⟩, hxl⟩ := hx
    exact (hLs_mem x).mp (List.mem_flatten.mpr ⟨L, hL, mem_window _ _ _ hxl⟩)
  have hflat_len : ∀ x ∈ flat, x.length = cq'.items.length := by
    intro x hx
    obtain ⟨r, _, rfl⟩ := List.mem_map.mp (hflat_sub x hx)
    exact fullRow_length _ _
  have hdistinct : removeDistinctRowInResult p { nfields := cq'.items.length, rows := flat } =
      .ok { nfields := cq'.items.length, rows := dedup flat } := by
    rw [removeDistinct_spec inv flat hflat_len]
    have h1 : dedupBy (fun r : Row => generateMapKey (r.take W)) flat = dedupBy (List.take W) flat := by
      apply dedupBy_comp_inj (List.take W) generateMapKey flat
      intro a ha b hb e
      obtain ⟨xa, hxa, rfl⟩ := List.mem_map.mp ha
      obtain ⟨xb, hxb, rfl⟩ := List.mem_map.mp hb
      obtain ⟨ra, hra, rfl⟩ := List.mem_map.mp (hflat_sub xa hxa)
      obtain ⟨rb, hrb, rfl⟩ := List.mem_map.mp (hflat_sub xb hxb)
      rw [htakeW, htakeW] at e ⊢
      exact hkey ra hra rb hrb e
    have h2 : dedupBy (List.take W) flat = dedup flat :=
      dedupBy_eq_dedup (List.take W) flat (fun a ha b hb e => htake_inj a (hflat_sub a ha) b (hflat_sub b hb) e)
    rw [h1, h2]
  simp only [R.bind_ok, hpg, hpd, Bool.false_eq_true, if_false, if_true, buildSelectOnlyResult, haggs,
    List.isEmpty_nil] at hm
  rw [hdistinct] at hm
  simp only [R.bind_ok] at hm
  have hres := mergeTail_spec inv _ res rfl (by
    intro x hx
    exact hflat_len x ((mem_dedup _ _).mp hx)) hm
  -- the reference rows
  let Dall := dedup (tables.flatten.map full)
  have hLs_sorted : ∀ L ∈ Ls, L.Pairwise (fun a b => LF a b = true) := by
    intro L hL
    obtain ⟨t, _, rfl⟩ := List.mem_map.mp hL
    exact List.pairwise_mergeSort (leFull_trans _ _) (leFull_total _ _) _
  have hLs_nodup : ∀ L ∈ Ls, L.Nodup := by
    intro L hL
    obtain ⟨t, _, rfl⟩ := List.mem_map.mp hL
    exact (List.mergeSort_perm _ _).nodup_iff.mpr (nodup_dedup _)
  have hS : ∃ S : List Row, S.Perm Dall ∧ S.Pairwise (fun a b => LF a b = true) ∧
      window cq.limit S = window cq.limit ((dedup flat).mergeSort LF) := by
    have hl := inv.limit
    -- without a per-table LIMIT the candidates are all rows
    have hall : cq'.limit = none → (dedup flat).Perm Dall := by
      intro hnone
      rw [List.perm_ext_iff_of_nodup (nodup_dedup _) (nodup_dedup _)]
      intro x
      rw [mem_dedup, mem_dedup]
      simp only [flat, hnone, map_window_none]
      exact hLs_mem x
    cases hlim : cq.limit with
    | none =>
      rw [hlim] at hl
      exact ⟨(dedup flat).mergeSort LF, (List.mergeSort_perm _ _).trans (hall hl.2),
        List.pairwise_mergeSort (leFull_trans _ _) (leFull_total _ _) _, rfl⟩
    | some oc =>
      obtain ⟨o, c⟩ := oc
      rw [hlim] at hl
      rcases hl.2.2 with hl' | hl'
      · -- the candidates P and the rest R
        let P := dedup flat
        let R := Dall.filter fun x => x ∉ P
        have hP_sub : ∀ x ∈ P, x ∈ Dall := by
          intro x hx
          exact (mem_dedup _ _).mpr (hflat_sub x ((mem_dedup _ _).mp hx))
        have hPR : (P ++ R).Perm Dall := by
          rw [List.perm_ext_iff_of_nodup _ (nodup_dedup _)]
          · intro x
            simp only [R, List.mem_append, List.mem_filter, decide_eq_true_eq]
            constructor
            · rintro (hx | ⟨hx, _⟩)
              · exact hP_sub x hx
              · exact hx
            · intro hx
              by_cases hxP : x ∈ P
              · exact Or.inl hxP
              · exact Or.inr ⟨hx, hxP⟩
          · rw [List.nodup_append]
            refine ⟨nodup_dedup _, (nodup_dedup _).filter _, ?_⟩
            intro a ha b hb e
            simp only [R, List.mem_filter, decide_eq_true_eq] at hb
            exact hb.2 (e ▸ ha)
        have H : ∀ r ∈ R, o + c ≤ countLe LF P r := by
          intro r hr
          simp only [R, List.mem_filter, decide_eq_true_eq] at hr
          obtain ⟨hrD, hrP⟩ := hr
          have hrL : r ∈ Ls.flatten := (hLs_mem r).mpr ((mem_dedup _ _).mp hrD)
          obtain ⟨L, hL, hrL'⟩ := List.mem_flatten.mp hrL
          have hnot : r ∉ L.take (o + c) := by
            intro hin
            apply hrP
            rw [mem_dedup]
            simp only [flat, hl', map_window_take]
            exact List.mem_flatten.mpr ⟨_, List.mem_map.mpr ⟨L, hL, rfl⟩, hin⟩
          have hdrop : r ∈ L.drop (o + c) := by
            have := List.take_append_drop (o + c) L
            rw [← this] at hrL'
            rcases List.mem_append.mp hrL' with h1 | h1
            · exact absurd h1 hnot
            · exact h1
          have hsL := hLs_sorted L hL
          have hlen : o + c < L.length := by
            have := List.length_pos_of_mem hdrop
            simp at this; omega
          have hall' : ∀ x ∈ L.take (o + c), LF x r = true := by
            rw [← List.take_append_drop (o + c) L, List.pairwise_append] at hsL
            exact fun x hx => hsL.2.2 x hx r hdrop
          have hcount := nodup_length_le_filter (L.take (o + c)) P (fun x => LF x r)
            ((hLs_nodup L hL).sublist (List.take_sublist _ _)) (by
              intro x hx
              refine ⟨?_, hall' x hx⟩
              rw [mem_dedup]
              simp only [flat, hl', map_window_take]
              exact List.mem_flatten.mpr ⟨_, List.mem_map.mpr ⟨L, hL, rfl⟩, hx⟩)
          simp only [List.length_take] at hcount
          simp only [countLe]
          omega
        obtain ⟨S, hp, hs, hwin⟩ := topk_core (leFull_trans _ _) (leFull_total _ _) P R o c H
        exact ⟨S, hp.trans hPR, hs, by simpa [window] using hwin⟩
      · exact ⟨(dedup flat).mergeSort LF, (List.mergeSort_perm _ _).trans (hall hl'),
          List.pairwise_mergeSort (leFull_trans _ _) (leFull_total _ _) _, rfl⟩
  obtain ⟨S, hSp, hSs, hSw⟩ := hS
  refine ⟨S.map (toOut cq.items.length (sortCols p cq')), ?_, ?_, ?_⟩
  · rw [evalPre_plain_distinct cq h hd]
    have e1 : (tables.flatten.map fun r => outOf cq [r]) =
        (tables.flatten.map full).map (toOut cq.items.length (sortCols p cq')) := by
      simp only [List.map_map]
      apply List.map_congr_left
      intro r _
      exact (inv_toOut inv [r]).symm
    rw [e1]
    have e2 : dedupBy OutRow.vis ((tables.flatten.map full).map (toOut cq.items.length (sortCols p cq')))
        = Dall.map (toOut cq.items.length (sortCols p cq')) := by
      simp only [dedupBy]
      rw [dedupByAux_map]
      congr 1
      exact dedupBy_eq_dedup (List.take W) (tables.flatten.map full) htake_inj
    rw [e2]
    exact hSp.map _
  · rw [List.pairwise_map]
    exact hSs
  · rw [hres, ← hSw, window_map, List.map_map]
    apply List.map_congr_left
    intro r _
    rfl


/-- **SELECT DISTINCT over a GROUP BY statement** (no per-table LIMIT; ORDER BY names
    selected expressions only — possibly through a hidden copy of the column): the sub-tables return their groups (DISTINCT removes
    nothing there, the GROUP BY columns are among the columns they return), the
    groups are merged, then DISTINCT keeps one row per visible row. -/
theorem merge_group_distinct2 (inv : PlanInv schema p cq cq') (g : List Nat) (hg : cq.group = some g)
    (hd : cq.distinct = true) (hlim : cq'.limit = none)
    (hvis : ∀ k ∈ cq.keys, k.1 ∈ cq.items)
    (tables : List (List Row)) (hne : tables ≠ []) (htyped : ∀ t ∈ tables, TypedRows schema t)
    (hkey : ∀ r ∈ tables.flatten, ∀ r' ∈ tables.flatten,
      generateMapKey (groupKey g r) = generateMapKey (groupKey g r') → groupKey g r = groupKey g r')
    (hrow : ∀ G ∈ groupRows g tables.flatten, ∀ G' ∈ groupRows g tables.flatten,
      generateMapKey (outOf cq G).vis = generateMapKey (outOf cq G').vis → (outOf cq G).vis = (outOf cq G').vis)
    (res : Result) (hm : mergeSelectResult p (tables.map (shardResult cq')) = .ok res) :
    Answer cq tables.flatten res.rows := by
  have hg' : cq'.group = some g := by rw [inv.group]; exact hg
  have hpg : p.hasGroupBy = true := by rw [inv.pgroup, hg]; rfl
  have hpd : p.distinct = true := by rw [inv.pdistinct]; exact hd
  let Cs : List (List (List Row)) := tables.map (chunksOf cq' g)
  let kc := kcOf g
  -- the chunks: groups of some sub-table
  have hchunk : ∀ c ∈ Cs.flatten, ∃ t ∈ tables, c ∈ groupRows g t := by
    intro c hc
    obtain ⟨C, hC, hcC⟩ := List.mem_flatten.mp hc
    obtain ⟨t, ht, rfl⟩ := List.mem_map.mp hC
    exact ⟨t, ht, (chunksOf_perm cq' g t).mem_iff.mp hcC⟩
  have hgrpItems := inv.grp g hg
  have hchunkOK : ∀ c ∈ Cs.flatten, c ≠ [] ∧ TypedRows schema c ∧
      keySliceOf p.groupByColumn (planDelta p cq') (fullRow cq'.items c) = .ok (kc c) := by
    intro c hc
    obtain ⟨t, ht, hct⟩ := hchunk c hc
    obtain ⟨hne', hfil, _⟩ := groupRows_mem g t c hct
    refine ⟨hne', ?_, ?_⟩
    · rw [hfil]; exact typedRows_filter t _ (htyped t ht)
    · have hr := inRange_of_itemAt cq'.items (fullRow cq'.items c) (fullRow_length _ _) (groupCols' p cq')
        (g.map Item.col) (by rw [hgrpItems]; simp)
      rw [keySliceOf_spec _ _ _ hr]
      have := keyAt_of_itemAt cq'.items c (groupCols' p cq') (g.map Item.col) (by rw [hgrpItems]; simp)
      simp only [groupCols'] at this
      rw [this]
      cases c with
      | nil => exact absurd rfl hne'
      | cons r rs => simp [kc, kcOf, List.map_map, groupKey, evalItem]
  have hkc_mem : ∀ c ∈ Cs.flatten, ∃ r ∈ tables.flatten, kc c = groupKey g r := by
    intro c hc
    obtain ⟨t, ht, hct⟩ := hchunk c hc
    obtain ⟨_, _, hk⟩ := groupRows_mem g t c hct
    obtain ⟨r, hr, hrk⟩ := List.mem_map.mp hk
    exact ⟨r, List.mem_flatten.mpr ⟨t, ht, hr⟩, hrk.symm⟩
  have hinj : ∀ c ∈ Cs.flatten, ∀ c' ∈ Cs.flatten,
      generateMapKey (kc c) = generateMapKey (kc c') → kc c = kc c' := by
    intro c hc c' hc' e
    obtain ⟨r, hr, h1⟩ := hkc_mem c hc
    obtain ⟨r', hr', h2⟩ := hkc_mem c' hc'
    rw [h1, h2] at e ⊢
    exact hkey r hr r' hr' e
  -- the merged result sets
  obtain ⟨T, Ts, hT⟩ := List.exists_cons_of_ne_nil hne
  rw [mergeSelectResult_eq] at hm
  have hmm : mergeMultiResultSet (tables.map (shardResult cq')) =
      .ok { nfields := cq'.items.length, rows := Cs.flatten.map (fullRow cq'.items) } := by
    rw [hT, List.map_cons, mergeMulti_uniform cq'.items.length (shardResult cq' T) (Ts.map (shardResult cq')) rfl
      (by intro x hx; obtain ⟨t, _, rfl⟩ := List.mem_map.mp hx; rfl)]
    congr 2
    rw [← List.map_cons (f := shardResult cq'), ← hT]
    simp only [Cs, List.map_map, List.map_flatten]
    congr 1
    apply List.map_congr_left
    intro t _
    simp only [Function.comp, shardResult, evalCQ, hlim, window]
    exact sorted_group' cq' g t (evalPre_group_nodup cq' g hg' t (shard_vis_nodup inv g hg t))
  rw [hmm] at hm
  simp only [R.bind_ok, hpg, if_true, hpd] at hm
  have hloop := groupLoop_chunks (schema := schema) p (planDelta p cq') cq'.items kc inv.aggs inv.aggOK
    Cs.flatten [] (by simpa using hchunkOK) (by simpa using hinj)
  have hstate0 : chunkState cq'.items kc [] = [] := by simp [chunkState, dedup, dedupAux]
  rw [hstate0, List.nil_append] at hloop
  have hdelta : delta p { nfields := cq'.items.length, rows := Cs.flatten.map (fullRow cq'.items) } = planDelta p cq' := by
    simp [delta, planDelta]
  simp only [buildSelectGroupByResult, hdelta, hloop, R.bind_ok] at hm
  -- the merged rows
  let K1 := dedup (Cs.flatten.map kc)
  let tru : List Val → List Row := fun k => tables.flatten.filter fun r => groupKey g r = k
  have hrowsAll : ∀ k, chunkRows kc Cs.flatten k = tru k :=
    chunkRows_all g tables Cs (by simp [Cs]) (fun i h1 h2 => by
      simp only [Cs, List.getElem_map]
      exact chunksOf_perm cq' g _)
  have hmerged : (chunkState cq'.items kc Cs.flatten).map (·.2) =
      K1.map fun k => fullRow cq'.items (tru k) := by
    simp only [chunkState, K1, List.map_map]
    apply List.map_congr_left
    intro k _
    simp only [Function.comp, hrowsAll]
  rw [hmerged] at hm
  let merged := K1.map fun k => fullRow cq'.items (tru k)
  have hlenm : ∀ x ∈ merged, x.length = cq'.items.length := by
    intro x hx
    obtain ⟨k, _, rfl⟩ := List.mem_map.mp hx
    exact fullRow_length _ _
  let D := dedup (tables.flatten.map (groupKey g))
  have hK : K1.Perm D := by
    rw [List.perm_ext_iff_of_nodup (nodup_dedup _) (nodup_dedup _)]
    intro k
    rw [mem_dedup, mem_dedup]
    constructor
    · intro hk
      obtain ⟨c, hc, rfl⟩ := List.mem_map.mp hk
      obtain ⟨r, hr, h1⟩ := hkc_mem c hc
      exact List.mem_map.mpr ⟨r, hr, h1.symm⟩
    · intro hk
      obtain ⟨r, hr, rfl⟩ := List.mem_map.mp hk
      obtain ⟨t, ht, hrt⟩ := List.mem_flatten.mp hr
      have hkt : groupKey g r ∈ t.map (groupKey g) := List.mem_map.mpr ⟨r, hrt, rfl⟩
      have hc : (t.filter fun r' => groupKey g r' = groupKey g r) ∈ groupRows g t := by
        simp only [groupRows, List.mem_map]
        exact ⟨groupKey g r, (mem_dedup _ _).mpr hkt, rfl⟩
      have hc' : (t.filter fun r' => groupKey g r' = groupKey g r) ∈ Cs.flatten :=
        List.mem_flatten.mpr ⟨chunksOf cq' g t, List.mem_map.mpr ⟨t, ht, rfl⟩,
          (chunksOf_perm cq' g t).mem_iff.mpr hc⟩
      exact List.mem_map.mpr ⟨_, hc', kcOf_filter g t _ hkt⟩
  -- the DISTINCT step: one row per visible row
  let W := cq.items.length
  let v : List Val → Row := fun k => (outOf cq (tru k)).vis
  have hvtake : ∀ k, (fullRow cq'.items (tru k)).take W = v k := by
    intro k
    simp only [v, W, outOf, inv_take inv]
  have hmv : merged.map (List.take W) = K1.map v := by
    simp only [merged, List.map_map]
    apply List.map_congr_left
    intro k _
    exact hvtake k
  rw [removeDistinct_spec inv merged hlenm] at hm
  have hdd : dedupBy (fun r : Row => generateMapKey (r.take W)) merged = dedupBy (List.take W) merged := by
    apply dedupBy_comp_inj (List.take W) generateMapKey merged
    rw [hmv]
    intro a ha b hb e
    obtain ⟨ka, hka, rfl⟩ := List.mem_map.mp ha
    obtain ⟨kb, hkb, rfl⟩ := List.mem_map.mp hb
    have hga : tru ka ∈ groupRows g tables.flatten := by
      simp only [groupRows, List.mem_map]
      exact ⟨ka, hK.mem_iff.mp hka, rfl⟩
    have hgb : tru kb ∈ groupRows g tables.flatten := by
      simp only [groupRows, List.mem_map]
      exact ⟨kb, hK.mem_iff.mp hkb, rfl⟩
    exact hrow _ hga _ hgb e
  rw [hdd] at hm
  simp only [R.bind_ok] at hm
  let A := dedupBy (List.take W) merged
  have hA_sub : ∀ x ∈ A, x ∈ merged := fun x hx => mem_dedupByAux _ _ _ x hx
  have hres := mergeTail_spec inv _ res rfl (fun x hx => hlenm x (hA_sub x hx)) hm
  let LF := leFull cq.dirs (sortCols p cq')
  let cols := sortCols p cq'
  let mk : Row → OutRow := fun x => { vis := x, key := cq.keys.map fun k => visVal cq.items x k.1 }
  have houtmk : ∀ k, outOf cq (tru k) = mk (v k) := by
    intro k
    exact outOf_of_vis cq hvis (tru k)
  have htoOut : ∀ x ∈ merged, toOut W cols x = mk (x.take W) := by
    intro x hx
    obtain ⟨k, _, rfl⟩ := List.mem_map.mp hx
    rw [inv_toOut inv, hvtake, houtmk]
  refine ⟨(A.mergeSort LF).map (toOut W cols), ?_, ?_, ?_⟩
  · -- the reference rows
    have href : evalPre cq tables.flatten = (dedup (D.map v)).map mk := by
      have h1 : evalPre cq tables.flatten = dedupBy OutRow.vis ((groupRows g tables.flatten).map (outOf cq)) := by
        simp [evalPre, groupsOf, CQ.aggregated, hg, hd]
      rw [h1]
      have h2 : (groupRows g tables.flatten).map (outOf cq) = (D.map v).map mk := by
        simp only [groupRows, List.map_map, D]
        apply List.map_congr_left
        intro k _
        exact houtmk k
      rw [h2]
      simp only [dedupBy, dedup]
      apply dedupByAux_map_section
      intro a _
      rfl
    rw [href]
    refine ((List.mergeSort_perm A LF).map _).trans ?_
    have h3 : A.map (toOut W cols) = (A.map (List.take W)).map mk := by
      rw [List.map_map]
      apply List.map_congr_left
      intro x hx
      exact htoOut x (hA_sub x hx)
    rw [h3]
    apply List.Perm.map
    have h4 : A.map (List.take W) = dedup (merged.map (List.take W)) := by
      simp only [A, dedupBy, dedup, map_dedupByAux]
    rw [h4, hmv]
    exact dedup_perm (hK.map v)
  · rw [List.pairwise_map]
    exact List.pairwise_mergeSort (leFull_trans _ _) (leFull_total _ _) _
  · rw [hres, window_map, List.map_map]
    apply List.map_congr_left
    intro r _
    rfl


end

/-! ### GROUP BY with the per-table LIMIT kept, under SELECT DISTINCT -/

/-- the DISTINCT row key is injective on the visible rows computed from any rows of the
    tables (the rows the proxy holds while some sub-table has cut a group off by its LIMIT
    are computed from a part of the group) -/
def SubVisKeyInj (cq : CQ) (rows : List Row) : Prop :=
  ∀ X X' : List Row, X.Sublist rows → X'.Sublist rows →
    generateMapKey (outOf cq X).vis = generateMapKey (outOf cq X').vis → (outOf cq X).vis = (outOf cq X').vis

theorem sublist_flatten_of_sublist {α : Type} {l l' : List (List α)} (h : l.Sublist l') : l.flatten.Sublist l'.flatten := by
  induction h with
  | slnil => exact List.Sublist.refl _
  | cons a _ ih => simp only [List.flatten_cons]; exact List.sublist_append_of_sublist_right ih
  | cons_cons a _ ih => simp only [List.flatten_cons]; exact List.Sublist.append (List.Sublist.refl a) ih

theorem flatten_sublist_of_forall {α : Type} (f : List α → List α) : ∀ (ts : List (List α)),
    (∀ t ∈ ts, (f t).Sublist t) → (ts.map f).flatten.Sublist ts.flatten
  | [], _ => by simp
  | t :: ts, h => by
    simp only [List.map_cons, List.flatten_cons]
    exact List.Sublist.append (h t (by simp)) (flatten_sublist_of_forall f ts (fun x hx => h x (by simp [hx])))

theorem shard_group_limit' (cq' : CQ) (g : List Nat) (n : Nat) (hlim : cq'.limit = some (0, n)) (T : List Row)
    (hpre : evalPre cq' T = (groupRows g T).map (outOf cq')) :
    (evalCQ cq' T).map (·.vis) = ((chunksOf cq' g T).take n).map (fullRow cq'.items) := by
  simp only [evalCQ, hlim, ← window_map, sorted_group' cq' g T hpre]
  simp [window, List.map_take]

/-- when ORDER BY names selected expressions only and starts with all GROUP BY columns, the
    GROUP BY key of a group can be read from its visible row -/
theorem key_of_vis (cq : CQ) (g : List Nat) (hsel : ∀ k ∈ cq.keys, k.1 ∈ cq.items)
    (hcov : leadCovers g cq.keys = true) (r r' : Row) (rs rs' : List Row)
    (e : (outOf cq (r :: rs)).vis = (outOf cq (r' :: rs')).vis) : groupKey g r = groupKey g r' := by
  simp only [groupKey]
  apply List.map_congr_left
  intro c hc
  have hlead : c ∈ leadCols g cq.keys := by
    have := List.all_eq_true.mp hcov c hc
    simpa using this
  have hmem : Item.col c ∈ (cq.keys.take (leadCols g cq.keys).length).map (·.1) := by
    rw [leadCols_take]; exact List.mem_map.mpr ⟨c, hlead, rfl⟩
  obtain ⟨k, hk, hk1⟩ := List.mem_map.mp hmem
  have hitem : Item.col c ∈ cq.items := by rw [← hk1]; exact hsel k (List.mem_of_mem_take hk)
  have h1 := visVal_vis cq.items (r :: rs) (.col c) hitem
  have h2 := visVal_vis cq.items (r' :: rs') (.col c) hitem
  simp only [outOf] at e
  rw [e] at h1
  rw [h1] at h2
  simpa [evalItem] using h2

section
variable {schema : List Ty} {p : Plan} {cq cq' : CQ}

/-- **GROUP BY with the per-table LIMIT kept, with or without SELECT DISTINCT** (ORDER BY starts with the GROUP BY
    columns and names all of them, so that the order of the groups is that of
    their keys): every sub-table returns its first `offset+count` groups; the
    groups among the first `offset+count` of the union are among the first
    `offset+count` of every sub-table that holds them, so their merged rows are
    complete, and they sort before every other (possibly incomplete) candidate. -/
theorem merge_group_limit_any (inv : PlanInv schema p cq cq') (g : List Nat) (hg : cq.group = some g)
    (n : Nat) (hlim : cq'.limit = some (0, n)) (hcov : leadCovers g cq.keys = true)
    (tables : List (List Row)) (hne : tables ≠ []) (htyped : ∀ t ∈ tables, TypedRows schema t)
    (hkey : ∀ r ∈ tables.flatten, ∀ r' ∈ tables.flatten,
      generateMapKey (groupKey g r) = generateMapKey (groupKey g r') → groupKey g r = groupKey g r')
    (hdist : cq.distinct = true → (∀ k ∈ cq.keys, k.1 ∈ cq.items) ∧ SubVisKeyInj cq tables.flatten)
    (res : Result) (hm : mergeSelectResult p (tables.map (shardResult cq')) = .ok res) :
    Answer cq tables.flatten res.rows := by
  have hg' : cq'.group = some g := by rw [inv.group]; exact hg
  have hpg : p.hasGroupBy = true := by rw [inv.pgroup, hg]; rfl
  have hkeys' : cq'.keys = cq.keys := inv.keys
  -- the LIMIT of the statement
  obtain ⟨o, c, hcl, hn⟩ : ∃ o c, cq.limit = some (o, c) ∧ n = o + c := by
    have hl := inv.limit
    cases hlim' : cq.limit with
    | none => rw [hlim'] at hl; rw [hl.2] at hlim; cases hlim
    | some oc =>
      obtain ⟨o, c⟩ := oc
      rw [hlim'] at hl
      rcases hl.2.2 with h1 | h1
      · rw [h1] at hlim
        simp only [Option.some.injEq, Prod.mk.injEq, true_and] at hlim
        exact ⟨o, c, rfl, hlim.symm⟩
      · rw [h1] at hlim; cases hlim
  subst hn
  let lead := leadCols g cq.keys
  let leK := leG g lead cq.dirs
  have ktrans : ∀ a b c, leK a b → leK b c → leK a c := fun a b c => leG_trans g lead cq.dirs a b c
  have ktotal : ∀ a b, leK a b || leK b a := fun a b => leG_total g lead cq.dirs a b
  let kc := kcOf g
  let All : List (List (List Row)) := tables.map (chunksOf cq' g)
  let Cs : List (List (List Row)) := All.map (List.take (o + c))
  let Ls : List (List (List Val)) := All.map (List.map kc)
  -- the chunks: groups of some sub-table
  have hchunkAll : ∀ x ∈ All.flatten, ∃ t ∈ tables, x ∈ groupRows g t := by
    intro x hx
    obtain ⟨C, hC, hxC⟩ := List.mem_flatten.mp hx
    obtain ⟨t, ht, rfl⟩ := List.mem_map.mp hC
    exact ⟨t, ht, (chunksOf_perm cq' g t).mem_iff.mp hxC⟩
  have hkept_sub : ∀ x ∈ Cs.flatten, x ∈ All.flatten := by
    intro x hx
    obtain ⟨C', hC', hxC'⟩ := List.mem_flatten.mp hx
    obtain ⟨C, hC, rfl⟩ := List.mem_map.mp hC'
    exact List.mem_flatten.mpr ⟨C, hC, List.mem_of_mem_take hxC'⟩
  have hchunk : ∀ x ∈ Cs.flatten, ∃ t ∈ tables, x ∈ groupRows g t := fun x hx => hchunkAll x (hkept_sub x hx)
  have hgrpItems := inv.grp g hg
  have hchunkOK : ∀ x ∈ Cs.flatten, x ≠ [] ∧ TypedRows schema x ∧
      keySliceOf p.groupByColumn (planDelta p cq') (fullRow cq'.items x) = .ok (kc x) := by
    intro x hx
    obtain ⟨t, ht, hct⟩ := hchunk x hx
    obtain ⟨hne', hfil, _⟩ := groupRows_mem g t x hct
    refine ⟨hne', ?_, ?_⟩
    · rw [hfil]; exact typedRows_filter t _ (htyped t ht)
    · have hr := inRange_of_itemAt cq'.items (fullRow cq'.items x) (fullRow_length _ _) (groupCols' p cq')
        (g.map Item.col) (by rw [hgrpItems]; simp)
      rw [keySliceOf_spec _ _ _ hr]
      have := keyAt_of_itemAt cq'.items x (groupCols' p cq') (g.map Item.col) (by rw [hgrpItems]; simp)
      simp only [groupCols'] at this
      rw [this]
      cases x with
      | nil => exact absurd rfl hne'
      | cons r rs => simp [kc, kcOf, List.map_map, groupKey, evalItem]
  have hkc_memAll : ∀ x ∈ All.flatten, ∃ r ∈ tables.flatten, kc x = groupKey g r := by
    intro x hx
    obtain ⟨t, ht, hct⟩ := hchunkAll x hx
    obtain ⟨_, _, hk⟩ := groupRows_mem g t x hct
    obtain ⟨r, hr, hrk⟩ := List.mem_map.mp hk
    exact ⟨r, List.mem_flatten.mpr ⟨t, ht, hr⟩, hrk.symm⟩
  have hinj : ∀ x ∈ Cs.flatten, ∀ x' ∈ Cs.flatten,
      generateMapKey (kc x) = generateMapKey (kc x') → kc x = kc x' := by
    intro x hx x' hx' e
    obtain ⟨r, hr, h1⟩ := hkc_memAll x (hkept_sub x hx)
    obtain ⟨r', hr', h2⟩ := hkc_memAll x' (hkept_sub x' hx')
    rw [h1, h2] at e ⊢
    exact hkey r hr r' hr' e
  -- the merged result sets
  obtain ⟨T, Ts, hT⟩ := List.exists_cons_of_ne_nil hne
  rw [mergeSelectResult_eq] at hm
  have hmm : mergeMultiResultSet (tables.map (shardResult cq')) =
      .ok { nfields := cq'.items.length, rows := Cs.flatten.map (fullRow cq'.items) } := by
    rw [hT, List.map_cons, mergeMulti_uniform cq'.items.length (shardResult cq' T) (Ts.map (shardResult cq')) rfl
      (by intro x hx; obtain ⟨t, _, rfl⟩ := List.mem_map.mp hx; rfl)]
    congr 2
    rw [← List.map_cons (f := shardResult cq'), ← hT]
    simp only [Cs, All, List.map_map, List.map_flatten]
    congr 1
    apply List.map_congr_left
    intro t _
    exact shard_group_limit' cq' g (o + c) hlim t (evalPre_group_nodup cq' g hg' t (shard_vis_nodup inv g hg t))
  rw [hmm] at hm
  simp only [R.bind_ok, hpg, if_true] at hm
  have hloop := groupLoop_chunks (schema := schema) p (planDelta p cq') cq'.items kc inv.aggs inv.aggOK
    Cs.flatten [] (by simpa using hchunkOK) (by simpa using hinj)
  have hstate0 : chunkState cq'.items kc [] = [] := by simp [chunkState, dedup, dedupAux]
  rw [hstate0, List.nil_append] at hloop
  have hdelta : delta p { nfields := cq'.items.length, rows := Cs.flatten.map (fullRow cq'.items) } = planDelta p cq' := by
    simp [delta, planDelta]
  simp only [buildSelectGroupByResult, hdelta, hloop, R.bind_ok] at hm
  -- the merged rows: one per candidate key
  have hheads : heads (o + c) Ls = Cs.flatten.map kc := by
    simp only [heads, Ls, Cs, List.map_map, List.map_flatten]
    congr 1
    apply List.map_congr_left
    intro C _
    simp [List.map_take]
  let K1 := dedup (heads (o + c) Ls)
  let cand : List Val → Row := fun k => fullRow cq'.items (chunkRows kc Cs.flatten k)
  have hmerged : (chunkState cq'.items kc Cs.flatten).map (·.2) = K1.map cand := by
    simp [chunkState, K1, hheads, List.map_map, cand]
  rw [hmerged] at hm
  -- the key lists of the sub-tables
  have hLsflat : Ls.flatten = All.flatten.map kc := by
    simp only [Ls, List.map_flatten]
  have hLs_nodup : ∀ L ∈ Ls, L.Nodup := by
    intro L hL
    obtain ⟨C, hC, rfl⟩ := List.mem_map.mp hL
    obtain ⟨t, ht, rfl⟩ := List.mem_map.mp hC
    rw [((chunksOf_perm cq' g t).map kc).nodup_iff, groupRows_keys]
    exact nodup_dedup _
  have hLs_sorted : ∀ L ∈ Ls, L.Pairwise (fun a b => leK a b = true) := by
    intro L hL
    obtain ⟨C, hC, rfl⟩ := List.mem_map.mp hL
    obtain ⟨t, ht, rfl⟩ := List.mem_map.mp hC
    rw [List.pairwise_map]
    have hs : (chunksOf cq' g t).Pairwise (fun a b => leOut cq'.dirs (outOf cq' a) (outOf cq' b) = true) := by
      rw [chunksOf_eq]
      exact List.pairwise_mergeSort (le := fun a b => leOut cq'.dirs (outOf cq' a) (outOf cq' b))
        (fun a b c => leOut_trans _ _ _ _) (fun a b => leOut_total _ _ _) _
    refine hs.imp_of_mem ?_
    intro a b ha hb hab
    obtain ⟨r, rs, rfl, hra, _⟩ := chunk_head g t a ((chunksOf_perm cq' g t).mem_iff.mp ha)
    obtain ⟨r', rs', rfl, hrb, _⟩ := chunk_head g t b ((chunksOf_perm cq' g t).mem_iff.mp hb)
    simp only [leOut, outOf, CQ.dirs, hkeys'] at hab
    have := leKey_groups_le g cq.keys r r' rs rs' hab
    simp only [leK, lead, kc, CQ.dirs, ← hra, ← hrb]
    exact this
  have hanti : ∀ a ∈ Ls.flatten, ∀ b ∈ Ls.flatten, leK a b = true → leK b a = true → a = b := by
    intro a ha b hb h1 h2
    rw [hLsflat] at ha hb
    obtain ⟨xa, hxa, rfl⟩ := List.mem_map.mp ha
    obtain ⟨xb, hxb, rfl⟩ := List.mem_map.mp hb
    obtain ⟨ra, _, hka⟩ := hkc_memAll xa hxa
    obtain ⟨rb, _, hkb⟩ := hkc_memAll xb hxb
    rw [hka, hkb] at h1 h2 ⊢
    refine leG_antisymm g lead cq.dirs (leadCols_mem g cq.keys) ?_ ?_ ra rb h1 h2
    · intro x hx
      have := List.all_eq_true.mp hcov x hx
      simpa using this
    · have := leadCols_length_le g cq.keys
      simpa [CQ.dirs, lead] using this
  obtain ⟨S, hSp, hSs, hSw⟩ := topk_nodup ktrans ktotal Ls hLs_sorted hLs_nodup o c
  have hcomplete := take_complete ktrans ktotal Ls hLs_sorted hLs_nodup hanti (o + c)
  -- keys and rows against the union
  let tru : List Val → List Row := fun k => tables.flatten.filter fun r => groupKey g r = k
  have hrowsAll : ∀ k, chunkRows kc All.flatten k = tru k :=
    chunkRows_all g tables All (by simp [All]) (fun i h1 h2 => by
      simp only [All, List.getElem_map]
      exact chunksOf_perm cq' g _)
  have hD : (dedup Ls.flatten).Perm (dedup (tables.flatten.map (groupKey g))) := by
    rw [List.perm_ext_iff_of_nodup (nodup_dedup _) (nodup_dedup _)]
    intro k
    rw [mem_dedup, mem_dedup, hLsflat]
    constructor
    · intro hk
      obtain ⟨x, hx, rfl⟩ := List.mem_map.mp hk
      obtain ⟨r, hr, h1⟩ := hkc_memAll x hx
      exact List.mem_map.mpr ⟨r, hr, h1.symm⟩
    · intro hk
      obtain ⟨r, hr, rfl⟩ := List.mem_map.mp hk
      obtain ⟨t, ht, hrt⟩ := List.mem_flatten.mp hr
      have hkt : groupKey g r ∈ t.map (groupKey g) := List.mem_map.mpr ⟨r, hrt, rfl⟩
      have hc : (t.filter fun r' => groupKey g r' = groupKey g r) ∈ groupRows g t := by
        simp only [groupRows, List.mem_map]
        exact ⟨groupKey g r, (mem_dedup _ _).mpr hkt, rfl⟩
      have hc' : (t.filter fun r' => groupKey g r' = groupKey g r) ∈ All.flatten :=
        List.mem_flatten.mpr ⟨chunksOf cq' g t, List.mem_map.mpr ⟨t, ht, rfl⟩,
          (chunksOf_perm cq' g t).mem_iff.mpr hc⟩
      exact List.mem_map.mpr ⟨_, hc', kcOf_filter g t _ hkt⟩
  -- a candidate / a group of the union: a first row carrying the key
  have hcand_head : ∀ k ∈ K1, ∃ r rs, chunkRows kc Cs.flatten k = r :: rs ∧ groupKey g r = k := by
    intro k hk
    have hk' : k ∈ Cs.flatten.map kc := by rw [← hheads]; exact (mem_dedup _ _).mp hk
    have hne' := chunkRows_ne_nil kc Cs.flatten k (fun x hx => (hchunkOK x hx).1) hk'
    cases hX : chunkRows kc Cs.flatten k with
    | nil => exact absurd hX hne'
    | cons r rs =>
      refine ⟨r, rs, rfl, ?_⟩
      have hr : r ∈ chunkRows kc Cs.flatten k := by rw [hX]; simp
      simp only [chunkRows] at hr
      obtain ⟨x, hxf, hrx⟩ := List.mem_flatten.mp hr
      have hx := (List.mem_filter.mp hxf).1
      have hkx : kc x = k := by simpa using (List.mem_filter.mp hxf).2
      obtain ⟨t, ht, hct⟩ := hchunk x hx
      obtain ⟨_, _, _, _, hall⟩ := chunk_head g t x hct
      rw [← hkx]
      exact hall r hrx
  have hcand_sub : ∀ k, (chunkRows kc Cs.flatten k).Sublist tables.flatten := by
    intro k
    have e1 : chunkRows kc Cs.flatten k =
        (tables.map fun t => (((chunksOf cq' g t).take (o + c)).filter fun x => kc x = k).flatten).flatten := by
      simp only [chunkRows, Cs, All, List.filter_flatten, List.flatten_flatten, List.map_map]
      rfl
    rw [e1]
    apply flatten_sublist_of_forall
    intro t _
    have h1 : (((chunksOf cq' g t).take (o + c)).filter fun x => kc x = k).Sublist
        ((chunksOf cq' g t).filter fun x => kc x = k) := (List.take_sublist _ _).filter _
    have h2 := sublist_flatten_of_sublist h1
    rw [chunks_filter_flatten g t _ (chunksOf_perm cq' g t) k] at h2
    exact h2.trans List.filter_sublist
  have htru_head : ∀ k ∈ dedup (tables.flatten.map (groupKey g)), ∃ r rs, tru k = r :: rs ∧ groupKey g r = k := by
    intro k hk
    obtain ⟨r0, hr0, rfl⟩ := List.mem_map.mp ((mem_dedup _ _).mp hk)
    cases hX : tru (groupKey g r0) with
    | nil =>
      have : r0 ∈ tru (groupKey g r0) := List.mem_filter.mpr ⟨hr0, by simp⟩
      rw [hX] at this; cases this
    | cons r rs =>
      refine ⟨r, rs, rfl, ?_⟩
      have hr : r ∈ tru (groupKey g r0) := by rw [hX]; simp
      simpa [tru] using (List.mem_filter.mp hr).2
  let LF := leFull cq.dirs (sortCols p cq')
  -- sorting the candidates is sorting their keys
  have hsortmap : (K1.map cand).mergeSort LF = (K1.mergeSort leK).map cand := by
    symm
    apply List.map_mergeSort
    intro a ha b hb
    by_cases e : a = b
    · subst e
      have h1 : leK a a = true := by have := ktotal a a; simpa using this
      have h2 : LF (cand a) (cand a) = true := by
        have := leFull_total cq.dirs (sortCols p cq') (cand a) (cand a); simpa using this
      rw [h1, h2]
    · obtain ⟨r, rs, hra, hka⟩ := hcand_head a ha
      obtain ⟨r', rs', hrb, hkb⟩ := hcand_head b hb
      simp only [LF, cand, hra, hrb, leFull_fullRow inv]
      rw [leKey_groups_ne g cq.keys r r' rs rs' (by rw [hka, hkb]; exact e) hcov, hka, hkb]
      rfl
  -- the candidates of the window are complete
  have hcand_tru : ∀ k ∈ (K1.mergeSort leK).take (o + c), cand k = fullRow cq'.items (tru k) := by
    intro k hk
    simp only [cand]
    rw [← hrowsAll k]
    congr 1
    simp only [chunkRows, Cs, List.filter_flatten, List.map_map]
    congr 2
    apply List.map_congr_left
    intro C hC
    simp only [Function.comp]
    apply filter_take_of_nodup kc C (o + c) k
    · exact hLs_nodup _ (List.mem_map.mpr ⟨C, hC, rfl⟩)
    · intro hkC
      exact hcomplete k hk (C.map kc) (List.mem_map.mpr ⟨C, hC, rfl⟩) hkC
  have hSD := hSp.trans hD
  have hlenm : ∀ x ∈ K1.map cand, x.length = cq'.items.length := by
    intro x hx
    obtain ⟨k, _, rfl⟩ := List.mem_map.mp hx
    exact fullRow_length _ _
  -- the DISTINCT step removes nothing: the GROUP BY key can be read from the visible row
  have hm' : mergeTail p { nfields := cq'.items.length, rows := K1.map cand } = .ok res := by
    by_cases hpd : p.distinct = true
    · have hd : cq.distinct = true := by rw [← inv.pdistinct]; exact hpd
      obtain ⟨hsel, hsub⟩ := hdist hd
      rw [if_pos hpd, removeDistinct_spec inv _ hlenm] at hm
      have hid : dedupBy (fun r : Row => generateMapKey (r.take cq.items.length)) (K1.map cand) = K1.map cand := by
        apply dedupBy_of_nodup
        rw [List.map_map]
        have hnd : K1.Pairwise (fun a b => a ≠ b) := nodup_dedup _
        rw [List.Nodup, List.pairwise_map]
        refine hnd.imp_of_mem ?_
        intro a b ha hb hab e
        apply hab
        obtain ⟨r, rs, hra, hka⟩ := hcand_head a ha
        obtain ⟨r', rs', hrb, hkb⟩ := hcand_head b hb
        simp only [Function.comp, cand, inv_take inv] at e
        have e' := hsub _ _ (hcand_sub a) (hcand_sub b) e
        simp only [hra, hrb] at e'
        rw [← hka, ← hkb]
        exact key_of_vis cq g hsel hcov r r' rs rs' e'
      rw [hid] at hm
      simpa using hm
    · rw [if_neg hpd] at hm
      simpa using hm
  have hres := mergeTail_spec inv _ res rfl hlenm hm'
  -- the groups of the statement on the union
  have hpre : evalPre cq tables.flatten = (groupRows g tables.flatten).map (outOf cq) := by
    by_cases hd : cq.distinct = true
    · obtain ⟨hsel, _⟩ := hdist hd
      apply evalPre_group_nodup cq g hg
      have hnd : (dedup (tables.flatten.map (groupKey g))).Pairwise (fun a b => a ≠ b) := nodup_dedup _
      simp only [groupRows, List.map_map]
      rw [List.Nodup, List.pairwise_map]
      refine hnd.imp_of_mem ?_
      intro a b ha hb hab e
      apply hab
      obtain ⟨r, rs, hra, hka⟩ := htru_head a ha
      obtain ⟨r', rs', hrb, hkb⟩ := htru_head b hb
      simp only [Function.comp] at e
      have hra' : (tables.flatten.filter fun x => groupKey g x = a) = r :: rs := hra
      have hrb' : (tables.flatten.filter fun x => groupKey g x = b) = r' :: rs' := hrb
      rw [hra', hrb'] at e
      rw [← hka, ← hkb]
      exact key_of_vis cq g hsel hcov r r' rs rs' e
    · exact evalPre_group cq g hg (by simpa using hd) _
  refine ⟨S.map (fun k => outOf cq (tru k)), ?_, ?_, ?_⟩
  · rw [hpre]
    simp only [groupRows, List.map_map]
    exact hSD.map _
  · rw [List.pairwise_map]
    have hnd : S.Nodup := hSD.nodup_iff.mpr (nodup_dedup _)
    have hboth := hSs.and hnd
    refine hboth.imp_of_mem ?_
    intro a b ha hb hab
    obtain ⟨r, rs, hra, hka⟩ := htru_head a (hSD.mem_iff.mp ha)
    obtain ⟨r', rs', hrb, hkb⟩ := htru_head b (hSD.mem_iff.mp hb)
    simp only [leOut, outOf, hra, hrb, CQ.dirs]
    rw [leKey_groups_ne g cq.keys r r' rs rs' (by rw [hka, hkb]; exact hab.2) hcov, hka, hkb]
    exact hab.1
  · rw [hres, hsortmap, hcl]
    simp only [window]
    rw [← List.map_drop, ← List.map_take, ← hSw, List.map_map, ← List.map_drop, ← List.map_take, List.map_map]
    apply List.map_congr_left
    intro k hk
    have hk' : k ∈ (K1.mergeSort leK).take (o + c) := by
      rw [hSw] at hk
      exact mem_window_take _ o c k hk
    simp only [Function.comp]
    rw [hcand_tru k hk', ← inv_toOut inv]
    rfl


end

/-! ### the supported class, zero and one sub-table, the assembled theorem -/

theorem evalShards_eq (schema : List Ty) (q : Query) (cq' : CQ) (h : compile schema q = some cq') :
    ∀ tables : List (List Row), evalShards schema q tables = some (tables.map (shardResult cq'))
  | [] => rfl
  | t :: ts => by
    simp only [evalShards, evalShard, h, evalShards_eq schema q cq' h ts, List.map_cons, shardResult]

/-- a statement sent unchanged to one sub-table: the sub-table's answer is an answer -/
theorem single_table (cq : CQ) (T : List Row) : Answer cq T ((evalCQ cq T).map (·.vis)) := by
  refine ⟨evalSorted cq T, ?_, ?_, rfl⟩
  · simp only [evalSorted]
    split
    · exact List.Perm.refl _
    · exact List.mergeSort_perm _ _
  · simp only [evalSorted]
    split
    · rename_i he
      have : cq.dirs = [] := by simp [CQ.dirs, List.isEmpty_iff.mp he]
      rw [this]
      exact List.pairwise_of_forall (fun a b => by simp [leOut, leKey])
    · exact List.pairwise_mergeSort (leOut_trans _) (fun a b => leOut_total _ a b) _

theorem evalItem_nil_agg (k : AggKind) (arg : Option Nat) (d : Bool) :
    evalItem [] (.agg k arg d) = if k = .count then .int 0 else .null := by
  have : aggArgs arg d [] = [] := by
    cases arg <;> cases d <;> simp [aggArgs, dedup, dedupAux]
  simp only [evalItem, this]
  cases k <;> simp [aggOf]

section
variable {schema : List Ty} {p : Plan} {cq cq' : CQ}

theorem evalPre_nil (cq : CQ) :
    evalPre cq [] = if cq.aggregated && cq.group.isNone then [outOf cq []] else [] := by
  cases hagg : cq.aggregated
  · cases hd : cq.distinct <;> simp [evalPre, groupsOf, hagg, hd, dedupBy, dedupByAux]
  · cases hg : cq.group with
    | none => simp [evalPre_single' cq hagg hg]
    | some g => cases hd : cq.distinct <;> simp [evalPre, groupsOf, hagg, hg, hd, groupRows, dedup, dedupAux, dedupBy, dedupByAux]

/-- **A statement routed to no sub-table**: no row, or for aggregate functions
    without GROUP BY the row of the empty table (COUNT 0, NULL otherwise). -/
theorem zero_route (inv : PlanInv schema p cq cq') (hclass : classOK p cq cq' = true)
    (hcc : p.shardQ.fields.length = p.columnCount) (res : Result) (h : emptyResult p = .ok res) :
    Answer cq [] res.rows := by
  have hfl : ((p.shardQ.fields.length : Int) - ((p.columnCount : Int) - (p.originColumnCount : Int))) = p.originColumnCount := by
    rw [hcc]; omega
  simp only [emptyResult, hfl] at h
  have hnn : ¬ ((p.originColumnCount : Int) < 0) := by omega
  rw [if_neg hnn] at h
  have hcl := hclass
  by_cases hagg : cq.aggregated = true
  · simp only [classOK, hagg, Bool.not_true, Bool.false_eq_true, if_false] at hcl
    cases hg : cq.group with
    | some g =>
      have hpg : p.hasGroupBy = true := by rw [inv.pgroup, hg]; rfl
      simp only [hpg, true_or, if_true, R.ok.injEq] at h
      subst h
      refine ⟨[], ?_, by simp, ?_⟩
      · rw [evalPre_nil]; simp [hg]
      · cases cq.limit <;> simp [window]
    | none =>
      rw [hg] at hcl
      simp only [Bool.and_eq_true, decide_eq_true_eq] at hcl
      obtain ⟨⟨⟨hagg', hany⟩, hall⟩, horigin⟩ := hcl
      have hpg : p.hasGroupBy = false := by rw [inv.pgroup, hg]; rfl
      have haggs : p.aggs.isEmpty = false := by
        rw [inv.aggs]
        simp only [List.any_eq_true] at hany
        obtain ⟨it, hit, hia⟩ := hany
        obtain ⟨n, hn⟩ := List.getElem?_of_mem hit
        cases it with
        | agg k a d =>
          have : (n, k) ∈ aggPositions cq'.items := (mem_aggPosFrom _ 0 n k).mpr ⟨n, a, d, by simp, hn⟩
          cases hh : aggPositions cq'.items with
          | nil => rw [hh] at this; cases this
          | cons x xs => rfl
        | col c => simp [Item.isAgg] at hia
        | const c => simp [Item.isAgg] at hia
      have hcond : ¬ (p.hasGroupBy = true ∨ p.aggs.isEmpty = true) := by simp [hpg, haggs]
      rw [if_neg hcond] at h
      -- the row of the empty table
      have hrow : ((List.range (p.originColumnCount : Int).toNat).map fun i =>
          if p.aggs.any (fun a => decide (a.1 = i ∧ a.2 = AggKind.count)) then Val.int 0 else Val.null)
          = (outOf cq []).vis := by
        simp only [Int.toNat_natCast, horigin, outOf]
        apply List.ext_getElem
        · simp
        · intro i h1 h2
          simp only [List.length_map, List.length_range] at h1
          simp only [List.getElem_map, List.getElem_range]
          have hi : cq'.items[i]? = some cq.items[i] := by
            have := congrArg (fun l => l[i]?) inv.items
            simp only [List.getElem?_take, h1, if_true] at this
            rw [this]; exact List.getElem?_eq_getElem h1
          have hisagg := List.all_eq_true.mp hall _ (List.mem_of_getElem? hi)
          cases hit : cq.items[i] with
          | col c => rw [hit] at hisagg; simp [Item.isAgg] at hisagg
          | const c => rw [hit] at hisagg; simp [Item.isAgg] at hisagg
          | agg k a d =>
            rw [hit] at hi
            rw [evalItem_nil_agg]
            have hmem : ∀ k', (i, k') ∈ p.aggs ↔ k' = k := by
              intro k'
              rw [inv.aggs, aggPositions, mem_aggPosFrom]
              constructor
              · rintro ⟨n, a', d', hn, hn'⟩
                simp only [Nat.zero_add] at hn; subst hn
                rw [hi] at hn'
                simp only [Option.some.injEq, Item.agg.injEq] at hn'
                exact hn'.1.symm
              · rintro rfl
                exact ⟨i, a, d, by simp, hi⟩
            by_cases hk : k = .count
            · subst hk
              have : p.aggs.any (fun a => decide (a.1 = i ∧ a.2 = AggKind.count)) = true := by
                rw [List.any_eq_true]
                exact ⟨(i, .count), (hmem .count).mpr rfl, by simp⟩
              rw [if_pos this, if_pos rfl]
            · have : p.aggs.any (fun a => decide (a.1 = i ∧ a.2 = AggKind.count)) = false := by
                rw [List.any_eq_false]
                intro a ha
                simp only [decide_eq_true_eq, not_and]
                intro h1' h2'
                have := (hmem a.2).mp (by rw [← h1']; exact ha)
                exact hk (this ▸ h2')
              rw [if_neg (by rw [this]; simp), if_neg hk]
      rw [hrow] at h
      rw [limitSelectResult_spec inv] at h
      simp only [R.bind_ok, generateRowData] at h
      split at h
      · rw [R.ok.injEq] at h
        subst h
        refine ⟨[outOf cq []], by rw [evalPre_single' cq hagg hg], by simp, ?_⟩
        simp only
        rw [← window_map]
        simp
      · cases h
  · have hagg0 : cq.aggregated = false := by simpa using hagg
    simp only [classOK, hagg0, Bool.not_false, if_true, Bool.and_eq_true, Bool.not_eq_true'] at hcl
    have haggs : p.aggs = [] := by
      rw [inv.aggs]
      apply aggPositions_nil_of_no_agg
      have h' := hcl.1
      simp only [CQ.aggregated, Bool.or_eq_false_iff, List.any_eq_false] at h'
      intro it hit
      have := h'.1.2 it hit
      simpa using this
    simp only [haggs, List.isEmpty_nil, or_true, if_true, R.ok.injEq] at h
    subst h
    refine ⟨[], ?_, by simp, ?_⟩
    · rw [evalPre_nil]; simp [hagg0]
    · cases cq.limit <;> simp [window]

end

theorem rewrite_columnCount (q : Query) (p : Plan) (h : rewrite q = .ok p) :
    p.shardQ.fields.length = p.columnCount := by
  unfold rewrite at h
  simp only at h
  split at h
  · cases h
  · rw [R.ok.injEq] at h
    subst h
    rfl

/-- the GROUP BY key encoding is injective on the keys present -/
def KeyInj (cq : CQ) (rows : List Row) : Prop :=
  ∀ g, cq.group = some g → ∀ r ∈ rows, ∀ r' ∈ rows,
    generateMapKey (groupKey g r) = generateMapKey (groupKey g r') → groupKey g r = groupKey g r'

/-- the DISTINCT row key encoding is injective on the rows present (projections) -/
def RowKeyInj (cq : CQ) (rows : List Row) : Prop :=
  cq.distinct = true → ∀ r ∈ rows, ∀ r' ∈ rows,
    generateMapKey (fullRow cq.items [r]) = generateMapKey (fullRow cq.items [r']) →
    fullRow cq.items [r] = fullRow cq.items [r']

/-- the DISTINCT row key encoding is injective on the rows of the statement
    before DISTINCT is applied (one per row, or one per group) -/
def VisKeyInj (cq : CQ) (rows : List Row) : Prop :=
  cq.distinct = true → ∀ G ∈ groupsOf cq rows, ∀ G' ∈ groupsOf cq rows,
    generateMapKey (outOf cq G).vis = generateMapKey (outOf cq G').vis → (outOf cq G).vis = (outOf cq G').vis

/-- for projections the two formulations agree -/
theorem visKeyInj_of_rowKeyInj (cq : CQ) (rows : List Row) (hagg : cq.aggregated = false)
    (h : RowKeyInj cq rows) : VisKeyInj cq rows := by
  intro hd G hG G' hG' e
  simp only [groupsOf, hagg, Bool.not_false, if_true, List.mem_map] at hG hG'
  obtain ⟨r, hr, rfl⟩ := hG
  obtain ⟨r', hr', rfl⟩ := hG'
  exact h hd r hr r' hr' e

/-- needed only for SELECT DISTINCT over GROUP BY with LIMIT: the DISTINCT row key is
    injective on the visible rows computed from parts of the groups -/
def DistinctLimitInj (cq : CQ) (rows : List Row) : Prop :=
  cq.distinct = true → cq.group.isSome = true → cq.limit.isSome = true → SubVisKeyInj cq rows

/-- the multi-table path of `ExecuteIn` -/
theorem merge_correct {schema : List Ty} {p : Plan} {cq cq' : CQ} (inv : PlanInv schema p cq cq')
    (hclass : classOK p cq cq' = true) (tables : List (List Row)) (hne : tables ≠ [])
    (htyped : ∀ t ∈ tables, TypedRows schema t) (hkey : KeyInj cq tables.flatten)
    (hrow : VisKeyInj cq tables.flatten) (hsub : DistinctLimitInj cq tables.flatten) (res : Result)
    (hm : mergeSelectResult p (tables.map (shardResult cq')) = .ok res) :
    Answer cq tables.flatten res.rows := by
  have hcl := hclass
  by_cases hagg : cq.aggregated = true
  · simp only [classOK, hagg, Bool.not_true, Bool.false_eq_true, if_false] at hcl
    cases hg : cq.group with
    | none =>
      rw [hg] at hcl
      simp only [Bool.and_eq_true, decide_eq_true_eq] at hcl
      obtain ⟨⟨⟨hagg', hany⟩, hall⟩, _⟩ := hcl
      refine merge_aggregate_any inv hagg hagg' hany hg ?_ tables hne htyped res hm
      intro it hit c e
      have := List.all_eq_true.mp hall it hit
      rw [e] at this
      simp [Item.isAgg] at this
    | some g =>
      rw [hg] at hcl
      simp only [Bool.and_eq_true, Bool.or_eq_true, decide_eq_true_eq, Bool.not_eq_true', keysSelected] at hcl
      obtain ⟨hlimcov, hselect⟩ := hcl
      have hgo : groupsOf cq tables.flatten = groupRows g tables.flatten := by
        simp [groupsOf, hagg, hg]
      cases hl' : cq'.limit with
      | none =>
        by_cases hdist : cq.distinct = true
        · have hsel : ∀ k ∈ cq.keys, k.1 ∈ cq.items := by
            rcases hselect with h1 | h1
            · rw [hdist] at h1; cases h1
            · intro k hk
              have := List.all_eq_true.mp h1 k hk
              simpa using this
          refine merge_group_distinct2 inv g hg hdist hl' hsel tables hne htyped (hkey g hg) ?_ res hm
          intro G hG G' hG' e
          exact hrow hdist G (by rw [hgo]; exact hG) G' (by rw [hgo]; exact hG') e
        · have hd : cq.distinct = false := by simpa using hdist
          exact merge_group inv g hg hd hl' tables hne htyped (hkey g hg) res hm
      | some oc =>
        obtain ⟨o', n⟩ := oc
        have hcov : leadCovers g cq.keys = true := by
          rcases hlimcov with h1 | h1
          · rw [hl'] at h1; cases h1
          · exact h1
        have hlimsome : cq.limit.isSome = true ∧ o' = 0 := by
          have hl := inv.limit
          cases hlim : cq.limit with
          | none => rw [hlim] at hl; rw [hl.2] at hl'; cases hl'
          | some oc2 =>
            obtain ⟨o, c⟩ := oc2
            rw [hlim] at hl
            rcases hl.2.2 with h1 | h1
            · rw [h1] at hl'
              simp only [Option.some.injEq, Prod.mk.injEq] at hl'
              exact ⟨rfl, hl'.1.symm⟩
            · rw [h1] at hl'; cases hl'
        obtain ⟨hls, ho'⟩ := hlimsome
        subst ho'
        refine merge_group_limit_any inv g hg n hl' hcov tables hne htyped (hkey g hg) ?_ res hm
        intro hdist
        refine ⟨?_, hsub hdist (by rw [hg]; rfl) hls⟩
        rcases hselect with h1 | h1
        · rw [hdist] at h1; cases h1
        · intro k hk
          have := List.all_eq_true.mp h1 k hk
          simpa using this
  · have hagg0 : cq.aggregated = false := by simpa using hagg
    simp only [classOK, hagg0, Bool.not_false, if_true, Bool.and_eq_true, Bool.not_eq_true',
      Bool.or_eq_true, hiddenSelected] at hcl
    by_cases hdist : cq.distinct = true
    · have hdup : ∀ it ∈ cq'.items.drop cq.items.length, it ∈ cq.items := by
        rcases hcl.2 with h1 | h1
        · rw [hdist] at h1; cases h1
        · intro it hit
          have := List.all_eq_true.mp h1 it hit
          simpa using this
      refine merge_plain_distinct2 inv hagg0 hcl.1 hdist hdup tables hne ?_ res hm
      intro r hr r' hr' e
      have hgo : groupsOf cq tables.flatten = tables.flatten.map fun x => [x] := by
        simp [groupsOf, hagg0]
      exact hrow hdist [r] (by rw [hgo]; exact List.mem_map.mpr ⟨r, hr, rfl⟩)
        [r'] (by rw [hgo]; exact List.mem_map.mpr ⟨r', hr', rfl⟩) e
    · have hd : cq.distinct = false := by simpa using hdist
      exact merge_plain inv hagg0 hcl.1 hd tables hne res hm

/-- **C02, the proved class.**  For every table schema, every statement of
    the supported class (`Supported`, decidable: the planner's rewriting satisfies
    the plan invariant `planOK`, and the statement is
    a projection with ORDER BY / LIMIT (`merge_plain`), SELECT DISTINCT of plain
    columns whose hidden per-table columns repeat selected ones (`merge_plain_distinct2`),
    aggregate functions without GROUP BY, with or without SELECT DISTINCT
    (`merge_aggregate_any`), a GROUP BY statement whose LIMIT is not sent to the
    sub-tables (`merge_group`) or is sent to them because ORDER BY starts with all
    GROUP BY columns (`merge_group_limit`, `merge_group_limit_any`), or SELECT DISTINCT
    over GROUP BY whose ORDER BY names selected expressions (`merge_group_distinct2`,
    `merge_group_limit_any`); MAX / MIN(DISTINCT) are covered, COUNT / SUM(DISTINCT)
    are rejected by the planner when several sub-tables are involved), every
    number of routed sub-tables (none, one, several) and all typed contents of
    those sub-tables on which the GROUP BY key / DISTINCT row key encoding is
    injective (`keyInj_of_typed`, `rowKeyInj_of_typed`, `visKeyInj_of_typed`,
    `subVisKeyInj_of_typed`: always, for BIGINT, DECIMAL and character columns and the
    aggregate functions over them, within the bounds `keyValOK`): if the
    proxy returns a result, its rows are an answer of the statement on one
    database holding the union of the sub-tables — a permutation of the rows of
    the statement, in ORDER BY order (ties in any order), cut to the LIMIT window.
    (The routing of WHERE — every row that satisfies WHERE lives in a routed
    sub-table — is C01's `route_sound`; `tables` are the WHERE-matching rows of
    the routed sub-tables.)  UNION is `union_correct`, joins are `join_linked_correct` /
    `join_global_correct` below.

    Full statement, not proved (`_partial`): the same for every statement the
    reference semantics accepts, without the decidable side condition.  Outside
    `Supported` remain: SELECT DISTINCT whose ORDER BY names an expression that is
    not selected (MySQL rejects such statements: ER_FIELD_IN_ORDER_NOT_SELECT),
    aggregate functions next to plain columns without GROUP BY (not
    ONLY_FULL_GROUP_BY-clean), and the statements on which the plan invariant
    `planOK` fails — it is checked per statement, not proved of `rewrite` for all
    statements (no generated statement fails it; the share is reported on every run). -/
theorem C02_select_correct_partial (schema : List Ty) (q : Query) (cq : CQ) (tables : List (List Row))
    (res : Result) (hcq : compile schema q = some cq) (hsup : Supported schema q = true)
    (htyped : ∀ t ∈ tables, TypedRows schema t) (hkey : KeyInj cq tables.flatten)
    (hrow : VisKeyInj cq tables.flatten) (hsub : DistinctLimitInj cq tables.flatten)
    (h : executeIn schema q tables = .ok res) :
    Answer cq tables.flatten res.rows := by
  have hmulti : ∀ (ts : List (List Row)), (∀ t ∈ ts, TypedRows schema t) → KeyInj cq ts.flatten →
      VisKeyInj cq ts.flatten → DistinctLimitInj cq ts.flatten →
      executeMulti schema q ts = .ok res → Answer cq ts.flatten res.rows := by
    intro ts hty hk hrw' hsb hm
    simp only [executeMulti] at hm
    cases hrw : rewrite q with
    | fail => rw [hrw] at hm; cases hm
    | panic => rw [hrw] at hm; cases hm
    | ok p =>
      rw [hrw] at hm
      simp only [Supported, hcq, hrw] at hsup
      cases hcq' : compile schema p.shardQ with
      | none => rw [hcq'] at hsup; cases hsup
      | some cq' =>
        rw [hcq'] at hsup
        simp only [Bool.and_eq_true] at hsup
        have inv := planOK_sound hsup.1
        simp only at hm
        by_cases hempty : ts.isEmpty = true
        · rw [if_pos hempty] at hm
          have : ts = [] := List.isEmpty_iff.mp hempty
          subst this
          exact zero_route inv hsup.2 (rewrite_columnCount q p hrw) res hm
        · rw [if_neg hempty, evalShards_eq schema p.shardQ cq' hcq'] at hm
          simp only at hm
          exact merge_correct inv hsup.2 ts (by intro e; apply hempty; simp [e]) hty hk hrw' hsb res hm
  match tables, htyped, hkey, hrow, hsub, h with
  | [], hty, hk, hr, hs, h => exact hmulti [] hty hk hr hs h
  | [t], _, _, _, _, h =>
    simp only [executeIn, evalShard, hcq] at h
    rw [R.ok.injEq] at h
    subst h
    simpa using single_table cq t
  | t1 :: t2 :: ts, hty, hk, hr, hs, h => exact hmulti (t1 :: t2 :: ts) hty hk hr hs h


/-! ### UNION -/

/-- the rows of a UNION on one database: the rows of the SELECTs combined left to
    right; a UNION [DISTINCT] removes the duplicates among all rows gathered so far,
    a UNION ALL appends -/
def unionRows : List Row → List (List Row) → List Bool → List Row
  | acc, [], _ => acc
  | acc, r :: rs, flags =>
    unionRows (if flags.headD false then dedup (acc ++ r) else acc ++ r) rs flags.tail

/-- **What the property asks of the answer to a UNION**: the rows of the UNION of
    (answers of) its SELECTs, in an order that respects the UNION's ORDER BY (ties
    in any order), cut to its LIMIT window. -/
def UnionAnswer (parts : List (List Row)) (distinct : List Bool) (cols : List Nat) (dirs : List Bool)
    (lim : Lim) (out : List Row) : Prop :=
  match parts with
  | [] => out = []
  | first :: rest =>
    ∃ S : List Row, S.Perm (unionRows first rest distinct) ∧
      S.Pairwise (fun a b => leKey dirs (keyAt (cols.map fun (i : Nat) => (i : Int)) a)
        (keyAt (cols.map fun (i : Nat) => (i : Int)) b) = true) ∧
      out = window lim.toWindow S

theorem removeDuplicateValues_spec (N : Nat) : ∀ (rows : List Row) (seen : List (List UInt8)),
    (∀ r ∈ rows, r.length = N) →
    removeDuplicateValues N seen rows = .ok (dedupByAux generateMapKey seen rows)
  | [], _, _ => rfl
  | r :: rows, seen, h => by
    have hr := h r (by simp)
    have ih := fun seen' => removeDuplicateValues_spec N rows seen' (fun x hx => h x (by simp [hx]))
    have htake : r.take N = r := by rw [← hr]; exact List.take_length
    simp only [removeDuplicateValues, dedupByAux, htake]
    rw [if_neg (by omega)]
    by_cases hm : generateMapKey r ∈ seen
    · have : seen.contains (generateMapKey r) = true := by simpa using hm
      rw [if_pos hm]
      simp only [this, if_true]
      exact ih seen
    · have : seen.contains (generateMapKey r) = false := by simpa using hm
      rw [if_neg hm]
      simp only [this, Bool.false_eq_true, if_false, ih]

/-- the loop of `UnionPlan.mergeMultiResultSet` -/
theorem unionLoop_spec : ∀ (rs : List UResult) (acc : UResult) (flags : List Bool) (res : UResult),
    (∀ x ∈ acc.rows, x.length = acc.fields.length) →
    (∀ r ∈ rs, ∀ x ∈ r.rows, x.length = r.fields.length) →
    (∀ a ∈ acc.rows ++ (rs.map (·.rows)).flatten, ∀ b ∈ acc.rows ++ (rs.map (·.rows)).flatten,
      generateMapKey a = generateMapKey b → a = b) →
    unionLoop acc rs flags = .ok res →
    res.fields = acc.fields ∧ res.rows = unionRows acc.rows (rs.map (·.rows)) flags ∧
      ∀ x ∈ res.rows, x.length = res.fields.length
  | [], acc, flags, res, hacc, _, _, h => by
    simp only [unionLoop, R.ok.injEq] at h
    subst h
    exact ⟨rfl, rfl, hacc⟩
  | r :: rs, acc, flags, res, hacc, hrs, hinj, h => by
    simp only [unionLoop] at h
    split at h
    · cases h
    · rename_i hlen
      split at h
      · cases h
      · have hlen' : r.fields.length = acc.fields.length := by simpa using hlen
        have hrrows : ∀ x ∈ r.rows, x.length = acc.fields.length := by
          intro x hx; rw [← hlen']; exact hrs r (by simp) x hx
        simp only [List.map_cons, unionRows]
        by_cases hflag : flags.headD false = true
        · simp only [hflag, if_true] at h ⊢
          rw [removeDuplicateValues_spec acc.fields.length (acc.rows ++ r.rows) [] (by
            intro x hx
            rcases List.mem_append.mp hx with h1 | h1
            · exact hacc x h1
            · exact hrrows x h1)] at h
          have hdd : dedupByAux generateMapKey [] (acc.rows ++ r.rows) = dedup (acc.rows ++ r.rows) := by
            apply dedupBy_eq_dedup generateMapKey
            intro a ha b hb e
            apply hinj a _ b _ e
            · rcases List.mem_append.mp ha with h1 | h1 <;> simp [h1]
            · rcases List.mem_append.mp hb with h1 | h1 <;> simp [h1]
          rw [hdd] at h
          have hsub : ∀ x ∈ dedup (acc.rows ++ r.rows), x ∈ acc.rows ++ r.rows := fun x hx => (mem_dedup _ _).mp hx
          have := unionLoop_spec rs { acc with rows := dedup (acc.rows ++ r.rows) } flags.tail res (by
              intro x hx
              rcases List.mem_append.mp (hsub x hx) with h1 | h1
              · exact hacc x h1
              · exact hrrows x h1)
            (fun r' hr' => hrs r' (by simp [hr'])) (by
              intro a ha b hb e
              apply hinj a _ b _ e
              · rcases List.mem_append.mp ha with h1 | h1
                · rcases List.mem_append.mp (hsub a h1) with h2 | h2 <;> simp [h2]
                · simp only [List.map_cons, List.flatten_cons, List.mem_append]; exact Or.inr (Or.inr h1)
              · rcases List.mem_append.mp hb with h1 | h1
                · rcases List.mem_append.mp (hsub b h1) with h2 | h2 <;> simp [h2]
                · simp only [List.map_cons, List.flatten_cons, List.mem_append]; exact Or.inr (Or.inr h1)) h
          exact this
        · have hflag' : flags.headD false = false := by simpa using hflag
          simp only [hflag', Bool.false_eq_true, if_false] at h ⊢
          have := unionLoop_spec rs { acc with rows := acc.rows ++ r.rows } flags.tail res (by
              intro x hx
              rcases List.mem_append.mp hx with h1 | h1
              · exact hacc x h1
              · exact hrrows x h1)
            (fun r' hr' => hrs r' (by simp [hr'])) (by
              intro a ha b hb e
              apply hinj a _ b _ e
              · simpa [List.append_assoc] using ha
              · simpa [List.append_assoc] using hb) h
          exact this

/-- the rows of an answer are visible rows of the statement, as wide as its select list -/
theorem answer_rows (cq : CQ) (all out : List Row) (h : Answer cq all out) :
    ∀ x ∈ out, x ∈ (evalPre cq all).map (·.vis) ∧ x.length = cq.items.length := by
  obtain ⟨S, hp, _, rfl⟩ := h
  intro x hx
  obtain ⟨o, ho, rfl⟩ := List.mem_map.mp hx
  have ho' : o ∈ evalPre cq all := hp.mem_iff.mp (mem_window _ _ _ ho)
  refine ⟨List.mem_map.mpr ⟨o, ho', rfl⟩, ?_⟩
  obtain ⟨g, rfl⟩ := evalPre_mem cq all o ho'
  simp [outOf]

theorem compile_items (schema : List Ty) (q : Query) (cq : CQ) (h : compile schema q = some cq) :
    ∃ items, compileFields schema q.fields = some items ∧ cq.items = items.map (·.1) := by
  unfold compile at h
  cases hitems : compileFields schema q.fields with
  | none => rw [hitems] at h; cases h
  | some items =>
    rw [hitems] at h
    simp only at h
    refine ⟨items, rfl, ?_⟩
    repeat' split at h
    all_goals first
      | (simp only [Option.some.injEq] at h; subst h; rfl)
      | cases h

/-- the name the backend reports for a compiled select item -/
def itemName (it : Item × Option Nat) : Option Nat :=
  match it.2 with
  | some a => some a
  | none => match it.1 with
    | .col c => some c
    | _ => none

theorem compileFields_nostar (schema : List Ty) : ∀ (fields : List Field) (items : List (Item × Option Nat)),
    compileFields schema fields = some items → fields.all (fun f => f.expr != .star) = true →
    items.map itemName = fields.map fieldName
  | [], items, h, _ => by
    simp only [compileFields, Option.some.injEq] at h
    subst h; rfl
  | f :: fs, items, h, hs => by
    simp only [List.all_cons, Bool.and_eq_true] at hs
    simp only [compileFields] at h
    split at h
    · rename_i a b ha hb
      simp only [Option.some.injEq] at h
      subst h
      have ih := compileFields_nostar schema fs b hb hs.2
      rw [List.map_append, ih, List.map_cons]
      congr 1
      have hne : f.expr ≠ .star := by simpa using hs.1
      simp only [compileField] at ha
      cases hf : f.expr with
      | star => exact absurd hf hne
      | col n =>
        rw [hf] at ha
        simp only at ha
        split at ha
        · simp only [Option.some.injEq] at ha
          subst ha
          simp only [List.map_cons, List.map_nil, itemName, fieldName, hf]
          cases f.asName <;> rfl
        · cases ha
      | agg k arg d =>
        rw [hf] at ha
        simp only [Option.map_eq_some_iff] at ha
        obtain ⟨it, hit, rfl⟩ := ha
        have hit' : ∃ k' a' d', it = .agg k' a' d' := by
          simp only [compileAgg] at hit
          split at hit
          · split at hit
            · simp only [Option.some.injEq] at hit; exact ⟨_, _, _, hit.symm⟩
            · cases hit
          · split at hit
            · cases hit
            · split at hit
              · cases hit
              · simp only [Option.some.injEq] at hit; exact ⟨_, _, _, hit.symm⟩
        obtain ⟨k', a', d', rfl⟩ := hit'
        simp only [List.map_cons, List.map_nil, itemName, fieldName, hf]
        cases f.asName <;> rfl
      | pos n =>
        rw [hf] at ha
        simp only [Option.some.injEq] at ha
        subst ha
        simp only [List.map_cons, List.map_nil, itemName, fieldName, hf]
        cases f.asName <;> rfl
    · cases h

theorem fieldsOf_names (schema : List Ty) (q : Query) (cq : CQ) (n : Nat) (hcq : compile schema q = some cq)
    (hn : n = 0 → q.fields.all (fun f => f.expr != .star) = true) :
    (fieldsOf schema q n).map (·.name) = (fieldsOf schema q 1).map (·.name) ∧
    (fieldsOf schema q n).length = cq.items.length := by
  obtain ⟨items, hitems, hci⟩ := compile_items schema q cq hcq
  have h1 : (fieldsOf schema q 1).map (·.name) = items.map itemName := by
    simp only [fieldsOf, hitems]
    rw [if_neg (by decide), List.map_map]
    apply List.map_congr_left
    intro it _
    rfl
  by_cases h0 : n = 0
  · subst h0
    have hns := compileFields_nostar schema q.fields items hitems (hn rfl)
    have h2 : (fieldsOf schema q 0).map (·.name) = q.fields.map fieldName := by
      simp [fieldsOf, List.map_map, Function.comp_def]
    refine ⟨by rw [h1, h2, hns], ?_⟩
    have := congrArg List.length hns
    simp only [List.length_map] at this
    simp [fieldsOf, hci, this]
  · have hf : fieldsOf schema q n = fieldsOf schema q 1 := by
      simp [fieldsOf, h0]
    rw [hf]
    refine ⟨rfl, ?_⟩
    simp [fieldsOf, hitems, hci]

theorem findIdx_names (n : Nat) : ∀ (f1 f2 : List FieldMeta), f1.map (·.name) = f2.map (·.name) →
    f1.findIdx? (fun f => f.name = some n) = f2.findIdx? (fun f => f.name = some n)
  | [], [], _ => rfl
  | [], _ :: _, h => by simp at h
  | _ :: _, [], h => by simp at h
  | a :: f1, b :: f2, h => by
    simp only [List.map_cons, List.cons.injEq] at h
    simp only [List.findIdx?_cons, h.1, findIdx_names n f1 f2 h.2]

theorem unionOrderIndexes_names (f1 f2 : List FieldMeta) (h : f1.map (·.name) = f2.map (·.name)) :
    ∀ bs : List By, unionOrderIndexes f1 bs = unionOrderIndexes f2 bs
  | [] => rfl
  | b :: bs => by
    have hl : f1.length = f2.length := by simpa using congrArg List.length h
    have : unionOrderIndex f1 b = unionOrderIndex f2 b := by
      cases b with
      | name n => exact findIdx_names n f1 f2 h
      | pos n => simp [unionOrderIndex, hl]
      | agg k a d => rfl
    simp only [unionOrderIndexes, this, unionOrderIndexes_names f1 f2 h bs]

theorem unionOrderIndexes_lt (fields : List FieldMeta) : ∀ (bs : List By) (is : List Nat),
    unionOrderIndexes fields bs = some is → is.length = bs.length ∧ ∀ i ∈ is, i < fields.length
  | [], is, h => by
    simp only [unionOrderIndexes, Option.some.injEq] at h
    subst h; simp
  | b :: bs, is, h => by
    simp only [unionOrderIndexes] at h
    split at h
    · rename_i i is' hi his
      simp only [Option.some.injEq] at h
      subst h
      have ih := unionOrderIndexes_lt fields bs is' his
      refine ⟨by simp [ih.1], ?_⟩
      intro j hj
      rcases List.mem_cons.mp hj with rfl | hj
      · cases b with
        | name n =>
          simp only [unionOrderIndex] at hi
          have := List.findIdx?_eq_some_iff_findIdx_eq.mp hi
          exact this.1
        | pos n =>
          simp only [unionOrderIndex] at hi
          split at hi
          · simp only [Option.some.injEq] at hi; omega
          · cases hi
        | agg k a d => simp [unionOrderIndex] at hi
      · exact ih.2 j hj
    · cases h

/-- what the theorem assumes about one SELECT of the UNION: it is a statement of
    the proved class on typed sub-tables (hypotheses of `C02_select_correct_partial`);
    if it is routed to no sub-table its select list has no `*` (`newEmptyResultset`
    makes up a single field for `*`) -/
structure UnionSel (schema : List Ty) (s : Query × List (List Row)) (cq : CQ) : Prop where
  hcq : compile schema s.1 = some cq
  hsup : Supported schema s.1 = true
  htyped : ∀ t ∈ s.2, TypedRows schema t
  hkey : KeyInj cq s.2.flatten
  hrow : VisKeyInj cq s.2.flatten
  hsub : DistinctLimitInj cq s.2.flatten
  hstar : s.2 = [] → s.1.fields.all (fun f => f.expr != .star) = true

def AllSel (schema : List Ty) : List (Query × List (List Row)) → List CQ → Prop
  | [], [] => True
  | s :: ss, cq :: cqs => UnionSel schema s cq ∧ AllSel schema ss cqs
  | _, _ => False

/-- every part is an answer of its SELECT on the union of that SELECT's sub-tables -/
def PartsOK : List (Query × List (List Row)) → List CQ → List (List Row) → Prop
  | [], [], [] => True
  | s :: ss, cq :: cqs, p :: ps => Answer cq s.2.flatten p ∧ PartsOK ss cqs ps
  | _, _, _ => False

/-- the visible rows of all SELECTs (on which the duplicate key has to be injective) -/
def unionVis : List (Query × List (List Row)) → List CQ → List Row
  | s :: ss, cq :: cqs => (evalPre cq s.2.flatten).map (·.vis) ++ unionVis ss cqs
  | _, _ => []

/-- the result fields the ORDER BY of the UNION refers to: those of the first SELECT -/
def unionSpecFields (schema : List Ty) : List (Query × List (List Row)) → List FieldMeta
  | [] => []
  | s :: _ => fieldsOf schema s.1 1

theorem unionSubs_spec (schema : List Ty) : ∀ (sels : List (Query × List (List Row))) (cqs : List CQ) (rs : List UResult),
    AllSel schema sels cqs → unionSubs schema sels = .ok rs →
    PartsOK sels cqs (rs.map (·.rows)) ∧
    (∀ r ∈ rs, ∀ x ∈ r.rows, x.length = r.fields.length ∧ x ∈ unionVis sels cqs) ∧
    rs.map (fun r => r.fields.map (·.name)) = sels.map (fun s => (fieldsOf schema s.1 1).map (·.name))
  | [], [], rs, _, h => by
    simp only [unionSubs, R.ok.injEq] at h
    subst h
    simp [PartsOK]
  | [], _ :: _, _, ha, _ => by cases ha
  | _ :: _, [], _, ha, _ => by cases ha
  | (q, tables) :: ss, cq :: cqs, rs, ha, h => by
    obtain ⟨hs, hrest⟩ := ha
    simp only [unionSubs] at h
    cases hex : executeIn schema q tables with
    | fail => rw [hex] at h; cases h
    | panic => rw [hex] at h; cases h
    | ok r =>
      rw [hex] at h
      simp only at h
      cases hsub : unionSubs schema ss with
      | fail => rw [hsub] at h; cases h
      | panic => rw [hsub] at h; cases h
      | ok rs' =>
        rw [hsub] at h
        simp only [R.ok.injEq] at h
        subst h
        obtain ⟨ih1, ih2, ih3⟩ := unionSubs_spec schema ss cqs rs' hrest hsub
        have hans : Answer cq tables.flatten r.rows :=
          C02_select_correct_partial schema q cq tables r hs.hcq hs.hsup hs.htyped hs.hkey hs.hrow hs.hsub hex
        have hrows := answer_rows cq tables.flatten r.rows hans
        have hf := fieldsOf_names schema q cq tables.length hs.hcq (by
          intro h0
          exact hs.hstar (List.length_eq_zero_iff.mp h0))
        refine ⟨⟨hans, ih1⟩, ?_, ?_⟩
        · intro r' hr' x hx
          rcases List.mem_cons.mp hr' with rfl | hr'
          · simp only at hx ⊢
            refine ⟨by rw [hf.2]; exact (hrows x hx).2, ?_⟩
            simp only [unionVis, List.mem_append]
            exact Or.inl (hrows x hx).1
          · have := ih2 r' hr' x hx
            refine ⟨this.1, ?_⟩
            simp only [unionVis, List.mem_append]
            exact Or.inr this.2
        · simp only [List.map_cons, hf.1, ih3]

theorem unionLimit_eq (lim : Lim) (rows : List Row) : unionLimit lim rows = window lim.toWindow rows := by
  cases lim <;> simp [unionLimit, Lim.toWindow, window]

theorem unionSort_spec (merged : UResult) (order : List (By × Bool)) (rows' : List Row)
    (hrows : ∀ x ∈ merged.rows, x.length = merged.fields.length)
    (h : unionSort merged order = .ok rows') :
    ∃ cols : List Nat, unionOrderIndexes merged.fields (order.map (·.1)) = some cols ∧
      rows' = merged.rows.mergeSort fun a b =>
        leKey (order.map (·.2)) (keyAt (cols.map fun (i : Nat) => (i : Int)) a)
          (keyAt (cols.map fun (i : Nat) => (i : Int)) b) := by
  simp only [unionSort] at h
  split at h
  · rename_i he
    have : order = [] := List.isEmpty_iff.mp he
    subst this
    simp only [R.ok.injEq] at h
    subst h
    refine ⟨[], rfl, ?_⟩
    rw [mergeSort_true]
    intro a b
    simp [leKey]
  · split at h
    · cases h
    · rename_i idxs hidx
      have hlt := unionOrderIndexes_lt merged.fields _ idxs hidx
      refine ⟨idxs, hidx, ?_⟩
      apply sortRows_spec _ _ _ _ (by simp [hlt.1]) _ h
      intro r hr c hc
      obtain ⟨i, hi, rfl⟩ := List.mem_map.mp hc
      have := hlt.2 i hi
      rw [hrows r hr]
      omega

/-- **UNION [ALL | DISTINCT] of statements of the proved class**: if the proxy
    returns a result, its rows are an answer of the UNION on one database: there
    are answers of the SELECTs (each on the union of its sub-tables) such that the
    result is their UNION (left to right, a DISTINCT union removing the duplicates
    gathered so far), in the order of the UNION's ORDER BY (columns of the first
    SELECT by name or position; ties in any order), cut to the UNION's LIMIT
    window.  Hypotheses: every SELECT satisfies those of `C02_select_correct_partial`;
    the duplicate key is injective on the visible rows of the SELECTs. -/
theorem union_correct (schema : List Ty) (sels : List (Query × List (List Row))) (cqs : List CQ)
    (distinct : List Bool) (order : List (By × Bool)) (lim : Lim) (res : UResult)
    (hsels : AllSel schema sels cqs)
    (hinj : ∀ a ∈ unionVis sels cqs, ∀ b ∈ unionVis sels cqs, generateMapKey a = generateMapKey b → a = b)
    (h : executeUnion schema sels distinct order lim = .ok res) :
    ∃ (parts : List (List Row)) (cols : List Nat), PartsOK sels cqs parts ∧
      unionOrderIndexes (unionSpecFields schema sels) (order.map (·.1)) = some cols ∧
      UnionAnswer parts distinct cols (order.map (·.2)) lim res.rows := by
  simp only [executeUnion] at h
  cases hsubs : unionSubs schema sels with
  | fail => rw [hsubs] at h; cases h
  | panic => rw [hsubs] at h; cases h
  | ok rs =>
    rw [hsubs] at h
    simp only [mergeUnionResult] at h
    obtain ⟨hparts, hrs, hnames⟩ := unionSubs_spec schema sels cqs rs hsels hsubs
    cases hmm : unionMergeMulti rs distinct with
    | fail => rw [hmm] at h; cases h
    | panic => rw [hmm] at h; cases h
    | ok merged =>
      rw [hmm] at h
      simp only at h
      cases hsort : unionSort merged order with
      | fail => rw [hsort] at h; cases h
      | panic => rw [hsort] at h; cases h
      | ok rows' =>
        rw [hsort] at h
        simp only at h
        split at h
        · simp only [R.ok.injEq] at h
          subst h
          simp only
          -- the merged rows and fields
          have hmerged : (∀ x ∈ merged.rows, x.length = merged.fields.length) ∧
              merged.fields.map (·.name) = (unionSpecFields schema sels).map (·.name) ∧
              (match rs.map (·.rows) with
                | [] => merged.rows = []
                | first :: rest => merged.rows = unionRows first rest distinct) := by
            match rs, hrs, hnames, hmm with
            | [], _, hnames, hmm =>
              simp only [unionMergeMulti, R.ok.injEq] at hmm
              subst hmm
              have : sels = [] := by
                cases sels with
                | nil => rfl
                | cons a b => simp at hnames
              subst this
              simp [unionSpecFields]
            | [r], hrs, hnames, hmm =>
              simp only [unionMergeMulti, R.ok.injEq] at hmm
              subst hmm
              refine ⟨fun x hx => (hrs _ (by simp) x hx).1, ?_, by simp [unionRows]⟩
              cases sels with
              | nil => simp at hnames
              | cons a b =>
                simp only [List.map_cons, List.cons.injEq] at hnames
                simp [unionSpecFields, hnames.1]
            | r :: r2 :: rest, hrs, hnames, hmm =>
              simp only [unionMergeMulti] at hmm
              obtain ⟨hf, hr, hl⟩ := unionLoop_spec (r2 :: rest) r distinct merged
                (fun x hx => (hrs r (by simp) x hx).1)
                (fun r' hr' x hx => (hrs r' (by simp [hr']) x hx).1)
                (by
                  intro a ha b hb e
                  have hmem : ∀ y ∈ r.rows ++ ((r2 :: rest).map (·.rows)).flatten, y ∈ unionVis sels cqs := by
                    intro y hy
                    rcases List.mem_append.mp hy with h1 | h1
                    · exact (hrs r (by simp) y h1).2
                    · obtain ⟨l, hl, hyl⟩ := List.mem_flatten.mp h1
                      obtain ⟨r', hr', rfl⟩ := List.mem_map.mp hl
                      exact (hrs r' (by simp [hr']) y hyl).2
                  exact hinj a (hmem a ha) b (hmem b hb) e) hmm
              refine ⟨hl, ?_, by simpa using hr⟩
              rw [hf]
              cases sels with
              | nil => simp at hnames
              | cons a b =>
                simp only [List.map_cons, List.cons.injEq] at hnames
                simp [unionSpecFields, hnames.1]
          obtain ⟨hlen, hfn, hrowsU⟩ := hmerged
          obtain ⟨cols, hcols, hsorted⟩ := unionSort_spec merged order rows' hlen hsort
          refine ⟨rs.map (·.rows), cols, hparts, ?_, ?_⟩
          · rw [← unionOrderIndexes_names merged.fields _ hfn]
            exact hcols
          · rw [unionLimit_eq, hsorted]
            cases hp : rs.map (·.rows) with
            | nil =>
              rw [hp] at hrowsU
              simp only at hrowsU
              simp only [UnionAnswer, hrowsU]
              cases lim <;> simp [Lim.toWindow, window]
            | cons first rest =>
              rw [hp] at hrowsU
              simp only at hrowsU
              simp only [UnionAnswer]
              refine ⟨_, ?_, ?_, rfl⟩
              · rw [← hrowsU]; exact List.mergeSort_perm _ _
              · exact List.pairwise_mergeSort
                  (le := leFull (order.map (·.2)) (cols.map fun (i : Nat) => (i : Int)))
                  (leFull_trans _ _) (leFull_total _ _) _
        · cases h


/-! ### joins with a linked child table or a global table -/

theorem joinRows_append_left (kind : JoinKind) (on : Row → Row → Bool) (n : Nat) (L1 L2 R : List Row) :
    joinRows kind on n (L1 ++ L2) R = joinRows kind on n L1 R ++ joinRows kind on n L2 R := by
  simp [joinRows, List.flatMap_append]

theorem joinRows_congr (kind : JoinKind) (on : Row → Row → Bool) (n : Nat) : ∀ (L R R' : List Row),
    (∀ l ∈ L, R.filter (on l) = R'.filter (on l)) → joinRows kind on n L R = joinRows kind on n L R'
  | [], _, _, _ => rfl
  | l :: L, R, R', h => by
    have ih := joinRows_congr kind on n L R R' (fun x hx => h x (by simp [hx]))
    simp only [joinRows, List.flatMap_cons] at ih ⊢
    rw [h l (by simp), ih]

/-- **A global table on the right**: every sub-table holds the whole global
    table, so the rows of the sub-tables' joins, one after the other, are the rows
    of the join of the union. -/
theorem join_global_rows (kind : JoinKind) (on : Row → Row → Bool) (n : Nat) (G : List Row) :
    ∀ Ls : List (List Row), joinRows kind on n Ls.flatten G = (Ls.map fun L => joinRows kind on n L G).flatten
  | [] => by simp [joinRows]
  | L :: Ls => by
    simp only [List.flatten_cons, List.map_cons, joinRows_append_left, join_global_rows kind on n G Ls]

/-- rows of different sub-tables never satisfy the ON condition -/
def Colocated (on : Row → Row → Bool) (shards : List (List Row × List Row)) : Prop :=
  shards.Pairwise fun p p' =>
    (∀ l ∈ p.1, ∀ r ∈ p'.2, on l r = false) ∧ (∀ l ∈ p'.1, ∀ r ∈ p.2, on l r = false)

/-- **A linked child table**: parent and child rows that join are stored in
    sub-tables with the same index, so the rows of the per-index joins, one
    after the other, are the rows of the join of the two unions. -/
theorem join_colocated_rows (kind : JoinKind) (on : Row → Row → Bool) (n : Nat) :
    ∀ shards : List (List Row × List Row), Colocated on shards →
    joinRows kind on n (shards.map (·.1)).flatten (shards.map (·.2)).flatten =
      (shards.map fun p => joinRows kind on n p.1 p.2).flatten
  | [], _ => by simp [joinRows]
  | (L, R) :: rest, hco => by
    obtain ⟨hhead, htail⟩ := List.pairwise_cons.mp hco
    have ih := join_colocated_rows kind on n rest htail
    simp only [List.map_cons, List.flatten_cons, joinRows_append_left]
    congr 1
    · apply joinRows_congr
      intro l hl
      rw [List.filter_append]
      have : (rest.map (·.2)).flatten.filter (on l) = [] := by
        apply List.filter_eq_nil_iff.mpr
        intro r hr
        obtain ⟨R', hR', hrR'⟩ := List.mem_flatten.mp hr
        obtain ⟨p', hp', rfl⟩ := List.mem_map.mp hR'
        simp [(hhead p' hp').1 l hl r hrR']
      rw [this, List.append_nil]
    · rw [← ih]
      apply joinRows_congr
      intro l hl
      rw [List.filter_append]
      have : R.filter (on l) = [] := by
        apply List.filter_eq_nil_iff.mpr
        intro r hr
        obtain ⟨L', hL', hlL'⟩ := List.mem_flatten.mp hl
        obtain ⟨p', hp', rfl⟩ := List.mem_map.mp hL'
        simp [(hhead p' hp').2 l hlL' r hr]
      rw [this, List.nil_append]

/-- rows are stored where a placement function of their sharding key puts them, and the ON
    condition implies equal keys: the sub-tables are co-located -/
theorem colocated_of_place (on : Row → Row → Bool) (place : Row → Int)
    (shards : List (Int × List Row × List Row)) (hnd : (shards.map (·.1)).Nodup)
    (hL : ∀ s ∈ shards, ∀ l ∈ s.2.1, place l = s.1) (hR : ∀ s ∈ shards, ∀ r ∈ s.2.2, place r = s.1)
    (hon : ∀ l r, on l r = true → place l = place r) : Colocated on (shards.map (·.2)) := by
  simp only [Colocated, List.pairwise_map]
  have hnd' : shards.Pairwise (fun a b => a.1 ≠ b.1) := by
    have := hnd
    simp only [List.Nodup, List.pairwise_map] at this
    exact this
  refine hnd'.imp_of_mem ?_
  intro a b ha hb hab
  constructor
  · intro l hl r hr
    cases h : on l r
    · rfl
    · exfalso
      apply hab
      rw [← hL a ha l hl, ← hR b hb r hr]
      exact hon l r h
  · intro l hl r hr
    cases h : on l r
    · rfl
    · exfalso
      apply hab
      rw [← hL b hb l hl, ← hR a ha r hr]
      exact (hon l r h).symm

theorem joinOn_key (withO : Bool) (l r : Row) (h : joinOn withO l r = true) : l.getD 0 .null = r.getD 0 .null := by
  simp only [joinOn, Bool.and_eq_true, bne_iff_ne, beq_iff_eq] at h
  exact h.1.2

theorem typedRow_append {sL sR : List Ty} {l r : Row} (hl : TypedRow sL l) (hr : TypedRow sR r) :
    TypedRow (sL ++ sR) (l ++ r) := by
  refine ⟨by simp [hl.len, hr.len], ?_⟩
  intro i t hi
  by_cases h : i < sL.length
  · rw [List.getElem?_append_left h] at hi
    have := hl.ok i t hi
    simpa [List.getD, List.getElem?_append_left (show i < l.length by rw [hl.len]; exact h)] using this
  · have h' : sL.length ≤ i := by omega
    rw [List.getElem?_append_right h'] at hi
    have := hr.ok (i - sL.length) t hi
    simpa [List.getD, List.getElem?_append_right (show l.length ≤ i by rw [hl.len]; exact h'), hl.len] using this

theorem typedRow_nulls (sR : List Ty) : TypedRow sR (List.replicate sR.length Val.null) := by
  refine ⟨by simp, ?_⟩
  intro i t hi
  have hlt : i < sR.length := (List.getElem?_eq_some_iff.mp hi).1
  simp [List.getD, hlt, conforms]

theorem joinRows_typed {sL sR : List Ty} (kind : JoinKind) (on : Row → Row → Bool) (L R : List Row)
    (hL : TypedRows sL L) (hR : TypedRows sR R) : TypedRows (sL ++ sR) (joinRows kind on sR.length L R) := by
  intro x hx
  simp only [joinRows, List.mem_flatMap] at hx
  obtain ⟨l, hl, hx⟩ := hx
  cases kind with
  | inner =>
    simp only [List.mem_map, List.mem_filter] at hx
    obtain ⟨r, ⟨hr, _⟩, rfl⟩ := hx
    exact typedRow_append (hL l hl) (hR r hr)
  | left =>
    simp only at hx
    split at hx
    · simp only [List.mem_singleton] at hx
      subst hx
      exact typedRow_append (hL l hl) (typedRow_nulls sR)
    · simp only [List.mem_map, List.mem_filter] at hx
      obtain ⟨r, ⟨hr, _⟩, rfl⟩ := hx
      exact typedRow_append (hL l hl) (hR r hr)

/-- **JOIN with a linked child table** (`a [INNER | LEFT] JOIN b ON …`, the rows of
    the two tables that satisfy ON live in sub-tables with the same index —
    `colocated_of_place`: both tables are placed by the same function of the
    sharding key and ON contains the equality of the keys): for a statement of
    the proved class over the columns of both tables, a result of the proxy is
    an answer of the statement on the join of the two unions. -/
theorem join_linked_correct (schemaL schemaR : List Ty) (kind : JoinKind) (on : Row → Row → Bool)
    (q : Query) (cq : CQ) (shards : List (List Row × List Row)) (res : Result)
    (hcq : compile (schemaL ++ schemaR) q = some cq) (hsup : Supported (schemaL ++ schemaR) q = true)
    (hL : ∀ p ∈ shards, TypedRows schemaL p.1) (hR : ∀ p ∈ shards, TypedRows schemaR p.2)
    (hco : Colocated on shards)
    (hkey : KeyInj cq (joinRows kind on schemaR.length (shards.map (·.1)).flatten (shards.map (·.2)).flatten))
    (hrow : VisKeyInj cq (joinRows kind on schemaR.length (shards.map (·.1)).flatten (shards.map (·.2)).flatten))
    (hsub : DistinctLimitInj cq (joinRows kind on schemaR.length (shards.map (·.1)).flatten (shards.map (·.2)).flatten))
    (h : executeJoin schemaL schemaR kind on q shards = .ok res) :
    Answer cq (joinRows kind on schemaR.length (shards.map (·.1)).flatten (shards.map (·.2)).flatten) res.rows := by
  rw [join_colocated_rows kind on schemaR.length shards hco] at hkey hrow hsub ⊢
  refine C02_select_correct_partial (schemaL ++ schemaR) q cq _ res hcq hsup ?_ hkey hrow hsub h
  intro t ht
  obtain ⟨p, hp, rfl⟩ := List.mem_map.mp ht
  exact joinRows_typed kind on p.1 p.2 (hL p hp) (hR p hp)

/-- **JOIN with a global table on the right** (`a [INNER | LEFT] JOIN g ON …`, any ON
    condition): every sub-table joins its rows with the whole global table. -/
theorem join_global_correct (schemaL schemaR : List Ty) (kind : JoinKind) (on : Row → Row → Bool)
    (q : Query) (cq : CQ) (Ls : List (List Row)) (G : List Row) (res : Result)
    (hcq : compile (schemaL ++ schemaR) q = some cq) (hsup : Supported (schemaL ++ schemaR) q = true)
    (hL : ∀ L ∈ Ls, TypedRows schemaL L) (hG : TypedRows schemaR G)
    (hkey : KeyInj cq (joinRows kind on schemaR.length Ls.flatten G))
    (hrow : VisKeyInj cq (joinRows kind on schemaR.length Ls.flatten G))
    (hsub : DistinctLimitInj cq (joinRows kind on schemaR.length Ls.flatten G))
    (h : executeJoin schemaL schemaR kind on q (Ls.map fun L => (L, G)) = .ok res) :
    Answer cq (joinRows kind on schemaR.length Ls.flatten G) res.rows := by
  rw [join_global_rows kind on schemaR.length G Ls] at hkey hrow hsub ⊢
  simp only [executeJoin, List.map_map] at h
  refine C02_select_correct_partial (schemaL ++ schemaR) q cq _ res hcq hsup ?_ hkey hrow hsub h
  intro t ht
  obtain ⟨L, hLm, rfl⟩ := List.mem_map.mp ht
  exact joinRows_typed kind on L G (hL L hLm) hG


/-! ### the core theorems under their names (statements as in the lemma files) -/

/-- **COUNT / SUM / MAX / MIN are homomorphisms of concatenation** (non-DISTINCT):
    merging the next shard's aggregate (`from`) into the accumulated one (`to`)
    gives the aggregate of the concatenated argument lists; empty and all-NULL
    parts (COUNT 0, NULL) included. -/
theorem agg_homomorphism (t : VTy) (k : AggKind) (l1 l2 : List Val)
    (h1 : ∀ v ∈ l1, hasTy t v = true) (h2 : ∀ v ∈ l2, hasTy t v = true) (hsum : k = .sum → t ≠ .str) :
    mergeVal k (aggOf k l2) (aggOf k l1) = .ok (aggOf k (l1 ++ l2)) :=
  Merge.agg_homomorphism t k l1 l2 h1 h2 hsum

/-- **Grouping under an injective key encoding**: the loop of
    `buildSelectGroupByResult` over the groups returned by the shards ends with
    one row per key, the row of all rows carrying that key. -/
theorem group_merge {schema : List Ty} (p : Plan) (d : Int) (items : List Item) (kc : List Row → List Val)
    (haggs : p.aggs = aggPositions items) (hok : ∀ it ∈ items, it.aggOK schema = true)
    (chunks : List (List Row))
    (hall : ∀ c ∈ chunks, c ≠ [] ∧ TypedRows schema c ∧ keySliceOf p.groupByColumn d (fullRow items c) = .ok (kc c))
    (hinj : ∀ c ∈ chunks, ∀ c' ∈ chunks, generateMapKey (kc c) = generateMapKey (kc c') → kc c = kc c') :
    groupLoop p d [] (chunks.map (fullRow items)) =
      .ok ((dedup (chunks.map kc)).map fun k => (generateMapKey k, fullRow items (chunkRows kc chunks k))) := by
  have := groupLoop_chunks (schema := schema) p d items kc haggs hok chunks []
    (by simpa using hall) (by simpa using hinj)
  simpa [chunkState, dedup, dedupAux] using this

/-- **The map key is injective** (after the `fix:` commit): equal keys come from
    column lists that agree in length, in their NULLs and in the text of every
    other column. -/
theorem mapkey_injective (k1 k2 : List Val) (s1 : ∀ v ∈ k1, ShortText v) (s2 : ∀ v ∈ k2, ShortText v)
    (h : generateMapKey k1 = generateMapKey k2) : k1.map keyText = k2.map keyText :=
  generateMapKey_inj k1 k2 s1 s2 h

/-- the two collisions of the old encoding are gone -/
example : generateMapKey [.null] ≠ generateMapKey [.str [78, 85, 76, 76]] := by decide
example : generateMapKey [.str [97, 43], .str [98]] ≠ generateMapKey [.str [97], .str [43, 98]] := by decide

/-- **Top-k merge**: every shard list sorted; sorting the first `o+c` rows of
    every shard and taking `[o, o+c)` is the window `[o, o+c)` of a sorted
    arrangement of all rows. -/
theorem topk_merge_rows (dirs : List Bool) (cols : List Int) (Ls : List (List Row))
    (hs : ∀ L ∈ Ls, L.Pairwise (fun a b => leFull dirs cols a b = true)) (o c : Nat) :
    ∃ S : List Row, S.Perm Ls.flatten ∧ S.Pairwise (fun a b => leFull dirs cols a b = true) ∧
      (S.drop o).take c = (((heads (o + c) Ls).mergeSort (leFull dirs cols)).drop o).take c :=
  topk_merge (leFull_trans dirs cols) (leFull_total dirs cols) Ls hs o c

/-! ### the key encoding is injective on typed keys -/

theorem map_inj_on {α β : Type} (f : α → β) : ∀ (l1 l2 : List α),
    (∀ a ∈ l1, ∀ b ∈ l2, f a = f b → a = b) → l1.map f = l2.map f → l1 = l2
  | [], [], _, _ => rfl
  | [], _ :: _, _, h => by simp at h
  | _ :: _, [], _, h => by simp at h
  | a :: l1, b :: l2, hinj, h => by
    simp only [List.map_cons, List.cons.injEq] at h
    rw [hinj a (by simp) b (by simp) h.1,
      map_inj_on f l1 l2 (fun x hx y hy => hinj x (by simp [hx]) y (by simp [hy])) h.2]

theorem digit_byte (c : Char) (h : c.isDigit = true) : (UInt8.ofNat c.toNat).toNat = c.toNat := by
  simp only [Char.isDigit, Bool.and_eq_true, decide_eq_true_eq] at h
  have h2 : c.toNat ≤ 57 := by
    have := h.2
    exact this
  simp [UInt8.toNat_ofNat']
  omega

theorem digitsOf_inj (n m : Nat) (h : digitsOf n = digitsOf m) : n = m := by
  have hc : Nat.toDigits 10 n = Nat.toDigits 10 m := by
    apply map_inj_on _ _ _ _ h
    intro a ha b hb e
    have da := Nat.isDigit_of_mem_toDigits (by decide) (by decide) ha
    have db := Nat.isDigit_of_mem_toDigits (by decide) (by decide) hb
    have := congrArg UInt8.toNat e
    rw [digit_byte a da, digit_byte b db] at this
    exact Char.toNat_inj.mp this
  have := congrArg (fun l => Nat.ofDigitChars 10 l 0) hc
  simpa [Nat.ofDigitChars_ten_toDigits] using this

theorem digitsOf_no_minus (n : Nat) : (45 : UInt8) ∉ digitsOf n := by
  intro h
  simp only [digitsOf, List.mem_map] at h
  obtain ⟨c, hc, e⟩ := h
  have dc := Nat.isDigit_of_mem_toDigits (by decide) (by decide) hc
  have := congrArg UInt8.toNat e
  rw [digit_byte c dc] at this
  simp only [Char.isDigit, Bool.and_eq_true, decide_eq_true_eq] at dc
  have h1 : 48 ≤ c.toNat := dc.1
  have : c.toNat = 45 := this
  omega

theorem intText_inj (i j : Int) (h : intText i = intText j) : i = j := by
  simp only [intText] at h
  by_cases hi : i < 0 <;> by_cases hj : j < 0
  · simp only [hi, hj, if_true, List.cons.injEq, true_and] at h
    have := digitsOf_inj _ _ h
    omega
  · simp only [hi, hj, if_true, if_false] at h
    exfalso
    apply digitsOf_no_minus j.natAbs
    rw [← h]; simp
  · simp only [hi, hj, if_true, if_false] at h
    exfalso
    apply digitsOf_no_minus i.natAbs
    rw [h]; simp
  · simp only [hi, hj, if_false] at h
    have := digitsOf_inj _ _ h
    omega

theorem digitsOf_length (n : Nat) (h : n < 10 ^ 19) : (digitsOf n).length ≤ 19 := by
  simp only [digitsOf, List.length_map]
  exact (Nat.length_toDigits_le_iff (by decide) (by decide)).mpr h

/-- a GROUP BY key value the proxy can hold: NULL, a BIGINT, a string shorter than 2^64 bytes,
    a DECIMAL within MySQL's limits (65 digits, scale ≤ 30) -/
def keyValOK : Val → Prop
  | .null => True
  | .int i => i.natAbs < 10 ^ 19
  | .str b => b.length < 256 ^ 8
  | .dec u s => u.natAbs < 10 ^ 65 ∧ s ≤ 30

theorem shortText_of_keyValOK (v : Val) (h : keyValOK v) : ShortText v := by
  cases v with
  | null => simp [ShortText, formatValue]
  | int i =>
    simp only [keyValOK] at h
    have := digitsOf_length i.natAbs h
    simp only [ShortText, formatValue, intText]
    split
    · simp only [List.length_cons]; omega
    · omega
  | str b => exact h
  | dec u s =>
    simp only [keyValOK] at h
    have := decText_length u s h.1 h.2
    simp only [ShortText, formatValue]
    omega

/-- values of one column with the same key text are equal -/
theorem keyText_inj_of_conforms (t : Ty) (x y : Val) (c1 : conforms t x = true) (c2 : conforms t y = true)
    (h : keyText x = keyText y) : x = y := by
  cases t with
  | int =>
    cases x <;> cases y <;> simp_all [conforms, hasTy, Ty.vty, keyText, formatValue]
    exact intText_inj _ _ h
  | str =>
    cases x <;> cases y <;> simp_all [conforms, hasTy, Ty.vty, keyText, formatValue]
  | dec s =>
    cases x <;> cases y <;> simp_all [conforms, hasTy, Ty.vty, keyText, formatValue]
    exact decText_inj _ _ _ h

/-- **On typed GROUP BY columns the key encoding is injective**: the hypothesis
    `KeyInj` of the assembled theorem holds for every table whose GROUP BY
    columns are BIGINT, DECIMAL or character columns (values within the bounds
    `keyValOK`). -/
theorem keyInj_of_typed (schema : List Ty) (g : List Nat) (rows : List Row) (ht : TypedRows schema rows)
    (hg : ∀ c ∈ g, c < schema.length)
    (hb : ∀ r ∈ rows, ∀ c ∈ g, keyValOK (r.getD c .null)) :
    ∀ r ∈ rows, ∀ r' ∈ rows, generateMapKey (groupKey g r) = generateMapKey (groupKey g r') →
      groupKey g r = groupKey g r' := by
  intro r hr r' hr' h
  apply generateMapKey_inj_of_text_inj _ _ _ _ _ h
  · intro v hv
    obtain ⟨c, hc, rfl⟩ := List.mem_map.mp hv
    exact shortText_of_keyValOK _ (hb r hr c hc)
  · intro v hv
    obtain ⟨c, hc, rfl⟩ := List.mem_map.mp hv
    exact shortText_of_keyValOK _ (hb r' hr' c hc)
  · intro pr hp
    simp only [groupKey, List.zip_map', List.mem_map] at hp
    obtain ⟨c, hc, rfl⟩ := hp
    simp only
    have hlt := hg c hc
    have hs : schema[c]? = some (schema[c]'hlt) := List.getElem?_eq_getElem hlt
    exact keyText_inj_of_conforms _ _ _ ((ht r hr).ok c _ hs) ((ht r' hr').ok c _ hs)

/-- the same for the row key of SELECT DISTINCT over plain columns -/
theorem rowKeyInj_of_typed (schema : List Ty) (cq : CQ) (cols : List Nat) (rows : List Row)
    (hitems : cq.items = cols.map Item.col) (ht : TypedRows schema rows)
    (hg : ∀ c ∈ cols, c < schema.length)
    (hb : ∀ r ∈ rows, ∀ c ∈ cols, keyValOK (r.getD c .null)) : RowKeyInj cq rows := by
  intro _ r hr r' hr' h
  have e : ∀ x : Row, fullRow cq.items [x] = groupKey cols x := by
    intro x
    simp [hitems, fullRow, groupKey, List.map_map, Function.comp_def, evalItem]
  rw [e, e] at h ⊢
  exact keyInj_of_typed schema cols rows ht hg hb r hr r' hr' h

/-! ### the DISTINCT row key is injective on typed rows (aggregates included) -/

/-- the column type of the values of a select item -/
def itemTyOf (schema : List Ty) : Item → Option Ty
  | .col c => schema[c]?
  | .const _ => some .int
  | .agg .count _ _ => some .int
  | .agg .sum (some c) _ =>
    match schema[c]? with
    | some .int => some (.dec 0)
    | some (.dec s) => some (.dec s)
    | _ => none
  | .agg .sum none _ => none
  | .agg _ (some c) _ => schema[c]?
  | .agg _ none _ => none

theorem aggArgs_typed' {schema : List Ty} {grp : List Row} (hg : TypedRows schema grp) (c : Nat) (d : Bool)
    (hc : c < schema.length) : ∀ v ∈ aggArgs (some c) d grp, hasTy (argTy schema (some c)) v = true := by
  intro v hv
  have hsub : v ∈ aggArgs (some c) false grp := by
    cases d with
    | false => exact hv
    | true =>
      simp only [aggArgs, if_true] at hv
      have := (mem_dedup _ _).mp hv
      simpa [aggArgs] using this
  exact aggArgs_typed hg (some c) (fun c' h => by cases h; exact hc) v hsub

/-- the value of a select item on a group of typed rows is NULL or of the item's type -/
theorem evalItem_conforms (schema : List Ty) (G : List Row) (hG : TypedRows schema G) :
    ∀ (it : Item) (t : Ty), itemTyOf schema it = some t → conforms t (evalItem G it) = true := by
  intro it t ht
  cases it with
  | col c =>
    simp only [itemTyOf] at ht
    cases G with
    | nil => simp [evalItem, conforms]
    | cons r rs => exact (hG r (by simp)).ok c t ht
  | const i =>
    simp only [itemTyOf, Option.some.injEq] at ht
    subst ht
    simp [evalItem, conforms, hasTy, Ty.vty]
  | agg k arg d =>
    cases k with
    | count =>
      simp only [itemTyOf, Option.some.injEq] at ht
      subst ht
      simp [evalItem, aggOf, conforms, hasTy, Ty.vty]
    | sum =>
      cases arg with
      | none => simp [itemTyOf] at ht
      | some c =>
        simp only [itemTyOf] at ht
        cases hs : schema[c]? with
        | none => rw [hs] at ht; cases ht
        | some tc =>
          have hc : c < schema.length := (List.getElem?_eq_some_iff.mp hs).1
          have hargs := aggArgs_typed' hG c d hc
          simp only [argTy, hs] at hargs
          simp only [evalItem]
          cases hl : aggArgs (some c) d G with
          | nil => simp [aggOf, conforms]
          | cons v vs =>
            rw [hl] at hargs
            cases tc with
            | str => rw [hs] at ht; cases ht
            | int =>
              rw [hs] at ht
              simp only [Option.some.injEq] at ht
              subst ht
              rw [aggOf_sum_typed (t := .int) (by simp) v vs hargs]
              simp [conforms, hasTy, Ty.vty, VTy.scale]
            | dec s =>
              rw [hs] at ht
              simp only [Option.some.injEq] at ht
              subst ht
              rw [aggOf_sum_typed (t := .dec s) (by simp) v vs hargs]
              simp [conforms, hasTy, Ty.vty, VTy.scale]
    | max =>
      cases arg with
      | none => simp [itemTyOf] at ht
      | some c =>
        simp only [itemTyOf] at ht
        have hc : c < schema.length := (List.getElem?_eq_some_iff.mp ht).1
        have hargs := aggArgs_typed' hG c d hc
        simp only [argTy, ht] at hargs
        simp only [evalItem]
        cases hl : aggArgs (some c) d G with
        | nil => simp [aggOf, conforms]
        | cons v vs =>
          rw [hl] at hargs
          simp only [aggOf, conforms, Bool.or_eq_true]
          exact Or.inr (foldl_maxVal_typed vs v (hargs v (by simp)) (fun w hw => hargs w (by simp [hw])))
    | min =>
      cases arg with
      | none => simp [itemTyOf] at ht
      | some c =>
        simp only [itemTyOf] at ht
        have hc : c < schema.length := (List.getElem?_eq_some_iff.mp ht).1
        have hargs := aggArgs_typed' hG c d hc
        simp only [argTy, ht] at hargs
        simp only [evalItem]
        cases hl : aggArgs (some c) d G with
        | nil => simp [aggOf, conforms]
        | cons v vs =>
          rw [hl] at hargs
          simp only [aggOf, conforms, Bool.or_eq_true]
          exact Or.inr (foldl_minVal_typed vs v (hargs v (by simp)) (fun w hw => hargs w (by simp [hw])))

theorem typedRows_of_group (schema : List Ty) (cq : CQ) (rows : List Row) (ht : TypedRows schema rows) :
    ∀ G ∈ groupsOf cq rows, TypedRows schema G := by
  intro G hG
  simp only [groupsOf] at hG
  split at hG
  · obtain ⟨r, hr, rfl⟩ := List.mem_map.mp hG
    intro x hx
    simp only [List.mem_singleton] at hx
    rw [hx]
    exact ht r hr
  · split at hG
    · simp only [List.mem_singleton] at hG
      subst hG
      exact ht
    · simp only [groupRows, List.mem_map] at hG
      obtain ⟨k, _, rfl⟩ := hG
      exact typedRows_filter rows _ ht

/-- **On typed tables the DISTINCT row key is injective**, aggregate values
    included: the hypothesis `VisKeyInj` of the assembled theorem holds whenever
    every select item has a type (`itemTyOf`: columns, COUNT, SUM of numeric
    columns, MAX / MIN) and the values of the rows before DISTINCT are within the
    bounds `keyValOK`. -/
theorem visKeyInj_of_typed (schema : List Ty) (cq : CQ) (rows : List Row) (ht : TypedRows schema rows)
    (hitems : ∀ it ∈ cq.items, (itemTyOf schema it).isSome = true)
    (hb : ∀ G ∈ groupsOf cq rows, ∀ v ∈ (outOf cq G).vis, keyValOK v) : VisKeyInj cq rows := by
  intro _ G hG G' hG' h
  have tG := typedRows_of_group schema cq rows ht G hG
  have tG' := typedRows_of_group schema cq rows ht G' hG'
  apply generateMapKey_inj_of_text_inj _ _ _ _ _ h
  · intro v hv; exact shortText_of_keyValOK _ (hb G hG v hv)
  · intro v hv; exact shortText_of_keyValOK _ (hb G' hG' v hv)
  · intro pr hp
    simp only [outOf, List.zip_map', List.mem_map] at hp
    obtain ⟨it, hit, rfl⟩ := hp
    simp only
    obtain ⟨t, ht'⟩ := Option.isSome_iff_exists.mp (hitems it hit)
    exact keyText_inj_of_conforms t _ _ (evalItem_conforms schema G tG it t ht')
      (evalItem_conforms schema G' tG' it t ht')


/-- the same for the rows computed from parts of the tables (`DistinctLimitInj`) -/
theorem subVisKeyInj_of_typed (schema : List Ty) (cq : CQ) (rows : List Row) (ht : TypedRows schema rows)
    (hitems : ∀ it ∈ cq.items, (itemTyOf schema it).isSome = true)
    (hb : ∀ X : List Row, X.Sublist rows → ∀ v ∈ (outOf cq X).vis, keyValOK v) : SubVisKeyInj cq rows := by
  intro X X' hX hX' h
  have tX : TypedRows schema X := fun r hr => ht r (hX.subset hr)
  have tX' : TypedRows schema X' := fun r hr => ht r (hX'.subset hr)
  apply generateMapKey_inj_of_text_inj _ _ _ _ _ h
  · intro v hv; exact shortText_of_keyValOK _ (hb X hX v hv)
  · intro v hv; exact shortText_of_keyValOK _ (hb X' hX' v hv)
  · intro pr hp
    simp only [outOf, List.zip_map', List.mem_map] at hp
    obtain ⟨it, hit, rfl⟩ := hp
    simp only
    obtain ⟨t, ht'⟩ := Option.isSome_iff_exists.mp (hitems it hit)
    exact keyText_inj_of_conforms t _ _ (evalItem_conforms schema X tX it t ht')
      (evalItem_conforms schema X' tX' it t ht')

/-! ### non-vacuity -/

def exSchema : List Ty := [.int, .int, .int, .str, .str, .dec 2]

/-- SELECT a FROM t ORDER BY s DESC LIMIT 1, 2   (hidden sort column, LIMIT 3 on the shards) -/
def exPlain : Query :=
  { distinct := false, fields := [{ expr := .col 2, asName := none }], groupBy := none,
    orderBy := [(.name 3, true)], limit := .offCount 1 2 }

/-- SELECT COUNT(*), SUM(a) AS x100, MAX(s) FROM t -/
def exAgg : Query :=
  { distinct := false,
    fields := [{ expr := .agg .count none false, asName := none }, { expr := .agg .sum (some 2) false, asName := some 100 },
               { expr := .agg .max (some 3) false, asName := none }],
    groupBy := none, orderBy := [], limit := .none }

/-- SELECT s, COUNT(*) AS x100 FROM t GROUP BY s ORDER BY x100 DESC, MIN(a) LIMIT 1 -/
def exGroup : Query :=
  { distinct := false,
    fields := [{ expr := .col 3, asName := none }, { expr := .agg .count none false, asName := some 100 }],
    groupBy := some [.name 3], orderBy := [(.name 100, true), (.agg .min (some 2) false, false)], limit := .count 1 }

/-- SELECT DISTINCT s, a FROM t ORDER BY s, a DESC LIMIT 2 -/
def exDistinct : Query :=
  { distinct := true, fields := [{ expr := .col 3, asName := none }, { expr := .col 2, asName := none }],
    groupBy := none, orderBy := [(.name 3, false), (.name 2, true)], limit := .count 2 }

example : Supported exSchema exPlain = true := by decide
example : Supported exSchema exDistinct = true := by decide
example : Supported exSchema exAgg = true := by decide
example : Supported exSchema exGroup = true := by decide

/-- SELECT s, COUNT(*), SUM(a) FROM t GROUP BY s -/
def exGroup2 : Query :=
  { distinct := false,
    fields := [{ expr := .col 3, asName := none }, { expr := .agg .count none false, asName := none },
               { expr := .agg .sum (some 2) false, asName := none }],
    groupBy := some [.name 3], orderBy := [], limit := .none }

/-- two sub-tables; the groups NULL and 'NULL' and the group 'a' on both -/
def exTables : List (List Row) :=
  [[[.int 4, .int 0, .int 5, .str [97], .null, .dec 150 2], [.int 8, .int 0, .null, .null, .null, .null]],
   [[.int 1, .int 0, .int 7, .str [97], .null, .null], [.int 5, .int 1, .int 1, .str [78, 85, 76, 76], .null, .null]]]

example : Supported exSchema exGroup2 = true := by decide

/-- the merged answer: a → (2, 12), NULL → (1, NULL), 'NULL' → (1, 1) -/
example : executeIn exSchema exGroup2 exTables =
    .ok { nfields := 3, rows := [[.str [97], .int 2, .dec 12 0], [.null, .int 1, .null],
                                  [.str [78, 85, 76, 76], .int 1, .dec 1 0]] } := by decide

example : ∀ t ∈ exTables, TypedRows exSchema t := by
  intro t ht r hr
  simp only [exTables, List.mem_cons, List.not_mem_nil, or_false] at ht
  rcases ht with rfl | rfl <;>
    (simp only [List.mem_cons, List.not_mem_nil, or_false] at hr
     rcases hr with rfl | rfl <;>
       (refine ⟨rfl, ?_⟩
        intro i t' hi
        match i, hi with
        | 0, hi | 1, hi | 2, hi | 3, hi | 4, hi | 5, hi =>
          simp [exSchema] at hi; subst hi; decide
        | n + 6, hi => simp [exSchema] at hi))

example : KeyInj { items := [], keys := [], group := some [3], distinct := false, limit := none } exTables.flatten := by
  intro g hg
  cases hg
  decide

/-- `keyInj_of_typed` applies to the example table (GROUP BY the string column 3) -/
example : ∀ r ∈ exTables.flatten, ∀ c ∈ [3], keyValOK (r.getD c .null) := by
  intro r hr c hc
  simp only [List.mem_singleton] at hc
  subst hc
  simp only [exTables, List.flatten_cons, List.flatten_nil, List.append_nil, List.cons_append, List.nil_append,
    List.mem_cons, List.not_mem_nil, or_false] at hr
  rcases hr with rfl | rfl | rfl | rfl <;> simp [keyValOK]

/-- SELECT s, COUNT(*) FROM t GROUP BY s ORDER BY s DESC LIMIT 1, 1   (the sub-tables get LIMIT 2) -/
def exGroupLimit : Query :=
  { distinct := false,
    fields := [{ expr := .col 3, asName := none }, { expr := .agg .count none false, asName := none }],
    groupBy := some [.name 3], orderBy := [(.name 3, true)], limit := .offCount 1 1 }

/-- SELECT DISTINCT COUNT(*) AS x100 FROM t GROUP BY s ORDER BY x100 -/
def exDistinctGroup : Query :=
  { distinct := true, fields := [{ expr := .agg .count none false, asName := some 100 }],
    groupBy := some [.name 3], orderBy := [(.name 100, false)], limit := .none }

/-- SELECT DISTINCT COUNT(*), MAX(a) FROM t LIMIT 1 -/
def exDistinctAgg : Query :=
  { distinct := true,
    fields := [{ expr := .agg .count none false, asName := none }, { expr := .agg .max (some 2) false, asName := none }],
    groupBy := none, orderBy := [], limit := .count 1 }

example : Supported exSchema exGroupLimit = true := by decide
example : Supported exSchema exDistinctGroup = true := by decide
example : Supported exSchema exDistinctAgg = true := by decide

/-- the per-table LIMIT is kept for `exGroupLimit` (`merge_group_limit` is the case that applies) -/
example : (match rewrite exGroupLimit with | .ok p => p.shardQ.limit | _ => .none) = .count 2 := by decide

/-- SELECT DISTINCT COUNT(*) FROM t GROUP BY s -/
def exDistinctGroup2 : Query :=
  { distinct := true, fields := [{ expr := .agg .count none false, asName := none }],
    groupBy := some [.name 3], orderBy := [], limit := .none }

example : Supported exSchema exDistinctGroup2 = true := by decide

/-- the groups a (2 rows), NULL (1), 'NULL' (1): DISTINCT keeps one of the two rows `1` -/
example : executeIn exSchema exDistinctGroup2 exTables =
    .ok { nfields := 1, rows := [[.int 2], [.int 1]] } := by decide

/-! ### non-vacuity of `union_correct` -/

def exCq2 : CQ :=
  { items := [.col 3, .agg .count none false, .agg .sum (some 2) false], keys := [], group := some [3],
    distinct := false, limit := none }

theorem exCq2_eq : compile exSchema exGroup2 = some exCq2 := rfl

theorem exTables_typed : ∀ t ∈ exTables, TypedRows exSchema t := by
  intro t ht r hr
  simp only [exTables, List.mem_cons, List.not_mem_nil, or_false] at ht
  rcases ht with rfl | rfl <;>
    (simp only [List.mem_cons, List.not_mem_nil, or_false] at hr
     rcases hr with rfl | rfl <;>
       (refine ⟨rfl, ?_⟩
        intro i t' hi
        match i, hi with
        | 0, hi | 1, hi | 2, hi | 3, hi | 4, hi | 5, hi =>
          simp [exSchema] at hi; subst hi; decide
        | n + 6, hi => simp [exSchema] at hi))

/-- the hypotheses of `union_correct` hold for (exGroup2 on two sub-tables) UNION (exGroup2 routed to none) -/
example : AllSel exSchema [(exGroup2, exTables), (exGroup2, [])] [exCq2, exCq2] := by
  refine ⟨⟨exCq2_eq, by decide, exTables_typed, ?_, ?_, ?_, ?_⟩, ⟨exCq2_eq, by decide, ?_, ?_, ?_, ?_, ?_⟩, trivial⟩
  · intro g hg; cases hg; decide
  · intro hd; cases hd
  · intro hd; cases hd
  · intro h; cases h
  · intro t ht; cases ht
  · intro g hg r hr; cases hr
  · intro hd; cases hd
  · intro hd; cases hd
  · intro _; decide

/-- (exGroup2) UNION (exGroup2): the second copy adds nothing -/
example : ∃ r, executeUnion exSchema [(exGroup2, exTables), (exGroup2, exTables)] [true] [] .none = .ok r ∧
    r.rows.length = 3 := ⟨_, rfl, rfl⟩

/-! ### non-vacuity of the join theorems -/

/-- SELECT a.s, COUNT(*) AS x100 FROM p a JOIN c b ON a.k = b.k GROUP BY a.s ORDER BY a.s LIMIT 2
    (columns 0–5: a, 6–11: b) -/
def exJoin : Query :=
  { distinct := false,
    fields := [{ expr := .col 3, asName := none }, { expr := .agg .count none false, asName := some 100 }],
    groupBy := some [.name 3], orderBy := [(.name 3, false)], limit := .count 2, qualified := true }

example : Supported (exSchema ++ exSchema) exJoin = true := by decide

/-- a qualified GROUP BY column is added to the select list although it is selected -/
example : (match rewrite exJoin with | .ok p => p.shardQ.fields.length | _ => 0) = 4 := by decide

/-- parent and child rows with the keys 4 and 8 in the first, 1 and 5 in the second sub-table -/
def exShards : List (List Row × List Row) :=
  [(exTables.getD 0 [], [[.int 4, .int 0, .int 1, .str [120], .null, .null]]),
   (exTables.getD 1 [], [[.int 1, .int 0, .int 2, .str [121], .null, .null], [.int 1, .int 7, .int 3, .null, .null, .null]])]

example : Colocated (joinOn false) exShards := by
  simp only [Colocated, exShards, List.pairwise_cons]
  decide

/-- SELECT DISTINCT s, COUNT(*) FROM t GROUP BY s ORDER BY s LIMIT 2   (DISTINCT with the per-table LIMIT kept) -/
def exDistinctGroupLimit : Query :=
  { distinct := true,
    fields := [{ expr := .col 3, asName := none }, { expr := .agg .count none false, asName := none }],
    groupBy := some [.name 3], orderBy := [(.name 3, false)], limit := .count 2 }

/-- SELECT DISTINCT a.s FROM p a JOIN c b ON … ORDER BY a.s   (the qualified ORDER BY column becomes a hidden copy) -/
def exJoinDistinct : Query :=
  { distinct := true, fields := [{ expr := .col 3, asName := none }], groupBy := none,
    orderBy := [(.name 3, true)], limit := .none, qualified := true }

example : Supported exSchema exDistinctGroupLimit = true := by decide
example : Supported (exSchema ++ exSchema) exJoinDistinct = true := by decide
example : (match rewrite exJoinDistinct with | .ok p => p.shardQ.fields.length | _ => 0) = 2 := by decide

end GaeaVerif.C02
