import GaeaVerif.Lemmas.MergePlan
/-
  C02 — a cross-shard SELECT returns what one database holding all shards would
  return.

  The model (Model/Merge.lean) transliterates the rewriting of HandleSelectStmt,
  SelectPlan.ExecuteIn and MergeSelectResult after the C02 `fix:` commits; the
  reference (Model/MergeSql.lean) is the statement evaluated on the union of
  the sub-tables.  Main statements, in this order:

    Answer                        what the property asks of a result
    merge_plain                   projections, ORDER BY (also hidden columns), LIMIT/OFFSET (top-k merge)
    merge_aggregate               COUNT / SUM / MAX / MIN without GROUP BY
    merge_group                   GROUP BY under the injective map key, ORDER BY, LIMIT at the proxy
    merge_plain_distinct          SELECT DISTINCT of plain columns
    zero_route, single_table      statements routed to no / to one sub-table
    C02_select_correct_partial    the assembled theorem for the decidable class `Supported`
    keyInj_of_typed, rowKeyInj_of_typed   its key-injectivity hypotheses hold for BIGINT / character columns
    agg_homomorphism, group_merge, mapkey_injective, topk_merge_rows   the core lemmas under their names

  Helper lemmas: Lemmas/Merge{Order,TopK,Agg,Key,Row,Group,Sort,Plan}.lean.
-/
namespace GaeaVerif.C02
open GaeaVerif GaeaVerif.Merge

/-- **What the property asks of an answer**: the rows of the statement on one
    database holding all rows, in some order that respects ORDER BY (ties in any
    order), of which LIMIT keeps the window `[offset, offset+count)`. -/
def Answer (cq : CQ) (rows : List Row) (out : List Row) : Prop :=
  ∃ S : List OutRow, S.Perm (evalPre cq rows) ∧ S.Pairwise (fun a b => leOut cq.dirs a b = true) ∧
    out = (window cq.limit S).map (·.vis)

/-- the answer of one sub-table to the per-table statement -/
def shardResult (cq' : CQ) (T : List Row) : Result :=
  { nfields := cq'.items.length, rows := (evalCQ cq' T).map (·.vis) }

section
variable {schema : List Ty} {p : Plan} {cq cq' : CQ}

theorem evalPre_plain (cq : CQ) (h : cq.aggregated = false) (hd : cq.distinct = false) (T : List Row) :
    evalPre cq T = T.map fun r => outOf cq [r] := by
  simp [evalPre, groupsOf, h, hd, List.map_map]

theorem outOf_vis (cq : CQ) (grp : List Row) : (outOf cq grp).vis = fullRow cq.items grp := rfl

/-- the rows a sub-table returns for a statement without aggregation: its rows,
    sorted by the ORDER BY key, cut by the per-table LIMIT -/
theorem shard_plain (inv : PlanInv schema p cq cq') (h' : cq'.aggregated = false) (hd : cq.distinct = false)
    (T : List Row) :
    (evalCQ cq' T).map (·.vis) =
      window cq'.limit ((T.map fun r => fullRow cq'.items [r]).mergeSort (leFull cq.dirs (sortCols p cq'))) := by
  have hd' : cq'.distinct = false := by rw [inv.cdistinct]; exact hd
  have hdirs : cq'.dirs = cq.dirs := by simp [CQ.dirs, inv.keys]
  simp only [evalCQ, ← window_map, evalSorted, evalPre_plain cq' h' hd']
  congr 1
  split
  · rename_i he
    have : cq.dirs = [] := by
      rw [← hdirs]; simp [CQ.dirs, List.isEmpty_iff.mp he]
    rw [this, mergeSort_true _ _ (leFull_nil _)]
    simp [List.map_map, outOf_vis]
  · rw [List.map_mergeSort (s := leFull cq.dirs (sortCols p cq'))]
    · simp only [List.map_map]; rfl
    · intro a ha b hb
      simp only [List.mem_map] at ha hb
      obtain ⟨ra, _, rfl⟩ := ha
      obtain ⟨rb, _, rfl⟩ := hb
      simp only [leOut, leFull, outOf_vis, inv_keyAt inv, hdirs]
      simp [outOf, inv.keys]


theorem evalPre_mem (cq : CQ) (T : List Row) : ∀ o ∈ evalPre cq T, ∃ grp, o = outOf cq grp := by
  intro o ho
  simp only [evalPre] at ho
  split at ho
  · have : ∀ (l : List OutRow) (seen : List Row), ∀ x ∈ dedupByAux OutRow.vis seen l, x ∈ l := by
      intro l
      induction l with
      | nil => intro seen x hx; simp [dedupByAux] at hx
      | cons a l ih =>
        intro seen x hx
        simp only [dedupByAux] at hx
        split at hx
        · exact List.mem_cons_of_mem _ (ih _ x hx)
        · rcases List.mem_cons.mp hx with rfl | hx
          · simp
          · exact List.mem_cons_of_mem _ (ih _ x hx)
    have := this _ _ o ho
    obtain ⟨g, _, rfl⟩ := List.mem_map.mp this
    exact ⟨g, rfl⟩
  · obtain ⟨g, _, rfl⟩ := List.mem_map.mp ho
    exact ⟨g, rfl⟩

theorem shardResult_row_length (cq' : CQ) (T : List Row) : ∀ x ∈ (shardResult cq' T).rows, x.length = cq'.items.length := by
  intro x hx
  simp only [shardResult, List.mem_map] at hx
  obtain ⟨o, ho, rfl⟩ := hx
  have ho' : o ∈ evalPre cq' T := by
    simp only [evalCQ] at ho
    have := mem_window _ _ _ ho
    simp only [evalSorted] at this
    split at this
    · exact this
    · exact List.mem_mergeSort.mp this
  obtain ⟨g, rfl⟩ := evalPre_mem cq' T o ho'
  simp [outOf]

theorem flatten_perm_of_forall {α : Type} : ∀ (A B : List (List α)), A.length = B.length →
    (∀ i (h1 : i < A.length) (h2 : i < B.length), (A[i]).Perm (B[i])) → A.flatten.Perm B.flatten
  | [], [], _, _ => by simp
  | [], _ :: _, h, _ => by simp at h
  | _ :: _, [], h, _ => by simp at h
  | a :: A, b :: B, hl, h => by
    simp only [List.flatten_cons]
    have h0 := h 0 (by simp) (by simp)
    simp only [List.getElem_cons_zero] at h0
    have ih := flatten_perm_of_forall A B (by simpa using hl) (fun i h1 h2 => by
      have := h (i + 1) (by simp; omega) (by simp; omega)
      simpa using this)
    exact h0.append ih

theorem flatten_map_perm {α β : Type} (f g : α → List β) (l : List α) (h : ∀ a ∈ l, (f a).Perm (g a)) :
    (l.map f).flatten.Perm (l.map g).flatten := by
  induction l with
  | nil => simp
  | cons a l ih =>
    simp only [List.map_cons, List.flatten_cons]
    exact (h a (by simp)).append (ih (fun x hx => h x (by simp [hx])))

theorem map_window_none {α : Type} (Ls : List (List α)) : Ls.map (window none) = Ls := by
  induction Ls with
  | nil => rfl
  | cons a l ih => simp [window, ih]

theorem map_window_take {α : Type} (n : Nat) (Ls : List (List α)) :
    Ls.map (window (some (0, n))) = Ls.map (List.take n) := by
  induction Ls with
  | nil => rfl
  | cons a l ih => simp [window, ih]

/-- **Statements without aggregation** (projection, ORDER BY on selected or
    hidden columns, LIMIT/OFFSET pushed to the shards as `offset+count`):
    what `MergeSelectResult` returns is an answer of the statement on the union
    of the sub-tables. -/
theorem merge_plain (inv : PlanInv schema p cq cq') (h : cq.aggregated = false) (h' : cq'.aggregated = false)
    (hd : cq.distinct = false) (tables : List (List Row)) (hne : tables ≠ []) (res : Result)
    (hm : mergeSelectResult p (tables.map (shardResult cq')) = .ok res) :
    Answer cq tables.flatten res.rows := by
  -- notation
  let LF := leFull cq.dirs (sortCols p cq')
  let full := fun r : Row => fullRow cq'.items [r]
  have hgroup : cq.group = none := by
    simp only [CQ.aggregated, Bool.or_eq_false_iff] at h
    cases hg : cq.group with
    | none => rfl
    | some g => rw [hg] at h; simp at h
  have hpg : p.hasGroupBy = false := by rw [inv.pgroup, hgroup]; rfl
  have hpd : p.distinct = false := by rw [inv.pdistinct]; exact hd
  have haggs : p.aggs = [] := by
    rw [inv.aggs]
    apply aggPositions_nil_of_no_agg
    simp only [CQ.aggregated, Bool.or_eq_false_iff, List.any_eq_false] at h'
    intro it hit
    have := h'.1.2 it hit
    simpa using this
  -- merge the result sets
  obtain ⟨T, Ts, rfl⟩ := List.exists_cons_of_ne_nil hne
  rw [mergeSelectResult_eq] at hm
  simp only [List.map_cons] at hm
  rw [mergeMulti_uniform cq'.items.length (shardResult cq' T) (Ts.map (shardResult cq')) rfl
    (by intro x hx; obtain ⟨t, _, rfl⟩ := List.mem_map.mp hx; rfl)] at hm
  simp only [R.bind_ok, hpg, hpd, Bool.false_eq_true, if_false, buildSelectOnlyResult, haggs,
    List.isEmpty_nil, if_true, R.pure_eq] at hm
  have hrows : ∀ x ∈ (((shardResult cq' T) :: Ts.map (shardResult cq')).map (·.rows)).flatten,
      x.length = cq'.items.length := by
    intro x hx
    simp only [List.mem_flatten, List.mem_map] at hx
    obtain ⟨l, ⟨r, hr, rfl⟩, hxl⟩ := hx
    rcases List.mem_cons.mp hr with rfl | hr
    · exact shardResult_row_length cq' T x hxl
    · obtain ⟨t, _, rfl⟩ := List.mem_map.mp hr
      exact shardResult_row_length cq' t x hxl
  have hres := mergeTail_spec inv _ res rfl hrows hm
  -- the shard lists
  let Ls : List (List Row) := (T :: Ts).map fun t => (t.map full).mergeSort LF
  have hflat : (((shardResult cq' T) :: Ts.map (shardResult cq')).map (·.rows)).flatten
      = (Ls.map (window cq'.limit)).flatten := by
    simp only [Ls, shardResult, List.map_cons, List.map_map]
    rw [shard_plain inv h' hd T]
    congr 2
    apply List.map_congr_left
    intro t _
    exact shard_plain inv h' hd t
  have hLs_sorted : ∀ L ∈ Ls, L.Pairwise (fun a b => LF a b = true) := by
    intro L hL
    obtain ⟨t, _, rfl⟩ := List.mem_map.mp hL
    exact List.pairwise_mergeSort (leFull_trans _ _) (leFull_total _ _) _
  have hLs_perm : Ls.flatten.Perm ((T :: Ts).flatten.map full) := by
    rw [List.map_flatten]
    exact flatten_map_perm _ _ _ (fun t _ => List.mergeSort_perm _ _)
  -- an arrangement of all rows whose window is what the merge returns
  have hS : ∃ S : List Row, S.Perm Ls.flatten ∧ S.Pairwise (fun a b => LF a b = true) ∧
      window cq.limit S = window cq.limit ((Ls.map (window cq'.limit)).flatten.mergeSort LF) := by
    have hl := inv.limit
    cases hlim : cq.limit with
    | none =>
      rw [hlim] at hl
      refine ⟨Ls.flatten.mergeSort LF, List.mergeSort_perm _ _,
        List.pairwise_mergeSort (leFull_trans _ _) (leFull_total _ _) _, ?_⟩
      rw [hl.2, map_window_none]
    | some oc =>
      obtain ⟨o, c⟩ := oc
      rw [hlim] at hl
      rcases hl.2.2 with hl' | hl'
      · obtain ⟨S, hp, hs, hw⟩ := topk_merge (leFull_trans _ _) (leFull_total _ _) Ls hLs_sorted o c
        refine ⟨S, hp, hs, ?_⟩
        rw [hl', map_window_take]
        simp only [window]
        rw [hw]; rfl
      · refine ⟨Ls.flatten.mergeSort LF, List.mergeSort_perm _ _,
          List.pairwise_mergeSort (leFull_trans _ _) (leFull_total _ _) _, ?_⟩
        rw [hl', map_window_none]
  obtain ⟨S, hSp, hSs, hSw⟩ := hS
  refine ⟨S.map (toOut cq.items.length (sortCols p cq')), ?_, ?_, ?_⟩
  · rw [evalPre_plain cq h hd]
    have := ((hSp.trans hLs_perm).map (toOut cq.items.length (sortCols p cq')))
    simp only [List.map_map] at this
    refine this.trans (List.Perm.of_eq ?_)
    apply List.map_congr_left
    intro r _
    exact inv_toOut inv [r]
  · rw [List.pairwise_map]
    exact hSs
  · rw [hres, hflat, ← hSw, window_map, List.map_map]
    apply List.map_congr_left
    intro r _
    rfl

/-! ### aggregate functions without GROUP BY -/

theorem evalPre_single (cq : CQ) (hagg : cq.aggregated = true) (hg : cq.group = none) (hd : cq.distinct = false)
    (T : List Row) : evalPre cq T = [outOf cq T] := by
  simp [evalPre, groupsOf, hagg, hg, hd]

/-- the row a sub-table returns for aggregate functions without GROUP BY -/
theorem shard_single (cq' : CQ) (hagg : cq'.aggregated = true) (hg : cq'.group = none) (hd : cq'.distinct = false)
    (T : List Row) :
    (evalCQ cq' T).map (·.vis) = window cq'.limit [fullRow cq'.items T] := by
  simp only [evalCQ, ← window_map, evalSorted, evalPre_single cq' hagg hg hd]
  congr 1
  split <;> simp [outOf_vis]

theorem onlyLoop_spec {schema : List Ty} (items : List Item) (hok : ∀ it ∈ items, it.aggOK schema = true)
    (hnocol : ∀ it ∈ items, ∀ c, it ≠ .col c) :
    ∀ (Ts : List (List Row)) (acc : List Row), TypedRows schema acc → (∀ t ∈ Ts, TypedRows schema t) →
    onlyLoop (aggPositions items) (fullRow items acc) (Ts.map (fullRow items)) =
      .ok (fullRow items (acc ++ Ts.flatten))
  | [], acc, _, _ => by simp [onlyLoop]
  | t :: Ts, acc, hacc, hts => by
    simp only [List.map_cons, onlyLoop]
    rw [row_homomorphism items acc t hacc (hts t (by simp)) (Or.inr hnocol) hok]
    simp only
    rw [onlyLoop_spec items hok hnocol Ts (acc ++ t) (hacc.append (hts t (by simp)))
      (fun x hx => hts x (by simp [hx]))]
    simp

theorem typedRows_flatten {schema : List Ty} (Ts : List (List Row)) (h : ∀ t ∈ Ts, TypedRows schema t) :
    TypedRows schema Ts.flatten := by
  intro r hr
  obtain ⟨t, ht, hrt⟩ := List.mem_flatten.mp hr
  exact h t ht r hrt

/-- **Aggregate functions without GROUP BY**: the one-row answers of the
    sub-tables are merged into the row of the union (COUNT added, SUM added as
    decimals, MAX/MIN compared; NULL for sub-tables without a value). -/
theorem merge_aggregate (inv : PlanInv schema p cq cq') (hagg : cq.aggregated = true) (hagg' : cq'.aggregated = true)
    (hany : cq'.items.any Item.isAgg = true)
    (hg : cq.group = none) (hd : cq.distinct = false) (hnocol : ∀ it ∈ cq'.items, ∀ c, it ≠ .col c)
    (tables : List (List Row)) (hne : tables ≠ []) (htyped : ∀ t ∈ tables, TypedRows schema t) (res : Result)
    (hm : mergeSelectResult p (tables.map (shardResult cq')) = .ok res) :
    Answer cq tables.flatten res.rows := by
  have hg' : cq'.group = none := by rw [inv.group]; exact hg
  have hd' : cq'.distinct = false := by rw [inv.cdistinct]; exact hd
  have hpg : p.hasGroupBy = false := by rw [inv.pgroup, hg]; rfl
  have hpd : p.distinct = false := by rw [inv.pdistinct]; exact hd
  have haggs : p.aggs.isEmpty = false := by
    rw [inv.aggs]
    simp only [List.any_eq_true] at hany
    obtain ⟨it, hit, hagg⟩ := hany
    obtain ⟨n, hn⟩ := List.getElem?_of_mem hit
    cases it with
    | agg k a d =>
      have : (n, k) ∈ aggPositions cq'.items := (mem_aggPosFrom _ 0 n k).mpr ⟨n, a, d, by simp, hn⟩
      cases hh : aggPositions cq'.items with
      | nil => rw [hh] at this; cases this
      | cons x xs => rfl
    | col c => simp [Item.isAgg] at hagg
    | const c => simp [Item.isAgg] at hagg
  obtain ⟨T, Ts, rfl⟩ := List.exists_cons_of_ne_nil hne
  rw [mergeSelectResult_eq] at hm
  simp only [List.map_cons] at hm
  rw [mergeMulti_uniform cq'.items.length (shardResult cq' T) (Ts.map (shardResult cq')) rfl
    (by intro x hx; obtain ⟨t, _, rfl⟩ := List.mem_map.mp hx; rfl)] at hm
  simp only [R.bind_ok, hpg, hpd, Bool.false_eq_true, if_false, R.pure_eq] at hm
  have hrowsEq : (((shardResult cq' T) :: Ts.map (shardResult cq')).map (·.rows)).flatten
      = (((T :: Ts).map fun t => window cq'.limit [fullRow cq'.items t])).flatten := by
    simp only [shardResult, List.map_cons, List.map_map]
    rw [shard_single cq' hagg' hg' hd' T]
    congr 2
    apply List.map_congr_left
    intro t _
    exact shard_single cq' hagg' hg' hd' t
  rw [hrowsEq] at hm
  -- the reference answer
  have href : evalPre cq (T :: Ts).flatten = [outOf cq (T :: Ts).flatten] := evalPre_single cq hagg hg hd _
  have hl := inv.limit
  -- does the per-table LIMIT keep the row?
  by_cases hzero : cq'.limit = some (0, 0)
  · -- LIMIT 0: every sub-table returns nothing, and so does the statement
    have hc : ∃ o, cq.limit = some (o, 0) ∧ o = 0 := by
      cases hlim : cq.limit with
      | none => rw [hlim] at hl; rw [hl.2] at hzero; cases hzero
      | some oc =>
        obtain ⟨o, c⟩ := oc
        rw [hlim] at hl
        rcases hl.2.2 with h1 | h1
        · rw [h1] at hzero
          simp only [Option.some.injEq, Prod.mk.injEq, true_and] at hzero
          exact ⟨o, by congr 2; omega, by omega⟩
        · rw [h1] at hzero; cases hzero
    obtain ⟨o, hlim, ho⟩ := hc
    subst ho
    have hempty : (((T :: Ts).map fun t => window cq'.limit [fullRow cq'.items t])).flatten = [] := by
      rw [hzero]
      apply List.flatten_eq_nil_iff.mpr
      intro l hl'
      obtain ⟨t, _, rfl⟩ := List.mem_map.mp hl'
      simp [window]
    rw [hempty] at hm
    simp only [buildSelectOnlyResult, haggs, Bool.false_eq_true, if_false, R.bind_ok] at hm
    have hres := mergeTail_spec inv _ res rfl (by intro x hx; cases hx) hm
    refine ⟨[outOf cq (T :: Ts).flatten], by rw [href], by simp, ?_⟩
    rw [hres, hlim]
    simp [window]
  · have hkeep : ∀ t : List Row, window cq'.limit [fullRow cq'.items t] = [fullRow cq'.items t] := by
      intro t
      cases hlim' : cq'.limit with
      | none => rfl
      | some oc =>
        obtain ⟨o', c'⟩ := oc
        have : o' = 0 ∧ c' ≠ 0 := by
          cases hlim : cq.limit with
          | none => rw [hlim] at hl; rw [hl.2] at hlim'; cases hlim'
          | some oc =>
            obtain ⟨o, c⟩ := oc
            rw [hlim] at hl
            rcases hl.2.2 with h1 | h1
            · rw [h1] at hlim'
              simp only [Option.some.injEq, Prod.mk.injEq] at hlim'
              refine ⟨hlim'.1.symm, ?_⟩
              intro hc'
              apply hzero
              rw [h1]
              congr 2
              omega
            · rw [h1] at hlim'; cases hlim'
        obtain ⟨rfl, hc'⟩ := this
        obtain ⟨n, rfl⟩ := Nat.exists_eq_succ_of_ne_zero hc'
        simp [window]
    have hflat : (((T :: Ts).map fun t => window cq'.limit [fullRow cq'.items t])).flatten
        = (T :: Ts).map (fullRow cq'.items) := by
      simp only [hkeep]
      induction (T :: Ts) with
      | nil => rfl
      | cons a l ih => simp [ih]
    rw [hflat] at hm
    simp only [List.map_cons, buildSelectOnlyResult, haggs, Bool.false_eq_true, if_false] at hm
    rw [inv.aggs, onlyLoop_spec cq'.items inv.aggOK hnocol Ts T (htyped T (by simp))
      (fun t ht => htyped t (by simp [ht]))] at hm
    simp only [R.bind_ok] at hm
    have hres := mergeTail_spec inv _ res rfl (by
      intro x hx
      simp only [List.mem_singleton] at hx
      subst hx
      exact fullRow_length _ _) hm
    refine ⟨[outOf cq (T :: Ts).flatten], by rw [href], by simp, ?_⟩
    rw [hres]
    simp only [List.mergeSort_singleton, List.flatten_cons]
    rw [← inv_toOut inv, ← List.map_singleton (f := toOut cq.items.length (sortCols p cq')), window_map, List.map_map]
    apply List.map_congr_left
    intro r _
    rfl

end

/-! ### GROUP BY -/

theorem keySliceOf_spec (d : Int) (v : Row) : ∀ (cols : List Int), InRange (cols.map (· + d)) v →
    keySliceOf cols d v = .ok (keyAt (cols.map (· + d)) v)
  | [], _ => rfl
  | c :: cols, h => by
    have hc := h (c + d) (by simp)
    simp only [keySliceOf, rowIdx]
    rw [if_pos hc, keySliceOf_spec d v cols (fun x hx => h x (by simp at hx ⊢; exact Or.inr hx))]
    simp [keyAt]

/-- the GROUP BY key of a chunk of rows: that of its first row -/
def kcOf (g : List Nat) : List Row → List Val
  | [] => []
  | r :: _ => groupKey g r

theorem groupKey_eq_evalItem (g : List Nat) (r : Row) (rs : List Row) :
    g.map (fun c => evalItem (r :: rs) (.col c)) = groupKey g r := by
  simp [groupKey, evalItem]

/-- the groups of `groupRows`: non-empty, of one key, and all rows of that key -/
theorem groupRows_mem (g : List Nat) (T : List Row) (c : List Row) (hc : c ∈ groupRows g T) :
    c ≠ [] ∧ c = T.filter (fun r => groupKey g r = kcOf g c) ∧ kcOf g c ∈ T.map (groupKey g) := by
  simp only [groupRows, List.mem_map] at hc
  obtain ⟨k, hk, rfl⟩ := hc
  have hk' : k ∈ T.map (groupKey g) := (mem_dedup _ _).mp hk
  obtain ⟨r, hr, rfl⟩ := List.mem_map.mp hk'
  have hmem : r ∈ T.filter (fun r' => groupKey g r' = groupKey g r) := by simp [hr]
  have hne : T.filter (fun r' => decide (groupKey g r' = groupKey g r)) ≠ [] := List.ne_nil_of_mem hmem
  have hkc : kcOf g (T.filter (fun r' => decide (groupKey g r' = groupKey g r))) = groupKey g r := by
    cases hf : T.filter (fun r' => decide (groupKey g r' = groupKey g r)) with
    | nil => exact absurd hf hne
    | cons x xs =>
      have : x ∈ T.filter (fun r' => decide (groupKey g r' = groupKey g r)) := by rw [hf]; simp
      simpa [kcOf] using (List.mem_filter.mp this).2
  refine ⟨hne, ?_, ?_⟩
  · rw [hkc]
  · rw [hkc]; exact hk'

theorem filter_eq_nodup {α : Type} [DecidableEq α] (k : α) : ∀ (l : List α), l.Nodup →
    l.filter (fun x => x = k) = if k ∈ l then [k] else []
  | [], _ => by simp
  | a :: l, h => by
    rw [List.nodup_cons] at h
    have ih := filter_eq_nodup k l h.2
    by_cases e : a = k
    · subst e
      have : a ∉ l := h.1
      simp [this] at ih
      simp [List.filter_cons]
      exact ih
    · have e' : ¬ k = a := fun x => e x.symm
      simp [List.filter_cons, e, e', ih]

theorem kcOf_filter (g : List Nat) (T : List Row) (k : List Val) (hk : k ∈ T.map (groupKey g)) :
    kcOf g (T.filter fun r => groupKey g r = k) = k := by
  obtain ⟨r, hr, rfl⟩ := List.mem_map.mp hk
  cases hf : T.filter (fun r' => decide (groupKey g r' = groupKey g r)) with
  | nil =>
    have : r ∈ T.filter (fun r' => decide (groupKey g r' = groupKey g r)) := by simp [hr]
    rw [hf] at this; cases this
  | cons x xs =>
    have : x ∈ T.filter (fun r' => decide (groupKey g r' = groupKey g r)) := by rw [hf]; simp
    simpa [kcOf] using (List.mem_filter.mp this).2

theorem groupRows_filter (g : List Nat) (T : List Row) (k : List Val) :
    (groupRows g T).filter (fun c => kcOf g c = k) =
      if k ∈ T.map (groupKey g) then [T.filter fun r => groupKey g r = k] else [] := by
  simp only [groupRows, List.filter_map]
  have hcongr : (dedup (T.map (groupKey g))).filter
      ((fun c => decide (kcOf g c = k)) ∘ fun κ => T.filter fun r => decide (groupKey g r = κ))
      = (dedup (T.map (groupKey g))).filter (fun κ => κ = k) := by
    apply List.filter_congr
    intro κ hκ
    have := kcOf_filter g T κ ((mem_dedup _ _).mp hκ)
    simp [this]
  rw [hcongr, filter_eq_nodup k _ (nodup_dedup _)]
  by_cases hk : k ∈ T.map (groupKey g)
  · have : k ∈ dedup (T.map (groupKey g)) := (mem_dedup _ _).mpr hk
    simp [hk, this]
  · have : k ∉ dedup (T.map (groupKey g)) := fun h => hk ((mem_dedup _ _).mp h)
    simp [hk, this]

/-- the rows with key `k` that a shard's groups (in any order) hold are the shard's rows with key `k` -/
theorem chunks_filter_flatten (g : List Nat) (T : List Row) (C : List (List Row)) (hC : C.Perm (groupRows g T))
    (k : List Val) : (C.filter fun c => kcOf g c = k).flatten = T.filter fun r => groupKey g r = k := by
  have hp := hC.filter (fun c => kcOf g c = k)
  rw [groupRows_filter] at hp
  by_cases hk : k ∈ T.map (groupKey g)
  · rw [if_pos hk] at hp
    rw [List.perm_singleton.mp hp]
    simp
  · rw [if_neg hk] at hp
    rw [List.perm_nil.mp hp]
    symm
    apply List.filter_eq_nil_iff.mpr
    intro r hr he
    apply hk
    simp only [decide_eq_true_eq] at he
    exact List.mem_map.mpr ⟨r, hr, he⟩

/-- across shards -/
theorem chunkRows_all (g : List Nat) : ∀ (Ts : List (List Row)) (Cs : List (List (List Row))),
    Cs.length = Ts.length → (∀ i (h1 : i < Cs.length) (h2 : i < Ts.length), (Cs[i]).Perm (groupRows g Ts[i])) →
    ∀ k, chunkRows (kcOf g) Cs.flatten k = Ts.flatten.filter fun r => groupKey g r = k
  | [], [], _, _, k => by simp [chunkRows]
  | [], _ :: _, h, _, _ => by simp at h
  | _ :: _, [], h, _, _ => by simp at h
  | T :: Ts, C :: Cs, hl, h, k => by
    have h0 := h 0 (by simp) (by simp)
    simp only [List.getElem_cons_zero] at h0
    have ih := chunkRows_all g Ts Cs (by simpa using hl) (fun i h1 h2 => by
      have := h (i + 1) (by simp; omega) (by simp; omega)
      simpa using this) k
    simp only [chunkRows, List.flatten_cons, List.filter_append, List.flatten_append] at ih ⊢
    rw [chunks_filter_flatten g T C h0 k, ih]

section
variable {schema : List Ty} {p : Plan} {cq cq' : CQ}

/-- the groups of one sub-table in the order the sub-table returns them -/
def chunksOf (cq' : CQ) (g : List Nat) (T : List Row) : List (List Row) :=
  if cq'.keys.isEmpty then groupRows g T
  else (groupRows g T).mergeSort fun a b => leOut cq'.dirs (outOf cq' a) (outOf cq' b)

theorem chunksOf_perm (cq' : CQ) (g : List Nat) (T : List Row) : (chunksOf cq' g T).Perm (groupRows g T) := by
  simp only [chunksOf]
  split
  · exact List.Perm.refl _
  · exact List.mergeSort_perm _ _

theorem evalPre_group (cq : CQ) (g : List Nat) (hg : cq.group = some g) (hd : cq.distinct = false) (T : List Row) :
    evalPre cq T = (groupRows g T).map (outOf cq) := by
  simp [evalPre, groupsOf, CQ.aggregated, hg, hd]

/-- the rows a sub-table returns for a GROUP BY statement without per-table LIMIT: one per group -/
theorem shard_group (cq' : CQ) (g : List Nat) (hg : cq'.group = some g) (hd : cq'.distinct = false)
    (hlim : cq'.limit = none) (T : List Row) :
    (evalCQ cq' T).map (·.vis) = (chunksOf cq' g T).map (fullRow cq'.items) := by
  simp only [evalCQ, hlim, window, evalSorted, evalPre_group cq' g hg hd, chunksOf]
  split
  · simp only [List.map_map]; rfl
  · rw [← List.map_mergeSort (r := fun a b => leOut cq'.dirs (outOf cq' a) (outOf cq' b))
      (s := leOut cq'.dirs) (f := outOf cq') (fun a _ b _ => rfl)]
    simp only [List.map_map]; rfl

theorem typedRows_filter {schema : List Ty} (T : List Row) (q : Row → Bool) (h : TypedRows schema T) :
    TypedRows schema (T.filter q) := fun r hr => h r (List.mem_filter.mp hr).1

/-- **GROUP BY** (no per-table LIMIT): the groups of the sub-tables are merged
    under the (injective) key encoding into the groups of the union, every
    aggregate column by its merger; then sorted, cut and trimmed. -/
theorem merge_group (inv : PlanInv schema p cq cq') (g : List Nat) (hg : cq.group = some g)
    (hd : cq.distinct = false) (hlim : cq'.limit = none)
    (tables : List (List Row)) (hne : tables ≠ []) (htyped : ∀ t ∈ tables, TypedRows schema t)
    (hkey : ∀ r ∈ tables.flatten, ∀ r' ∈ tables.flatten,
      generateMapKey (groupKey g r) = generateMapKey (groupKey g r') → groupKey g r = groupKey g r')
    (res : Result) (hm : mergeSelectResult p (tables.map (shardResult cq')) = .ok res) :
    Answer cq tables.flatten res.rows := by
  have hg' : cq'.group = some g := by rw [inv.group]; exact hg
  have hd' : cq'.distinct = false := by rw [inv.cdistinct]; exact hd
  have hpg : p.hasGroupBy = true := by rw [inv.pgroup, hg]; rfl
  have hpd : p.distinct = false := by rw [inv.pdistinct]; exact hd
  let Cs : List (List (List Row)) := tables.map (chunksOf cq' g)
  let kc := kcOf g
  -- the chunks: groups of some sub-table
  have hchunk : ∀ c ∈ Cs.flatten, ∃ t ∈ tables, c ∈ groupRows g t := by
    intro c hc
    obtain ⟨C, hC, hcC⟩ := List.mem_flatten.mp hc
    obtain ⟨t, ht, rfl⟩ := List.mem_map.mp hC
    exact ⟨t, ht, (chunksOf_perm cq' g t).mem_iff.mp hcC⟩
  have hgrpItems := inv.grp g hg
  have hchunkOK : ∀ c ∈ Cs.flatten, c ≠ [] ∧ TypedRows schema c ∧
      keySliceOf p.groupByColumn (planDelta p cq') (fullRow cq'.items c) = .ok (kc c) := by
    intro c hc
    obtain ⟨t, ht, hct⟩ := hchunk c hc
    obtain ⟨hne', hfil, _⟩ := groupRows_mem g t c hct
    refine ⟨hne', ?_, ?_⟩
    · rw [hfil]; exact typedRows_filter t _ (htyped t ht)
    · have hr := inRange_of_itemAt cq'.items (fullRow cq'.items c) (fullRow_length _ _) (groupCols' p cq')
        (g.map Item.col) (by rw [hgrpItems]; simp)
      rw [keySliceOf_spec _ _ _ hr]
      have := keyAt_of_itemAt cq'.items c (groupCols' p cq') (g.map Item.col) (by rw [hgrpItems]; simp)
      simp only [groupCols'] at this
      rw [this]
      cases c with
      | nil => exact absurd rfl hne'
      | cons r rs => simp [kc, kcOf, List.map_map, groupKey, evalItem]
  have hkc_mem : ∀ c ∈ Cs.flatten, ∃ r ∈ tables.flatten, kc c = groupKey g r := by
    intro c hc
    obtain ⟨t, ht, hct⟩ := hchunk c hc
    obtain ⟨_, _, hk⟩ := groupRows_mem g t c hct
    obtain ⟨r, hr, hrk⟩ := List.mem_map.mp hk
    exact ⟨r, List.mem_flatten.mpr ⟨t, ht, hr⟩, hrk.symm⟩
  have hinj : ∀ c ∈ Cs.flatten, ∀ c' ∈ Cs.flatten,
      generateMapKey (kc c) = generateMapKey (kc c') → kc c = kc c' := by
    intro c hc c' hc' e
    obtain ⟨r, hr, h1⟩ := hkc_mem c hc
    obtain ⟨r', hr', h2⟩ := hkc_mem c' hc'
    rw [h1, h2] at e ⊢
    exact hkey r hr r' hr' e
  -- the merged result sets
  obtain ⟨T, Ts, hT⟩ := List.exists_cons_of_ne_nil hne
  rw [mergeSelectResult_eq] at hm
  have hmm : mergeMultiResultSet (tables.map (shardResult cq')) =
      .ok { nfields := cq'.items.length, rows := Cs.flatten.map (fullRow cq'.items) } := by
    rw [hT, List.map_cons, mergeMulti_uniform cq'.items.length (shardResult cq' T) (Ts.map (shardResult cq')) rfl
      (by intro x hx; obtain ⟨t, _, rfl⟩ := List.mem_map.mp hx; rfl)]
    congr 2
    rw [← List.map_cons (f := shardResult cq'), ← hT]
    simp only [Cs, List.map_map, List.map_flatten]
    congr 1
    apply List.map_congr_left
    intro t _
    exact shard_group cq' g hg' hd' hlim t
  rw [hmm] at hm
  simp only [R.bind_ok, hpg, if_true, hpd, Bool.false_eq_true, if_false, R.pure_eq] at hm
  have hloop := groupLoop_chunks (schema := schema) p (planDelta p cq') cq'.items kc inv.aggs inv.aggOK
    Cs.flatten [] (by simpa using hchunkOK) (by simpa using hinj)
  have hstate0 : chunkState cq'.items kc [] = [] := by simp [chunkState, dedup, dedupAux]
  rw [hstate0, List.nil_append] at hloop
  have hdelta : delta p { nfields := cq'.items.length, rows := Cs.flatten.map (fullRow cq'.items) } = planDelta p cq' := by
    simp [delta, planDelta]
  simp only [buildSelectGroupByResult, hdelta, hloop, R.bind_ok] at hm
  -- the merged rows
  let K1 := dedup (Cs.flatten.map kc)
  have hmerged : (chunkState cq'.items kc Cs.flatten).map (·.2) =
      K1.map fun k => fullRow cq'.items (chunkRows kc Cs.flatten k) := by
    simp [chunkState, K1, List.map_map]
  rw [hmerged] at hm
  have hres := mergeTail_spec inv _ res rfl (by
    intro x hx
    obtain ⟨k, _, rfl⟩ := List.mem_map.mp hx
    exact fullRow_length _ _) hm
  -- keys and rows against the union
  have hrowsAll : ∀ k, chunkRows kc Cs.flatten k = tables.flatten.filter fun r => groupKey g r = k :=
    chunkRows_all g tables Cs (by simp [Cs]) (fun i h1 h2 => by
      simp only [Cs, List.getElem_map]
      exact chunksOf_perm cq' g _)
  have hK : K1.Perm (dedup (tables.flatten.map (groupKey g))) := by
    rw [List.perm_ext_iff_of_nodup (nodup_dedup _) (nodup_dedup _)]
    intro k
    rw [mem_dedup, mem_dedup]
    constructor
    · intro hk
      obtain ⟨c, hc, rfl⟩ := List.mem_map.mp hk
      obtain ⟨r, hr, h1⟩ := hkc_mem c hc
      exact List.mem_map.mpr ⟨r, hr, h1.symm⟩
    · intro hk
      obtain ⟨r, hr, rfl⟩ := List.mem_map.mp hk
      obtain ⟨t, ht, hrt⟩ := List.mem_flatten.mp hr
      have hkt : groupKey g r ∈ t.map (groupKey g) := List.mem_map.mpr ⟨r, hrt, rfl⟩
      have hc : (t.filter fun r' => groupKey g r' = groupKey g r) ∈ groupRows g t := by
        simp only [groupRows, List.mem_map]
        exact ⟨groupKey g r, (mem_dedup _ _).mpr hkt, rfl⟩
      have hc' : (t.filter fun r' => groupKey g r' = groupKey g r) ∈ Cs.flatten :=
        List.mem_flatten.mpr ⟨chunksOf cq' g t, List.mem_map.mpr ⟨t, ht, rfl⟩,
          (chunksOf_perm cq' g t).mem_iff.mpr hc⟩
      exact List.mem_map.mpr ⟨_, hc', kcOf_filter g t _ hkt⟩
  have hagg : cq.aggregated = true := by simp [CQ.aggregated, hg]
  let LF := leFull cq.dirs (sortCols p cq')
  let merged := K1.map fun k => fullRow cq'.items (chunkRows kc Cs.flatten k)
  refine ⟨(merged.mergeSort LF).map (toOut cq.items.length (sortCols p cq')), ?_, ?_, ?_⟩
  · rw [evalPre_group cq g hg hd]
    refine ((List.mergeSort_perm merged LF).map _).trans ?_
    simp only [merged, List.map_map, groupRows]
    refine (List.Perm.of_eq ?_).trans (hK.map _)
    apply List.map_congr_left
    intro k _
    simp only [Function.comp]
    rw [inv_toOut inv, hrowsAll k]
  · rw [List.pairwise_map]
    exact List.pairwise_mergeSort (leFull_trans _ _) (leFull_total _ _) _
  · rw [hres, window_map, List.map_map]
    apply List.map_congr_left
    intro r _
    rfl

end

/-! ### SELECT DISTINCT -/

theorem dedup_perm {α : Type} [DecidableEq α] {l1 l2 : List α} (h : l1.Perm l2) : (dedup l1).Perm (dedup l2) := by
  rw [List.perm_ext_iff_of_nodup (nodup_dedup _) (nodup_dedup _)]
  intro a
  rw [mem_dedup, mem_dedup]
  exact h.mem_iff

/-- first occurrences by a projection that is injective on the list are first occurrences -/
theorem dedupByAux_eq_dedupAux {α β : Type} [DecidableEq α] [DecidableEq β] (f : α → β) :
    ∀ (l seen : List α), (∀ a ∈ seen ++ l, ∀ b ∈ seen ++ l, f a = f b → a = b) →
    dedupByAux f (seen.map f) l = dedupAux seen l
  | [], _, _ => rfl
  | a :: l, seen, hinj => by
    simp only [dedupByAux, dedupAux]
    have hiff : f a ∈ seen.map f ↔ a ∈ seen := by
      constructor
      · intro h
        obtain ⟨b, hb, e⟩ := List.mem_map.mp h
        have := hinj b (by simp [hb]) a (by simp) e
        exact this ▸ hb
      · intro h; exact List.mem_map.mpr ⟨a, h, rfl⟩
    by_cases h : a ∈ seen
    · rw [if_pos (hiff.mpr h), if_pos h]
      exact dedupByAux_eq_dedupAux f l seen (fun x hx y hy => hinj x (by
        rcases List.mem_append.mp hx with h1 | h1
        · simp [h1]
        · simp [h1]) y (by
        rcases List.mem_append.mp hy with h1 | h1
        · simp [h1]
        · simp [h1]))
    · rw [if_neg (fun h' => h (hiff.mp h')), if_neg h]
      congr 1
      have := dedupByAux_eq_dedupAux f l (a :: seen) (fun x hx y hy => hinj x (by
        simp only [List.cons_append, List.mem_cons, List.mem_append] at hx ⊢
        rcases hx with h1 | h1 | h1 <;> simp [h1]) y (by
        simp only [List.cons_append, List.mem_cons, List.mem_append] at hy ⊢
        rcases hy with h1 | h1 | h1 <;> simp [h1]))
      simpa using this

theorem dedupBy_eq_dedup {α β : Type} [DecidableEq α] [DecidableEq β] (f : α → β) (l : List α)
    (hinj : ∀ a ∈ l, ∀ b ∈ l, f a = f b → a = b) : dedupBy f l = dedup l := by
  have := dedupByAux_eq_dedupAux f l [] (by simpa using hinj)
  simpa [dedupBy, dedup] using this

/-- first occurrences by `f` of a list of images under a section `g` of `f` -/
theorem dedupByAux_map_section {α β : Type} [DecidableEq α] [DecidableEq β] (f : β → α) (g : α → β) :
    ∀ (l seen : List α), (∀ a ∈ l, f (g a) = a) →
    dedupByAux f seen (l.map g) = (dedupAux seen l).map g
  | [], _, _ => rfl
  | a :: l, seen, hs => by
    have ha := hs a (by simp)
    have ih := fun seen' => dedupByAux_map_section f g l seen' (fun x hx => hs x (by simp [hx]))
    simp only [List.map_cons, dedupByAux, dedupAux, ha]
    split
    · exact ih seen
    · simp only [List.map_cons]
      congr 1
      exact ih (a :: seen)

/-- `removeDistinctRowInResult` on rows of full width: first occurrences by the map key -/
theorem removeDistinctRows_spec (N : Nat) : ∀ (rows : List Row) (seen : List (List UInt8)),
    (∀ r ∈ rows, r.length = N) →
    removeDistinctRows (N : Int) seen rows = .ok (dedupByAux generateMapKey seen rows)
  | [], _, _ => rfl
  | r :: rows, seen, h => by
    have hr := h r (by simp)
    have ih := fun seen' => removeDistinctRows_spec N rows seen' (fun x hx => h x (by simp [hx]))
    have hp : rowPrefix r (N : Int) = .ok r := by
      simp only [rowPrefix]
      rw [if_pos (by omega)]
      simp [← hr]
    simp only [removeDistinctRows, hp, dedupByAux]
    by_cases hm : generateMapKey r ∈ seen
    · have : seen.contains (generateMapKey r) = true := by simpa using hm
      rw [if_pos hm]
      simp only [this, if_true]
      exact ih seen
    · have : seen.contains (generateMapKey r) = false := by simpa using hm
      rw [if_neg hm]
      simp only [this, Bool.false_eq_true, if_false, ih]

/-- the core of the top-k argument: `P` are the candidates kept, `R` the rest, every `r ∈ R`
    has `o+c` candidates before it -/
theorem topk_core {α : Type} {le : α → α → Bool} (trans : ∀ a b c, le a b → le b c → le a c)
    (total : ∀ a b, le a b || le b a) (P R : List α) (o c : Nat)
    (H : ∀ r ∈ R, o + c ≤ countLe le P r) :
    ∃ S : List α, S.Perm (P ++ R) ∧ S.Pairwise (fun a b => le a b) ∧
      (S.drop o).take c = ((P.mergeSort le).drop o).take c := by
  refine ⟨(P.mergeSort le).take (o + c) ++ ((P.mergeSort le).drop (o + c) ++ R).mergeSort le,
    topk_perm P R (o + c), topk_sorted trans total P R (o + c) H, ?_⟩
  rw [window_prefix, take_drop_take]
  intro hne
  rw [List.length_take, List.length_mergeSort]
  have : o + c ≤ P.length := by
    by_cases hd : (P.mergeSort le).drop (o + c) = []
    · have hR : R ≠ [] := by
        intro hR
        apply hne
        simp [hd, hR]
      obtain ⟨r, hr⟩ := List.exists_mem_of_ne_nil R hR
      have h1 : o + c ≤ countLe le P r := H r hr
      have h2 : countLe le P r ≤ P.length := List.length_filter_le _ _
      omega
    · have h1 := List.length_pos_iff.mpr hd
      rw [List.length_drop, List.length_mergeSort] at h1
      omega
  omega

theorem map_dedupByAux {α β : Type} [DecidableEq β] (f : α → β) : ∀ (l : List α) (seen : List β),
    (dedupByAux f seen l).map f = dedupAux seen (l.map f)
  | [], _ => rfl
  | a :: l, seen => by
    simp only [dedupByAux, List.map_cons, dedupAux]
    split
    · exact map_dedupByAux f l seen
    · simp only [List.map_cons]; congr 1; exact map_dedupByAux f l (f a :: seen)

theorem mem_dedupByAux {α β : Type} [DecidableEq β] (f : α → β) : ∀ (l : List α) (seen : List β) (x : α),
    x ∈ dedupByAux f seen l → x ∈ l
  | [], _, _, h => by simp [dedupByAux] at h
  | a :: l, seen, x, h => by
    simp only [dedupByAux] at h
    split at h
    · exact List.mem_cons_of_mem _ (mem_dedupByAux f l seen x h)
    · rcases List.mem_cons.mp h with rfl | h
      · simp
      · exact List.mem_cons_of_mem _ (mem_dedupByAux f l _ x h)

section
variable {schema : List Ty} {p : Plan} {cq cq' : CQ}

theorem evalPre_plain_distinct (cq : CQ) (h : cq.aggregated = false) (hd : cq.distinct = true) (T : List Row) :
    evalPre cq T = dedupBy OutRow.vis (T.map fun r => outOf cq [r]) := by
  simp [evalPre, groupsOf, h, hd, List.map_map]
  rfl

/-- the rows a sub-table returns for SELECT DISTINCT without aggregation -/
theorem shard_plain_distinct (inv : PlanInv schema p cq cq') (h' : cq'.aggregated = false) (hd : cq.distinct = true)
    (T : List Row) :
    (evalCQ cq' T).map (·.vis) =
      window cq'.limit ((dedup (T.map fun r => fullRow cq'.items [r])).mergeSort (leFull cq.dirs (sortCols p cq'))) := by
  have hd' : cq'.distinct = true := by rw [inv.cdistinct]; exact hd
  have hdirs : cq'.dirs = cq.dirs := by simp [CQ.dirs, inv.keys]
  have hvis : (dedupBy OutRow.vis (T.map fun r => outOf cq' [r])).map (·.vis)
      = dedup (T.map fun r => fullRow cq'.items [r]) := by
    simp only [dedupBy, dedup, map_dedupByAux, List.map_map]; rfl
  simp only [evalCQ, ← window_map, evalSorted, evalPre_plain_distinct cq' h' hd']
  congr 1
  split
  · rename_i he
    have : cq.dirs = [] := by
      rw [← hdirs]; simp [CQ.dirs, List.isEmpty_iff.mp he]
    rw [this, mergeSort_true _ _ (leFull_nil _), hvis]
  · rw [List.map_mergeSort (s := leFull cq.dirs (sortCols p cq')), hvis]
    intro a ha b hb
    have ha' := mem_dedupByAux _ _ _ _ ha
    have hb' := mem_dedupByAux _ _ _ _ hb
    simp only [List.mem_map] at ha' hb'
    obtain ⟨ra, _, rfl⟩ := ha'
    obtain ⟨rb, _, rfl⟩ := hb'
    simp only [leOut, leFull, outOf_vis, inv_keyAt inv, hdirs]
    simp [outOf, inv.keys]

theorem nodup_length_le_of_subset {α : Type} [DecidableEq α] : ∀ (l Q : List α), l.Nodup → (∀ x ∈ l, x ∈ Q) →
    l.length ≤ Q.length
  | [], _, _, _ => by simp
  | a :: l, Q, hl, hsub => by
    rw [List.nodup_cons] at hl
    have ha : a ∈ Q := hsub a (by simp)
    have ih := nodup_length_le_of_subset l (Q.erase a) hl.2 (fun x hx => by
      have hne : x ≠ a := fun e => hl.1 (e ▸ hx)
      exact (List.mem_erase_of_ne hne).mpr (hsub x (by simp [hx])))
    rw [List.length_erase_of_mem ha] at ih
    have := List.length_pos_of_mem ha
    simp only [List.length_cons]
    omega

theorem nodup_length_le_filter {α : Type} [DecidableEq α] (l P : List α) (q : α → Bool) (hl : l.Nodup)
    (hsub : ∀ x ∈ l, x ∈ P ∧ q x = true) : l.length ≤ (P.filter q).length :=
  nodup_length_le_of_subset l (P.filter q) hl (fun x hx => List.mem_filter.mpr (hsub x hx))

/-- **SELECT DISTINCT without aggregation and without hidden columns**: the
    sub-tables return their distinct rows (sorted, cut to `offset+count`), the
    merge removes the duplicates between the sub-tables under the (injective)
    row key, sorts and cuts. -/
theorem merge_plain_distinct (inv : PlanInv schema p cq cq') (h : cq.aggregated = false) (h' : cq'.aggregated = false)
    (hd : cq.distinct = true) (hw : cq'.items.length = cq.items.length)
    (tables : List (List Row)) (hne : tables ≠ [])
    (hkey : ∀ r ∈ tables.flatten, ∀ r' ∈ tables.flatten,
      generateMapKey (fullRow cq'.items [r]) = generateMapKey (fullRow cq'.items [r']) →
      fullRow cq'.items [r] = fullRow cq'.items [r'])
    (res : Result) (hm : mergeSelectResult p (tables.map (shardResult cq')) = .ok res) :
    Answer cq tables.flatten res.rows := by
  let LF := leFull cq.dirs (sortCols p cq')
  let full := fun r : Row => fullRow cq'.items [r]
  have hgroup : cq.group = none := by
    simp only [CQ.aggregated, Bool.or_eq_false_iff] at h
    cases hg : cq.group with
    | none => rfl
    | some g => rw [hg] at h; simp at h
  have hpg : p.hasGroupBy = false := by rw [inv.pgroup, hgroup]; rfl
  have hpd : p.distinct = true := by rw [inv.pdistinct]; exact hd
  have haggs : p.aggs = [] := by
    rw [inv.aggs]
    apply aggPositions_nil_of_no_agg
    simp only [CQ.aggregated, Bool.or_eq_false_iff, List.any_eq_false] at h'
    intro it hit
    have := h'.1.2 it hit
    simpa using this
  -- the shard lists: distinct rows of each sub-table, sorted
  let Ls : List (List Row) := tables.map fun t => (dedup (t.map full)).mergeSort LF
  have hLs_mem : ∀ x, x ∈ Ls.flatten ↔ x ∈ tables.flatten.map full := by
    intro x
    simp only [Ls, List.mem_flatten, List.mem_map]
    constructor
    · rintro ⟨l, ⟨t, ht, rfl⟩, hx⟩
      rw [List.mem_mergeSort, mem_dedup] at hx
      obtain ⟨r, hr, rfl⟩ := List.mem_map.mp hx
      exact ⟨r, ⟨t, ht, hr⟩, rfl⟩
    · rintro ⟨r, ⟨t, ht, hr⟩, rfl⟩
      exact ⟨_, ⟨t, ht, rfl⟩, by rw [List.mem_mergeSort, mem_dedup]; exact List.mem_map.mpr ⟨r, hr, rfl⟩⟩
  -- merge the result sets
  obtain ⟨T, Ts, hT⟩ := List.exists_cons_of_ne_nil hne
  rw [mergeSelectResult_eq] at hm
  have hmm : mergeMultiResultSet (tables.map (shardResult cq')) =
      .ok { nfields := cq'.items.length, rows := (Ls.map (window cq'.limit)).flatten } := by
    rw [hT, List.map_cons, mergeMulti_uniform cq'.items.length (shardResult cq' T) (Ts.map (shardResult cq')) rfl
      (by intro x hx; obtain ⟨t, _, rfl⟩ := List.mem_map.mp hx; rfl)]
    congr 2
    rw [← List.map_cons (f := shardResult cq'), ← hT]
    simp only [Ls, List.map_map]
    congr 1
    apply List.map_congr_left
    intro t _
    exact shard_plain_distinct inv h' hd t
  rw [hmm] at hm
  let flat := (Ls.map (window cq'.limit)).flatten
  have hflat_sub : ∀ x ∈ flat, x ∈ tables.flatten.map full := by
    intro x hx
    simp only [flat, List.mem_flatten, List.mem_map] at hx
    obtain ⟨l, ⟨L, hL, rfl⟩, hxl⟩ := hx
    exact (hLs_mem x).mp (List.mem_flatten.mpr ⟨L, hL, mem_window _ _ _ hxl⟩)
  have hflat_len : ∀ x ∈ flat, x.length = cq'.items.length := by
    intro x hx
    obtain ⟨r, _, rfl⟩ := List.mem_map.mp (hflat_sub x hx)
    exact fullRow_length _ _
  have hcolcnt : (p.originColumnCount : Int) + delta p { nfields := cq'.items.length, rows := flat } = (cq'.items.length : Nat) := by
    have := inv.trim
    simp only [delta, planDelta] at this ⊢
    omega
  have hdistinct : removeDistinctRowInResult p { nfields := cq'.items.length, rows := flat } =
      .ok { nfields := cq'.items.length, rows := dedup flat } := by
    simp only [removeDistinctRowInResult, hcolcnt]
    rw [removeDistinctRows_spec cq'.items.length flat [] hflat_len]
    have : dedupByAux generateMapKey [] flat = dedup flat := by
      apply dedupBy_eq_dedup generateMapKey flat
      intro a ha b hb e
      obtain ⟨ra, hra, rfl⟩ := List.mem_map.mp (hflat_sub a ha)
      obtain ⟨rb, hrb, rfl⟩ := List.mem_map.mp (hflat_sub b hb)
      exact hkey ra hra rb hrb e
    rw [this]
  simp only [R.bind_ok, hpg, hpd, Bool.false_eq_true, if_false, if_true, buildSelectOnlyResult, haggs,
    List.isEmpty_nil] at hm
  rw [hdistinct] at hm
  simp only [R.bind_ok] at hm
  have hres := mergeTail_spec inv _ res rfl (by
    intro x hx
    exact hflat_len x ((mem_dedup _ _).mp hx)) hm
  -- the reference rows
  let Dall := dedup (tables.flatten.map full)
  have hLs_sorted : ∀ L ∈ Ls, L.Pairwise (fun a b => LF a b = true) := by
    intro L hL
    obtain ⟨t, _, rfl⟩ := List.mem_map.mp hL
    exact List.pairwise_mergeSort (leFull_trans _ _) (leFull_total _ _) _
  have hLs_nodup : ∀ L ∈ Ls, L.Nodup := by
    intro L hL
    obtain ⟨t, _, rfl⟩ := List.mem_map.mp hL
    exact (List.mergeSort_perm _ _).nodup_iff.mpr (nodup_dedup _)
  have hS : ∃ S : List Row, S.Perm Dall ∧ S.Pairwise (fun a b => LF a b = true) ∧
      window cq.limit S = window cq.limit ((dedup flat).mergeSort LF) := by
    have hl := inv.limit
    -- without a per-table LIMIT the candidates are all rows
    have hall : cq'.limit = none → (dedup flat).Perm Dall := by
      intro hnone
      rw [List.perm_ext_iff_of_nodup (nodup_dedup _) (nodup_dedup _)]
      intro x
      rw [mem_dedup, mem_dedup]
      simp only [flat, hnone, map_window_none]
      exact hLs_mem x
    cases hlim : cq.limit with
    | none =>
      rw [hlim] at hl
      exact ⟨(dedup flat).mergeSort LF, (List.mergeSort_perm _ _).trans (hall hl.2),
        List.pairwise_mergeSort (leFull_trans _ _) (leFull_total _ _) _, rfl⟩
    | some oc =>
      obtain ⟨o, c⟩ := oc
      rw [hlim] at hl
      rcases hl.2.2 with hl' | hl'
      · -- the candidates P and the rest R
        let P := dedup flat
        let R := Dall.filter fun x => x ∉ P
        have hP_sub : ∀ x ∈ P, x ∈ Dall := by
          intro x hx
          exact (mem_dedup _ _).mpr (hflat_sub x ((mem_dedup _ _).mp hx))
        have hPR : (P ++ R).Perm Dall := by
          rw [List.perm_ext_iff_of_nodup _ (nodup_dedup _)]
          · intro x
            simp only [R, List.mem_append, List.mem_filter, decide_eq_true_eq]
            constructor
            · rintro (hx | ⟨hx, _⟩)
              · exact hP_sub x hx
              · exact hx
            · intro hx
              by_cases hxP : x ∈ P
              · exact Or.inl hxP
              · exact Or.inr ⟨hx, hxP⟩
          · rw [List.nodup_append]
            refine ⟨nodup_dedup _, (nodup_dedup _).filter _, ?_⟩
            intro a ha b hb e
            simp only [R, List.mem_filter, decide_eq_true_eq] at hb
            exact hb.2 (e ▸ ha)
        have H : ∀ r ∈ R, o + c ≤ countLe LF P r := by
          intro r hr
          simp only [R, List.mem_filter, decide_eq_true_eq] at hr
          obtain ⟨hrD, hrP⟩ := hr
          have hrL : r ∈ Ls.flatten := (hLs_mem r).mpr ((mem_dedup _ _).mp hrD)
          obtain ⟨L, hL, hrL'⟩ := List.mem_flatten.mp hrL
          have hnot : r ∉ L.take (o + c) := by
            intro hin
            apply hrP
            rw [mem_dedup]
            simp only [flat, hl', map_window_take]
            exact List.mem_flatten.mpr ⟨_, List.mem_map.mpr ⟨L, hL, rfl⟩, hin⟩
          have hdrop : r ∈ L.drop (o + c) := by
            have := List.take_append_drop (o + c) L
            rw [← this] at hrL'
            rcases List.mem_append.mp hrL' with h1 | h1
            · exact absurd h1 hnot
            · exact h1
          have hsL := hLs_sorted L hL
          have hlen : o + c < L.length := by
            have := List.length_pos_of_mem hdrop
            simp at this; omega
          have hall' : ∀ x ∈ L.take (o + c), LF x r = true := by
            rw [← List.take_append_drop (o + c) L, List.pairwise_append] at hsL
            exact fun x hx => hsL.2.2 x hx r hdrop
          have hcount := nodup_length_le_filter (L.take (o + c)) P (fun x => LF x r)
            ((hLs_nodup L hL).sublist (List.take_sublist _ _)) (by
              intro x hx
              refine ⟨?_, hall' x hx⟩
              rw [mem_dedup]
              simp only [flat, hl', map_window_take]
              exact List.mem_flatten.mpr ⟨_, List.mem_map.mpr ⟨L, hL, rfl⟩, hx⟩)
          simp only [List.length_take] at hcount
          simp only [countLe]
          omega
        obtain ⟨S, hp, hs, hwin⟩ := topk_core (leFull_trans _ _) (leFull_total _ _) P R o c H
        exact ⟨S, hp.trans hPR, hs, by simpa [window] using hwin⟩
      · exact ⟨(dedup flat).mergeSort LF, (List.mergeSort_perm _ _).trans (hall hl'),
          List.pairwise_mergeSort (leFull_trans _ _) (leFull_total _ _) _, rfl⟩
  obtain ⟨S, hSp, hSs, hSw⟩ := hS
  refine ⟨S.map (toOut cq.items.length (sortCols p cq')), ?_, ?_, ?_⟩
  · rw [evalPre_plain_distinct cq h hd]
    have e1 : (tables.flatten.map fun r => outOf cq [r]) =
        (tables.flatten.map full).map (toOut cq.items.length (sortCols p cq')) := by
      simp only [List.map_map]
      apply List.map_congr_left
      intro r _
      exact (inv_toOut inv [r]).symm
    rw [e1]
    have e2 : dedupBy OutRow.vis ((tables.flatten.map full).map (toOut cq.items.length (sortCols p cq')))
        = Dall.map (toOut cq.items.length (sortCols p cq')) := by
      simp only [dedupBy, Dall, dedup]
      apply dedupByAux_map_section
      intro a ha
      obtain ⟨r, _, rfl⟩ := List.mem_map.mp ha
      simp only [toOut]
      apply List.take_of_length_le
      rw [fullRow_length]; omega
    rw [e2]
    exact hSp.map _
  · rw [List.pairwise_map]
    exact hSs
  · rw [hres, ← hSw, window_map, List.map_map]
    apply List.map_congr_left
    intro r _
    rfl

end

/-! ### the supported class, zero and one sub-table, the assembled theorem -/

theorem evalShards_eq (schema : List Ty) (q : Query) (cq' : CQ) (h : compile schema q = some cq') :
    ∀ tables : List (List Row), evalShards schema q tables = some (tables.map (shardResult cq'))
  | [] => rfl
  | t :: ts => by
    simp only [evalShards, evalShard, h, evalShards_eq schema q cq' h ts, List.map_cons, shardResult]

/-- a statement sent unchanged to one sub-table: the sub-table's answer is an answer -/
theorem single_table (cq : CQ) (T : List Row) : Answer cq T ((evalCQ cq T).map (·.vis)) := by
  refine ⟨evalSorted cq T, ?_, ?_, rfl⟩
  · simp only [evalSorted]
    split
    · exact List.Perm.refl _
    · exact List.mergeSort_perm _ _
  · simp only [evalSorted]
    split
    · rename_i he
      have : cq.dirs = [] := by simp [CQ.dirs, List.isEmpty_iff.mp he]
      rw [this]
      exact List.pairwise_of_forall (fun a b => by simp [leOut, leKey])
    · exact List.pairwise_mergeSort (leOut_trans _) (fun a b => leOut_total _ a b) _

theorem evalItem_nil_agg (k : AggKind) (arg : Option Nat) (d : Bool) :
    evalItem [] (.agg k arg d) = if k = .count then .int 0 else .null := by
  have : aggArgs arg d [] = [] := by
    cases arg <;> cases d <;> simp [aggArgs, dedup, dedupAux]
  simp only [evalItem, this]
  cases k <;> simp [aggOf]

section
variable {schema : List Ty} {p : Plan} {cq cq' : CQ}

/-- **A statement routed to no sub-table**: no row, or for aggregate functions
    without GROUP BY the row of the empty table (COUNT 0, NULL otherwise). -/
theorem zero_route (inv : PlanInv schema p cq cq') (hclass : classOK p cq cq' = true)
    (hcc : p.shardQ.fields.length = p.columnCount) (res : Result) (h : emptyResult p = .ok res) :
    Answer cq [] res.rows := by
  have hfl : ((p.shardQ.fields.length : Int) - ((p.columnCount : Int) - (p.originColumnCount : Int))) = p.originColumnCount := by
    rw [hcc]; omega
  simp only [emptyResult, hfl] at h
  have hnn : ¬ ((p.originColumnCount : Int) < 0) := by omega
  rw [if_neg hnn] at h
  by_cases hdist : cq.distinct = true
  · -- SELECT DISTINCT without aggregation: no row
    simp only [classOK, hdist, if_true, Bool.and_eq_true, Bool.not_eq_true', decide_eq_true_eq] at hclass
    obtain ⟨⟨hagg0, hagg0'⟩, _⟩ := hclass
    have hgroup : cq.group = none := by
      simp only [CQ.aggregated, Bool.or_eq_false_iff] at hagg0
      cases hg : cq.group with
      | none => rfl
      | some g => rw [hg] at hagg0; simp at hagg0
    have hpg : p.hasGroupBy = false := by rw [inv.pgroup, hgroup]; rfl
    have haggs : p.aggs = [] := by
      rw [inv.aggs]
      apply aggPositions_nil_of_no_agg
      simp only [CQ.aggregated, Bool.or_eq_false_iff, List.any_eq_false] at hagg0'
      intro it hit
      have := hagg0'.1.2 it hit
      simpa using this
    simp only [haggs, List.isEmpty_nil, or_true, if_true, R.ok.injEq] at h
    subst h
    refine ⟨[], ?_, by simp, ?_⟩
    · rw [evalPre_plain_distinct cq hagg0 hdist]; simp [dedupBy, dedupByAux]
    · cases cq.limit <;> simp [window]
  have hd : cq.distinct = false := by simpa using hdist
  have hcl := hclass
  simp only [classOK, hd, Bool.false_eq_true, if_false] at hcl
  by_cases hagg : cq.aggregated = true
  · rw [hagg] at hcl
    simp only [Bool.not_true, Bool.false_eq_true, if_false] at hcl
    cases hg : cq.group with
    | some g =>
      have hpg : p.hasGroupBy = true := by rw [inv.pgroup, hg]; rfl
      simp only [hpg, true_or, if_true, R.ok.injEq] at h
      subst h
      refine ⟨[], ?_, by simp, ?_⟩
      · rw [evalPre_group cq g hg hd]
        simp [groupRows, dedup, dedupAux]
      · cases cq.limit <;> simp [window]
    | none =>
      rw [hg] at hcl
      simp only [Bool.and_eq_true, decide_eq_true_eq] at hcl
      obtain ⟨⟨⟨hagg', hany⟩, hall⟩, horigin⟩ := hcl
      have hpg : p.hasGroupBy = false := by rw [inv.pgroup, hg]; rfl
      have haggs : p.aggs.isEmpty = false := by
        rw [inv.aggs]
        simp only [List.any_eq_true] at hany
        obtain ⟨it, hit, hia⟩ := hany
        obtain ⟨n, hn⟩ := List.getElem?_of_mem hit
        cases it with
        | agg k a d =>
          have : (n, k) ∈ aggPositions cq'.items := (mem_aggPosFrom _ 0 n k).mpr ⟨n, a, d, by simp, hn⟩
          cases hh : aggPositions cq'.items with
          | nil => rw [hh] at this; cases this
          | cons x xs => rfl
        | col c => simp [Item.isAgg] at hia
        | const c => simp [Item.isAgg] at hia
      have hcond : ¬ (p.hasGroupBy = true ∨ p.aggs.isEmpty = true) := by simp [hpg, haggs]
      rw [if_neg hcond] at h
      -- the row of the empty table
      have hrow : ((List.range (p.originColumnCount : Int).toNat).map fun i =>
          if p.aggs.any (fun a => decide (a.1 = i ∧ a.2 = AggKind.count)) then Val.int 0 else Val.null)
          = (outOf cq []).vis := by
        simp only [Int.toNat_natCast, horigin, outOf]
        apply List.ext_getElem
        · simp
        · intro i h1 h2
          simp only [List.length_map, List.length_range] at h1
          simp only [List.getElem_map, List.getElem_range]
          have hi : cq'.items[i]? = some cq.items[i] := by
            have := congrArg (fun l => l[i]?) inv.items
            simp only [List.getElem?_take, h1, if_true] at this
            rw [this]; exact List.getElem?_eq_getElem h1
          have hisagg := List.all_eq_true.mp hall _ (List.mem_of_getElem? hi)
          cases hit : cq.items[i] with
          | col c => rw [hit] at hisagg; simp [Item.isAgg] at hisagg
          | const c => rw [hit] at hisagg; simp [Item.isAgg] at hisagg
          | agg k a d =>
            rw [hit] at hi
            rw [evalItem_nil_agg]
            have hmem : ∀ k', (i, k') ∈ p.aggs ↔ k' = k := by
              intro k'
              rw [inv.aggs, aggPositions, mem_aggPosFrom]
              constructor
              · rintro ⟨n, a', d', hn, hn'⟩
                simp only [Nat.zero_add] at hn; subst hn
                rw [hi] at hn'
                simp only [Option.some.injEq, Item.agg.injEq] at hn'
                exact hn'.1.symm
              · rintro rfl
                exact ⟨i, a, d, by simp, hi⟩
            by_cases hk : k = .count
            · subst hk
              have : p.aggs.any (fun a => decide (a.1 = i ∧ a.2 = AggKind.count)) = true := by
                rw [List.any_eq_true]
                exact ⟨(i, .count), (hmem .count).mpr rfl, by simp⟩
              rw [if_pos this, if_pos rfl]
            · have : p.aggs.any (fun a => decide (a.1 = i ∧ a.2 = AggKind.count)) = false := by
                rw [List.any_eq_false]
                intro a ha
                simp only [decide_eq_true_eq, not_and]
                intro h1' h2'
                have := (hmem a.2).mp (by rw [← h1']; exact ha)
                exact hk (this ▸ h2')
              rw [if_neg (by rw [this]; simp), if_neg hk]
      rw [hrow] at h
      rw [limitSelectResult_spec inv] at h
      simp only [R.bind_ok, generateRowData] at h
      split at h
      · rw [R.ok.injEq] at h
        subst h
        refine ⟨[outOf cq []], by rw [evalPre_single cq hagg hg hd], by simp, ?_⟩
        simp only
        rw [← window_map]
        simp
      · cases h
  · have hagg0 : cq.aggregated = false := by simpa using hagg
    rw [hagg0] at hcl
    simp only [Bool.not_false, if_true, Bool.not_eq_true'] at hcl
    have haggs : p.aggs = [] := by
      rw [inv.aggs]
      apply aggPositions_nil_of_no_agg
      simp only [CQ.aggregated, Bool.or_eq_false_iff, List.any_eq_false] at hcl
      intro it hit
      have := hcl.1.2 it hit
      simpa using this
    simp only [haggs, List.isEmpty_nil, or_true, if_true, R.ok.injEq] at h
    subst h
    refine ⟨[], ?_, by simp, ?_⟩
    · rw [evalPre_plain cq hagg0 hd]; simp
    · cases cq.limit <;> simp [window]

end

theorem rewrite_columnCount (q : Query) (p : Plan) (h : rewrite q = .ok p) :
    p.shardQ.fields.length = p.columnCount := by
  unfold rewrite at h
  simp only at h
  split at h
  · cases h
  · rw [R.ok.injEq] at h
    subst h
    rfl

/-- the GROUP BY key encoding is injective on the keys present -/
def KeyInj (cq : CQ) (rows : List Row) : Prop :=
  ∀ g, cq.group = some g → ∀ r ∈ rows, ∀ r' ∈ rows,
    generateMapKey (groupKey g r) = generateMapKey (groupKey g r') → groupKey g r = groupKey g r'

/-- the DISTINCT row key encoding is injective on the rows present -/
def RowKeyInj (cq : CQ) (rows : List Row) : Prop :=
  cq.distinct = true → ∀ r ∈ rows, ∀ r' ∈ rows,
    generateMapKey (fullRow cq.items [r]) = generateMapKey (fullRow cq.items [r']) →
    fullRow cq.items [r] = fullRow cq.items [r']

/-- the multi-table path of `ExecuteIn` -/
theorem merge_correct {schema : List Ty} {p : Plan} {cq cq' : CQ} (inv : PlanInv schema p cq cq')
    (hclass : classOK p cq cq' = true) (tables : List (List Row)) (hne : tables ≠ [])
    (htyped : ∀ t ∈ tables, TypedRows schema t) (hkey : KeyInj cq tables.flatten)
    (hrow : RowKeyInj cq tables.flatten) (res : Result)
    (hm : mergeSelectResult p (tables.map (shardResult cq')) = .ok res) :
    Answer cq tables.flatten res.rows := by
  by_cases hdist : cq.distinct = true
  · simp only [classOK, hdist, if_true, Bool.and_eq_true, Bool.not_eq_true', decide_eq_true_eq] at hclass
    obtain ⟨⟨hagg0, hagg0'⟩, hw⟩ := hclass
    have hitems : cq'.items = cq.items := by
      have := inv.items
      rw [← hw, List.take_length] at this
      exact this
    refine merge_plain_distinct inv hagg0 hagg0' hdist hw tables hne ?_ res hm
    rw [hitems]
    exact hrow hdist
  have hd : cq.distinct = false := by simpa using hdist
  have hcl := hclass
  simp only [classOK, hd, Bool.false_eq_true, if_false] at hcl
  by_cases hagg : cq.aggregated = true
  · rw [hagg] at hcl
    simp only [Bool.not_true, Bool.false_eq_true, if_false] at hcl
    cases hg : cq.group with
    | some g =>
      rw [hg] at hcl
      exact merge_group inv g hg hd (by simpa using hcl) tables hne htyped (hkey g hg) res hm
    | none =>
      rw [hg] at hcl
      simp only [Bool.and_eq_true, decide_eq_true_eq] at hcl
      obtain ⟨⟨⟨hagg', hany⟩, hall⟩, _⟩ := hcl
      refine merge_aggregate inv hagg hagg' hany hg hd ?_ tables hne htyped res hm
      intro it hit c e
      have := List.all_eq_true.mp hall it hit
      rw [e] at this
      simp [Item.isAgg] at this
  · have hagg0 : cq.aggregated = false := by simpa using hagg
    rw [hagg0] at hcl
    simp only [Bool.not_false, if_true, Bool.not_eq_true'] at hcl
    exact merge_plain inv hagg0 hcl hd tables hne res hm

/-- **C02, the proved class.**  For every table schema, every statement of
    the supported class (`Supported`, decidable: the planner's rewriting satisfies
    the plan invariant; the statement is a projection with ORDER BY / LIMIT, or
    aggregate functions without GROUP BY, or a GROUP BY statement whose LIMIT is
    not sent to the shards, or SELECT DISTINCT of plain columns whose ORDER BY
    names selected columns; MAX / MIN(DISTINCT) are covered,
    COUNT / SUM(DISTINCT) are rejected by the planner when several sub-tables
    are involved), every
    number of routed sub-tables (none, one, several) and all typed contents of
    those sub-tables on which the GROUP BY key / DISTINCT row key encoding is
    injective (`keyInj_of_typed`, `rowKeyInj_of_typed`: always, for BIGINT and
    character columns): if the
    proxy returns a result, its rows are an answer of the statement on one
    database holding the union of the sub-tables — a permutation of the rows of
    the statement, in ORDER BY order (ties in any order), cut to the LIMIT window.
    (The routing of WHERE — every row that satisfies WHERE lives in a routed
    sub-table — is C01's `route_sound`; `tables` are the WHERE-matching rows of
    the routed sub-tables.)

    Full statement, not proved (`_partial`): the same for SELECT DISTINCT of
    aggregated / grouped statements, GROUP BY with the per-shard LIMIT kept (ORDER BY starting
    with the GROUP BY columns), UNION and joins; those shapes are covered by
    the correspondence and the oracle only. -/
theorem C02_select_correct_partial (schema : List Ty) (q : Query) (cq : CQ) (tables : List (List Row))
    (res : Result) (hcq : compile schema q = some cq) (hsup : Supported schema q = true)
    (htyped : ∀ t ∈ tables, TypedRows schema t) (hkey : KeyInj cq tables.flatten)
    (hrow : RowKeyInj cq tables.flatten)
    (h : executeIn schema q tables = .ok res) :
    Answer cq tables.flatten res.rows := by
  have hmulti : ∀ (ts : List (List Row)), (∀ t ∈ ts, TypedRows schema t) → KeyInj cq ts.flatten →
      RowKeyInj cq ts.flatten →
      executeMulti schema q ts = .ok res → Answer cq ts.flatten res.rows := by
    intro ts hty hk hrw' hm
    simp only [executeMulti] at hm
    cases hrw : rewrite q with
    | fail => rw [hrw] at hm; cases hm
    | panic => rw [hrw] at hm; cases hm
    | ok p =>
      rw [hrw] at hm
      simp only [Supported, hcq, hrw] at hsup
      cases hcq' : compile schema p.shardQ with
      | none => rw [hcq'] at hsup; cases hsup
      | some cq' =>
        rw [hcq'] at hsup
        simp only [Bool.and_eq_true] at hsup
        have inv := planOK_sound hsup.1
        simp only at hm
        by_cases hempty : ts.isEmpty = true
        · rw [if_pos hempty] at hm
          have : ts = [] := List.isEmpty_iff.mp hempty
          subst this
          exact zero_route inv hsup.2 (rewrite_columnCount q p hrw) res hm
        · rw [if_neg hempty, evalShards_eq schema p.shardQ cq' hcq'] at hm
          simp only at hm
          exact merge_correct inv hsup.2 ts (by intro e; apply hempty; simp [e]) hty hk hrw' res hm
  match tables, htyped, hkey, hrow, h with
  | [], hty, hk, hr, h => exact hmulti [] hty hk hr h
  | [t], _, _, _, h =>
    simp only [executeIn, evalShard, hcq] at h
    rw [R.ok.injEq] at h
    subst h
    simpa using single_table cq t
  | t1 :: t2 :: ts, hty, hk, hr, h => exact hmulti (t1 :: t2 :: ts) hty hk hr h


/-! ### the core theorems under their names (statements as in the lemma files) -/

/-- **COUNT / SUM / MAX / MIN are homomorphisms of concatenation** (non-DISTINCT):
    merging the next shard's aggregate (`from`) into the accumulated one (`to`)
    gives the aggregate of the concatenated argument lists; empty and all-NULL
    parts (COUNT 0, NULL) included. -/
theorem agg_homomorphism (t : VTy) (k : AggKind) (l1 l2 : List Val)
    (h1 : ∀ v ∈ l1, hasTy t v = true) (h2 : ∀ v ∈ l2, hasTy t v = true) (hsum : k = .sum → t ≠ .str) :
    mergeVal k (aggOf k l2) (aggOf k l1) = .ok (aggOf k (l1 ++ l2)) :=
  Merge.agg_homomorphism t k l1 l2 h1 h2 hsum

/-- **Grouping under an injective key encoding**: the loop of
    `buildSelectGroupByResult` over the groups returned by the shards ends with
    one row per key, the row of all rows carrying that key. -/
theorem group_merge {schema : List Ty} (p : Plan) (d : Int) (items : List Item) (kc : List Row → List Val)
    (haggs : p.aggs = aggPositions items) (hok : ∀ it ∈ items, it.aggOK schema = true)
    (chunks : List (List Row))
    (hall : ∀ c ∈ chunks, c ≠ [] ∧ TypedRows schema c ∧ keySliceOf p.groupByColumn d (fullRow items c) = .ok (kc c))
    (hinj : ∀ c ∈ chunks, ∀ c' ∈ chunks, generateMapKey (kc c) = generateMapKey (kc c') → kc c = kc c') :
    groupLoop p d [] (chunks.map (fullRow items)) =
      .ok ((dedup (chunks.map kc)).map fun k => (generateMapKey k, fullRow items (chunkRows kc chunks k))) := by
  have := groupLoop_chunks (schema := schema) p d items kc haggs hok chunks []
    (by simpa using hall) (by simpa using hinj)
  simpa [chunkState, dedup, dedupAux] using this

/-- **The map key is injective** (after the `fix:` commit): equal keys come from
    column lists that agree in length, in their NULLs and in the text of every
    other column. -/
theorem mapkey_injective (k1 k2 : List Val) (s1 : ∀ v ∈ k1, ShortText v) (s2 : ∀ v ∈ k2, ShortText v)
    (h : generateMapKey k1 = generateMapKey k2) : k1.map keyText = k2.map keyText :=
  generateMapKey_inj k1 k2 s1 s2 h

/-- the two collisions of the old encoding are gone -/
example : generateMapKey [.null] ≠ generateMapKey [.str [78, 85, 76, 76]] := by decide
example : generateMapKey [.str [97, 43], .str [98]] ≠ generateMapKey [.str [97], .str [43, 98]] := by decide

/-- **Top-k merge**: every shard list sorted; sorting the first `o+c` rows of
    every shard and taking `[o, o+c)` is the window `[o, o+c)` of a sorted
    arrangement of all rows. -/
theorem topk_merge_rows (dirs : List Bool) (cols : List Int) (Ls : List (List Row))
    (hs : ∀ L ∈ Ls, L.Pairwise (fun a b => leFull dirs cols a b = true)) (o c : Nat) :
    ∃ S : List Row, S.Perm Ls.flatten ∧ S.Pairwise (fun a b => leFull dirs cols a b = true) ∧
      (S.drop o).take c = (((heads (o + c) Ls).mergeSort (leFull dirs cols)).drop o).take c :=
  topk_merge (leFull_trans dirs cols) (leFull_total dirs cols) Ls hs o c

/-! ### the key encoding is injective on typed keys -/

theorem map_inj_on {α β : Type} (f : α → β) : ∀ (l1 l2 : List α),
    (∀ a ∈ l1, ∀ b ∈ l2, f a = f b → a = b) → l1.map f = l2.map f → l1 = l2
  | [], [], _, _ => rfl
  | [], _ :: _, _, h => by simp at h
  | _ :: _, [], _, h => by simp at h
  | a :: l1, b :: l2, hinj, h => by
    simp only [List.map_cons, List.cons.injEq] at h
    rw [hinj a (by simp) b (by simp) h.1,
      map_inj_on f l1 l2 (fun x hx y hy => hinj x (by simp [hx]) y (by simp [hy])) h.2]

theorem digit_byte (c : Char) (h : c.isDigit = true) : (UInt8.ofNat c.toNat).toNat = c.toNat := by
  simp only [Char.isDigit, Bool.and_eq_true, decide_eq_true_eq] at h
  have h2 : c.toNat ≤ 57 := by
    have := h.2
    exact this
  simp [UInt8.toNat_ofNat']
  omega

theorem digitsOf_inj (n m : Nat) (h : digitsOf n = digitsOf m) : n = m := by
  have hc : Nat.toDigits 10 n = Nat.toDigits 10 m := by
    apply map_inj_on _ _ _ _ h
    intro a ha b hb e
    have da := Nat.isDigit_of_mem_toDigits (by decide) (by decide) ha
    have db := Nat.isDigit_of_mem_toDigits (by decide) (by decide) hb
    have := congrArg UInt8.toNat e
    rw [digit_byte a da, digit_byte b db] at this
    exact Char.toNat_inj.mp this
  have := congrArg (fun l => Nat.ofDigitChars 10 l 0) hc
  simpa [Nat.ofDigitChars_ten_toDigits] using this

theorem digitsOf_no_minus (n : Nat) : (45 : UInt8) ∉ digitsOf n := by
  intro h
  simp only [digitsOf, List.mem_map] at h
  obtain ⟨c, hc, e⟩ := h
  have dc := Nat.isDigit_of_mem_toDigits (by decide) (by decide) hc
  have := congrArg UInt8.toNat e
  rw [digit_byte c dc] at this
  simp only [Char.isDigit, Bool.and_eq_true, decide_eq_true_eq] at dc
  have h1 : 48 ≤ c.toNat := dc.1
  have : c.toNat = 45 := this
  omega

theorem intText_inj (i j : Int) (h : intText i = intText j) : i = j := by
  simp only [intText] at h
  by_cases hi : i < 0 <;> by_cases hj : j < 0
  · simp only [hi, hj, if_true, List.cons.injEq, true_and] at h
    have := digitsOf_inj _ _ h
    omega
  · simp only [hi, hj, if_true, if_false] at h
    exfalso
    apply digitsOf_no_minus j.natAbs
    rw [← h]; simp
  · simp only [hi, hj, if_true, if_false] at h
    exfalso
    apply digitsOf_no_minus i.natAbs
    rw [h]; simp
  · simp only [hi, hj, if_false] at h
    have := digitsOf_inj _ _ h
    omega

theorem digitsOf_length (n : Nat) (h : n < 10 ^ 19) : (digitsOf n).length ≤ 19 := by
  simp only [digitsOf, List.length_map]
  exact (Nat.length_toDigits_le_iff (by decide) (by decide)).mpr h

/-- a GROUP BY key value the proxy can hold: NULL, a BIGINT, a string shorter than 2^64 bytes -/
def keyValOK : Val → Prop
  | .null => True
  | .int i => i.natAbs < 10 ^ 19
  | .str b => b.length < 256 ^ 8
  | .dec _ _ => False

theorem shortText_of_keyValOK (v : Val) (h : keyValOK v) : ShortText v := by
  cases v with
  | null => simp [ShortText, formatValue]
  | int i =>
    simp only [keyValOK] at h
    have := digitsOf_length i.natAbs h
    simp only [ShortText, formatValue, intText]
    split
    · simp only [List.length_cons]; omega
    · omega
  | str b => exact h
  | dec u s => exact absurd h (by simp [keyValOK])

/-- **On typed BIGINT / string GROUP BY columns the key encoding is injective**:
    the hypothesis `KeyInj` of the assembled theorem holds for every table
    whose GROUP BY columns are BIGINT or character columns. -/
theorem keyInj_of_typed (schema : List Ty) (g : List Nat) (rows : List Row) (ht : TypedRows schema rows)
    (hg : ∀ c ∈ g, schema[c]? = some .int ∨ schema[c]? = some .str)
    (hb : ∀ r ∈ rows, ∀ c ∈ g, keyValOK (r.getD c .null)) :
    ∀ r ∈ rows, ∀ r' ∈ rows, generateMapKey (groupKey g r) = generateMapKey (groupKey g r') →
      groupKey g r = groupKey g r' := by
  intro r hr r' hr' h
  apply generateMapKey_inj_of_text_inj _ _ _ _ _ h
  · intro v hv
    obtain ⟨c, hc, rfl⟩ := List.mem_map.mp hv
    exact shortText_of_keyValOK _ (hb r hr c hc)
  · intro v hv
    obtain ⟨c, hc, rfl⟩ := List.mem_map.mp hv
    exact shortText_of_keyValOK _ (hb r' hr' c hc)
  · intro pr hp
    simp only [groupKey, List.zip_map', List.mem_map] at hp
    obtain ⟨c, hc, rfl⟩ := hp
    simp only
    have t1 := (ht r hr).ok c
    have t2 := (ht r' hr').ok c
    rcases hg c hc with hs | hs
    · have c1 := t1 _ hs
      have c2 := t2 _ hs
      generalize r.getD c .null = x at c1 ⊢
      generalize r'.getD c .null = y at c2 ⊢
      cases x <;> cases y <;> simp_all [conforms, hasTy, Ty.vty, keyText, formatValue]
      exact intText_inj _ _
    · have c1 := t1 _ hs
      have c2 := t2 _ hs
      generalize r.getD c .null = x at c1 ⊢
      generalize r'.getD c .null = y at c2 ⊢
      cases x <;> cases y <;> simp_all [conforms, hasTy, Ty.vty, keyText, formatValue]


/-- the same for the row key of SELECT DISTINCT over BIGINT / character columns -/
theorem rowKeyInj_of_typed (schema : List Ty) (cq : CQ) (cols : List Nat) (rows : List Row)
    (hitems : cq.items = cols.map Item.col) (ht : TypedRows schema rows)
    (hg : ∀ c ∈ cols, schema[c]? = some .int ∨ schema[c]? = some .str)
    (hb : ∀ r ∈ rows, ∀ c ∈ cols, keyValOK (r.getD c .null)) : RowKeyInj cq rows := by
  intro _ r hr r' hr' h
  have e : ∀ x : Row, fullRow cq.items [x] = groupKey cols x := by
    intro x
    simp [hitems, fullRow, groupKey, List.map_map, Function.comp_def, evalItem]
  rw [e, e] at h ⊢
  exact keyInj_of_typed schema cols rows ht hg hb r hr r' hr' h

/-! ### non-vacuity -/

def exSchema : List Ty := [.int, .int, .int, .str, .str, .dec 2]

/-- SELECT a FROM t ORDER BY s DESC LIMIT 1, 2   (hidden sort column, LIMIT 3 on the shards) -/
def exPlain : Query :=
  { distinct := false, fields := [{ expr := .col 2, asName := none }], groupBy := none,
    orderBy := [(.name 3, true)], limit := .offCount 1 2 }

/-- SELECT COUNT(*), SUM(a) AS x100, MAX(s) FROM t -/
def exAgg : Query :=
  { distinct := false,
    fields := [{ expr := .agg .count none false, asName := none }, { expr := .agg .sum (some 2) false, asName := some 100 },
               { expr := .agg .max (some 3) false, asName := none }],
    groupBy := none, orderBy := [], limit := .none }

/-- SELECT s, COUNT(*) AS x100 FROM t GROUP BY s ORDER BY x100 DESC, MIN(a) LIMIT 1 -/
def exGroup : Query :=
  { distinct := false,
    fields := [{ expr := .col 3, asName := none }, { expr := .agg .count none false, asName := some 100 }],
    groupBy := some [.name 3], orderBy := [(.name 100, true), (.agg .min (some 2) false, false)], limit := .count 1 }

/-- SELECT DISTINCT s, a FROM t ORDER BY s, a DESC LIMIT 2 -/
def exDistinct : Query :=
  { distinct := true, fields := [{ expr := .col 3, asName := none }, { expr := .col 2, asName := none }],
    groupBy := none, orderBy := [(.name 3, false), (.name 2, true)], limit := .count 2 }

example : Supported exSchema exPlain = true := by decide
example : Supported exSchema exDistinct = true := by decide
example : Supported exSchema exAgg = true := by decide
example : Supported exSchema exGroup = true := by decide

/-- SELECT s, COUNT(*), SUM(a) FROM t GROUP BY s -/
def exGroup2 : Query :=
  { distinct := false,
    fields := [{ expr := .col 3, asName := none }, { expr := .agg .count none false, asName := none },
               { expr := .agg .sum (some 2) false, asName := none }],
    groupBy := some [.name 3], orderBy := [], limit := .none }

/-- two sub-tables; the groups NULL and 'NULL' and the group 'a' on both -/
def exTables : List (List Row) :=
  [[[.int 4, .int 0, .int 5, .str [97], .null, .dec 150 2], [.int 8, .int 0, .null, .null, .null, .null]],
   [[.int 1, .int 0, .int 7, .str [97], .null, .null], [.int 5, .int 1, .int 1, .str [78, 85, 76, 76], .null, .null]]]

example : Supported exSchema exGroup2 = true := by decide

/-- the merged answer: a → (2, 12), NULL → (1, NULL), 'NULL' → (1, 1) -/
example : executeIn exSchema exGroup2 exTables =
    .ok { nfields := 3, rows := [[.str [97], .int 2, .dec 12 0], [.null, .int 1, .null],
                                  [.str [78, 85, 76, 76], .int 1, .dec 1 0]] } := by decide

example : ∀ t ∈ exTables, TypedRows exSchema t := by
  intro t ht r hr
  simp only [exTables, List.mem_cons, List.not_mem_nil, or_false] at ht
  rcases ht with rfl | rfl <;>
    (simp only [List.mem_cons, List.not_mem_nil, or_false] at hr
     rcases hr with rfl | rfl <;>
       (refine ⟨rfl, ?_⟩
        intro i t' hi
        match i, hi with
        | 0, hi | 1, hi | 2, hi | 3, hi | 4, hi | 5, hi =>
          simp [exSchema] at hi; subst hi; decide
        | n + 6, hi => simp [exSchema] at hi))

example : KeyInj { items := [], keys := [], group := some [3], distinct := false, limit := none } exTables.flatten := by
  intro g hg
  cases hg
  decide

/-- `keyInj_of_typed` applies to the example table (GROUP BY the string column 3) -/
example : ∀ r ∈ exTables.flatten, ∀ c ∈ [3], keyValOK (r.getD c .null) := by
  intro r hr c hc
  simp only [List.mem_singleton] at hc
  subst hc
  simp only [exTables, List.flatten_cons, List.flatten_nil, List.append_nil, List.cons_append, List.nil_append,
    List.mem_cons, List.not_mem_nil, or_false] at hr
  rcases hr with rfl | rfl | rfl | rfl <;> simp [keyValOK]

end GaeaVerif.C02
