import GaeaVerif.Model.GlobalStmt
import GaeaVerif.Lemmas.ShardLayoutLemmas
import GaeaVerif.Lemmas.GlobalTreeLemmas
/-
  C04 — Global tables: writes reach every copy, reads touch one copy, database
  names are rewritten to the physical database of the copy.
  Theorems about `Model/GlobalStmt.lean` and the layout part of
  `Model/ShardLayout.lean`; the tie to proxy/plan and proxy/router is `gvh run C04`.
-/
namespace GaeaVerif.C04
open GaeaVerif GaeaVerif.Layout GaeaVerif.Global GaeaVerif.GlobalTree

/-- where a produced statement is sent -/
def target {α : Type} (t : Target α) : String × String := (t.slice, t.db)

/-- an accepted plan used the layout of the table `first` and went through
    `generateShardingSQLs` -/
theorem planGlobal_ok (pinned : Bool) (valid : List String) (sess : String) (rules : List Rule) (s : Stmt) (first pick : Nat)
    (out : List (Target (List Chain))) (h : planGlobal pinned valid sess rules s first pick = .ok out) :
    ∃ r, rules[first]? = some r ∧
      ((s.kind = .select ∧ r.idxs.length ≠ 0 ∧
          generateShardingSQLs r (restoreAll pinned (mkEnv valid sess rules s) (textNames s))
            [((pick % r.idxs.length : Nat) : Int)] = .ok out) ∨
       (s.kind ≠ .select ∧
          generateShardingSQLs r (restoreAll pinned (mkEnv valid sess rules s) (textNames s)) r.idxs = .ok out)) := by
  unfold planGlobal at h
  simp only at h
  cases hc : checkNames pinned (mkEnv valid sess rules s) (planOrder s) with
  | fail => simp [hc] at h
  | panic => simp [hc] at h
  | ok u =>
    simp only [hc] at h
    cases hr : rules[first]? with
    | none => simp [hr] at h
    | some r =>
      simp only [hr] at h
      refine ⟨r, rfl, ?_⟩
      cases hi : globalRouteIndexes s.kind r pick with
      | fail => simp [hi] at h
      | panic => simp [hi] at h
      | ok is =>
        simp only [hi] at h
        unfold globalRouteIndexes at hi
        by_cases hk : s.kind = .select
        · rw [if_pos hk] at hi
          by_cases hz : r.idxs.length = 0
          · rw [if_pos hz] at hi; simp at hi
          · rw [if_neg hz] at hi
            simp only [R.ok.injEq] at hi
            subst hi
            exact Or.inl ⟨hk, hz, h⟩
        · rw [if_neg hk] at hi
          simp only [R.ok.injEq] at hi
          subst hi
          exact Or.inr ⟨hk, h⟩

/-- **C04 (writes reach every copy).** For every valid global-table
    configuration (any number of slices and copies per slice, databases listed
    or implicit, in a namespace with any slice list), every INSERT / UPDATE /
    DELETE over global tables that the planner accepts produces exactly one
    statement per configured copy, in copy order, each filed under the slice
    and physical database of that copy. -/
theorem global_write_all (ns valid : List String) (sess : String) (cfg : GlobalCfg) (r : Rule) (rules : List Rule) (s : Stmt)
    (first pick : Nat) (out : List (Target (List Chain)))
    (hv : ValidCfg cfg) (hr : parseGlobalRule false ns cfg = some r) (hfirst : rules[first]? = some r)
    (hk : s.kind ≠ .select) (h : planGlobal false valid sess rules s first pick = .ok out) :
    out.map target = copies cfg := by
  obtain ⟨r', hr', hcase⟩ := planGlobal_ok _ _ _ _ _ _ _ _ h
  rw [hfirst] at hr'
  simp only [Option.some.injEq] at hr'
  subst hr'
  rcases hcase with ⟨hsel, _⟩ | ⟨_, hgen⟩
  · exact absurd hsel hk
  · obtain ⟨_, _, hidx, _, _⟩ := parseGlobalRule_fields ns cfg r hv hr
    have hf := generateShardingSQLs_spec _ _ _ _ hgen
    have hlen : out.length = totalTables cfg.locations := by
      rw [← hf.length_eq, hidx]; simp
    apply List.ext_getElem?
    intro j
    by_cases hj : j < totalTables cfg.locations
    · have hi : r.idxs[j]? = some (j : Int) := by rw [hidx]; simp [hj]
      obtain ⟨t, ht, sql, _, htar⟩ := hf.get j _ hi
      obtain ⟨c, hc, hto, _⟩ := targetOf_copy ns cfg r hv hr sql j hj
      rw [hto] at htar
      simp only [R.ok.injEq] at htar
      subst htar
      simp [ht, hc, target]
    · have h1 : (out.map target)[j]? = none := by simp; omega
      have h2 : (copies cfg)[j]? = none := by
        have := copies_length cfg hv
        simp; omega
      rw [h1, h2]

/-- **C04 (reads touch one copy).** For every valid configuration, every value
    of the random pick and every choice of the table whose layout is used, an
    accepted SELECT over global tables is exactly one statement, and it is
    filed under the slice and physical database of a configured copy (the
    copy with the picked index). -/
theorem global_read_one (ns valid : List String) (sess : String) (cfg : GlobalCfg) (r : Rule) (rules : List Rule) (s : Stmt)
    (first pick : Nat) (out : List (Target (List Chain)))
    (hv : ValidCfg cfg) (hr : parseGlobalRule false ns cfg = some r) (hfirst : rules[first]? = some r)
    (hk : s.kind = .select) (h : planGlobal false valid sess rules s first pick = .ok out) :
    ∃ t, out = [t] ∧ (copies cfg)[pick % totalTables cfg.locations]? = some (target t) ∧ target t ∈ copies cfg := by
  obtain ⟨r', hr', hcase⟩ := planGlobal_ok _ _ _ _ _ _ _ _ h
  rw [hfirst] at hr'
  simp only [Option.some.injEq] at hr'
  subst hr'
  rcases hcase with ⟨_, hz, hgen⟩ | ⟨hns, _⟩
  · obtain ⟨_, _, hidx, _, _⟩ := parseGlobalRule_fields ns cfg r hv hr
    have hN : r.idxs.length = totalTables cfg.locations := by rw [hidx]; simp
    rw [hN] at hgen hz
    have hf := generateShardingSQLs_spec _ _ _ _ hgen
    cases hf with
    | cons hab hrest =>
      cases hrest
      obtain ⟨sql, _, htar⟩ := hab
      have hj : pick % totalTables cfg.locations < totalTables cfg.locations :=
        Nat.mod_lt _ (Nat.pos_of_ne_zero hz)
      obtain ⟨c, hc, hto, _⟩ := targetOf_copy ns cfg r hv hr sql _ hj
      rw [hto] at htar
      simp only [R.ok.injEq] at htar
      subst htar
      refine ⟨_, rfl, by simpa [target] using hc, ?_⟩
      exact List.mem_of_getElem? (by simpa [target] using hc)
  · exact absurd hk hns

/-! ### Database names -/

/-- what a name must look like in the statement sent to database `db`: a schema
    qualifier, where the original has one, is `db` -/
def specChains (db : String) (n : Name) : List Chain :=
  match n.pos with
  | .tableRef => ((if n.schema = "" then [] else [db]) ++ [n.table]) :: (if n.alias = "" then [] else [[n.alias]])
  | .setColumn => [[n.name]]
  | .insColumn => [[n.name]]
  | .insValue => [[n.name]]
  | _ => [(if n.schema = "" then [] else [db]) ++ (if n.table = "" then [] else [n.table]) ++ [n.name]]

/-- the database `targetOf` files a statement under is what the decorators write -/
def DbOf (r : Rule) (i : Int) (db : String) : Prop :=
  getDatabaseNameByTableIndex r i = .ok db ∨ (getDatabaseNameByTableIndex r i = .fail ∧ db = "")

theorem restoreSchema_spec (r : Rule) (schema : String) (i : Int) (db : String) (c : Chain)
    (hk : r.kind = .global) (hdb : DbOf r i db) (h : restoreSchema r schema i = .ok c) :
    c = if schema = "" then [] else [db] := by
  unfold restoreSchema at h
  split at h
  · simp at h; simp [*]
  · rename_i hs
    simp only [hk] at h
    rcases hdb with hd | ⟨hd, _⟩
    · simp [hd] at h; simp [hs, h]
    · simp [hd] at h

theorem lookupTable_mem (tables : List (String × String × Rule)) (q : String) (r : Rule)
    (h : lookupTable tables q = some r) : ∃ t ∈ tables, t.2.2 = r := by
  unfold lookupTable at h
  split at h
  · rename_i t ht
    simp at h
    exact ⟨t, List.mem_of_find?_eq_some ht, h⟩
  · split at h
    · rename_i t ht
      simp at h
      exact ⟨t, List.mem_of_find?_eq_some ht, h⟩
    · simp at h

theorem mkEnv_rules (valid : List String) (sess : String) (rules : List Rule) (s : Stmt) (r : Rule)
    (hall : ∀ r' ∈ rules, r' = r) : ∀ t ∈ (mkEnv valid sess rules s).tables, t.2.2 = r := by
  intro t ht
  simp only [mkEnv, List.mem_map] at ht
  obtain ⟨⟨n, r'⟩, hmem, rfl⟩ := ht
  exact hall r' (List.of_mem_zip hmem).2

theorem resolve_plain (env : Env) (n : Name) (h : resolve env n = .plain) : n.schema = "" ∧ n.table = "" := by
  unfold resolve at h
  split at h
  · assumption
  · split at h
    · simp at h
    · split at h
      · simp at h
      · split at h <;> simp at h

theorem resolve_rule (env : Env) (n : Name) (r : Rule) (h : resolve env n = .rule r) :
    ∃ t ∈ env.tables, t.2.2 = r := by
  unfold resolve at h
  split at h
  · simp at h
  · split at h
    · simp at h
    · split at h
      · simp at h
      · split at h
        · rename_i r' hl
          simp only [Lookup.rule.injEq] at h
          subst h
          exact lookupTable_mem _ _ _ hl
        · simp at h

/-- a looked-up and decorated column (or wildcard) is printed with the database
    of the copy in place of its schema qualifier -/
theorem restoreColumn_spec (env : Env) (r : Rule) (n : Name) (i : Int) (db : String) (cs : List Chain)
    (hk : r.kind = .global) (henv : ∀ t ∈ env.tables, t.2.2 = r) (hdb : DbOf r i db)
    (h : (match resolve env n with
      | .plain => R.ok [plainChain n]
      | .rule r => (restoreColumnName r n.schema n.table n.name false i).bind fun c => R.ok [c]
      | .error => R.fail) = R.ok cs) :
    cs = [(if n.schema = "" then [] else [db]) ++ (if n.table = "" then [] else [n.table]) ++ [n.name]] := by
  split at h
  · rename_i hres
    simp only [R.ok.injEq] at h
    subst h
    obtain ⟨h1, h2⟩ := resolve_plain env n hres
    simp [plainChain, h1, h2]
  · rename_i r' hres
    obtain ⟨t, ht, he⟩ := resolve_rule env n r' hres
    have hr' : r' = r := by rw [← he]; exact henv t ht
    subst hr'
    unfold restoreColumnName at h
    cases hs : restoreSchema r' n.schema i with
    | ok sc =>
      have := restoreSchema_spec r' n.schema i db sc hk hdb hs
      simp only [hs, hk, R.bind, R.ok.injEq] at h
      subst h; subst this
      rfl
    | fail => simp [hs, R.bind] at h
    | panic => simp [hs, R.bind] at h
  · simp at h

theorem restoreName_spec (env : Env) (r : Rule) (n : Name) (i : Int) (db : String) (cs : List Chain)
    (hk : r.kind = .global) (henv : ∀ t ∈ env.tables, t.2.2 = r) (hdb : DbOf r i db)
    (h : restoreName false env n i = .ok cs) : cs = specChains db n := by
  unfold restoreName at h
  cases hp : n.pos
  case tableRef =>
    simp only [hp] at h
    split at h <;> try simp at h
    rename_i r' hl
    obtain ⟨t, ht, he⟩ := lookupTable_mem _ _ _ hl
    have hr' : r' = r := by rw [← he]; exact henv t ht
    subst hr'
    unfold restoreTableName at h
    cases hs : restoreSchema r' n.schema i with
    | ok sc =>
      have := restoreSchema_spec r' n.schema i db sc hk hdb hs
      simp only [hs, hk, R.ok.injEq] at h
      subst h; subst this
      simp [specChains, hp]
    | fail => simp [hs] at h
    | panic => simp [hs] at h
  case setColumn =>
    simp only [hp] at h
    split at h <;> simp at h
    all_goals subst h; simp [specChains, hp]
  case insColumn => simp [hp] at h; subst h; simp [specChains, hp]
  case insValue => simp [hp] at h; subst h; simp [specChains, hp]
  all_goals
    simp [hp] at h
    rw [restoreColumn_spec env r n i db cs hk henv hdb h]
    simp [specChains, hp]

theorem restoreAll_spec (env : Env) (r : Rule) (names : List Name) (i : Int) (db : String) (sql : List Chain)
    (hk : r.kind = .global) (henv : ∀ t ∈ env.tables, t.2.2 = r) (hdb : DbOf r i db)
    (h : restoreAll false env names i = .ok sql) :
    sql = names.flatMap (specChains db) := by
  induction names generalizing sql with
  | nil => simp [restoreAll] at h; subst h; rfl
  | cons n ns ih =>
    simp only [restoreAll] at h
    split at h <;> try simp at h
    rename_i cs hcs
    split at h <;> try simp at h
    rename_i rest hrest
    subst h
    rw [restoreName_spec env r n i db cs hk henv hdb hcs, ih rest hrest]
    simp

theorem targetOf_db {α : Type} (r : Rule) (i : Int) (sql : α) (t : Target α) (h : targetOf r i sql = .ok t) :
    DbOf r i t.db ∧ t.sql = sql := by
  unfold targetOf at h
  split at h <;> try simp at h
  split at h <;> simp at h
  · rename_i d hd; subst h; exact ⟨Or.inl hd, rfl⟩
  · rename_i hd; subst h; exact ⟨Or.inr ⟨hd, rfl⟩, rfl⟩

/-- the schema qualifier a chain of a name carries, if any: `db`.`table` for a
    table reference, `db`.`table`.`column` (or `db`.`table`.*) otherwise -/
def schemaQualifier (n : Name) (c : Chain) : Option String :=
  match n.pos, c with
  | .tableRef, [d, _] => some d
  | .tableRef, _ => none
  | _, [d, _, _] => some d
  | _, _ => none

/-- `specChains db` says what the property says: whatever schema qualifier a
    name is printed with is `db` -/
theorem specChains_qualifier (db : String) (n : Name) (c : Chain) (d : String)
    (hc : c ∈ specChains db n) (hd : schemaQualifier n c = some d) : d = db := by
  unfold specChains at hc
  unfold schemaQualifier at hd
  cases hp : n.pos <;> simp only [hp] at hc hd
  case tableRef =>
    by_cases hs : n.schema = "" <;> by_cases ha : n.alias = "" <;> simp [hs, ha] at hc
    all_goals first | subst hc | (rcases hc with rfl | rfl)
    all_goals simp at hd
    all_goals exact hd.symm
  all_goals
    by_cases hs : n.schema = "" <;> by_cases ht : n.table = "" <;> simp [hs, ht] at hc
    all_goals subst hc
    all_goals simp at hd
    all_goals exact hd.symm

/-- **C04 (database names).** For every valid or invalid configuration the
    router accepts, every statement over global tables that share their layout
    and every accepted plan: the statement sent to a copy whose physical
    database is `db` is, name by name in text order, the original statement
    (with the GROUP BY / ORDER BY fields the planner appends, and with the
    qualifiers of SET / INSERT columns removed) in which every schema qualifier
    is `db` (`specChains`, see `specChains_qualifier`): table references, columns
    in select fields, wildcard fields, comparison / IN / BETWEEN operands,
    columns inside compared functions and arithmetic, columns below LIKE /
    IS NULL / NOT, GROUP BY / ORDER BY items and the fields appended for them,
    UPDATE SET columns and values, INSERT columns.  No hypothesis on the
    positions is left: the four positions the planner used to leave untouched
    were repaired (`fix:` commits 646f58e, 98a59c2, 5e2a917, 81799b0; the old
    behaviour is kept as `pinned := true`, see the `pinned_…_witness` theorems). -/
theorem global_db_rewrite (ns valid : List String) (sess : String) (cfg : GlobalCfg) (r : Rule) (rules : List Rule)
    (s : Stmt) (first pick : Nat) (out : List (Target (List Chain)))
    (hr : parseGlobalRule false ns cfg = some r) (hall : ∀ r' ∈ rules, r' = r)
    (h : planGlobal false valid sess rules s first pick = .ok out) :
    ∀ t ∈ out, t.sql = (textNames s).flatMap (specChains t.db) := by
  have hk : r.kind = .global := by
    unfold parseGlobalRule at hr
    split at hr
    · simp at hr
    · split at hr
      · simp at hr
      · simp only [Option.some.injEq] at hr
        subst hr; rfl
  obtain ⟨r', hr', hcase⟩ := planGlobal_ok _ _ _ _ _ _ _ _ h
  have hrr : r' = r := hall r' (List.mem_of_getElem? hr')
  subst hrr
  have henv := mkEnv_rules valid sess rules s r' hall
  intro t ht
  have key : ∀ idxs, generateShardingSQLs r' (restoreAll false (mkEnv valid sess rules s) (textNames s)) idxs = .ok out →
      t.sql = (textNames s).flatMap (specChains t.db) := by
    intro idxs hgen
    obtain ⟨i, _, sql, hsql, htar⟩ := (generateShardingSQLs_spec _ _ _ _ hgen).exists_left t ht
    obtain ⟨hdb, he⟩ := targetOf_db _ _ _ _ htar
    rw [he]
    exact restoreAll_spec _ r' _ i t.db sql hk henv hdb hsql
  rcases hcase with ⟨_, _, hgen⟩ | ⟨_, hgen⟩
  · exact key _ hgen
  · exact key _ hgen

/-- **C04 (database names), as the property words it.** In every statement
    sent to a copy, every schema qualifier is the physical database of that copy. -/
theorem global_db_rewrite_qualifiers (ns valid : List String) (sess : String) (cfg : GlobalCfg) (r : Rule) (rules : List Rule)
    (s : Stmt) (first pick : Nat) (out : List (Target (List Chain)))
    (hr : parseGlobalRule false ns cfg = some r) (hall : ∀ r' ∈ rules, r' = r)
    (h : planGlobal false valid sess rules s first pick = .ok out) :
    ∀ t ∈ out, ∃ printed : Name → List Chain, t.sql = (textNames s).flatMap printed ∧
      ∀ n ∈ textNames s, ∀ c ∈ printed n, ∀ d, schemaQualifier n c = some d → d = t.db := by
  intro t ht
  exact ⟨specChains t.db, global_db_rewrite ns valid sess cfg r rules s first pick out hr hall h t ht,
    fun n _ c hc d hd => specChains_qualifier t.db n c d hc hd⟩

/-! ### Non-vacuity, and the defects repaired in the pinned tree -/

/-- namespace `[slice-0, slice-1, slice-2]`; a global table with one copy on
    slice-2 and two on slice-1, in the physical databases db_p0 … db_p2 -/
def exNs : List String := ["slice-0", "slice-1", "slice-2"]

def exCfg : GlobalCfg :=
  { db := "db_g", locations := [1, 2], slices := ["slice-2", "slice-1"], databases := ["db_p0", "db_p1", "db_p2"] }

def exRule : Rule :=
  { kind := .global, db := "db_g", slices := ["slice-2", "slice-1"], idxs := [0, 1, 2],
    t2s := [(0, 0), (1, 1), (2, 1)], dbs := ["db_p0", "db_p1", "db_p2"] }

theorem exCfg_valid : ValidCfg exCfg := ⟨by decide, by decide, by decide⟩

/-- the hypotheses of the three theorems are satisfiable -/
example : parseGlobalRule false exNs exCfg = some exRule ∧
    copies exCfg = [("slice-2", "db_p0"), ("slice-1", "db_p1"), ("slice-1", "db_p2")] := by decide

def nm (pos : Pos) (schema table name : String) : Name :=
  { pos := pos, schema := schema, table := table, name := name, alias := "", whole := false }

/-- ``UPDATE `db_g`.`ga` SET `db_g`.`ga`.`a` = 1 WHERE `db_g`.`ga`.`id` = 2 ORDER BY `ga`.`b` `` -/
def exUpdate : Stmt :=
  { kind := .update, fields := [], «from» := [nm .tableRef "db_g" "ga" ""],
    tail := [nm .setColumn "db_g" "ga" "a", nm .condOperand "db_g" "ga" "id", nm .byItem "" "ga" "b"] }

/-- a write: three statements, one per copy, every schema qualifier rewritten -/
example : planGlobal false ["db_g"] "db_g" [exRule] exUpdate 0 0 =
    .ok [⟨"slice-2", "db_p0", [["db_p0", "ga"], ["a"], ["db_p0", "ga", "id"], ["ga", "b"]]⟩,
         ⟨"slice-1", "db_p1", [["db_p1", "ga"], ["a"], ["db_p1", "ga", "id"], ["ga", "b"]]⟩,
         ⟨"slice-1", "db_p2", [["db_p2", "ga"], ["a"], ["db_p2", "ga", "id"], ["ga", "b"]]⟩] ∧
    exUpdate.kind ≠ .select := by
  decide

/-- ``SELECT `x`.`a` FROM `db_g`.`ga` AS `x` WHERE `x`.`id` IS NULL `` -/
def exSelect : Stmt :=
  { kind := .select, fields := [{ nm .selField "" "x" "a" with whole := true }],
    «from» := [{ nm .tableRef "db_g" "ga" "" with alias := "x" }], tail := [nm .condOther "" "x" "id"] }

/-- a read with pick 1: one statement, on the second copy -/
example : planGlobal false ["db_g"] "db_g" [exRule] exSelect 0 1 =
    .ok [⟨"slice-1", "db_p1", [["x", "a"], ["db_p1", "ga"], ["x"], ["x", "id"]]⟩] := by decide

/-- does some statement still name a database other than the one it is sent to? -/
def keepsForeignDb (dbs : List String) : R (List (Target (List Chain))) → Bool
  | .ok out => out.any fun t => t.sql.any fun c =>
      match c with
      | h :: _ :: _ => dbs.contains h && h != t.db
      | _ => false
  | _ => false

def exWildcard : Stmt :=
  { kind := .select, fields := [nm .selWildcard "db_g" "ga" "*"], «from» := [nm .tableRef "" "ga" ""], tail := [] }

/-- **Defect of the pinned tree (repaired by 81799b0)**, formerly the open finding
    `database-name-not-rewritten-in-wildcard-field`:
    ``SELECT `db_g`.`ga`.* FROM `ga` `` kept `db_g` in the statement sent to db_p0. -/
theorem pinned_wildcard_field_keeps_logical_db_witness :
    planGlobal true ["db_g"] "db_g" [exRule] exWildcard 0 0 = .ok [⟨"slice-2", "db_p0", [["db_g", "ga", "*"], ["ga"]]⟩] ∧
    keepsForeignDb ["db_g"] (planGlobal true ["db_g"] "db_g" [exRule] exWildcard 0 0) = true ∧
    planGlobal false ["db_g"] "db_g" [exRule] exWildcard 0 0 = .ok [⟨"slice-2", "db_p0", [["db_p0", "ga", "*"], ["ga"]]⟩] := by
  decide

def exNested : Stmt :=
  { kind := .delete, fields := [], «from» := [nm .tableRef "" "ga" ""], tail := [nm .condNested "db_g" "ga" "c"] }

/-- **Defect of the pinned tree (repaired by 98a59c2)**, formerly the open finding
    `database-name-not-rewritten-in-nested-condition-column`:
    ``DELETE FROM `ga` WHERE ABS(`db_g`.`ga`.`c`) = 1 `` kept `db_g` on every copy. -/
theorem pinned_nested_condition_column_keeps_logical_db_witness :
    keepsForeignDb ["db_g"] (planGlobal true ["db_g"] "db_g" [exRule] exNested 0 0) = true ∧
    planGlobal true ["db_g"] "db_g" [exRule] exNested 0 0 =
      .ok [⟨"slice-2", "db_p0", [["ga"], ["db_g", "ga", "c"]]⟩, ⟨"slice-1", "db_p1", [["ga"], ["db_g", "ga", "c"]]⟩,
           ⟨"slice-1", "db_p2", [["ga"], ["db_g", "ga", "c"]]⟩] ∧
    planGlobal false ["db_g"] "db_g" [exRule] exNested 0 0 =
      .ok [⟨"slice-2", "db_p0", [["ga"], ["db_p0", "ga", "c"]]⟩, ⟨"slice-1", "db_p1", [["ga"], ["db_p1", "ga", "c"]]⟩,
           ⟨"slice-1", "db_p2", [["ga"], ["db_p2", "ga", "c"]]⟩] := by
  decide

def exSetValue : Stmt :=
  { kind := .update, fields := [], «from» := [nm .tableRef "" "ga" ""],
    tail := [nm .setColumn "" "" "a", nm .setValue "db_g" "ga" "b"] }

/-- **Defect of the pinned tree (repaired by 5e2a917)**, formerly the open finding
    `database-name-not-rewritten-in-update-set-value`:
    ``UPDATE `ga` SET `a` = `db_g`.`ga`.`b`+1 `` kept `db_g` in the assigned value. -/
theorem pinned_update_set_value_keeps_logical_db_witness :
    keepsForeignDb ["db_g"] (planGlobal true ["db_g"] "db_g" [exRule] exSetValue 0 0) = true ∧
    keepsForeignDb ["db_g"] (planGlobal false ["db_g"] "db_g" [exRule] exSetValue 0 0) = false := by
  decide

def exAppended : Stmt :=
  { kind := .select, fields := [{ nm .selField "" "" "a" with whole := true }], «from» := [nm .tableRef "" "ga" ""],
    tail := [nm .byItem "db_g" "ga" "b"] }

/-- **Defect of the pinned tree (repaired by 646f58e)**, formerly the open finding
    `database-name-not-rewritten-in-appended-by-field`:
    ``SELECT `a` FROM `ga` ORDER BY `db_g`.`ga`.`b` `` appended the undecorated
    `db_g`.`ga`.`b` to the select list (the ORDER BY item itself was rewritten). -/
theorem pinned_appended_by_field_keeps_logical_db_witness :
    planGlobal true ["db_g"] "db_g" [exRule] exAppended 0 2 =
      .ok [⟨"slice-1", "db_p2", [["a"], ["db_g", "ga", "b"], ["ga"], ["db_p2", "ga", "b"]]⟩] ∧
    planGlobal false ["db_g"] "db_g" [exRule] exAppended 0 2 =
      .ok [⟨"slice-1", "db_p2", [["a"], ["db_p2", "ga", "b"], ["ga"], ["db_p2", "ga", "b"]]⟩] := by
  decide

def accepted {α : Type} : R α → Bool
  | .ok _ => true
  | _ => false

/-- the hypotheses of `global_db_rewrite` are satisfiable on statements with
    names at the four repaired positions -/
example : (∀ r' ∈ [exRule], r' = exRule) ∧ parseGlobalRule false exNs exCfg = some exRule ∧
    accepted (planGlobal false ["db_g"] "db_g" [exRule] exWildcard 0 0) ∧ accepted (planGlobal false ["db_g"] "db_g" [exRule] exNested 0 0) ∧
    accepted (planGlobal false ["db_g"] "db_g" [exRule] exSetValue 0 0) ∧ accepted (planGlobal false ["db_g"] "db_g" [exRule] exAppended 0 0) := by
  refine ⟨by simp, by decide, by decide, by decide, by decide, by decide⟩

/-- **Defect of the pinned tree (repaired by c29cd53)**: with the rule's slices
    replaced by the namespace's, the copies configured on slice-2, slice-1,
    slice-1 were addressed on slice-0, slice-1, slice-1. -/
theorem pinned_namespace_slices_witness :
    (match parseGlobalRule true exNs exCfg with
     | some r => (planGlobal false ["db_g"] "db_g" [r] exUpdate 0 0 |> fun o =>
         match o with | .ok out => out.map target | _ => [])
     | none => []) = [("slice-0", "db_p0"), ("slice-1", "db_p1"), ("slice-1", "db_p2")] ∧
    copies exCfg = [("slice-2", "db_p0"), ("slice-1", "db_p1"), ("slice-1", "db_p2")] := by
  decide

/-- **Defect of the pinned tree (repaired by 116abc1)**: the column list of an
    INSERT into a global table kept its qualifiers. -/
theorem pinned_insert_column_keeps_logical_db_witness :
    keepsForeignDb ["db_g"] (planGlobal true ["db_g"] "db_g" [exRule]
      { kind := .insert, fields := [], «from» := [nm .tableRef "db_g" "ga" ""], tail := [nm .insColumn "db_g" "ga" "a"] } 0 0) = true ∧
    keepsForeignDb ["db_g"] (planGlobal false ["db_g"] "db_g" [exRule]
      { kind := .insert, fields := [], «from» := [nm .tableRef "db_g" "ga" ""], tail := [nm .insColumn "db_g" "ga" "a"] } 0 0) = false := by
  decide

/-! ### Statements as trees: the planner's handlers inside the model -/

theorem specChains_eq_printRef (db : String) (n : Name) : specChains db n = printRef db (nameRef n) := by
  unfold specChains printRef nameRef
  cases hp : n.pos <;> simp [posKind]

/-- an accepted plan over the copies went through the checker, the syntactic
    checks, the lookup of every table reference and `planGlobal` on the name
    skeleton -/
theorem planStmt_shard (router : List RouterRule) (valid : List String) (sess : String) (s : TStmt)
    (first pick : Nat) (out : List (Target (List Chain)))
    (h : planStmt router valid sess s first pick = .ok (.shard out)) :
    checker router sess s.tables = .shard ∧ rejected s = false ∧
      ∃ rules, resolveRefs router valid sess s.tables = some rules ∧
        planGlobal false valid sess rules (skeleton s) first pick = .ok out := by
  unfold planStmt at h
  split at h
  · simp at h
  · simp at h
  · rename_i hc
    split at h
    · simp at h
    · rename_i hrej
      split at h
      · simp at h
      · rename_i rules hres
        split at h
        · rename_i out' hp
          simp only [R.ok.injEq, Plan.shard.injEq] at h
          subst h
          exact ⟨hc, by simpa using hrej, rules, hres, hp⟩
        · simp at h
        · simp at h

theorem planStmt_unshard (router : List RouterRule) (valid : List String) (sess : String) (s : TStmt)
    (first pick : Nat) (h : planStmt router valid sess s first pick = .ok .unshard) :
    checker router sess s.tables = .unshard := by
  unfold planStmt at h
  split at h
  · simp at h
  · assumption
  · split at h
    · simp at h
    · split at h
      · simp at h
      · split at h <;> simp at h

theorem checker_unshard (router : List RouterRule) (sess : String) (ts : List TableRef)
    (h : checker router sess ts = .unshard) :
    ∀ t ∈ ts, getShardRule router (effectiveDB sess t) t.table = none := by
  induction ts with
  | nil => intro t ht; simp at ht
  | cons t ts ih =>
    unfold checker at h
    split at h
    · simp at h
    · split at h
      · simp at h
      · rename_i hnone
        intro t' ht'
        simp only [List.mem_cons] at ht'
        rcases ht' with rfl | ht'
        · simpa using hnone
        · exact ih h t' ht'

/-- **C04 (a statement on a global table is planned on the copies).** If
    `BuildPlan` answers with an unshard plan (the statement is sent once, to the
    default slice, as it is), then no table of the statement has a shard rule in
    the database it stands in: its own schema qualifier, or the session's
    database when it has none.  In particular the session's database never
    overrides a qualifier. -/
theorem stmt_unshard_names_no_global (router : List RouterRule) (valid : List String) (sess : String) (s : TStmt)
    (first pick : Nat) (h : planStmt router valid sess s first pick = .ok .unshard) :
    ∀ t ∈ s.tables, getShardRule router (effectiveDB sess t) t.table = none :=
  checker_unshard router sess s.tables (planStmt_unshard router valid sess s first pick h)

/-- the layout the planner takes is that of one of the statement's tables -/
theorem planGlobal_first_mem (valid : List String) (sess : String) (rules : List Rule) (s : Stmt) (first pick : Nat)
    (out : List (Target (List Chain))) (h : planGlobal false valid sess rules s first pick = .ok out) :
    ∃ r, rules[first]? = some r ∧ r ∈ rules := by
  obtain ⟨r, hr, _⟩ := planGlobal_ok _ _ _ _ _ _ _ _ h
  exact ⟨r, hr, List.mem_of_getElem? hr⟩

/-- **C04 (writes reach every copy), on statement trees.** For every session
    database, every statement tree and every choice `first` of the table whose
    layout the planner takes: if the statement's tables share the layout of a
    valid configuration, an accepted INSERT / UPDATE / DELETE is planned as
    exactly one statement per configured copy, in copy order. -/
theorem stmt_write_all (ns valid : List String) (sess : String) (cfg : GlobalCfg) (r : Rule)
    (router : List RouterRule) (s : TStmt) (first pick : Nat) (out : List (Target (List Chain)))
    (hv : ValidCfg cfg) (hr : parseGlobalRule false ns cfg = some r)
    (hall : ∀ rules, resolveRefs router valid sess s.tables = some rules → ∀ r' ∈ rules, r' = r)
    (hk : s.kind ≠ .select) (h : planStmt router valid sess s first pick = .ok (.shard out)) :
    out.map target = copies cfg := by
  obtain ⟨_, _, rules, hres, hp⟩ := planStmt_shard router valid sess s first pick out h
  obtain ⟨r', hf, hm⟩ := planGlobal_first_mem valid sess rules (skeleton s) first pick out hp
  rw [hall rules hres r' hm] at hf
  exact global_write_all ns valid sess cfg r rules (skeleton s) first pick out hv hr hf hk hp

/-- **C04 (reads touch one copy), on statement trees.** Under the same
    hypotheses an accepted SELECT is exactly one statement, on the configured
    copy with the picked index, for every value of the random pick. -/
theorem stmt_read_one (ns valid : List String) (sess : String) (cfg : GlobalCfg) (r : Rule)
    (router : List RouterRule) (s : TStmt) (first pick : Nat) (out : List (Target (List Chain)))
    (hv : ValidCfg cfg) (hr : parseGlobalRule false ns cfg = some r)
    (hall : ∀ rules, resolveRefs router valid sess s.tables = some rules → ∀ r' ∈ rules, r' = r)
    (hk : s.kind = .select) (h : planStmt router valid sess s first pick = .ok (.shard out)) :
    ∃ t, out = [t] ∧ (copies cfg)[pick % totalTables cfg.locations]? = some (target t) ∧ target t ∈ copies cfg := by
  obtain ⟨_, _, rules, hres, hp⟩ := planStmt_shard router valid sess s first pick out h
  obtain ⟨r', hf, hm⟩ := planGlobal_first_mem valid sess rules (skeleton s) first pick out hp
  rw [hall rules hres r' hm] at hf
  exact global_read_one ns valid sess cfg r rules (skeleton s) first pick out hv hr hf hk hp

/-- **C04 (database names), on statement trees, for every expression tree.**
    Whatever the shape of the statement's conditions and values (any nesting of
    AND / OR, comparisons, other operators, IN, BETWEEN, parentheses, function
    calls …), the statement sent to a copy whose physical database is `db` is
    the listing `refs` of *all* table and column names of the statement (a
    listing that knows nothing about the planner's handlers) printed by
    `printRef db`: as written, every schema qualifier replaced by `db`.  Hence
    no handler of the planner leaves a name out. -/
theorem stmt_db_rewrite (ns valid : List String) (sess : String) (cfg : GlobalCfg) (r : Rule)
    (router : List RouterRule) (s : TStmt) (first pick : Nat) (out : List (Target (List Chain)))
    (hr : parseGlobalRule false ns cfg = some r)
    (hall : ∀ rules, resolveRefs router valid sess s.tables = some rules → ∀ r' ∈ rules, r' = r)
    (h : planStmt router valid sess s first pick = .ok (.shard out)) :
    ∀ t ∈ out, t.sql = (refs s).flatMap (printRef t.db) := by
  obtain ⟨_, _, rules, hres, hp⟩ := planStmt_shard router valid sess s first pick out h
  intro t ht
  rw [global_db_rewrite ns valid sess cfg r rules (skeleton s) first pick out hr (hall rules hres) hp t ht,
    ← map_textNames s, List.flatMap_map]
  congr 1
  funext n
  exact specChains_eq_printRef t.db n

/-- the schema qualifier a printed name carries, if any -/
def refQualifier (r : Ref) (c : Chain) : Option String :=
  match r.kind, c with
  | .table, [d, _] => some d
  | .column, [d, _, _] => some d
  | _, _ => none

/-- `printRef db` prints no schema qualifier but `db` -/
theorem printRef_qualifier (db : String) (r : Ref) (c : Chain) (d : String)
    (hc : c ∈ printRef db r) (hd : refQualifier r c = some d) : d = db := by
  unfold printRef at hc
  unfold refQualifier at hd
  cases hk : r.kind <;> simp only [hk] at hc hd
  case table =>
    by_cases hs : r.schema = "" <;> by_cases ha : r.alias = "" <;> simp [hs, ha] at hc
    all_goals first | subst hc | (rcases hc with rfl | rfl)
    all_goals simp at hd
    all_goals exact hd.symm
  case column =>
    by_cases hs : r.schema = "" <;> by_cases ht : r.table = "" <;> simp [hs, ht] at hc
    all_goals subst hc
    all_goals simp at hd
    all_goals exact hd.symm
  case bare => simp at hd


/-! ### Non-vacuity of the tree theorems, and the defects they exposed (repaired) -/

/-- the router of the examples: the global tables db_g.ga and db_g.gb with the
    layout `exRule`, and db_o.oz with one copy on slice-0 -/
def exOther : Rule :=
  { kind := .global, db := "db_o", slices := ["slice-0"], idxs := [0], t2s := [(0, 0)], dbs := ["db_o"] }

def exRouter : List RouterRule :=
  [⟨"db_g", "ga", exRule⟩, ⟨"db_g", "gb", exRule⟩, ⟨"db_o", "oz", exOther⟩]

def cg (name : String) : Expr := .col ⟨"db_g", "ga", name⟩

def tr (schema table : String) : TableRef := { schema := schema, table := table, alias := "", on := none }

/-- ``DELETE FROM `ga` WHERE (`db_g`.`ga`.`a` IN (`db_g`.`ga`.`b`, 2) AND ABS(`db_g`.`ga`.`c`) BETWEEN 1 AND `db_g`.`ga`.`d`)
      OR (`db_g`.`ga`.`e` + 1) * 2 OR `db_g`.`ga`.`f` ``: columns in an IN list, below a
    function on the left of BETWEEN, in a BETWEEN bound, below arithmetic at
    the root of a condition, and as a condition of its own -/
def exDeleteTree : TStmt :=
  { kind := .delete, fields := [], tables := [tr "" "ga"], cols := [], rows := [], sets := [], ondup := [],
    «where» := some (.logic (.logic (.paren (.logic (.inList (cg "a") (.node (cg "b") .val))
        (.between (.node (cg "c") .val) .val (cg "d")))) (.binop (.paren (.binop (cg "e") .val)) .val)) (cg "f")),
    groupBy := [], having := none, orderBy := [] }

/-- every one of its six columns is met by a handler: the skeleton lists them
    with their positions -/
example : ((skeleton exDeleteTree).tail.map fun n => (n.pos, n.name)) =
    [(.condOperand, "a"), (.condInItem, "b"), (.condBetweenNested, "c"), (.condBetweenBound, "d"),
     (.condBinopNested, "e"), (.condRoot, "f")] := by decide

/-- the hypotheses of `stmt_write_all` / `stmt_db_rewrite` hold for it, from a
    session that has selected the other logical database and names the table
    with its schema: three statements, every qualifier rewritten -/
example : planStmt exRouter ["db_g", "db_o"] "db_o" { exDeleteTree with tables := [tr "db_g" "ga"] } 0 0 =
    .ok (.shard [⟨"slice-2", "db_p0", [["db_p0", "ga"], ["db_p0", "ga", "a"], ["db_p0", "ga", "b"], ["db_p0", "ga", "c"],
                    ["db_p0", "ga", "d"], ["db_p0", "ga", "e"], ["db_p0", "ga", "f"]]⟩,
                 ⟨"slice-1", "db_p1", [["db_p1", "ga"], ["db_p1", "ga", "a"], ["db_p1", "ga", "b"], ["db_p1", "ga", "c"],
                    ["db_p1", "ga", "d"], ["db_p1", "ga", "e"], ["db_p1", "ga", "f"]]⟩,
                 ⟨"slice-1", "db_p2", [["db_p2", "ga"], ["db_p2", "ga", "a"], ["db_p2", "ga", "b"], ["db_p2", "ga", "c"],
                    ["db_p2", "ga", "d"], ["db_p2", "ga", "e"], ["db_p2", "ga", "f"]]⟩]) ∧
    resolveRefs exRouter ["db_g", "db_o"] "db_o" [tr "db_g" "ga"] = some [exRule] := by decide

/-- the shared-layout hypothesis of the tree theorems holds for it -/
example : ∀ rules, resolveRefs exRouter ["db_g", "db_o"] "db_o" [tr "db_g" "ga"] = some rules →
    ∀ r' ∈ rules, r' = exRule := by
  intro rules h
  have h' : resolveRefs exRouter ["db_g", "db_o"] "db_o" [tr "db_g" "ga"] = some [exRule] := by decide
  rw [h'] at h
  simp only [Option.some.injEq] at h
  subst h
  simp

/-- the same statement without the qualifier names db_o.ga, which has no rule:
    an unshard plan, and `stmt_unshard_names_no_global` applies -/
example : planStmt exRouter ["db_g", "db_o"] "db_o" exDeleteTree 0 0 = .ok .unshard := by decide

/-- without a session database an unqualified table name is rejected -/
example : planStmt exRouter ["db_g", "db_o"] "" exDeleteTree 0 0 = .fail := by decide

/-- **Defects of the pinned tree (repaired by 159d8de, 4d9baa7, 5569888, 706cba5)**:
    of the six columns of `exDeleteTree` only `a` was rewritten. -/
theorem pinned_condition_columns_keep_logical_db_witness :
    planGlobal true ["db_g"] "db_g" [exRule] (skeleton exDeleteTree) 0 0 =
      .ok [⟨"slice-2", "db_p0", [["ga"], ["db_p0", "ga", "a"], ["db_g", "ga", "b"], ["db_g", "ga", "c"], ["db_g", "ga", "d"],
              ["db_g", "ga", "e"], ["db_g", "ga", "f"]]⟩,
           ⟨"slice-1", "db_p1", [["ga"], ["db_p1", "ga", "a"], ["db_g", "ga", "b"], ["db_g", "ga", "c"], ["db_g", "ga", "d"],
              ["db_g", "ga", "e"], ["db_g", "ga", "f"]]⟩,
           ⟨"slice-1", "db_p2", [["ga"], ["db_p2", "ga", "a"], ["db_g", "ga", "b"], ["db_g", "ga", "c"], ["db_g", "ga", "d"],
              ["db_g", "ga", "e"], ["db_g", "ga", "f"]]⟩] ∧
    keepsForeignDb ["db_g"] (planGlobal false ["db_g"] "db_g" [exRule] (skeleton exDeleteTree) 0 0) = false := by
  decide

/-- ``SELECT `a` FROM `ga` ORDER BY MAX(`db_g`.`ga`.`b`) `` -/
def exByAggTree : TStmt :=
  { kind := .select, fields := [.expr (.col ⟨"", "", "a"⟩)], tables := [tr "" "ga"], cols := [], rows := [], sets := [],
    ondup := [], «where» := none, groupBy := [], having := none, orderBy := [.agg (.node (cg "b") .val)] }

/-- **Defect of the pinned tree (repaired by 983b024)**: the aggregate function
    of an ORDER BY item, and the field appended for it, kept `db_g`. -/
theorem pinned_by_aggregate_keeps_logical_db_witness :
    planGlobal true ["db_g"] "db_g" [exRule] (skeleton exByAggTree) 0 1 =
      .ok [⟨"slice-1", "db_p1", [["a"], ["db_g", "ga", "b"], ["ga"], ["db_g", "ga", "b"]]⟩] ∧
    planStmt exRouter ["db_g"] "db_g" exByAggTree 0 1 =
      .ok (.shard [⟨"slice-1", "db_p1", [["a"], ["db_p1", "ga", "b"], ["ga"], ["db_p1", "ga", "b"]]⟩]) := by
  decide

/-- ``INSERT INTO `db_g`.`ga` (`a`) VALUES (`db_g`.`ga`.`b` + 1) ON DUPLICATE KEY UPDATE `a` = `db_g`.`ga`.`a` + 1 `` -/
def exInsertTree : TStmt :=
  { kind := .insert, fields := [], tables := [tr "db_g" "ga"], cols := [⟨"", "", "a"⟩], rows := [[.binop (cg "b") .val]],
    sets := [], ondup := [⟨⟨"", "", "a"⟩, .binop (cg "a") .val⟩], «where» := none, groupBy := [], having := none,
    orderBy := [] }

/-- **Defect of the pinned tree (repaired by 25a2427)**: the columns in the
    values of an INSERT into a global table kept `db_g`. -/
theorem pinned_insert_value_keeps_logical_db_witness :
    keepsForeignDb ["db_g"] (planGlobal true ["db_g"] "db_g" [exRule] (skeleton exInsertTree) 0 0) = true ∧
    planStmt exRouter ["db_g"] "db_g" exInsertTree 0 0 =
      .ok (.shard [⟨"slice-2", "db_p0", [["db_p0", "ga"], ["a"], ["b"], ["a"], ["a"]]⟩,
                   ⟨"slice-1", "db_p1", [["db_p1", "ga"], ["a"], ["b"], ["a"], ["a"]]⟩,
                   ⟨"slice-1", "db_p2", [["db_p2", "ga"], ["a"], ["b"], ["a"], ["a"]]⟩]) := by
  decide

/-- a read through a join of the two global tables, one aliased, with a
    qualified wildcard: one statement on the picked copy -/
example : planStmt exRouter ["db_g"] "db_g"
    { kind := .select, fields := [.wild "db_g" "x", .star],
      tables := [{ schema := "db_g", table := "ga", alias := "x", on := none },
                 { schema := "", table := "gb", alias := "", on := some (.cmp (.col ⟨"", "x", "id"⟩) (.col ⟨"db_g", "gb", "id"⟩)) }],
      cols := [], rows := [], sets := [], ondup := [], «where» := none, groupBy := [], having := none, orderBy := [] } 1 2 =
    .ok (.shard [⟨"slice-1", "db_p2", [["db_p2", "x", "*"], ["db_p2", "ga"], ["x"], ["gb"], ["x", "id"], ["db_p2", "gb", "id"]]⟩]) := by
  decide

end GaeaVerif.C04
