import GaeaVerif.Model.GlobalStmt
import GaeaVerif.Lemmas.ShardLayoutLemmas
/-
  C04 — Global tables: writes reach every copy, reads touch one copy, database
  names are rewritten to the physical database of the copy.
  Theorems about `Model/GlobalStmt.lean` and the layout part of
  `Model/ShardLayout.lean`; the tie to proxy/plan and proxy/router is `gvh run C04`.
-/
namespace GaeaVerif.C04
open GaeaVerif GaeaVerif.Layout GaeaVerif.Global

/-- where a produced statement is sent -/
def target {α : Type} (t : Target α) : String × String := (t.slice, t.db)

/-- an accepted plan used the layout of the table `first` and went through
    `generateShardingSQLs` -/
theorem planGlobal_ok (pinned : Bool) (valid : List String) (rules : List Rule) (s : Stmt) (first pick : Nat)
    (out : List (Target (List Chain))) (h : planGlobal pinned valid rules s first pick = .ok out) :
    ∃ r, rules[first]? = some r ∧
      ((s.kind = .select ∧ r.idxs.length ≠ 0 ∧
          generateShardingSQLs r (restoreAll pinned (mkEnv valid rules s) (textNames s))
            [((pick % r.idxs.length : Nat) : Int)] = .ok out) ∨
       (s.kind ≠ .select ∧
          generateShardingSQLs r (restoreAll pinned (mkEnv valid rules s) (textNames s)) r.idxs = .ok out)) := by
  unfold planGlobal at h
  simp only at h
  cases hc : checkNames (mkEnv valid rules s) (planOrder s) with
  | fail => simp [hc] at h
  | panic => simp [hc] at h
  | ok u =>
    simp only [hc] at h
    cases hr : rules[first]? with
    | none => simp [hr] at h
    | some r =>
      simp only [hr] at h
      refine ⟨r, rfl, ?_⟩
      cases hi : globalRouteIndexes s.kind r pick with
      | fail => simp [hi] at h
      | panic => simp [hi] at h
      | ok is =>
        simp only [hi] at h
        unfold globalRouteIndexes at hi
        by_cases hk : s.kind = .select
        · rw [if_pos hk] at hi
          by_cases hz : r.idxs.length = 0
          · rw [if_pos hz] at hi; simp at hi
          · rw [if_neg hz] at hi
            simp only [R.ok.injEq] at hi
            subst hi
            exact Or.inl ⟨hk, hz, h⟩
        · rw [if_neg hk] at hi
          simp only [R.ok.injEq] at hi
          subst hi
          exact Or.inr ⟨hk, h⟩

/-- **C04 (writes reach every copy).** For every valid global-table
    configuration (any number of slices and copies per slice, databases listed
    or implicit, in a namespace with any slice list), every INSERT / UPDATE /
    DELETE over global tables that the planner accepts produces exactly one
    statement per configured copy, in copy order, each filed under the slice
    and physical database of that copy. -/
theorem global_write_all (ns valid : List String) (cfg : GlobalCfg) (r : Rule) (rules : List Rule) (s : Stmt)
    (first pick : Nat) (out : List (Target (List Chain)))
    (hv : ValidCfg cfg) (hr : parseGlobalRule false ns cfg = some r) (hfirst : rules[first]? = some r)
    (hk : s.kind ≠ .select) (h : planGlobal false valid rules s first pick = .ok out) :
    out.map target = copies cfg := by
  obtain ⟨r', hr', hcase⟩ := planGlobal_ok _ _ _ _ _ _ _ h
  rw [hfirst] at hr'
  simp only [Option.some.injEq] at hr'
  subst hr'
  rcases hcase with ⟨hsel, _⟩ | ⟨_, hgen⟩
  · exact absurd hsel hk
  · obtain ⟨_, _, hidx, _, _⟩ := parseGlobalRule_fields ns cfg r hv hr
    have hf := generateShardingSQLs_spec _ _ _ _ hgen
    have hlen : out.length = totalTables cfg.locations := by
      rw [← hf.length_eq, hidx]; simp
    apply List.ext_getElem?
    intro j
    by_cases hj : j < totalTables cfg.locations
    · have hi : r.idxs[j]? = some (j : Int) := by rw [hidx]; simp [hj]
      obtain ⟨t, ht, sql, _, htar⟩ := hf.get j _ hi
      obtain ⟨c, hc, hto, _⟩ := targetOf_copy ns cfg r hv hr sql j hj
      rw [hto] at htar
      simp only [R.ok.injEq] at htar
      subst htar
      simp [ht, hc, target]
    · have h1 : (out.map target)[j]? = none := by simp; omega
      have h2 : (copies cfg)[j]? = none := by
        have := copies_length cfg hv
        simp; omega
      rw [h1, h2]

/-- **C04 (reads touch one copy).** For every valid configuration, every value
    of the random pick and every choice of the table whose layout is used, an
    accepted SELECT over global tables is exactly one statement, and it is
    filed under the slice and physical database of a configured copy (the
    copy with the picked index). -/
theorem global_read_one (ns valid : List String) (cfg : GlobalCfg) (r : Rule) (rules : List Rule) (s : Stmt)
    (first pick : Nat) (out : List (Target (List Chain)))
    (hv : ValidCfg cfg) (hr : parseGlobalRule false ns cfg = some r) (hfirst : rules[first]? = some r)
    (hk : s.kind = .select) (h : planGlobal false valid rules s first pick = .ok out) :
    ∃ t, out = [t] ∧ (copies cfg)[pick % totalTables cfg.locations]? = some (target t) ∧ target t ∈ copies cfg := by
  obtain ⟨r', hr', hcase⟩ := planGlobal_ok _ _ _ _ _ _ _ h
  rw [hfirst] at hr'
  simp only [Option.some.injEq] at hr'
  subst hr'
  rcases hcase with ⟨_, hz, hgen⟩ | ⟨hns, _⟩
  · obtain ⟨_, _, hidx, _, _⟩ := parseGlobalRule_fields ns cfg r hv hr
    have hN : r.idxs.length = totalTables cfg.locations := by rw [hidx]; simp
    rw [hN] at hgen hz
    have hf := generateShardingSQLs_spec _ _ _ _ hgen
    cases hf with
    | cons hab hrest =>
      cases hrest
      obtain ⟨sql, _, htar⟩ := hab
      have hj : pick % totalTables cfg.locations < totalTables cfg.locations :=
        Nat.mod_lt _ (Nat.pos_of_ne_zero hz)
      obtain ⟨c, hc, hto, _⟩ := targetOf_copy ns cfg r hv hr sql _ hj
      rw [hto] at htar
      simp only [R.ok.injEq] at htar
      subst htar
      refine ⟨_, rfl, by simpa [target] using hc, ?_⟩
      exact List.mem_of_getElem? (by simpa [target] using hc)
  · exact absurd hk hns

/-! ### Database names -/

/-- positions at which the planner installs a decorator or removes the qualifiers -/
def Rewritten : Pos → Prop
  | .tableRef | .selField | .condOperand | .condOther | .byItem | .setColumn | .insColumn => True
  | _ => False

/-- what a name must look like in the statement sent to database `db`: a schema
    qualifier, where the original has one, is `db` -/
def specChains (db : String) (n : Name) : List Chain :=
  match n.pos with
  | .tableRef => ((if n.schema = "" then [] else [db]) ++ [n.table]) :: (if n.alias = "" then [] else [[n.alias]])
  | .setColumn => [[n.name]]
  | .insColumn => [[n.name]]
  | _ => [(if n.schema = "" then [] else [db]) ++ (if n.table = "" then [] else [n.table]) ++ [n.name]]

/-- the database `targetOf` files a statement under is what the decorators write -/
def DbOf (r : Rule) (i : Int) (db : String) : Prop :=
  getDatabaseNameByTableIndex r i = .ok db ∨ (getDatabaseNameByTableIndex r i = .fail ∧ db = "")

theorem restoreSchema_spec (r : Rule) (schema : String) (i : Int) (db : String) (c : Chain)
    (hk : r.kind = .global) (hdb : DbOf r i db) (h : restoreSchema r schema i = .ok c) :
    c = if schema = "" then [] else [db] := by
  unfold restoreSchema at h
  split at h
  · simp at h; simp [*]
  · rename_i hs
    simp only [hk] at h
    rcases hdb with hd | ⟨hd, _⟩
    · simp [hd] at h; simp [hs, h]
    · simp [hd] at h

theorem lookupTable_mem (tables : List (String × String × Rule)) (q : String) (r : Rule)
    (h : lookupTable tables q = some r) : ∃ t ∈ tables, t.2.2 = r := by
  unfold lookupTable at h
  split at h
  · rename_i t ht
    simp at h
    exact ⟨t, List.mem_of_find?_eq_some ht, h⟩
  · split at h
    · rename_i t ht
      simp at h
      exact ⟨t, List.mem_of_find?_eq_some ht, h⟩
    · simp at h

theorem mkEnv_rules (valid : List String) (rules : List Rule) (s : Stmt) (r : Rule)
    (hall : ∀ r' ∈ rules, r' = r) : ∀ t ∈ (mkEnv valid rules s).tables, t.2.2 = r := by
  intro t ht
  simp only [mkEnv, List.mem_map] at ht
  obtain ⟨⟨n, r'⟩, hmem, rfl⟩ := ht
  exact hall r' (List.of_mem_zip hmem).2

theorem restoreName_spec (env : Env) (r : Rule) (n : Name) (i : Int) (db : String) (cs : List Chain)
    (hk : r.kind = .global) (henv : ∀ t ∈ env.tables, t.2.2 = r) (hdb : DbOf r i db) (hn : Rewritten n.pos)
    (h : restoreName false env n i = .ok cs) : cs = specChains db n := by
  have hcol : ∀ cs, (match resolve env n with
      | .plain => R.ok [plainChain n]
      | .rule r => (restoreColumnName r n.schema n.table n.name false i).bind fun c => R.ok [c]
      | .error => R.fail) = R.ok cs →
      cs = [(if n.schema = "" then [] else [db]) ++ (if n.table = "" then [] else [n.table]) ++ [n.name]] := by
    intro cs h
    split at h
    · rename_i hres
      simp only [R.ok.injEq] at h
      subst h
      unfold resolve at hres
      split at hres
      · rename_i hb; simp [plainChain, hb.1, hb.2]
      · split at hres <;> try simp at hres
        split at hres <;> simp at hres
    · rename_i r' hres
      have hr' : r' = r := by
        unfold resolve at hres
        split at hres <;> try simp at hres
        split at hres <;> try simp at hres
        split at hres <;> simp at hres
        rename_i r'' hl
        obtain ⟨t, ht, he⟩ := lookupTable_mem _ _ _ hl
        rw [← hres, ← he]; exact henv t ht
      subst hr'
      unfold restoreColumnName at h
      cases hs : restoreSchema r' n.schema i with
      | ok sc =>
        have := restoreSchema_spec r' n.schema i db sc hk hdb hs
        simp only [hs, hk, R.bind, R.ok.injEq] at h
        subst h; subst this
        rfl
      | fail => simp [hs, R.bind] at h
      | panic => simp [hs, R.bind] at h
    · simp at h
  unfold restoreName at h
  cases hp : n.pos with
  | tableRef =>
    simp only [hp] at h
    split at h <;> try simp at h
    rename_i r' hl
    obtain ⟨t, ht, he⟩ := lookupTable_mem _ _ _ hl
    have hr' : r' = r := by rw [← he]; exact henv t ht
    subst hr'
    unfold restoreTableName at h
    cases hs : restoreSchema r' n.schema i with
    | ok sc =>
      have := restoreSchema_spec r' n.schema i db sc hk hdb hs
      simp only [hs, hk, R.ok.injEq] at h
      subst h; subst this
      simp [specChains, hp]
    | fail => simp [hs] at h
    | panic => simp [hs] at h
  | selField => simp only [hp] at h; rw [hcol cs h]; simp [specChains, hp]
  | condOperand => simp only [hp] at h; rw [hcol cs h]; simp [specChains, hp]
  | condOther => simp only [hp] at h; rw [hcol cs h]; simp [specChains, hp]
  | byItem => simp only [hp] at h; rw [hcol cs h]; simp [specChains, hp]
  | setColumn =>
    simp only [hp] at h
    split at h <;> simp at h
    all_goals subst h; simp [specChains, hp]
  | insColumn => simp [hp] at h; subst h; simp [specChains, hp]
  | selWildcard => rw [hp] at hn; exact hn.elim
  | condNested => rw [hp] at hn; exact hn.elim
  | setValue => rw [hp] at hn; exact hn.elim
  | byAppended => rw [hp] at hn; exact hn.elim

theorem restoreAll_spec (env : Env) (r : Rule) (names : List Name) (i : Int) (db : String) (sql : List Chain)
    (hk : r.kind = .global) (henv : ∀ t ∈ env.tables, t.2.2 = r) (hdb : DbOf r i db)
    (hn : ∀ n ∈ names, Rewritten n.pos) (h : restoreAll false env names i = .ok sql) :
    sql = names.flatMap (specChains db) := by
  induction names generalizing sql with
  | nil => simp [restoreAll] at h; subst h; rfl
  | cons n ns ih =>
    simp only [restoreAll] at h
    split at h <;> try simp at h
    rename_i cs hcs
    split at h <;> try simp at h
    rename_i rest hrest
    subst h
    rw [restoreName_spec env r n i db cs hk henv hdb (hn n (by simp)) hcs,
      ih rest (fun m hm => hn m (by simp [hm])) hrest]
    simp

theorem targetOf_db {α : Type} (r : Rule) (i : Int) (sql : α) (t : Target α) (h : targetOf r i sql = .ok t) :
    DbOf r i t.db ∧ t.sql = sql := by
  unfold targetOf at h
  split at h <;> try simp at h
  split at h <;> simp at h
  · rename_i d hd; subst h; exact ⟨Or.inl hd, rfl⟩
  · rename_i hd; subst h; exact ⟨Or.inr ⟨hd, rfl⟩, rfl⟩

/-- **C04 (database names), partial.**
    Full statement: in every statement sent to a copy, every schema qualifier is
    the physical database of that copy.  Proved here for statements all of whose
    names stand at positions the planner rewrites (table references, columns in
    select fields, comparison / IN / BETWEEN operands, columns below LIKE /
    IS NULL / NOT, GROUP BY / ORDER BY items, UPDATE SET columns, INSERT
    columns): the statement sent to database `db` is, name by name, the original
    with every schema qualifier replaced by `db` (`specChains`).  Missing: the
    positions the pinned planner leaves untouched — see the four `…_witness`
    theorems below (open findings). The global tables of the statement must
    share their layout. -/
theorem global_db_rewrite_partial (ns valid : List String) (cfg : GlobalCfg) (r : Rule) (rules : List Rule)
    (s : Stmt) (first pick : Nat) (out : List (Target (List Chain)))
    (hr : parseGlobalRule false ns cfg = some r) (hall : ∀ r' ∈ rules, r' = r)
    (hn : ∀ n ∈ textNames s, Rewritten n.pos)
    (h : planGlobal false valid rules s first pick = .ok out) :
    ∀ t ∈ out, t.sql = (textNames s).flatMap (specChains t.db) := by
  have hk : r.kind = .global := by
    unfold parseGlobalRule at hr
    split at hr
    · simp at hr
    · split at hr
      · simp at hr
      · simp only [Option.some.injEq] at hr
        subst hr; rfl
  obtain ⟨r', hr', hcase⟩ := planGlobal_ok _ _ _ _ _ _ _ h
  have hrr : r' = r := hall r' (List.mem_of_getElem? hr')
  subst hrr
  have henv := mkEnv_rules valid rules s r' hall
  intro t ht
  have key : ∀ idxs, generateShardingSQLs r' (restoreAll false (mkEnv valid rules s) (textNames s)) idxs = .ok out →
      t.sql = (textNames s).flatMap (specChains t.db) := by
    intro idxs hgen
    obtain ⟨i, _, sql, hsql, htar⟩ := (generateShardingSQLs_spec _ _ _ _ hgen).exists_left t ht
    obtain ⟨hdb, he⟩ := targetOf_db _ _ _ _ htar
    rw [he]
    exact restoreAll_spec _ r' _ i t.db sql hk henv hdb hn hsql
  rcases hcase with ⟨_, _, hgen⟩ | ⟨_, hgen⟩
  · exact key _ hgen
  · exact key _ hgen

/-! ### Non-vacuity, open findings, and the defects repaired in the pinned tree -/

/-- namespace `[slice-0, slice-1, slice-2]`; a global table with one copy on
    slice-2 and two on slice-1, in the physical databases db_p0 … db_p2 -/
def exNs : List String := ["slice-0", "slice-1", "slice-2"]

def exCfg : GlobalCfg :=
  { db := "db_g", locations := [1, 2], slices := ["slice-2", "slice-1"], databases := ["db_p0", "db_p1", "db_p2"] }

def exRule : Rule :=
  { kind := .global, db := "db_g", slices := ["slice-2", "slice-1"], idxs := [0, 1, 2],
    t2s := [(0, 0), (1, 1), (2, 1)], dbs := ["db_p0", "db_p1", "db_p2"] }

theorem exCfg_valid : ValidCfg exCfg := ⟨by decide, by decide, by decide⟩

/-- the hypotheses of the three theorems are satisfiable -/
example : parseGlobalRule false exNs exCfg = some exRule ∧
    copies exCfg = [("slice-2", "db_p0"), ("slice-1", "db_p1"), ("slice-1", "db_p2")] := by decide

def nm (pos : Pos) (schema table name : String) : Name :=
  { pos := pos, schema := schema, table := table, name := name, alias := "", whole := false }

/-- ``UPDATE `db_g`.`ga` SET `db_g`.`ga`.`a` = 1 WHERE `db_g`.`ga`.`id` = 2 ORDER BY `ga`.`b` `` -/
def exUpdate : Stmt :=
  { kind := .update, fields := [], «from» := [nm .tableRef "db_g" "ga" ""],
    tail := [nm .setColumn "db_g" "ga" "a", nm .condOperand "db_g" "ga" "id", nm .byItem "" "ga" "b"] }

/-- a write: three statements, one per copy, every schema qualifier rewritten -/
example : planGlobal false ["db_g"] [exRule] exUpdate 0 0 =
    .ok [⟨"slice-2", "db_p0", [["db_p0", "ga"], ["a"], ["db_p0", "ga", "id"], ["ga", "b"]]⟩,
         ⟨"slice-1", "db_p1", [["db_p1", "ga"], ["a"], ["db_p1", "ga", "id"], ["ga", "b"]]⟩,
         ⟨"slice-1", "db_p2", [["db_p2", "ga"], ["a"], ["db_p2", "ga", "id"], ["ga", "b"]]⟩] ∧
    exUpdate.kind ≠ .select ∧ (∀ n ∈ textNames exUpdate, Rewritten n.pos) := by
  refine ⟨by decide, by decide, ?_⟩
  intro n hn
  simp only [textNames, appendedFields, exUpdate, nm] at hn
  simp at hn
  rcases hn with h | h | h | h <;> subst h <;> exact True.intro

/-- ``SELECT `x`.`a` FROM `db_g`.`ga` AS `x` WHERE `x`.`id` IS NULL `` -/
def exSelect : Stmt :=
  { kind := .select, fields := [{ nm .selField "" "x" "a" with whole := true }],
    «from» := [{ nm .tableRef "db_g" "ga" "" with alias := "x" }], tail := [nm .condOther "" "x" "id"] }

/-- a read with pick 1: one statement, on the second copy -/
example : planGlobal false ["db_g"] [exRule] exSelect 0 1 =
    .ok [⟨"slice-1", "db_p1", [["x", "a"], ["db_p1", "ga"], ["x"], ["x", "id"]]⟩] := by decide

/-- does some statement still name a database other than the one it is sent to? -/
def keepsForeignDb (dbs : List String) : R (List (Target (List Chain))) → Bool
  | .ok out => out.any fun t => t.sql.any fun c =>
      match c with
      | h :: _ :: _ => dbs.contains h && h != t.db
      | _ => false
  | _ => false

/-- **Open finding** `database-name-not-rewritten-in-wildcard-field`:
    ``SELECT `db_g`.`ga`.* FROM `ga` `` keeps `db_g` in the statement sent to db_p0. -/
theorem wildcard_field_keeps_logical_db_witness :
    planGlobal false ["db_g"] [exRule]
      { kind := .select, fields := [nm .selWildcard "db_g" "ga" "*"], «from» := [nm .tableRef "" "ga" ""], tail := [] } 0 0 =
      .ok [⟨"slice-2", "db_p0", [["db_g", "ga", "*"], ["ga"]]⟩] ∧
    keepsForeignDb ["db_g"] (planGlobal false ["db_g"] [exRule]
      { kind := .select, fields := [nm .selWildcard "db_g" "ga" "*"], «from» := [nm .tableRef "" "ga" ""], tail := [] } 0 0) = true := by
  decide

/-- **Open finding** `database-name-not-rewritten-in-nested-condition-column`:
    ``DELETE FROM `ga` WHERE ABS(`db_g`.`ga`.`c`) = 1 `` keeps `db_g` on every copy. -/
theorem nested_condition_column_keeps_logical_db_witness :
    keepsForeignDb ["db_g"] (planGlobal false ["db_g"] [exRule]
      { kind := .delete, fields := [], «from» := [nm .tableRef "" "ga" ""], tail := [nm .condNested "db_g" "ga" "c"] } 0 0) = true ∧
    planGlobal false ["db_g"] [exRule]
      { kind := .delete, fields := [], «from» := [nm .tableRef "" "ga" ""], tail := [nm .condNested "db_g" "ga" "c"] } 0 0 =
      .ok [⟨"slice-2", "db_p0", [["ga"], ["db_g", "ga", "c"]]⟩, ⟨"slice-1", "db_p1", [["ga"], ["db_g", "ga", "c"]]⟩,
           ⟨"slice-1", "db_p2", [["ga"], ["db_g", "ga", "c"]]⟩] := by
  decide

/-- **Open finding** `database-name-not-rewritten-in-update-set-value`:
    ``UPDATE `ga` SET `a` = `db_g`.`ga`.`b`+1 `` keeps `db_g` in the assigned value. -/
theorem update_set_value_keeps_logical_db_witness :
    keepsForeignDb ["db_g"] (planGlobal false ["db_g"] [exRule]
      { kind := .update, fields := [], «from» := [nm .tableRef "" "ga" ""],
        tail := [nm .setColumn "" "" "a", nm .setValue "db_g" "ga" "b"] } 0 0) = true := by
  decide

/-- **Open finding** `database-name-not-rewritten-in-appended-by-field`:
    ``SELECT `a` FROM `ga` ORDER BY `db_g`.`ga`.`b` `` appends the undecorated
    `db_g`.`ga`.`b` to the select list (the ORDER BY item itself is rewritten). -/
theorem appended_by_field_keeps_logical_db_witness :
    planGlobal false ["db_g"] [exRule]
      { kind := .select, fields := [{ nm .selField "" "" "a" with whole := true }], «from» := [nm .tableRef "" "ga" ""],
        tail := [nm .byItem "db_g" "ga" "b"] } 0 2 =
      .ok [⟨"slice-1", "db_p2", [["a"], ["db_g", "ga", "b"], ["ga"], ["db_p2", "ga", "b"]]⟩] := by
  decide

/-- **Defect of the pinned tree (repaired by c29cd53)**: with the rule's slices
    replaced by the namespace's, the copies configured on slice-2, slice-1,
    slice-1 were addressed on slice-0, slice-1, slice-1. -/
theorem pinned_namespace_slices_witness :
    (match parseGlobalRule true exNs exCfg with
     | some r => (planGlobal false ["db_g"] [r] exUpdate 0 0 |> fun o =>
         match o with | .ok out => out.map target | _ => [])
     | none => []) = [("slice-0", "db_p0"), ("slice-1", "db_p1"), ("slice-1", "db_p2")] ∧
    copies exCfg = [("slice-2", "db_p0"), ("slice-1", "db_p1"), ("slice-1", "db_p2")] := by
  decide

/-- **Defect of the pinned tree (repaired by 116abc1)**: the column list of an
    INSERT into a global table kept its qualifiers. -/
theorem pinned_insert_column_keeps_logical_db_witness :
    keepsForeignDb ["db_g"] (planGlobal true ["db_g"] [exRule]
      { kind := .insert, fields := [], «from» := [nm .tableRef "db_g" "ga" ""], tail := [nm .insColumn "db_g" "ga" "a"] } 0 0) = true ∧
    keepsForeignDb ["db_g"] (planGlobal false ["db_g"] [exRule]
      { kind := .insert, fields := [], «from» := [nm .tableRef "db_g" "ga" ""], tail := [nm .insColumn "db_g" "ga" "a"] } 0 0) = false := by
  decide

end GaeaVerif.C04
