import GaeaVerif.Model.Health
import GaeaVerif.Model.HealthSpec
import GaeaVerif.Lemmas.Health
import GaeaVerif.Gen.Consts
import Mathlib.Tactic.SplitIfs
/-
  C28 — Health checks mark nodes down and up according to the probe history.

  "A master or replica is marked down once it has not passed a health probe for
   the configured down-after period, a replica is also marked down when its
   replication lag exceeds the configured limit or a replication thread is
   stopped, and a node is marked up again after a successful probe (subject to
   C27 for fused replicas); no other event changes a node's status."

  Theorems about `Model/Health.lean` (tied to backend/slice.go, node.go by the
  correspondence check `gvh run C28`), for every configuration, every start
  time and every history of master rounds, replica rounds, fuse calls and clock
  advances — no bound on length, no assumption on the clock.

  * `c28_spec_holds` — the executable reference semantics of the property
    (`Health.judge28`, the same function the check runs on the implementation's
    output) accepts the model on every history, except for one class that only
    arises in a replica round during which the master is down, the replica's own
    probe passed and `show slave status` reports lag or a stopped thread
    (`replica-sync-ignored-master-down`: the maintainers skip the replication
    check during a master outage on purpose — a dead master stops every
    replica's IO thread — and their tests pin it; `_witness`, known/C28.json).
    The second class of the pinned code, `replica-up-without-probe-master-down`,
    was repaired (fix 4cba6eb).
  * `c28_spec_holds_no_bad_sync_in_outage_partial` — no violation at all on
    histories in which no replica round that runs during a master outage reads
    lag or a stopped thread.  (The full statement, without that hypothesis, is
    false of the code: see the witness.)
  * readable consequences, each for all states / all histories:
    `down_after_replica`, `down_after_master`, `lag_marks_down_partial`,
    `up_only_after_successful_probe`, `restored_after_successful_probe`,
    `served_during_master_outage`,
    `master_restored_after_successful_probe`, `stays_up_without_cause`,
    `other_events_change_nothing`; `replica_up_without_probe_master_down_repaired`
    replays the old failing input.
-/
namespace GaeaVerif.C28
open GaeaVerif GaeaVerif.Health

/-! ### the constants of the source the model relies on -/

/-- `CheckRepeat` of backend/slice.go as extracted from the working tree. -/
theorem checkRepeat_tie : Gen.healthCheckRepeat = (checkRepeat : Int) := by decide

/-! ### the judge's ghost state describes the model state -/

/-- The judge's ghost state describes the model state. -/
def Rel28 (s : St) (g : G28) : Prop :=
  g.rep = s.rep.up ∧ g.master = s.master.up ∧ g.lastOkR = s.rep.lastChecked ∧ g.lastOkM = s.master.lastChecked

/-- The listed class. -/
def Known28 (v : Viol28) : Prop := v = .replicaSyncIgnoredMasterDown

theorem rel28_init (t0 : Int) : Rel28 (St.init t0) (G28.init t0) := by
  simp [Rel28, St.init, G28.init]

theorem step28_master (c : Cfg) (s : St) (g : G28) (now : Int) (p : Probe) (h : Rel28 s g) :
    (judgeMaster28 c g now p (checkBackendMasterStatus c s now p).obs).1 = [] ∧
    Rel28 (checkBackendMasterStatus c s now p) (judgeMaster28 c g now p (checkBackendMasterStatus c s now p).obs).2 := by
  obtain ⟨r1, r2, r3, r4⟩ := h
  rw [master_round]
  obtain ⟨⟨mu, ml⟩, ⟨ru, rl⟩, lf, erc, cscc, lr⟩ := s
  obtain ⟨gr, gm, gor, gom⟩ := g
  simp only at r1 r2 r3 r4
  subst r1 r2 r3 r4
  cases hok : probeOk c p <;> cases hm : c.hasMaster <;> cases gm <;>
    simp [judgeMaster28, St.obs, lastOkAfter, hok, hm, Rel28] <;>
    (try split_ifs) <;> (try simp_all) <;> (try omega)

/-- The replication answer a replica round reads while the master is down, its
    own probe having passed, is bad: the only situation in which the model does
    not follow the property text. -/
def badSyncInOutage (c : Cfg) (s : St) (p : Probe) (q : SlaveQ) : Bool :=
  masterDown c s && probeOk c p && (syncSpec c.sbm q == .bad)

theorem step28_replica (c : Cfg) (hs : c.sbm < 9223372036854775808) (s : St) (g : G28) (now : Int)
    (p : Probe) (q : SlaveQ) (h : Rel28 s g) :
    (∀ v ∈ (judgeReplica28 c g now p q (tryRecover c s now p q).obs).1, Known28 v ∧ badSyncInOutage c s p q = true) ∧
    Rel28 (tryRecover c s now p q) (judgeReplica28 c g now p q (tryRecover c s now p q).obs).2 := by
  obtain ⟨r1, r2, r3, r4⟩ := h
  have hgood := syncSpec_good_alive c.sbm q (probeOk c p) hs
  have hbad := syncSpec_bad_dead c.sbm q hs
  have hno := checkSlaveSyncStatus_noconn c.sbm q
  unfold tryRecover
  cases hpol : c.policy
  · simp only
    rw [noRecovery_round]
    obtain ⟨⟨mu, ml⟩, ⟨ru, rl⟩, lf, erc, cscc, lr⟩ := s
    obtain ⟨gr, gm, gor, gom⟩ := g
    simp only at r1 r2 r3 r4
    subst r1 r2 r3 r4
    cases hok : probeOk c p <;> cases hsy : syncSpec c.sbm q <;> cases hal : checkSlaveSyncStatus (probeOk c p) c.sbm q <;>
      cases hm : c.hasMaster <;> cases gm <;> cases gr <;>
      simp [judgeReplica28, St.obs, lastOkAfter, hok, hm, Rel28, hsy, masterDown, obsMasterDown, hpol, Known28, syncAlive,
        badSyncInOutage] <;>
      (try split_ifs) <;> (try simp_all) <;> (try omega)
  · simp only
    rw [hardRecovery_round]
    obtain ⟨⟨mu, ml⟩, ⟨ru, rl⟩, lf, erc, cscc, lr⟩ := s
    obtain ⟨gr, gm, gor, gom⟩ := g
    simp only at r1 r2 r3 r4
    subst r1 r2 r3 r4
    cases hok : probeOk c p <;> cases hsy : syncSpec c.sbm q <;> cases hal : checkSlaveSyncStatus (probeOk c p) c.sbm q <;>
      cases hm : c.hasMaster <;> cases gm <;> cases gr <;>
      simp [judgeReplica28, St.obs, lastOkAfter, hok, hm, Rel28, hsy, masterDown, obsMasterDown, hpol, Known28, syncAlive,
        badSyncInOutage] <;>
      (try split_ifs) <;> (try simp_all) <;> (try omega)
  · simp only
    rw [gradualRecovery_round]
    obtain ⟨⟨mu, ml⟩, ⟨ru, rl⟩, lf, erc, cscc, lr⟩ := s
    obtain ⟨gr, gm, gor, gom⟩ := g
    simp only at r1 r2 r3 r4
    subst r1 r2 r3 r4
    cases hok : probeOk c p <;> cases hsy : syncSpec c.sbm q <;> cases hal : checkSlaveSyncStatus (probeOk c p) c.sbm q <;>
      cases hm : c.hasMaster <;> cases gm <;> cases gr <;>
      simp [judgeReplica28, St.obs, lastOkAfter, hok, hm, Rel28, hsy, masterDown, obsMasterDown, hpol, Known28, syncAlive,
        badSyncInOutage] <;>
      (try split_ifs) <;> (try simp_all) <;> (try omega)

theorem step28_fuse (c : Cfg) (s : St) (g : G28) (now : Int) (ce tr : Bool) (h : Rel28 s g) :
    (judgeFuse28 c g ce tr (tryFuse c s now ce tr).obs).1 = [] ∧
    Rel28 (tryFuse c s now ce tr) (judgeFuse28 c g ce tr (tryFuse c s now ce tr).obs).2 := by
  obtain ⟨r1, r2, r3, r4⟩ := h
  rw [tryFuse_eq]
  obtain ⟨⟨mu, ml⟩, ⟨ru, rl⟩, lf, erc, cscc, lr⟩ := s
  obtain ⟨gr, gm, gor, gom⟩ := g
  simp only at r1 r2 r3 r4
  subst r1 r2 r3 r4
  cases hpol : c.policy <;> cases ce <;> cases tr <;> cases gr <;>
    simp [judgeFuse28, St.obs, Rel28, hpol, fuseFires]

/-- One step: every violation the judge reports on the model's own step is the
    listed class and arises in a replica round that runs while the master is
    down, whose own probe passed and whose `show slave status` answer is bad;
    the ghost state keeps describing the model state. -/
theorem step28 (c : Cfg) (hs : c.sbm < 9223372036854775808) (s : St) (g : G28) (e : Ev) (h : Rel28 s g) :
    (∀ v ∈ (judgeStep28 c g e (step c s e).obs).1,
        Known28 v ∧ ∃ now p q, e = .replica now p q ∧ badSyncInOutage c s p q = true) ∧
    Rel28 (step c s e) (judgeStep28 c g e (step c s e).obs).2 := by
  cases e with
  | master now p =>
    have := step28_master c s g now p h
    simp only [judgeStep28, step]
    rw [this.1]
    exact ⟨by simp, this.2⟩
  | replica now p q =>
    have := step28_replica c hs s g now p q h
    simp only [judgeStep28, step]
    exact ⟨fun v hv => ⟨(this.1 v hv).1, now, p, q, rfl, (this.1 v hv).2⟩, this.2⟩
  | fuse now ce tr =>
    have := step28_fuse c s g now ce tr h
    simp only [judgeStep28, step]
    rw [this.1]
    exact ⟨by simp, this.2⟩
  | tick now =>
    obtain ⟨r1, r2, r3, r4⟩ := h
    simp [judgeStep28, step, St.obs, Rel28, r1, r2, r3, r4]

theorem judge28_trace (c : Cfg) (hs : c.sbm < 9223372036854775808) :
    ∀ (evs : List Ev) (s : St) (g : G28), Rel28 s g →
      ∀ v ∈ judge28 c g evs ((trace c s evs).map St.obs), Known28 v := by
  intro evs
  induction evs with
  | nil => intro s g _ v hv; simp [judge28] at hv
  | cons e es ih =>
    intro s g h v hv
    simp only [trace, List.map_cons, judge28, List.mem_append] at hv
    have hst := step28 c hs s g e h
    rcases hv with hv | hv
    · exact (hst.1 v hv).1
    · exact ih _ _ hst.2 v hv

/-! ### main theorems -/

/-- **C28 on every history.**  For every configuration (with `secondsBehindMaster`
    a Go `int`), every start time and every history of master rounds, replica
    rounds, fuse calls and clock advances, the reference semantics of the
    property accepts the statuses the model produces, except for the one
    listed class (`replica-sync-ignored-master-down`). -/
theorem c28_spec_holds (c : Cfg) (hs : c.sbm < 9223372036854775808) (t0 : Int) (evs : List Ev) :
    ∀ v ∈ judge28 c (G28.init t0) evs ((trace c (St.init t0) evs).map St.obs), Known28 v :=
  judge28_trace c hs evs _ _ (rel28_init t0)

example : ∃ c : Cfg, c.sbm < 9223372036854775808 := ⟨⟨false, 0, 12, 5, true, true⟩, by decide⟩

/-- The reference semantics is not vacuous: it rejects a replica that is still
    up after 12 s without a successful probe, one that comes up on a failed
    probe, one that is taken down without a cause, and one that stays up with a
    stopped SQL thread; and accepts the trace the model produces. -/
example :
    let c : Cfg := ⟨false, 0, 12, 5, false, true⟩
    let evs : List Ev := [.replica 1012 ⟨.err, []⟩ .empty, .replica 1016 ⟨.nilConn, []⟩ .empty,
                          .replica 1020 ⟨.conn, []⟩ .empty,
                          .replica 1024 ⟨.conn, []⟩ (.row (.u64 0) (.str "Yes") (.str "No"))]
    judge28 c (G28.init 1000) evs [⟨true, true⟩, ⟨false, true⟩, ⟨true, true⟩, ⟨false, true⟩] = [.replicaNotDownAfterNoAlive] ∧
    judge28 c (G28.init 1000) evs [⟨false, true⟩, ⟨true, true⟩, ⟨true, true⟩, ⟨false, true⟩] = [.replicaNotDownAfterNoAlive] ∧
    judge28 c (G28.init 1000) evs [⟨false, true⟩, ⟨false, true⟩, ⟨false, true⟩, ⟨false, true⟩] = [.replicaNotRestoredAfterProbe] ∧
    judge28 c (G28.init 1000) evs [⟨false, true⟩, ⟨false, true⟩, ⟨true, true⟩, ⟨true, true⟩] = [.replicaSyncFailureNotMarkedDown] ∧
    judge28 c (G28.init 1000) evs [⟨false, true⟩, ⟨false, true⟩, ⟨true, false⟩, ⟨false, false⟩] = [.statusChangedWithoutEvent] ∧
    judge28 c (G28.init 1000) evs ((trace c (St.init 1000) evs).map St.obs) = [] := by decide

example :
    let c : Cfg := ⟨false, 0, 12, 5, false, true⟩
    let evs : List Ev := [.replica 1004 ⟨.conn, []⟩ (.row (.u64 9) (.str "Yes") (.str "Yes")),
                          .replica 1008 ⟨.err, []⟩ .empty, .replica 1012 ⟨.conn, []⟩ .empty, .replica 1013 ⟨.err, []⟩ .empty]
    judge28 c (G28.init 1000) evs [⟨false, true⟩, ⟨true, true⟩, ⟨true, true⟩, ⟨true, true⟩] = [.replicaUpWithoutProbe] ∧
    judge28 c (G28.init 1000) evs [⟨false, true⟩, ⟨false, true⟩, ⟨true, true⟩, ⟨false, true⟩] = [.replicaDownWithoutCause] := by decide

/-- No replica round of the history that runs while the master is down (its own
    probe having passed) reads lag over the limit or a stopped thread. -/
def noBadSyncInOutage (c : Cfg) : St → List Ev → Bool
  | _, [] => true
  | s, e :: es =>
    (match e with
     | .replica _ p q => !badSyncInOutage c s p q
     | _ => true) && noBadSyncInOutage c (step c s e) es

theorem judge28_trace_no_bad_sync (c : Cfg) (hs : c.sbm < 9223372036854775808) :
    ∀ (evs : List Ev) (s : St) (g : G28), Rel28 s g → noBadSyncInOutage c s evs = true →
      judge28 c g evs ((trace c s evs).map St.obs) = [] := by
  intro evs
  induction evs with
  | nil => intro s g _ _; simp [judge28]
  | cons e es ih =>
    intro s g h hm
    simp only [trace, List.map_cons, judge28]
    have hst := step28 c hs s g e h
    have h1 : (judgeStep28 c g e (step c s e).obs).1 = [] := by
      apply List.eq_nil_iff_forall_not_mem.mpr
      intro v hv
      obtain ⟨_, now, p, q, he, hd⟩ := hst.1 v hv
      subst he
      simp [noBadSyncInOutage, hd] at hm
    have h2 : noBadSyncInOutage c (step c s e) es = true := by
      simp only [noBadSyncInOutage, Bool.and_eq_true] at hm
      exact hm.2
    rw [h1, ih _ _ hst.2 h2]
    rfl

/-- **C28 unless lag or a stopped thread is read during a master outage**
    (`_partial`: the hypothesis excludes the replica rounds that run while the
    master is down, pass their own probe and read a bad `show slave status`
    answer; without it the statement is false of the code, see
    `replica_sync_ignored_master_down_witness`).  On such histories — in
    particular on every history whose replica rounds see the master up, and on
    every history with `secondsBehindMaster = 0` — the reference semantics
    reports no violation at all.

    Full statement (false): `∀ c t0 evs, judge28 c (G28.init t0) evs (…) = []`. -/
theorem c28_spec_holds_no_bad_sync_in_outage_partial (c : Cfg) (hs : c.sbm < 9223372036854775808) (t0 : Int)
    (evs : List Ev) (hm : noBadSyncInOutage c (St.init t0) evs = true) :
    judge28 c (G28.init t0) evs ((trace c (St.init t0) evs).map St.obs) = [] :=
  judge28_trace_no_bad_sync c hs evs _ _ (rel28_init t0) hm

/-- master down at 1012; a replica round with a failed probe, one with a passed
    probe and a good answer, and — the master back up at 1022 — one with lag -/
example : noBadSyncInOutage ⟨false, 0, 12, 5, true, true⟩ (St.init 1000)
    [.master 1012 ⟨.err, []⟩, .replica 1013 ⟨.err, []⟩ (.row (.u64 9) (.str "No") (.str "Yes")),
     .replica 1016 ⟨.conn, [⟨.soft, true, true⟩]⟩ (.row (.u64 5) (.str "Yes") (.str "Yes")),
     .master 1022 ⟨.conn, []⟩, .replica 1023 ⟨.conn, []⟩ (.row (.u64 6) (.str "Yes") (.str "Yes"))] = true := by decide

/-- With the replication check switched off (`secondsBehindMaster = 0`) the
    hypothesis holds for every history: C28 at full strength. -/
theorem noBadSync_of_sbm_zero (c : Cfg) (h0 : c.sbm = 0) : ∀ (evs : List Ev) (s : St), noBadSyncInOutage c s evs = true := by
  intro evs
  induction evs with
  | nil => intro s; rfl
  | cons e es ih =>
    intro s
    cases e <;> simp [noBadSyncInOutage, badSyncInOutage, syncSpec, h0, ih]

theorem c28_spec_holds_sync_check_off (c : Cfg) (h0 : c.sbm = 0) (t0 : Int) (evs : List Ev) :
    judge28 c (G28.init t0) evs ((trace c (St.init t0) evs).map St.obs) = [] :=
  c28_spec_holds_no_bad_sync_in_outage_partial c (by omega) t0 evs (noBadSync_of_sbm_zero c h0 evs _)

/-! ### the same, in words: time of the last successful probe -/

/-- Time of the replica's last successful probe along a history (creation time if none). -/
def lastOkRep (c : Cfg) (t0 : Int) : List Ev → Int
  | [] => t0
  | e :: es =>
    match e with
    | .replica now p _ => lastOkRep c (if probeOk c p then now else t0) es
    | _ => lastOkRep c t0 es

/-- Time of the master's last successful probe along a history. -/
def lastOkMaster (c : Cfg) (t0 : Int) : List Ev → Int
  | [] => t0
  | e :: es =>
    match e with
    | .master now p => lastOkMaster c (if probeOk c p then now else t0) es
    | _ => lastOkMaster c t0 es

theorem run_rep_lastChecked (c : Cfg) : ∀ (evs : List Ev) (s : St),
    (run c s evs).rep.lastChecked = lastOkRep c s.rep.lastChecked evs := by
  intro evs
  induction evs with
  | nil => intro s; rfl
  | cons e es ih =>
    intro s
    simp only [run, lastOkRep]
    rw [ih]
    cases e with
    | master now p =>
      simp only [step, master_round]
      split <;> rfl
    | replica now p q =>
      simp only [step, tryRecover]
      cases c.policy <;> simp only [noRecovery_round, hardRecovery_round, gradualRecovery_round, lastOkAfter]
    | fuse now ce tr =>
      simp only [step]
      rw [(tryFuse_frame c s now ce tr).2]
    | tick now => rfl

theorem run_master_lastChecked (c : Cfg) (hm : c.hasMaster = true) : ∀ (evs : List Ev) (s : St),
    (run c s evs).master.lastChecked = lastOkMaster c s.master.lastChecked evs := by
  intro evs
  induction evs with
  | nil => intro s; rfl
  | cons e es ih =>
    intro s
    simp only [run, lastOkMaster]
    rw [ih]
    cases e with
    | master now p =>
      simp [step, master_round, hm, lastOkAfter]
    | replica now p q =>
      simp only [step, tryRecover]
      cases c.policy <;> simp only [noRecovery_round, hardRecovery_round, gradualRecovery_round]
    | fuse now ce tr =>
      simp only [step]
      rw [(tryFuse_frame c s now ce tr).1]
    | tick now => rfl

theorem run_append (c : Cfg) (s : St) (es : List Ev) (e : Ev) :
    run c s (es ++ [e]) = step c (run c s es) e := by
  induction es generalizing s with
  | nil => rfl
  | cons x xs ih => simp [run, ih]

/-- **Down after no alive (replica).**  Whatever happened before: after a replica
    round at time `now`, if the replica's last successful probe of the whole
    history (this round included) is `downAfter` seconds or more in the past,
    the replica is down — under every policy and master state. -/
theorem down_after_replica (c : Cfg) (t0 : Int) (evs : List Ev) (now : Int) (p : Probe) (q : SlaveQ)
    (h : now - lastOkRep c t0 (evs ++ [.replica now p q]) ≥ c.downAfter) :
    (run c (St.init t0) (evs ++ [.replica now p q])).rep.up = false := by
  have hl := run_rep_lastChecked c (evs ++ [.replica now p q]) (St.init t0)
  rw [run_append] at hl ⊢
  have h0 : (St.init t0).rep.lastChecked = t0 := rfl
  rw [h0] at hl
  rw [← hl] at h
  revert h
  generalize run c (St.init t0) evs = s
  simp only [step, tryRecover]
  cases c.policy <;> simp only [noRecovery_round, hardRecovery_round, gradualRecovery_round] <;>
    intro h <;> simp only [ge_iff_le] at h ⊢ <;> simp [h]

/-- **Down after no alive (master).** -/
theorem down_after_master (c : Cfg) (hm : c.hasMaster = true) (t0 : Int) (evs : List Ev) (now : Int) (p : Probe)
    (h : now - lastOkMaster c t0 (evs ++ [.master now p]) ≥ c.downAfter) :
    (run c (St.init t0) (evs ++ [.master now p])).master.up = false := by
  have hl := run_master_lastChecked c hm (evs ++ [.master now p]) (St.init t0)
  rw [run_append] at hl ⊢
  have h0 : (St.init t0).master.lastChecked = t0 := rfl
  rw [h0] at hl
  rw [← hl] at h
  revert h
  generalize run c (St.init t0) evs = s
  simp only [step, master_round, hm]
  simp
  intro h h2
  omega

example : lastOkRep ⟨false, 0, 12, 0, false, true⟩ 1000
    [.replica 1004 ⟨.conn, []⟩ .empty, .replica 1008 ⟨.err, []⟩ .empty, .replica 1016 ⟨.err, []⟩ .empty] = 1004 := by decide

/-- **Lag or a stopped thread marks the replica down** (`_partial`: while the
    master is up; false otherwise, see `replica_sync_ignored_master_down_witness`
    — the one open finding).  For every state: a round whose probe succeeds and
    whose `show slave status` reports lag over the limit or a stopped thread
    leaves the replica down.

    Full statement (false): the same without `hmu`. -/
theorem lag_marks_down_partial (c : Cfg) (hs : c.sbm < 9223372036854775808) (s : St) (now : Int) (p : Probe) (q : SlaveQ)
    (hok : probeOk c p = true) (hbad : syncSpec c.sbm q = .bad) (hmu : masterDown c s = false) :
    (tryRecover c s now p q).rep.up = false := by
  have hd := syncSpec_bad_dead c.sbm q hs hbad
  simp only [tryRecover]
  cases c.policy <;>
    simp [noRecovery_round, hardRecovery_round, gradualRecovery_round, hok, hd, hmu, syncAlive]

example : syncSpec 5 (.row (.u64 6) (.str "Yes") (.str "Yes")) = .bad := by decide
example : syncSpec 5 (.row (.u64 0) (.str "No") (.str "Yes")) = .bad := by decide

/-- **A node comes up only after a successful probe.**  For every state, every
    policy and whatever the master's state: if a round turns a down replica up,
    its own probe succeeded in that round, less than `downAfter` seconds have
    passed and the replication check did not fail (or was skipped because the
    master is down). -/
theorem up_only_after_successful_probe (c : Cfg) (s : St) (now : Int) (p : Probe) (q : SlaveQ)
    (hdown : s.rep.up = false) (hup : (tryRecover c s now p q).rep.up = true) :
    probeOk c p = true ∧ 0 < c.downAfter ∧ (masterDown c s = true ∨ checkSlaveSyncStatus true c.sbm q = true) := by
  revert hup
  simp only [tryRecover]
  cases hok : probeOk c p <;> cases hmd : masterDown c s <;> cases c.policy <;>
    simp [noRecovery_round, hardRecovery_round, gradualRecovery_round, hok, hmd, hdown, lastOkAfter, syncAlive] <;>
    intros <;> simp_all

example : ∃ (c : Cfg) (s : St) (p : Probe) (q : SlaveQ), s.rep.up = false ∧ masterDown c s = true ∧
    (tryRecover c s 1013 p q).rep.up = true :=
  ⟨⟨false, 0, 12, 5, false, true⟩, { St.init 1000 with rep := ⟨false, 1004⟩, master := ⟨false, 1000⟩ }, ⟨.conn, []⟩, .empty,
   by decide, by decide, by decide⟩

/-- **A down replica comes up after a successful probe** (no recovery policy;
    fused replicas under a policy are C27): probe succeeded, `downAfter` is
    positive, the replication check does not fail or is skipped because the
    master is down — the replica is up after the round. -/
theorem restored_after_successful_probe (c : Cfg) (hp : c.policy = .none) (hs : c.sbm < 9223372036854775808)
    (s : St) (now : Int) (p : Probe) (q : SlaveQ)
    (hok : probeOk c p = true) (hd : 0 < c.downAfter)
    (hgood : masterDown c s = true ∨ syncSpec c.sbm q = .good) :
    (tryRecover c s now p q).rep.up = true := by
  have ha : syncAlive c s true q = true := by
    rcases hgood with h | h
    · simp [syncAlive, h]
    · simp [syncAlive, syncSpec_good_alive c.sbm q true hs h]
  simp only [tryRecover, hp]
  simp [noRecovery_round, hok, lastOkAfter, ha]
  omega

example : ∃ (c : Cfg) (s : St), c.policy = .none ∧ c.sbm < 9223372036854775808 ∧ 0 < c.downAfter ∧
    probeOk c ⟨.conn, []⟩ = true ∧ (masterDown c s = true ∨ syncSpec c.sbm .empty = .good) :=
  ⟨⟨false, 0, 12, 5, false, true⟩, St.init 1000, by decide, by decide, by decide, by decide, by decide⟩

/-- **Reads keep being served during a master outage** (the maintainers' intent
    behind the master-down branches, as repaired): while the master is down a
    replica whose own probe passes in this round — whatever `show slave status`
    says — is up after the round if it was up, and is restored if it was down
    and its recovery policy allows it (none: at once; hard: cool-down over;
    gradual: count used up). -/
theorem served_during_master_outage (c : Cfg) (s : St) (now : Int) (p : Probe) (q : SlaveQ)
    (hmd : masterDown c s = true) (hok : probeOk c p = true) (hd : 0 < c.downAfter)
    (hallow : s.rep.up = true ∨ c.policy = .none ∨ (c.policy = .hard ∧ now ≥ s.lastFuse + c.cooling) ∨
              (c.policy = .gradual ∧ s.cscc ≤ 0)) :
    (tryRecover c s now p q).rep.up = true := by
  have ha : ∀ b, syncAlive c s b q = true := fun b => by simp [syncAlive, hmd]
  simp only [tryRecover]
  cases hpol : c.policy <;> cases hu : s.rep.up <;>
    simp [noRecovery_round, hardRecovery_round, gradualRecovery_round, hok, lastOkAfter, ha, hu] <;>
    simp_all <;> omega

example : ∃ (c : Cfg) (s : St), masterDown c s = true ∧ probeOk c ⟨.conn, []⟩ = true ∧ 0 < c.downAfter ∧
    s.rep.up = false ∧ c.policy = .hard ∧ (1040 : Int) ≥ s.lastFuse + c.cooling :=
  ⟨⟨true, 30, 12, 5, false, true⟩,
   { St.init 1000 with rep := ⟨false, 1000⟩, master := ⟨false, 1000⟩, lastFuse := 1004 },
   by decide, by decide, by decide, by decide, by decide, by decide⟩

/-- **The master comes up after a successful probe and goes down only after
    `downAfter` seconds without one**: the master's status after its round is
    this function of its previous status, the probe and the time. -/
theorem master_restored_after_successful_probe (c : Cfg) (hm : c.hasMaster = true) (s : St) (now : Int) (p : Probe) :
    (checkBackendMasterStatus c s now p).master.up =
      (if now - (if probeOk c p then now else s.master.lastChecked) ≥ c.downAfter then false
       else (s.master.up || probeOk c p)) := by
  simp [master_round, hm, lastOkAfter]

/-- **No other cause takes a replica down**: an up replica whose last successful
    probe is recent enough and whose replication check does not fail stays up. -/
theorem stays_up_without_cause (c : Cfg) (s : St) (now : Int) (p : Probe) (q : SlaveQ)
    (hup : s.rep.up = true)
    (hrecent : now - (if probeOk c p then now else s.rep.lastChecked) < c.downAfter)
    (halive : checkSlaveSyncStatus (probeOk c p) c.sbm q = true) :
    (tryRecover c s now p q).rep.up = true := by
  simp only [tryRecover]
  cases c.policy <;>
    simp [noRecovery_round, hardRecovery_round, gradualRecovery_round, hup, halive, lastOkAfter, syncAlive] <;> omega

/-- **No other event changes a node's status**: a master round leaves the
    replica alone, a replica round leaves the master alone, a clock advance
    changes nothing, and a TryFuse call changes nothing unless the breaker is
    installed, the error is a connection error and the breaker fires — in
    which case the replica is down. -/
theorem other_events_change_nothing (c : Cfg) (s : St) :
    (∀ now p, (checkBackendMasterStatus c s now p).rep = s.rep) ∧
    (∀ now p q, (tryRecover c s now p q).master = s.master) ∧
    (∀ now, step c s (.tick now) = s) ∧
    (∀ now ce tr, (tryFuse c s now ce tr).master = s.master) ∧
    (∀ now ce tr, ¬(c.policy ≠ .none ∧ ce = true ∧ tr = true) → tryFuse c s now ce tr = s) ∧
    (∀ now, c.policy ≠ .none → (tryFuse c s now true true).rep.up = false) := by
  refine ⟨?_, ?_, ?_, ?_, ?_, ?_⟩
  · intro now p
    rw [master_round]; split <;> rfl
  · intro now p q
    simp only [tryRecover]
    cases c.policy <;> simp only [noRecovery_round, hardRecovery_round, gradualRecovery_round]
  · intro now; rfl
  · intro now ce tr
    exact (tryFuse_frame c s now ce tr).1
  · intro now ce tr h
    rw [tryFuse_eq]
    cases hp : c.policy <;> cases ce <;> cases tr <;> simp_all [fuseFires]
  · intro now h
    rw [tryFuse_eq]
    cases hp : c.policy <;> simp_all [fuseFires]

/-! ### what checkInstanceStatus counts as a passed probe -/

/-- With a health SQL configured, a probe passes as soon as the health SQL
    succeeds on the first attempt. -/
theorem probe_passes_on_health_sql (c : Cfg) (h : c.healthSql = true) (a : Attempt) (as : List Attempt)
    (ha : a.hs = .ok) : probeOk c ⟨.conn, a :: as⟩ = true := by
  simp [probeOk, checkInstanceStatus, checkLoop, h, ha]

/-- No connection, no pass: whatever the attempts would answer. -/
theorem probe_fails_without_connection (c : Cfg) (g : GetCheck) (as : List Attempt) (h : g ≠ .conn) :
    probeOk c ⟨g, as⟩ = false := by
  cases g <;> simp_all [probeOk, checkInstanceStatus]

/-- A failed ping on the first attempt fails the probe unless the health SQL
    already answered. -/
theorem probe_fails_on_ping (c : Cfg) (a : Attempt) (as : List Attempt)
    (hh : (c.healthSql && a.hs == .ok) = false) (hp : a.ping = false) : probeOk c ⟨.conn, a :: as⟩ = false := by
  simp only [probeOk, checkInstanceStatus, checkLoop, List.headD_cons, hh, hp]
  simp

/-! ### the repaired class on its old failing input, and the witness of the open one -/

/-- The history on which the pinned code violated the property (class
    `replica-up-without-probe-master-down`, repaired by fix 4cba6eb): the replica
    goes down for lag at 1004 (its probe succeeded); the master is marked down
    at 1012; at 1013 the replica's probe fails — the replica now stays down
    (no-recovery policy; the hard policy behaves the same), and the judge
    rejects the old behaviour. -/
theorem replica_up_without_probe_master_down_repaired :
    ∀ c ∈ ([⟨false, 0, 12, 5, false, true⟩, ⟨true, 30, 12, 5, false, true⟩] : List Cfg),
    let evs : List Ev := [.replica 1004 ⟨.conn, []⟩ (.row (.u64 9) (.str "Yes") (.str "Yes")),
                          .master 1012 ⟨.err, []⟩, .replica 1013 ⟨.err, []⟩ .empty]
    (trace c (St.init 1000) evs).map St.obs = [⟨false, true⟩, ⟨false, false⟩, ⟨false, false⟩] ∧
    probeOk c ⟨.err, []⟩ = false ∧
    judge28 c (G28.init 1000) evs ((trace c (St.init 1000) evs).map St.obs) = [] ∧
    judge28 c (G28.init 1000) evs [⟨false, true⟩, ⟨false, false⟩, ⟨true, false⟩] = [.replicaUpWithoutProbeMasterDown] := by
  decide

/-- The open class.  The master is marked down at 1012; at 1013 the replica's
    probe succeeds and `show slave status` reports 9 s of lag (limit 5) and a
    stopped IO thread — and the replica stays up, under every policy. -/
theorem replica_sync_ignored_master_down_witness :
    ∀ c ∈ ([⟨false, 0, 12, 5, false, true⟩, ⟨true, 30, 12, 5, false, true⟩, ⟨true, 0, 12, 5, false, true⟩] : List Cfg),
    let evs : List Ev := [.master 1012 ⟨.err, []⟩, .replica 1013 ⟨.conn, []⟩ (.row (.u64 9) (.str "No") (.str "Yes"))]
    (trace c (St.init 1000) evs).map St.obs = [⟨true, false⟩, ⟨true, false⟩] ∧
    syncSpec c.sbm (.row (.u64 9) (.str "No") (.str "Yes")) = .bad ∧
    noBadSyncInOutage c (St.init 1000) evs = false ∧
    judge28 c (G28.init 1000) evs ((trace c (St.init 1000) evs).map St.obs) = [.replicaSyncIgnoredMasterDown] := by
  decide

end GaeaVerif.C28
