import GaeaVerif.Model.NsStore
/-
  C33 — Stored configurations round-trip exactly and stay inside the storage area.
  Theorems about `Model/NsStore.lean` (tie to /repo: correspondence `gvh run C33`).
-/
namespace GaeaVerif.C33
open GaeaVerif GaeaVerif.NsStore

/-! ### padding -/

theorem ofNat_toNat (i : Nat) (h : i < 256) : (UInt8.ofNat i).toNat = i := by
  simp [UInt8.toNat_ofNat']; omega

/-- **Padding comes off again**: for every byte string and every block size a
    cipher can have (1 … 255), `pkcs5UnPadding (pkcs5Padding data)` is `data`;
    the padded length is a positive multiple of the block size. -/
theorem pad_unpad (data : Bytes) (bs : Nat) (h1 : 1 ≤ bs) (h2 : bs ≤ 255) :
    ∃ p, pkcs5Padding data bs = .ok p ∧ p.length % bs = 0 ∧ 0 < p.length ∧ pkcs5UnPadding p = .ok data := by
  have hbs : ¬ (bs = 0) := by omega
  have hmod : data.length % bs < bs := Nat.mod_lt _ (by omega)
  refine ⟨data ++ List.replicate (bs - data.length % bs) (UInt8.ofNat (bs - data.length % bs)), ?_, ?_, ?_, ?_⟩
  · simp [pkcs5Padding, hbs]
  · simp only [List.length_append, List.length_replicate]
    have : data.length + (bs - data.length % bs) = bs * (data.length / bs + 1) := by
      have := Nat.div_add_mod data.length bs
      rw [Nat.mul_add, Nat.mul_one]; omega
    rw [this]; exact Nat.mul_mod_right _ _
  · simp only [List.length_append, List.length_replicate]; omega
  · generalize hpd : bs - data.length % bs = pad
    have hp1 : 1 ≤ pad := by omega
    have hp2 : pad < 256 := by omega
    unfold pkcs5UnPadding
    simp only [List.length_append, List.length_replicate]
    have hL : (data ++ List.replicate pad (UInt8.ofNat pad)).length = data.length + pad := by simp
    have hlen : ¬ (((data.length + pad : Nat) : Int) ≤ 0) := by omega
    rw [if_neg hlen]
    have hidx : goIdx (data ++ List.replicate pad (UInt8.ofNat pad)) (((data.length + pad : Nat) : Int) - 1)
        = .ok (UInt8.ofNat pad) := by
      unfold goIdx
      have hc : (0 : Int) ≤ ((data.length + pad : Nat) : Int) - 1 ∧
          ((data.length + pad : Nat) : Int) - 1 < ((data ++ List.replicate pad (UInt8.ofNat pad)).length : Int) := by
        omega
      rw [if_pos hc]
      have : (((data.length + pad : Nat) : Int) - 1).toNat = data.length + (pad - 1) := by omega
      rw [this]
      simp [List.getD_eq_getElem?_getD, List.getElem?_append_right, List.getElem?_replicate]
      rw [if_pos (by omega)]; rfl
    rw [hidx]
    simp only [R.bind_ok, ofNat_toNat pad hp2]
    have : ¬ (((data.length + pad : Nat) : Int) < (pad : Int)) := by omega
    rw [if_neg this]
    unfold goSlice
    have hc : (0 : Int) ≤ 0 ∧ (0 : Int) ≤ ((data.length + pad : Nat) : Int) - (pad : Int) ∧
        ((data.length + pad : Nat) : Int) - (pad : Int) ≤ ((data ++ List.replicate pad (UInt8.ofNat pad)).length : Int) := by
      omega
    rw [if_pos hc]
    have : (((data.length + pad : Nat) : Int) - (pad : Int) - 0).toNat = data.length := by omega
    rw [this]
    simp

/-- **Unpadding is total**: for every byte string it returns an error or a
    prefix of its input; it never panics. -/
theorem unpad_total (d : Bytes) :
    pkcs5UnPadding d = .fail ∨ ∃ r t, pkcs5UnPadding d = .ok r ∧ d = r ++ t := by
  unfold pkcs5UnPadding
  by_cases h0 : ((d.length : Int) ≤ 0)
  · rw [if_pos h0]; exact Or.inr ⟨d, [], rfl, by simp⟩
  · rw [if_neg h0]
    unfold goIdx
    have hc : (0 : Int) ≤ (d.length : Int) - 1 ∧ (d.length : Int) - 1 < (d.length : Int) := by omega
    rw [if_pos hc]
    simp only [R.bind_ok]
    generalize (d.getD ((d.length : Int) - 1).toNat 0) = last
    by_cases hl : (d.length : Int) < (last.toNat : Int)
    · rw [if_pos hl]; exact Or.inl rfl
    · rw [if_neg hl]
      unfold goSlice
      have hc2 : (0 : Int) ≤ 0 ∧ (0 : Int) ≤ (d.length : Int) - (last.toNat : Int) ∧
          (d.length : Int) - (last.toNat : Int) ≤ (d.length : Int) := by omega
      rw [if_pos hc2]
      refine Or.inr ⟨_, d.drop ((d.length : Int) - (last.toNat : Int) - 0).toNat, rfl, ?_⟩
      simp

/-! ### ECB -/

theorem goSlice_take (src : Bytes) (bs : Nat) (h : bs ≤ src.length) :
    goSlice src 0 bs = .ok (src.take bs) := by
  unfold goSlice
  have hc : (0 : Int) ≤ 0 ∧ (0 : Int) ≤ (bs : Int) ∧ (bs : Int) ≤ (src.length : Int) := by omega
  rw [if_pos hc]
  have : ((bs : Int) - 0).toNat = bs := by omega
  rw [this]; simp

theorem goSlice_drop (src : Bytes) (bs : Nat) (h : bs ≤ src.length) :
    goSlice src bs src.length = .ok (src.drop bs) := by
  unfold goSlice
  have hc : (0 : Int) ≤ (bs : Int) ∧ (bs : Int) ≤ (src.length : Int) ∧ (src.length : Int) ≤ (src.length : Int) := by omega
  rw [if_pos hc]
  have h1 : ((src.length : Int) - (bs : Int)).toNat = src.length - bs := by omega
  have h2 : ((bs : Int)).toNat = bs := by omega
  rw [h1, h2]
  apply congrArg
  apply List.take_of_length_le
  simp

/-- The block loop never panics on whole blocks, whatever the block function. -/
theorem cryptLoop_ok (f : Bytes → Bytes) (bs : Nat) (hbs : 0 < bs) :
    ∀ (k : Nat) (src : Bytes) (fuel : Nat), src.length = k * bs → src.length ≤ fuel →
      ∃ out, cryptLoop f bs fuel src = .ok out := by
  intro k
  induction k with
  | zero =>
    intro src fuel hl _
    have : src = [] := List.length_eq_zero_iff.mp (by simpa using hl)
    subst this
    cases fuel <;> exact ⟨[], by simp [cryptLoop]⟩
  | succ k ih =>
    intro src fuel hl hf
    have hge : bs ≤ src.length := by rw [hl, Nat.add_mul]; omega
    have hpos : src.length ≠ 0 := by omega
    cases fuel with
    | zero => omega
    | succ fuel =>
      have hrest : (src.drop bs).length = k * bs := by
        rw [List.length_drop, hl, Nat.add_mul]; omega
      obtain ⟨out, ho⟩ := ih (src.drop bs) fuel hrest (by rw [List.length_drop]; omega)
      refine ⟨f (src.take bs) ++ out, ?_⟩
      rw [cryptLoop, if_neg hpos, goSlice_take src bs hge, goSlice_drop src bs hge]
      simp [ho]

/-- **ECB round trip**: for every block size, every pair of block functions
    with `D (E b) = b` and `|E b| = |b|` on whole blocks, and every input of
    whole blocks, decrypting the encryption gives the input back. -/
theorem ecb_roundtrip (e d : Bytes → Bytes) (bs : Nat) (hbs : 0 < bs)
    (hlen : ∀ b : Bytes, b.length = bs → (e b).length = bs)
    (hinv : ∀ b : Bytes, b.length = bs → d (e b) = b) :
    ∀ (k : Nat) (src : Bytes) (fuel fuel' : Nat), src.length = k * bs → src.length ≤ fuel → src.length ≤ fuel' →
      ∃ out, cryptLoop e bs fuel src = .ok out ∧ out.length = src.length ∧ cryptLoop d bs fuel' out = .ok src := by
  intro k
  induction k with
  | zero =>
    intro src fuel fuel' hl _ _
    have : src = [] := List.length_eq_zero_iff.mp (by simpa using hl)
    subst this
    refine ⟨[], ?_, rfl, ?_⟩
    · cases fuel <;> simp [cryptLoop]
    · cases fuel' <;> simp [cryptLoop]
  | succ k ih =>
    intro src fuel fuel' hl hf hf'
    have hge : bs ≤ src.length := by rw [hl, Nat.add_mul]; omega
    have hpos : src.length ≠ 0 := by omega
    cases fuel with
    | zero => omega
    | succ fuel =>
      cases fuel' with
      | zero => omega
      | succ fuel' =>
        have hrest : (src.drop bs).length = k * bs := by
          rw [List.length_drop, hl, Nat.add_mul]; omega
        have hrl : (src.drop bs).length = src.length - bs := List.length_drop
        obtain ⟨out, ho, hol, hback⟩ := ih (src.drop bs) fuel fuel' hrest (by omega) (by omega)
        have htl : (src.take bs).length = bs := by rw [List.length_take]; omega
        have hel := hlen _ htl
        refine ⟨e (src.take bs) ++ out, ?_, ?_, ?_⟩
        · rw [cryptLoop, if_neg hpos, goSlice_take src bs hge, goSlice_drop src bs hge]
          simp [ho]
        · rw [List.length_append, hel, hol, hrl]; omega
        · have hL : (e (src.take bs) ++ out).length = bs + out.length := by rw [List.length_append, hel]
          have hpos' : (e (src.take bs) ++ out).length ≠ 0 := by omega
          rw [cryptLoop, if_neg hpos', goSlice_take _ bs (by omega), goSlice_drop _ bs (by omega)]
          have t1 : (e (src.take bs) ++ out).take bs = e (src.take bs) := by
            rw [List.take_left' hel]
          have t2 : (e (src.take bs) ++ out).drop bs = out := by
            rw [List.drop_left' hel]
          rw [t1, t2]
          simp [hback, hinv _ htl]

/-- What is assumed of `aes.NewCipher(key)` when it succeeds: a block size a
    padding byte can express and a pair of inverse block functions. -/
structure GoodBlock (b : Block) : Prop where
  size_pos : 1 ≤ b.blockSize
  size_le : b.blockSize ≤ 255
  enc_len : ∀ x : Bytes, x.length = b.blockSize → (b.encrypt x).length = b.blockSize
  dec_enc : ∀ x : Bytes, x.length = b.blockSize → b.decrypt (b.encrypt x) = x

/-- **`DecryptECB (EncryptECB data) = data`** for every key the cipher accepts
    and every byte string; the ciphertext is not empty. -/
theorem ecb_encrypt_decrypt (nc : Bytes → Option Block) (key data : Bytes) (blk : Block)
    (hk : nc key = some blk) (hg : GoodBlock blk) :
    ∃ c, encryptECB nc key data = .ok c ∧ c ≠ [] ∧ decryptECB nc key c = .ok data := by
  obtain ⟨p, hp, hmod, hpos, hun⟩ := pad_unpad data blk.blockSize hg.size_pos hg.size_le
  have hbs : 0 < blk.blockSize := hg.size_pos
  have hbs0 : ¬ (blk.blockSize = 0) := by omega
  have hk' : p.length = (p.length / blk.blockSize) * blk.blockSize := by
    have := Nat.div_add_mod p.length blk.blockSize
    rw [hmod, Nat.add_zero, Nat.mul_comm] at this
    exact this.symm
  obtain ⟨c, hc, hcl, hback⟩ := ecb_roundtrip blk.encrypt blk.decrypt blk.blockSize hbs hg.enc_len hg.dec_enc
    (p.length / blk.blockSize) p p.length p.length hk' (Nat.le_refl _) (Nat.le_refl _)
  refine ⟨c, ?_, ?_, ?_⟩
  · simp only [encryptECB, hk, hp, R.bind_ok, cryptBlocks, hbs0, if_false, hmod, ne_eq, not_true_eq_false,
      Nat.lt_irrefl, hc]
  · intro h; subst h; simp at hcl; omega
  · simp only [decryptECB, hk, cryptBlocks, hbs0, if_false, hcl, hmod, ne_eq, not_true_eq_false, Nat.lt_irrefl,
      hback, R.bind_ok, hun]

/-- **Decrypting arbitrary data never crashes**: for every key, every byte
    string (any length, any content) and every cipher with a positive block
    size, `DecryptECB` returns an error or some bytes, never a panic. -/
theorem decryptECB_total (nc : Bytes → Option Block) (key data : Bytes)
    (hsize : ∀ blk, nc key = some blk → 0 < blk.blockSize) :
    decryptECB nc key data ≠ .panic := by
  unfold decryptECB
  cases hk : nc key with
  | none => simp
  | some blk =>
    have hbs := hsize blk hk
    have hbs0 : ¬ (blk.blockSize = 0) := by omega
    simp only [cryptBlocks, hbs0, if_false, Nat.lt_irrefl]
    by_cases hmod : data.length % blk.blockSize = 0
    · have hk' : data.length = (data.length / blk.blockSize) * blk.blockSize := by
        have := Nat.div_add_mod data.length blk.blockSize
        rw [hmod, Nat.add_zero, Nat.mul_comm] at this
        exact this.symm
      obtain ⟨out, ho⟩ := cryptLoop_ok blk.decrypt blk.blockSize hbs _ data data.length hk' (Nat.le_refl _)
      simp only [hmod, ne_eq, not_true_eq_false, if_false, ho, R.bind_ok]
      cases unpad_total out with
      | inl h => rw [h]; simp
      | inr h => obtain ⟨r, t, h, _⟩ := h; rw [h]; simp
    · simp [hmod]

/-! ### encrypt / decrypt of one field -/

/-- What is assumed of `base64.StdEncoding`: decoding an encoding gives the
    bytes back; the encoding of a non-empty string is not empty and has no
    white space at either end (its alphabet has none). -/
structure GoodB64 (b : Base64) : Prop where
  dec_enc : ∀ x : Bytes, b.decodeString (b.encodeToString x) = x
  nonempty : ∀ x : Bytes, x ≠ [] → b.encodeToString x ≠ []
  no_space : ∀ x : Bytes, IPAllow.trimSpace (b.encodeToString x) = b.encodeToString x

/-- `E` always succeeds with a non-empty text free of surrounding white space,
    and `D` takes that text back. -/
def Inverse (E D : Bytes → R Bytes) : Prop :=
  ∀ x : Bytes, ∃ y : Bytes, E x = .ok y ∧ y ≠ [] ∧ IPAllow.trimSpace y = y ∧ D y = .ok x

/-- **`decrypt (encrypt data) = data`** for every byte string (user names and
    passwords with arbitrary bytes) and every key the cipher accepts. -/
theorem encrypt_decrypt (nc : Bytes → Option Block) (b64 : Base64) (key : Bytes) (blk : Block)
    (hk : nc key = some blk) (hg : GoodBlock blk) (hb : GoodB64 b64) :
    Inverse (encrypt nc b64 key) (decrypt nc b64 key) := by
  intro data
  obtain ⟨c, hc, hne, hback⟩ := ecb_encrypt_decrypt nc key data blk hk hg
  refine ⟨b64.encodeToString c, ?_, hb.nonempty c hne, hb.no_space c, ?_⟩
  · simp [encrypt, hc]
  · simp [decrypt, hb.dec_enc, hback]

/-- The text `E` produces (total form of `E` under `Inverse`). -/
def encT (E : Bytes → R Bytes) (x : Bytes) : Bytes :=
  match E x with
  | .ok y => y
  | _ => []

theorem encT_spec {E D : Bytes → R Bytes} (h : Inverse E D) (x : Bytes) :
    E x = .ok (encT E x) ∧ encT E x ≠ [] ∧ IPAllow.trimSpace (encT E x) = encT E x ∧ D (encT E x) = .ok x := by
  obtain ⟨y, h1, h2, h3, h4⟩ := h x
  have : encT E x = y := by simp [encT, h1]
  rw [this]; exact ⟨h1, h2, h3, h4⟩

theorem encT_inj {E D : Bytes → R Bytes} (h : Inverse E D) (x x' : Bytes) (e : encT E x = encT E x') : x = x' := by
  have h1 := (encT_spec h x).2.2.2
  have h2 := (encT_spec h x').2.2.2
  rw [e, h2] at h1
  exact (R.ok.inj h1).symm

/-- The encrypted form of a credential pair. -/
def encCred (E : Bytes → R Bytes) (c : Cred) : Cred :=
  { userName := encT E c.userName, password := encT E c.password }

theorem cryptCreds_enc {E D : Bytes → R Bytes} (h : Inverse E D) (cs : List Cred) :
    cryptCreds E cs = .ok (cs.map (encCred E)) := by
  induction cs with
  | nil => rfl
  | cons c cs ih =>
    simp [cryptCreds, (encT_spec h c.userName).1, (encT_spec h c.password).1, ih, encCred]

theorem cryptCreds_dec {E D : Bytes → R Bytes} (h : Inverse E D) (cs : List Cred) :
    cryptCreds D (cs.map (encCred E)) = .ok cs := by
  induction cs with
  | nil => rfl
  | cons c cs ih =>
    simp [cryptCreds, encCred, (encT_spec h c.userName).2.2.2, (encT_spec h c.password).2.2.2, ih]

/-- **`Namespace.Decrypt (Namespace.Encrypt n) = n`** up to the `is_encrypt`
    marker, for every namespace: any number of users and slices, names and
    passwords arbitrary bytes. -/
theorem namespace_crypt_roundtrip {ρ : Type} (nc : Bytes → Option Block) (b64 : Base64) (key : Bytes) (blk : Block)
    (hk : nc key = some blk) (hg : GoodBlock blk) (hb : GoodB64 b64) (n : Namespace ρ) :
    ∃ e, n.encrypt nc b64 key = .ok e ∧ e.isEncrypt = true
      ∧ e.decrypt nc b64 key = .ok { n with isEncrypt := true } := by
  have h := encrypt_decrypt nc b64 key blk hk hg hb
  refine ⟨{ n with isEncrypt := true, users := n.users.map (encCred (encrypt nc b64 key)),
                   slices := n.slices.map (encCred (encrypt nc b64 key)) }, ?_, rfl, ?_⟩
  · simp [Namespace.encrypt, cryptCreds_enc h]
  · simp [Namespace.decrypt, cryptCreds_dec h]

/-- A namespace that is not marked encrypted is loaded as it is. -/
theorem decrypt_plain {ρ : Type} (nc : Bytes → Option Block) (b64 : Base64) (key : Bytes) (n : Namespace ρ)
    (h : n.isEncrypt = false) : n.decrypt nc b64 key = .ok n := by
  simp [Namespace.decrypt, h]

/-- Decrypting the credentials of a stored namespace never crashes, whatever
    the stored texts and the key. -/
theorem cryptCreds_decrypt_total (nc : Bytes → Option Block) (b64 : Base64) (key : Bytes)
    (hsize : ∀ blk, nc key = some blk → 0 < blk.blockSize) (cs : List Cred) :
    cryptCreds (decrypt nc b64 key) cs ≠ .panic := by
  induction cs with
  | nil => simp [cryptCreds]
  | cons c cs ih =>
    have h1 := decryptECB_total nc key (b64.decodeString c.userName) hsize
    have h2 := decryptECB_total nc key (b64.decodeString c.password) hsize
    simp only [cryptCreds, decrypt]
    cases hu : decryptECB nc key (b64.decodeString c.userName) with
    | panic => exact absurd hu h1
    | fail => simp
    | ok u =>
      cases hp : decryptECB nc key (b64.decodeString c.password) with
      | panic => exact absurd hp h2
      | fail => simp
      | ok pw =>
        cases hr : cryptCreds (decrypt nc b64 key) cs with
        | panic => exact absurd hr ih
        | fail => simp
        | ok r => simp

/-- **Loading malformed data or with a wrong key never crashes**: for every
    stored namespace (arbitrary texts in the credential fields), every key and
    every cipher, `Namespace.Decrypt` fails or yields data. -/
theorem namespace_decrypt_total {ρ : Type} (nc : Bytes → Option Block) (b64 : Base64) (key : Bytes)
    (hsize : ∀ blk, nc key = some blk → 0 < blk.blockSize) (n : Namespace ρ) :
    n.decrypt nc b64 key ≠ .panic := by
  unfold Namespace.decrypt
  split
  · simp
  · have h1 := cryptCreds_decrypt_total nc b64 key hsize n.users
    have h2 := cryptCreds_decrypt_total nc b64 key hsize n.slices
    cases hu : cryptCreds (decrypt nc b64 key) n.users with
    | panic => exact absurd hu h1
    | fail => simp
    | ok u =>
      cases hs : cryptCreds (decrypt nc b64 key) n.slices with
      | panic => exact absurd hs h2
      | fail => simp
      | ok sl => simp

/-! ### validation of the stored (encrypted) form -/

def names (l : List Cred) : List Bytes := l.map (·.userName)

/-- A credential pair that `User.verify` leaves alone. -/
def CleanCred (c : Cred) : Prop :=
  c.userName ≠ [] ∧ c.password ≠ [] ∧ IPAllow.trimSpace c.userName = c.userName
    ∧ IPAllow.trimSpace c.password = c.password

/-- Accepted users come out with pairwise different names. -/
theorem verifyUsersFrom_nodup : ∀ (l prev us : List Cred), (names prev).Nodup →
    verifyUsersFrom prev l = some us → (names (prev ++ us)).Nodup := by
  intro l
  induction l with
  | nil =>
    intro prev us hp h
    simp only [verifyUsersFrom, Option.some.injEq] at h
    subst h; simpa using hp
  | cons u rest ih =>
    intro prev us hp h
    unfold verifyUsersFrom at h
    split at h
    · simp at h
    · split at h
      · simp at h
      · split at h
        · simp at h
        · rename_i hany
          cases hr : verifyUsersFrom (prev ++ [trimCred u]) rest with
          | none => rw [hr] at h; simp at h
          | some us' =>
            rw [hr] at h
            simp only [Option.map_some, Option.some.injEq] at h
            subst h
            have hnot : (trimCred u).userName ∉ names prev := by
              intro hm
              apply hany
              simp only [names, List.mem_map] at hm
              obtain ⟨p, hp1, hp2⟩ := hm
              simp only [List.any_eq_true, beq_iff_eq]
              exact ⟨p, hp1, hp2⟩
            have hp' : (names (prev ++ [trimCred u])).Nodup := by
              simp only [names, List.map_append, List.map_cons, List.map_nil]
              rw [List.nodup_append]
              refine ⟨hp, by simp, ?_⟩
              intro a ha b hb
              simp only [List.mem_singleton] at hb
              subst hb
              intro e; subst e
              exact hnot ha
            have := ih _ _ hp' hr
            simpa [List.append_assoc] using this

/-- A list of clean pairs with pairwise different names is accepted unchanged. -/
theorem verifyUsersFrom_clean : ∀ (l prev : List Cred), (∀ c ∈ l, CleanCred c) → (names (prev ++ l)).Nodup →
    verifyUsersFrom prev l = some l := by
  intro l
  induction l with
  | nil => intro prev _ _; rfl
  | cons c rest ih =>
    intro prev hc hn
    obtain ⟨h1, h2, h3, h4⟩ := hc c (by simp)
    have hce : trimCred c = c := by
      simp only [trimCred, h3, h4]
    have hnot : prev.any (fun p => p.userName == c.userName) = false := by
      rw [List.any_eq_false]
      intro p hp
      simp only [beq_iff_eq]
      intro e
      simp only [names, List.map_append, List.map_cons] at hn
      rw [List.nodup_append] at hn
      exact hn.2.2 p.userName (List.mem_map.mpr ⟨p, hp, rfl⟩) c.userName (by simp) e
    have hn' : (names ((prev ++ [c]) ++ rest)).Nodup := by simpa [List.append_assoc] using hn
    unfold verifyUsersFrom
    rw [if_neg h1, if_neg h2, hce, hnot]
    simp only [Bool.false_eq_true, if_false]
    rw [ih (prev ++ [c]) (fun x hx => hc x (by simp [hx])) hn']
    rfl

theorem names_enc (E : Bytes → R Bytes) (l : List Cred) :
    names (l.map (encCred E)) = (names l).map (encT E) := by
  simp [names, encCred, List.map_map, Function.comp_def]

theorem nodup_map_inj {α β : Type} (f : α → β) (hf : ∀ a b, f a = f b → a = b) (l : List α) (h : l.Nodup) :
    (l.map f).Nodup := by
  unfold List.Nodup at *
  rw [List.pairwise_map]
  exact h.imp (fun hab e => hab (hf _ _ e))

/-- The encrypted form of a namespace, as `Namespace.Encrypt` builds it. -/
def encNs {ρ : Type} (E : Bytes → R Bytes) (n1 : Namespace ρ) : Namespace ρ :=
  { n1 with isEncrypt := true, users := n1.users.map (encCred E), slices := n1.slices.map (encCred E) }

/-- **The stored form is valid**: if `Verify` accepted a namespace (result
    `n1`), it accepts the encrypted `n1` too and changes nothing in it, so
    what is written to the coordinator can be loaded. -/
theorem verify_encrypted {ρ : Type} (verifyRest : Bytes → ρ → Option ρ)
    (hidem : ∀ nm r r', verifyRest nm r = some r' → verifyRest nm r' = some r')
    (E D : Bytes → R Bytes) (h : Inverse E D) (n n1 : Namespace ρ) (hv : n.verify verifyRest = .ok n1) :
    (encNs E n1).verify verifyRest = .ok (encNs E n1) := by
  unfold Namespace.verify at hv
  split at hv
  · simp at hv
  · rename_i hname
    split at hv
    · simp at hv
    · rename_i us hus
      split at hv
      · simp at hv
      · rename_i hsl
        split at hv
        · simp at hv
        · rename_i r hr
          simp only [R.ok.injEq] at hv
          subst hv
          simp only [encNs]
          -- users
          have husne : ¬ (n.users.isEmpty = true) := by
            intro hh; simp [verifyUsers, hh] at hus
          have hfrom : verifyUsersFrom [] n.users = some us := by
            simpa [verifyUsers, husne] using hus
          have hnd : (names us).Nodup := by
            have := verifyUsersFrom_nodup n.users [] us (by simp [names]) hfrom
            simpa using this
          have husne' : us ≠ [] := by
            intro hh; subst hh
            cases hu : n.users with
            | nil => simp [hu] at husne
            | cons a b =>
              rw [hu] at hfrom
              unfold verifyUsersFrom at hfrom
              split at hfrom
              · simp at hfrom
              · split at hfrom
                · simp at hfrom
                · split at hfrom
                  · simp at hfrom
                  · cases hq : verifyUsersFrom ([] ++ [trimCred a]) b with
                    | none => rw [hq] at hfrom; simp at hfrom
                    | some z => rw [hq] at hfrom; simp at hfrom
          have hclean : ∀ c ∈ us.map (encCred E), CleanCred c := by
            intro c hc
            simp only [List.mem_map] at hc
            obtain ⟨a, _, rfl⟩ := hc
            have s1 := encT_spec h a.userName
            have s2 := encT_spec h a.password
            exact ⟨s1.2.1, s2.2.1, s1.2.2.1, s2.2.2.1⟩
          have hnd' : (names ([] ++ us.map (encCred E))).Nodup := by
            rw [List.nil_append, names_enc]
            exact nodup_map_inj _ (encT_inj h) _ hnd
          have hvu : verifyUsers (us.map (encCred E)) = some (us.map (encCred E)) := by
            unfold verifyUsers
            have : ¬ ((us.map (encCred E)).isEmpty = true) := by
              simp [List.isEmpty_iff, husne']
            rw [if_neg this]
            exact verifyUsersFrom_clean _ [] hclean hnd'
          -- slices
          have hvs : verifySlices (n.slices.map (encCred E)) = true := by
            have hsl' : verifySlices n.slices = true := by simpa using hsl
            unfold verifySlices at hsl' ⊢
            simp only [Bool.and_eq_true, Bool.not_eq_true', List.all_eq_true, decide_eq_true_eq] at hsl' ⊢
            refine ⟨by simpa [List.isEmpty_iff] using hsl'.1, ?_⟩
            intro c hc
            simp only [List.mem_map] at hc
            obtain ⟨a, _, rfl⟩ := hc
            exact (encT_spec h a.userName).2.1
          unfold Namespace.verify
          simp only [hname, if_false, hvu, hvs, Bool.not_true, Bool.false_eq_true, hidem _ _ _ hr]

/-- What is assumed of `encoding/json` on namespaces: decoding an encoding
    gives the value back. -/
def GoodCodec {ρ ω : Type} (c : Codec ρ ω) : Prop := ∀ x, c.decode (c.encode x) = some x

theorem read_update {ρ ω : Type} (codec : Codec ρ ω) (c : Client ω) (pfx : Bytes) (p : Namespace ρ) :
    Client.read (updateNamespace codec c pfx p) (namespacePath pfx p.name) = some (codec.encode p) := by
  simp [Client.read, updateNamespace]

/-- **C33, round trip through the store.**  For every namespace `n` that the
    control plane's validation accepts (normalised to `n1`), every key the
    cipher accepts, every storage prefix and whatever the coordinator already
    holds: encrypting `n1`, writing it with `UpdateNamespace` and reading it
    with `LoadNamespace` (decode, validate, decrypt) yields `n1` exactly — all
    fields, user names and passwords with arbitrary bytes — with only the
    `is_encrypt` marker set. -/
theorem store_roundtrip {ρ ω : Type} (codec : Codec ρ ω) (hcodec : GoodCodec codec)
    (verifyRest : Bytes → ρ → Option ρ)
    (hidem : ∀ nm r r', verifyRest nm r = some r' → verifyRest nm r' = some r')
    (nc : Bytes → Option Block) (b64 : Base64) (key : Bytes) (blk : Block)
    (hk : nc key = some blk) (hg : GoodBlock blk) (hb : GoodB64 b64)
    (c : Client ω) (pfx : Bytes) (n n1 : Namespace ρ) (hv : n.verify verifyRest = .ok n1) :
    ∃ e, n1.encrypt nc b64 key = .ok e ∧
      loadNamespace codec verifyRest nc b64 (updateNamespace codec c pfx e) pfx key n.name
        = .ok { n1 with isEncrypt := true } := by
  have h := encrypt_decrypt nc b64 key blk hk hg hb
  have hname : n1.name = n.name := by
    unfold Namespace.verify at hv
    split at hv
    · simp at hv
    · split at hv
      · simp at hv
      · split at hv
        · simp at hv
        · split at hv
          · simp at hv
          · simp only [R.ok.injEq] at hv; subst hv; rfl
  refine ⟨encNs (encrypt nc b64 key) n1, ?_, ?_⟩
  · simp [Namespace.encrypt, cryptCreds_enc h, encNs]
  · have hr := read_update codec c pfx (encNs (encrypt nc b64 key) n1)
    have hn2 : (encNs (encrypt nc b64 key) n1).name = n.name := hname
    rw [hn2] at hr
    unfold loadNamespace
    rw [hr]
    simp only [hcodec _]
    rw [verify_encrypted verifyRest hidem _ _ h n n1 hv]
    simp [Namespace.decrypt, cryptCreds_dec h, encNs]

/-- The proxy's local copy: what `LoadOriginNamespace` returns for a stored
    namespace (decoded and validated, not decrypted) is the stored namespace
    itself, so writing it to the local store and loading from there is the
    same round trip (`store_roundtrip` with the local client as `c`). -/
theorem origin_is_stored {ρ ω : Type} (codec : Codec ρ ω) (hcodec : GoodCodec codec)
    (verifyRest : Bytes → ρ → Option ρ)
    (hidem : ∀ nm r r', verifyRest nm r = some r' → verifyRest nm r' = some r')
    (E D : Bytes → R Bytes) (h : Inverse E D) (n n1 : Namespace ρ) (hv : n.verify verifyRest = .ok n1) :
    (codec.decode (codec.encode (encNs E n1))).map (fun p => p.verify verifyRest) = some (.ok (encNs E n1)) := by
  rw [hcodec _]
  simp only [Option.map_some]
  rw [verify_encrypted verifyRest hidem E D h n n1 hv]

/-! ### paths: splitting and joining on `/` -/

theorem splitOn_ne_nil (sep : UInt8) (s : Bytes) : IPAllow.splitOn sep s ≠ [] := by
  cases s with
  | nil => simp [IPAllow.splitOn]
  | cons c cs =>
    unfold IPAllow.splitOn
    split
    · simp
    · split <;> simp

theorem splitOn_cons (sep c : UInt8) (cs : Bytes) :
    IPAllow.splitOn sep (c :: cs) =
      if c = sep then [] :: IPAllow.splitOn sep cs
      else ((c :: (IPAllow.splitOn sep cs).headD []) :: (IPAllow.splitOn sep cs).tail) := by
  rw [IPAllow.splitOn]
  cases h : IPAllow.splitOn sep cs with
  | nil => exact absurd h (splitOn_ne_nil sep cs)
  | cons p ps => simp

theorem splitOn_append (sep : UInt8) (a b : Bytes) :
    IPAllow.splitOn sep (a ++ sep :: b) = IPAllow.splitOn sep a ++ IPAllow.splitOn sep b := by
  induction a with
  | nil => simp [splitOn_cons, IPAllow.splitOn]
  | cons c a ih =>
    rw [List.cons_append, splitOn_cons, ih, splitOn_cons]
    cases h : IPAllow.splitOn sep a with
    | nil => exact absurd h (splitOn_ne_nil sep a)
    | cons p ps =>
      by_cases hc : c = sep <;> simp [hc]

theorem splitOn_no_sep (sep : UInt8) (c : Bytes) (h : sep ∉ c) : IPAllow.splitOn sep c = [c] := by
  induction c with
  | nil => simp [IPAllow.splitOn]
  | cons x xs ih =>
    have hx : x ≠ sep := by intro e; subst e; simp at h
    have hxs : sep ∉ xs := by intro hm; exact h (List.mem_cons_of_mem _ hm)
    rw [splitOn_cons, if_neg hx, ih hxs]; rfl

theorem splitOn_mem_no_sep (sep : UInt8) (s : Bytes) : ∀ c ∈ IPAllow.splitOn sep s, sep ∉ c := by
  induction s with
  | nil => intro c hc; simp [IPAllow.splitOn] at hc; subst hc; simp
  | cons x xs ih =>
    intro c hc
    rw [splitOn_cons] at hc
    cases h : IPAllow.splitOn sep xs with
    | nil => exact absurd h (splitOn_ne_nil sep xs)
    | cons p ps =>
      rw [h] at hc ih
      by_cases hx : x = sep
      · rw [if_pos hx] at hc
        simp only [List.mem_cons] at hc
        cases hc with
        | inl e => subst e; simp
        | inr e => exact ih c (by simpa using e)
      · rw [if_neg hx] at hc
        simp only [List.headD_cons, List.tail_cons, List.mem_cons] at hc
        cases hc with
        | inl e =>
          subst e
          intro hm
          simp only [List.mem_cons] at hm
          cases hm with
          | inl e => exact hx e.symm
          | inr e => exact ih p (by simp) e
        | inr e => exact ih c (by simp [e])

/-- A real path component: not empty, not `.`, not `..`, no `/` inside. -/
def Real (c : Bytes) : Prop := c ≠ [] ∧ c ≠ dot ∧ c ≠ dotdot ∧ slash ∉ c

theorem split_join (cs : List Bytes) (hne : cs ≠ []) (h : ∀ c ∈ cs, slash ∉ c) :
    splitSlash (joinSlash cs) = cs := by
  induction cs with
  | nil => exact absurd rfl hne
  | cons c rest ih =>
    cases rest with
    | nil => simp [joinSlash, splitSlash, splitOn_no_sep slash c (h c (by simp))]
    | cons c2 rest =>
      have : joinSlash (c :: c2 :: rest) = c ++ slash :: joinSlash (c2 :: rest) := rfl
      rw [this]
      unfold splitSlash at ih ⊢
      rw [splitOn_append, splitOn_no_sep slash c (h c (by simp)), ih (by simp) (fun x hx => h x (by simp [hx]))]
      rfl

/-! ### paths: `filepath.Clean` -/

/-- Components that `Clean` keeps (neither empty nor `.`). -/
def keep (c : Bytes) : Bool := decide (c ≠ [] ∧ c ≠ dot)

theorem cleanStep_skip (r : Bool) (st : Nat × List Bytes) (c : Bytes) (h : c = [] ∨ c = dot) :
    cleanStep r st c = st := by simp [cleanStep, h]

theorem dotdot_not_skip : ¬ (dotdot = [] ∨ dotdot = dot) := by decide

theorem cleanStep_pop (r : Bool) (u : Nat) (t : Bytes) (tl : List Bytes) :
    cleanStep r (u, t :: tl) dotdot = (u, tl) := by simp [cleanStep, dotdot_not_skip]

theorem cleanStep_root (u : Nat) : cleanStep true (u, []) dotdot = (u, []) := by
  simp [cleanStep, dotdot_not_skip]

theorem cleanStep_up (u : Nat) : cleanStep false (u, []) dotdot = (u + 1, []) := by
  simp [cleanStep, dotdot_not_skip]

theorem cleanStep_push (r : Bool) (u : Nat) (stk : List Bytes) (c : Bytes) (h1 : ¬ (c = [] ∨ c = dot))
    (h2 : c ≠ dotdot) : cleanStep r (u, stk) c = (u, c :: stk) := by simp [cleanStep, h1, h2]

/-- Without `..` components, `Clean` just drops the empty and `.` components. -/
theorem fold_no_dotdot (r : Bool) : ∀ (cs : List Bytes) (u : Nat) (stk : List Bytes), (∀ c ∈ cs, c ≠ dotdot) →
    cs.foldl (cleanStep r) (u, stk) = (u, (cs.filter keep).reverse ++ stk) := by
  intro cs
  induction cs with
  | nil => intro u stk _; simp
  | cons c cs ih =>
    intro u stk h
    have hc := h c (by simp)
    have hcs : ∀ x ∈ cs, x ≠ dotdot := fun x hx => h x (by simp [hx])
    simp only [List.foldl_cons]
    by_cases hk : c = [] ∨ c = dot
    · have : keep c = false := by
        simp only [keep, decide_eq_false_iff_not]
        intro ⟨h1, h2⟩
        cases hk with
        | inl e => exact h1 e
        | inr e => exact h2 e
      rw [cleanStep_skip r _ c hk, List.filter_cons, this]
      exact ih u stk hcs
    · have : keep c = true := by
        simp only [keep, decide_eq_true_eq]
        exact ⟨fun e => hk (Or.inl e), fun e => hk (Or.inr e)⟩
      rw [cleanStep_push r u stk c hk hc, List.filter_cons, this, ih u (c :: stk) hcs]
      simp

/-- The state of `Clean` only ever holds real components, and a rooted path keeps no `..`. -/
theorem fold_invariant (r : Bool) : ∀ (cs : List Bytes) (u : Nat) (stk : List Bytes),
    (∀ c ∈ cs, slash ∉ c) → (∀ c ∈ stk, Real c) → (r = true → u = 0) →
    (∀ c ∈ (cs.foldl (cleanStep r) (u, stk)).2, Real c) ∧ (r = true → (cs.foldl (cleanStep r) (u, stk)).1 = 0) := by
  intro cs
  induction cs with
  | nil => intro u stk _ hs hu; exact ⟨hs, hu⟩
  | cons c cs ih =>
    intro u stk hcs hs hu
    have hc := hcs c (by simp)
    have hcs' : ∀ x ∈ cs, slash ∉ x := fun x hx => hcs x (by simp [hx])
    simp only [List.foldl_cons]
    by_cases hk : c = [] ∨ c = dot
    · rw [cleanStep_skip r _ c hk]; exact ih u stk hcs' hs hu
    · by_cases hd : c = dotdot
      · subst hd
        cases stk with
        | nil =>
          cases r with
          | true => rw [cleanStep_root]; exact ih u [] hcs' hs hu
          | false =>
            rw [cleanStep_up]
            exact ih (u + 1) [] hcs' (by simp) (by intro h; simp at h)
        | cons t tl =>
          rw [cleanStep_pop]
          exact ih u tl hcs' (fun x hx => hs x (by simp [hx])) hu
      · rw [cleanStep_push r u stk c hk hd]
        apply ih u (c :: stk) hcs' _ hu
        intro x hx
        simp only [List.mem_cons] at hx
        cases hx with
        | inl e => subst e; exact ⟨fun e => hk (Or.inl e), fun e => hk (Or.inr e), hd, hc⟩
        | inr e => exact hs x e

/-- **Normal form of `filepath.Clean`**: the result is `render rooted ups reals`
    with real components only, no `..` kept under a root. -/
theorem clean_nf (p : Bytes) :
    ∃ ups reals, (∀ c ∈ reals, Real c) ∧ ((p.head? == some slash) = true → ups = 0)
      ∧ filepathClean p = render (p.head? == some slash) ups reals := by
  by_cases hp : p = []
  · subst hp
    exact ⟨0, [], by simp, by simp, by simp [filepathClean, render]⟩
  · have inv := fold_invariant (p.head? == some slash) (splitSlash p) 0 []
      (splitOn_mem_no_sep slash p) (by simp) (by simp)
    refine ⟨((splitSlash p).foldl (cleanStep (p.head? == some slash)) (0, [])).1,
      ((splitSlash p).foldl (cleanStep (p.head? == some slash)) (0, [])).2.reverse, ?_, inv.2, ?_⟩
    · intro c hc; exact inv.1 c (by simpa using hc)
    · simp [filepathClean, hp]

/-! ### paths: the storage area -/

theorem filter_keep_real (l : List Bytes) (h : ∀ c ∈ l, Real c) : l.filter keep = l := by
  rw [List.filter_eq_self]
  intro c hc
  have := h c hc
  simp only [keep, decide_eq_true_eq]
  exact ⟨this.1, this.2.1⟩

theorem keep_nil : keep [] = false := by decide
theorem keep_dot : keep dot = false := by decide
theorem dot_ne_dotdot : dot ≠ dotdot := by decide
theorem slash_not_in_dot : slash ∉ dot := by decide

/-- Components of a joined list of real components (or of the empty text). -/
theorem split_join_real (l : List Bytes) (h : ∀ c ∈ l, Real c) :
    (∀ c ∈ splitSlash (joinSlash l), c ≠ dotdot) ∧ (splitSlash (joinSlash l)).filter keep = l := by
  cases l with
  | nil =>
    have : splitSlash (joinSlash []) = [[]] := by simp [joinSlash, splitSlash, IPAllow.splitOn]
    rw [this]
    refine ⟨by intro c hc; simp at hc; subst hc; decide, by simp [keep_nil]⟩
  | cons a l =>
    rw [split_join (a :: l) (by simp) (fun c hc => (h c hc).2.2.2)]
    exact ⟨fun c hc => (h c hc).2.2.1, filter_keep_real _ h⟩

/-- Components of a cleaned path that kept no `..`. -/
theorem split_render (rooted : Bool) (reals : List Bytes) (h : ∀ c ∈ reals, Real c) :
    (∀ c ∈ splitSlash (render rooted 0 reals), c ≠ dotdot)
      ∧ (splitSlash (render rooted 0 reals)).filter keep = reals := by
  cases rooted with
  | true =>
    have e : render true 0 reals = [] ++ slash :: joinSlash reals := by simp [render]
    rw [e]
    unfold splitSlash
    rw [splitOn_append]
    have hj := split_join_real reals h
    unfold splitSlash at hj
    have h0 : IPAllow.splitOn slash [] = [[]] := by simp [IPAllow.splitOn]
    rw [h0]
    refine ⟨?_, ?_⟩
    · intro c hc
      simp only [List.cons_append, List.nil_append, List.mem_cons] at hc
      cases hc with
      | inl e => subst e; decide
      | inr e => exact hj.1 c e
    · simp only [List.cons_append, List.nil_append, List.filter_cons, keep_nil]
      exact hj.2
  | false =>
    cases reals with
    | nil =>
      have e : render false 0 [] = dot := by simp [render]
      rw [e]
      unfold splitSlash
      rw [splitOn_no_sep slash dot slash_not_in_dot]
      exact ⟨by intro c hc; simp at hc; subst hc; exact dot_ne_dotdot, by simp [keep_dot]⟩
    | cons a l =>
      have e : render false 0 (a :: l) = joinSlash (a :: l) := by simp [render]
      rw [e]
      exact split_join_real (a :: l) h

/-- **Joining under the storage directory.**  For a storage directory
    `/r1/…/rk` of real components and a cleaned path without `..`,
    `filepath.Join(storagePath, cleanPath)` is `/r1/…/rk/c1/…/cm`. -/
theorem join_storage (root reals : List Bytes) (rooted : Bool) (hroot : ∀ c ∈ root, Real c)
    (hreals : ∀ c ∈ reals, Real c) :
    filepathJoin [slash :: joinSlash root, render rooted 0 reals] = slash :: joinSlash (root ++ reals) := by
  have hj : joinSlash [slash :: joinSlash root, render rooted 0 reals]
      = [] ++ slash :: (joinSlash root ++ slash :: render rooted 0 reals) := by simp [joinSlash]
  have hne : ((slash :: joinSlash root) == []) = false := by simp
  simp only [filepathJoin, List.dropWhile_cons, hne, Bool.false_eq_true, if_false]
  rw [hj]
  have hX : ([] ++ slash :: (joinSlash root ++ slash :: render rooted 0 reals)) ≠ [] := by simp
  have hhead : (([] ++ slash :: (joinSlash root ++ slash :: render rooted 0 reals) : Bytes).head? == some slash) = true := by
    simp
  unfold filepathClean
  rw [if_neg hX]
  simp only [hhead]
  unfold splitSlash
  rw [splitOn_append, splitOn_append]
  have h0 : IPAllow.splitOn slash [] = [[]] := by simp [IPAllow.splitOn]
  have h1 := split_join_real root hroot
  have h2 := split_render rooted reals hreals
  unfold splitSlash at h1 h2
  rw [h0, fold_no_dotdot true _ 0 []]
  · simp only [List.filter_append, List.filter_cons, keep_nil, Bool.false_eq_true, if_false, List.filter_nil,
      List.nil_append, h1.2, h2.2, List.append_nil, List.reverse_reverse]
    simp [render]
  · intro c hc
    simp only [List.mem_append, List.mem_cons, List.not_mem_nil, or_false] at hc
    rcases hc with e | e | e
    · subst e; decide
    · exact h1.1 c e
    · exact h2.1 c e

/-- A path that keeps a leading `..` after cleaning is refused by `safeJoinPath`'s traversal test. -/
theorem updir_refused (ups : Nat) (reals : List Bytes) (hu : 0 < ups) :
    render false ups reals = dotdot ∨ (dotdot ++ [slash]).isPrefixOf (render false ups reals) = true := by
  obtain ⟨k, rfl⟩ : ∃ k, ups = k + 1 := ⟨ups - 1, by omega⟩
  have e : render false (k + 1) reals = joinSlash (dotdot :: (List.replicate k dotdot ++ reals)) := by
    simp [render, List.replicate_succ]
  rw [e]
  cases hm : List.replicate k dotdot ++ reals with
  | nil => left; simp [joinSlash]
  | cons a l =>
    right
    have : joinSlash (dotdot :: a :: l) = dotdot ++ slash :: joinSlash (a :: l) := rfl
    rw [this]
    simp [dotdot, List.isPrefixOf]

theorem joinSlash_head (a : Bytes) (l : List Bytes) (ha : Real a) : (joinSlash (a :: l)).head? ≠ some slash := by
  obtain ⟨h1, _, _, h4⟩ := ha
  cases a with
  | nil => exact absurd rfl h1
  | cons x xs =>
    have hx : x ≠ slash := by intro e; subst e; simp at h4
    cases l with
    | nil => simp [joinSlash]; exact hx
    | cons b l => simp [joinSlash]; exact hx

/-- `filepath.Rel("/", p)` of an absolute path does not start with `/`. -/
theorem relRoot_head (p : Bytes) (h : (p.head? == some slash) = true) : (relRoot p).head? ≠ some slash := by
  obtain ⟨ups, reals, hr, hu, hc⟩ := clean_nf p
  unfold relRoot
  simp only
  rw [hc, h]
  have hups := hu h
  subst hups
  split
  · decide
  · rename_i hne
    cases reals with
    | nil => simp [render, joinSlash] at hne
    | cons a l =>
      have : (render true 0 (a :: l)).drop 1 = joinSlash (a :: l) := by simp [render]
      rw [this]
      exact joinSlash_head a l (hr a (by simp))

theorem clean_accepted (q : Bytes) (hqh : (q.head? == some slash) = false)
    (htrav : ¬ (filepathClean q = dotdot ∨ (dotdot ++ [slash]).isPrefixOf (filepathClean q) = true
      ∨ containsSub (slash :: dotdot ++ [slash]) (filepathClean q) = true)) :
    ∃ reals, (∀ c ∈ reals, Real c) ∧ filepathClean q = render false 0 reals := by
  obtain ⟨ups, reals, hr, _, hc⟩ := clean_nf q
  rw [hqh] at hc
  refine ⟨reals, hr, ?_⟩
  by_cases hu : ups = 0
  · subst hu; exact hc
  · exfalso
    apply htrav
    rw [hc]
    cases updir_refused ups reals (by omega) with
    | inl e => exact Or.inl e
    | inr e => exact Or.inr (Or.inl e)

/-- What `safeJoinPath` accepts is a cleaned relative path without `..`:
    `.` or `c1/…/cm` with real components. -/
theorem safeJoinPath_ok (path cp : Bytes) (h : safeJoinPath path = .ok cp) :
    ∃ reals, (∀ c ∈ reals, Real c) ∧ cp = render false 0 reals := by
  unfold safeJoinPath at h
  by_cases hp : path = []
  · simp [hp] at h
  · rw [if_neg hp] at h
    simp only at h
    -- the path handed to Clean does not start with `/`
    have key : ∀ q : Bytes, (q.head? == some slash) = false →
        (if filepathClean q = dotdot ∨ (dotdot ++ [slash]).isPrefixOf (filepathClean q) = true
            ∨ containsSub (slash :: dotdot ++ [slash]) (filepathClean q) = true then PathR.err PathErr.traversal
         else if (filepathClean q).any (fun c => forbiddenChars.contains c) = true then PathR.err PathErr.chars
         else if (filepathClean q).length > maxPathLen then PathR.err PathErr.tooLong
         else PathR.ok (filepathClean q)) = PathR.ok cp →
        ∃ reals, (∀ c ∈ reals, Real c) ∧ cp = render false 0 reals := by
      intro q hqh hq
      by_cases htrav : (filepathClean q = dotdot ∨ (dotdot ++ [slash]).isPrefixOf (filepathClean q) = true
          ∨ containsSub (slash :: dotdot ++ [slash]) (filepathClean q) = true)
      · rw [if_pos htrav] at hq; simp at hq
      · rw [if_neg htrav] at hq
        split at hq
        · simp at hq
        · split at hq
          · simp at hq
          · simp only [PathR.ok.injEq] at hq
            subst hq
            exact clean_accepted q hqh htrav
    by_cases ha : (path.head? == some slash) = true
    · rw [if_pos ha] at h
      have := relRoot_head path ha
      exact key (relRoot path) (by simpa using this) h
    · rw [if_neg ha] at h
      exact key path (by simpa using ha) h

/-- **C33, confinement of namespace files.**  For every storage directory
    `/r1/…/rk` (absolute and clean, as `filepath.Abs` returns it), every file
    suffix and every path text — `..`, absolute paths, doubled slashes, unusual
    characters, any length — `FullNamespacePath` returns an error or
    `/r1/…/rk/c1/…/cm<suffix>` with `m ≥ 1` real components (none empty, `.`,
    `..`, none holding `/`): a file strictly below the storage directory. -/
theorem path_confined (root : List Bytes) (hroot : ∀ c ∈ root, Real c) (suffix path s : Bytes)
    (h : fullNamespacePath (slash :: joinSlash root) suffix path = .ok s) :
    ∃ comps, comps ≠ [] ∧ (∀ c ∈ comps, Real c) ∧ s = slash :: joinSlash (root ++ comps) ++ suffix := by
  unfold fullNamespacePath at h
  split at h
  · simp at h
  · rename_i rel hrel
    split at h
    · simp at h
    · rename_i hnd
      simp only [PathR.ok.injEq] at h
      subst h
      obtain ⟨reals, hr, hcp⟩ := safeJoinPath_ok path rel hrel
      subst hcp
      refine ⟨reals, ?_, hr, ?_⟩
      · intro e; subst e; exact hnd (by simp [render])
      · rw [join_storage root reals false hroot hr]

/-- **C33, confinement of directory listings**: `FullDirPath` returns an error
    or `/r1/…/rk/c1/…/cm` with `m ≥ 0` real components: the storage directory
    or a directory below it. -/
theorem dir_confined (root : List Bytes) (hroot : ∀ c ∈ root, Real c) (path s : Bytes)
    (h : fullDirPath (slash :: joinSlash root) path = .ok s) :
    ∃ comps, (∀ c ∈ comps, Real c) ∧ s = slash :: joinSlash (root ++ comps) := by
  unfold fullDirPath at h
  split at h
  · simp at h
  · rename_i rel hrel
    simp only [PathR.ok.injEq] at h
    subst h
    obtain ⟨reals, hr, hcp⟩ := safeJoinPath_ok path rel hrel
    subst hcp
    exact ⟨reals, hr, join_storage root reals false hroot hr⟩

/-! ### non-vacuity and the repaired defect -/

/-- A block cipher meeting `GoodBlock`: 16-byte blocks, reversal both ways. -/
def revBlock : Block := { blockSize := 16, encrypt := List.reverse, decrypt := List.reverse }

theorem revBlock_good : GoodBlock revBlock :=
  ⟨by decide, by decide, by intro x h; simpa [revBlock] using h, by intro x _; simp [revBlock]⟩

/-- An encoding meeting `GoodB64`: the text between two letters `A`. -/
def wrapB64 : Base64 :=
  { encodeToString := fun x => 0x41 :: x ++ [0x41], decodeString := fun y => (y.drop 1).dropLast }

theorem find_prefix_A (t : Bytes) :
    IPAllow.spaceSeqs.find? (fun q => q.isPrefixOf (0x41 :: t)) = none := by
  simp [IPAllow.spaceSeqs, List.isPrefixOf]

theorem find_suffix_A (t : Bytes) :
    IPAllow.spaceSeqs.find? (fun q => q.reverse.isPrefixOf (0x41 :: t)) = none := by
  simp [IPAllow.spaceSeqs, List.isPrefixOf]

theorem trim_wrapped (x : Bytes) : IPAllow.trimSpace (0x41 :: x ++ [0x41]) = 0x41 :: x ++ [0x41] := by
  have hl : IPAllow.trimLeft (0x41 :: x ++ [0x41]) = 0x41 :: x ++ [0x41] := by
    simp only [IPAllow.trimLeft, List.cons_append, List.length_cons]
    rw [IPAllow.trimLeftFuel, find_prefix_A]
  unfold IPAllow.trimSpace
  simp only [hl]
  have hr : (0x41 :: x ++ [0x41]).reverse = 0x41 :: (x.reverse ++ [0x41]) := by simp
  rw [hr]
  simp only [List.cons_append, List.length_cons]
  rw [IPAllow.trimSpace.go, find_suffix_A]
  simp

theorem wrapB64_good : GoodB64 wrapB64 :=
  ⟨by intro x; simp [wrapB64], by intro x _; simp [wrapB64], by intro x; exact trim_wrapped x⟩

/-- A codec meeting `GoodCodec`: the coordinator holds the value itself. -/
def idCodec (ρ : Type) : Codec ρ (Namespace ρ) := { encode := id, decode := some }

theorem idCodec_good (ρ : Type) : GoodCodec (idCodec ρ) := by intro x; rfl

/-- The submitted namespace of the example: two users (one with surrounding
    white space and a byte that is not UTF-8), one slice. -/
def exNs : Namespace Unit :=
  { isEncrypt := false, name := [0x6e, 0x73],
    users := [{ userName := [0x20, 0x61, 0xff], password := [0x70, 0x09] }, { userName := [0x62], password := [0x00] }],
    slices := [{ userName := [0x72, 0x6f, 0x6f, 0x74], password := [] }], rest := () }

/-- What `Verify` makes of it: names and passwords of users trimmed. -/
def exNs1 : Namespace Unit :=
  { exNs with users := [{ userName := [0x61, 0xff], password := [0x70] }, { userName := [0x62], password := [0x00] }] }

set_option maxRecDepth 100000 in
theorem exNs_verify : exNs.verify (fun _ r => some r) = .ok exNs1 := by decide

/-- Non-vacuity of `store_roundtrip`: all hypotheses hold for a concrete
    cipher, encoding, codec, key and namespace; the loaded namespace is the
    validated one with the marker set. -/
example : ∃ e, exNs1.encrypt (fun _ => some revBlock) wrapB64 [1, 2, 3] = .ok e ∧
    loadNamespace (idCodec Unit) (fun _ r => some r) (fun _ => some revBlock) wrapB64
      (updateNamespace (idCodec Unit) [] [0x2f, 0x67] e) [0x2f, 0x67] [1, 2, 3] exNs.name
      = .ok { exNs1 with isEncrypt := true } :=
  store_roundtrip (idCodec Unit) (idCodec_good Unit) (fun _ r => some r) (by intro _ r r' h; simpa using h)
    (fun _ => some revBlock) wrapB64 [1, 2, 3] revBlock rfl revBlock_good wrapB64_good [] [0x2f, 0x67] exNs exNs1 exNs_verify

/-- Non-vacuity of `pad_unpad` and `unpad_total`: 5 bytes, block size 8; a
    buffer whose last byte exceeds its length; one whose last byte is 0. -/
example : pkcs5Padding [1, 2, 3, 4, 5] 8 = .ok [1, 2, 3, 4, 5, 3, 3, 3]
    ∧ pkcs5UnPadding [1, 2, 3, 4, 5, 3, 3, 3] = .ok [1, 2, 3, 4, 5]
    ∧ pkcs5UnPadding [1, 2, 9] = .fail
    ∧ pkcs5UnPadding [1, 2, 0] = .ok [1, 2, 0] := by decide

/-- The texts `/root/store`, `.json`. -/
def exStore : Bytes := [0x2f, 0x72, 0x6f, 0x6f, 0x74, 0x2f, 0x73, 0x74, 0x6f, 0x72, 0x65]
def exJson : Bytes := [0x2e, 0x6a, 0x73, 0x6f, 0x6e]

set_option maxRecDepth 100000 in
/-- Non-vacuity of `path_confined`: `/g/namespace/../../x//y/` stays below the
    storage directory, `../x` and `/g/../..` are refused. -/
example :
    fullNamespacePath exStore exJson
        [0x2f, 0x67, 0x2f, 0x6e, 0x73, 0x2f, 0x2e, 0x2e, 0x2f, 0x2e, 0x2e, 0x2f, 0x78, 0x2f, 0x2f, 0x79, 0x2f]
      = .ok (exStore ++ [0x2f, 0x78, 0x2f, 0x79] ++ exJson)
    ∧ fullNamespacePath exStore exJson [0x2e, 0x2e, 0x2f, 0x78] = .err .traversal
    ∧ fullNamespacePath exStore exJson [0x2f, 0x67, 0x2f, 0x2e, 0x2e, 0x2f, 0x2e, 0x2e] = .err .noFile
    ∧ exStore = slash :: joinSlash [[0x72, 0x6f, 0x6f, 0x74], [0x73, 0x74, 0x6f, 0x72, 0x65]] := by decide

/-- `FullNamespacePath` before fix 539bc23 (no test for `.`). -/
def fullNamespacePathOld (storagePath fileSuffix path : Bytes) : PathR :=
  match safeJoinPath path with
  | .err e => .err e
  | .ok relPath => .ok (filepathJoin [storagePath, relPath] ++ fileSuffix)

set_option maxRecDepth 100000 in
/-- **Witness of the repaired defect.**  Before the fix, the namespace name
    `../..` under the prefix `/g` (path `/g/namespace/../..` = `/`) made the
    local client write `/root/store.json`, beside the storage directory. -/
theorem storage_sibling_witness :
    namespacePath [0x2f, 0x67] [0x2e, 0x2e, 0x2f, 0x2e, 0x2e] = [slash]
    ∧ fullNamespacePathOld exStore exJson [slash] = .ok (exStore ++ exJson)
    ∧ fullNamespacePath exStore exJson [slash] = .err .noFile := by decide

end GaeaVerif.C33
