import GaeaVerif.Lemmas.TokenizeC06
import GaeaVerif.Model.SpecC22
import GaeaVerif.Gen.Consts
/-
  C22 — Read/write splitting sends only plain reads to replicas.

  Theorems about `Model/RwSplitC22.lean` (`checkExecuteFromSlave`, `handleShow`,
  `getBackendConn`, `doQuery`) and the lexical layer of `Model/TokenizeC06.lean`
  (`Tokenize`, `TrimTrailingComments`); the tie to /repo is the correspondence
  check `gvh run C22`.  `Model/SpecC22.lean` holds the executable reference
  semantics the oracle evaluates.

  Rendering of the English property.  "May run on a replica" is the value `true`
  of `checkExecuteFromSlave` (the fromSlave flag) and, end to end, the node class
  `Node.slave` in the `Route` of `doQuery`.
  * writes never: `writes_go_to_master`, `replica_only_for_plain_reads`;
  * locking reads never, whatever white space and comments follow the clause
    and whatever the letter case: `locking_read_goes_to_master` (grammar of the
    trailing margin: `Margin`; of the clause: `LockClause`), and its form on the
    executable reference semantics `spec_locking_read_goes_to_master`;
  * statements with a master hint never, wherever the `/*master*/` comment
    stands and whatever other comments surround it: `master_hint_goes_to_master`,
    and on the executable reference semantics `hinted_statement_goes_to_master`;
  * read_only probes never: `read_only_probe_goes_to_master`;
  * only read/write-split (or read-only) users at all: `rw_split_decision`;
  * inside a transaction every statement runs on the master: `in_transaction_master`
    (every session, keep-session and read-only users included since fix cb8bfb6:
    `keepsession_master`; the pinned decision is kept in
    `readonly_keepsession_tx_on_replica_witness`);
  * the oracle of the correspondence check accepts every decision of the model:
    `replicaVerdict_of_flag`, `replicaVerdict_of_route`.
-/
namespace GaeaVerif.C22
open GaeaVerif GaeaVerif.Tok GaeaVerif.FastPath GaeaVerif.RwSplit

/-! ### facts regenerated from the source on every run -/

theorem constants_eq_source :
    String.ofList Tok.masterHint = Gen.c22_masterHint ∧
    String.ofList RwSplit.readonlyVariable = Gen.c22_readonlyVariable ∧
    String.ofList RwSplit.atReadonly = "@@" ++ Gen.c22_readonlyVariable ∧
    String.ofList RwSplit.atGlobalReadonly = "@@" ++ Gen.c22_globalReadonlyVariable ∧
    (RwSplit.rwReadOnly, RwSplit.rwReadWrite, RwSplit.rwSplitOn) =
      (Gen.c22_ReadOnly, Gen.c22_ReadWrite, Gen.c22_ReadWriteSplit) := by decide

/-- `canHandleWithoutPlan` lists SHOW and the kinds the model leaves out. -/
theorem withoutPlanKinds_eq_source :
    FastPath.stmtShow :: RwSplit.otherWithoutPlan = Gen.c22_withoutPlanKinds := by decide

/-- The statement kinds the model names by number are the parser's. -/
theorem stmtKinds_eq_source :
    [("StmtDDL", RwSplit.stmtDDL), ("StmtLoad", RwSplit.stmtLoad)].all
      (fun kv => Gen.c21StmtKinds.lookup kv.1 == some kv.2) = true ∧
    ["StmtCallProc", "StmtPrepare", "StmtExecute", "StmtWith", "StmtComment"].map
      (fun k => Gen.c21StmtKinds.lookup k) = RwSplit.roTextDecided.map some := by decide

/-! ### the lexical vocabulary of the statements -/

/-- White space and comments: what may follow the last token of a statement.
    Blanks (` `, `\t`, `\n`, `\v`, `\f`, `\r`), block comments (the body holds
    no `*/`), `#` comments and `--` comments (`--` followed by a blank, a control
    character or the end of the line) up to the end of the line or of the text. -/
inductive Margin : Str → Prop where
  | nil : Margin []
  | blank (c : Char) (r : Str) : isBlank c = true → Margin r → Margin (c :: r)
  | block (b r : Str) : indexClose b = none → Margin r → Margin ('/' :: '*' :: (b ++ '*' :: '/' :: r))
  | hashLine (l r : Str) : '\n' ∉ l → Margin r → Margin ('#' :: (l ++ '\n' :: r))
  | hashEnd (l : Str) : '\n' ∉ l → Margin ('#' :: l)
  | dashLine (l r : Str) : '\n' ∉ l → dashStartsComment ('-' :: (l ++ ['\n'])) = true → Margin r →
      Margin ('-' :: '-' :: (l ++ '\n' :: r))
  | dashEnd (l : Str) : '\n' ∉ l → dashStartsComment ('-' :: l) = true → Margin ('-' :: '-' :: l)

/-- The end of a locking read: white space, a word, white space, a word, where
    the two words are, in any letter case, `for update`, `for share`,
    `share mode` (LOCK IN SHARE MODE), `update|share nowait`, `skip locked`. -/
structure LockClause (clause : Str) : Prop where
  ex : ∃ s1 w1 s2 w2 : Str, clause = s1 ++ w1 ++ s2 ++ w2 ∧
    s1 ≠ [] ∧ (∀ c ∈ s1, Spec.isWs c = true) ∧ s2 ≠ [] ∧ (∀ c ∈ s2, Spec.isWs c = true) ∧
    (∀ c ∈ w1, Spec.isLetter c = true) ∧ (∀ c ∈ w2, Spec.isLetter c = true) ∧
    isLockPair (toLower w1) (toLower w2) = true

/-! ### helper lemmas: lists -/

theorem getLast_snoc (l : Str) (c : Char) : (l ++ [c]).getLast? = some c := by
  simp [List.getLast?_append]

/-! ### helper lemmas: the scanner -/

theorem ws_cases (w : Char) (hw : Spec.isWs w = true) : w = ' ' ∨ w = '\t' ∨ w = '\n' ∨ w = '\r' := by
  simp only [Spec.isWs, Bool.or_eq_true, beq_iff_eq] at hw
  rcases hw with ((h | h) | h) | h <;> simp [h]

theorem dashStartsComment_ws (r : Str) (w : Char) (b : Str) (hw : Spec.isWs w = true) :
    dashStartsComment (r ++ w :: b) = dashStartsComment r := by
  have hw' : (w == '-') = false := by
    rcases ws_cases w hw with h | h | h | h <;> subst h <;> decide
  have hv : (decide (w.val ≤ 0x20) || w.val == 0x7f) = true := by
    rcases ws_cases w hw with h | h | h | h <;> subst h <;> decide
  match r with
  | [] => simp [dashStartsComment, hw']
  | [x] => simp [dashStartsComment, hv]
  | x :: y :: r' => simp [dashStartsComment]

theorem head_append_ws (r : Str) (w : Char) (b : Str) (c : Char) (hw : Spec.isWs w = true)
    (hc : Spec.isWs c = false) :
    ((r ++ w :: b).head? == some c) = (r.head? == some c) := by
  match r with
  | [] =>
    have : w ≠ c := by intro h; subst h; rw [hw] at hc; cases hc
    simp [this]
  | x :: r' => simp

/-- A step of the scanner does not see beyond a blank, tab or line break that
    follows the text read so far. -/
theorem lexStep_ws (st : Lex) (c : Char) (r : Str) (w : Char) (b : Str) (hw : Spec.isWs w = true) :
    lexStep st c (r ++ w :: b) = lexStep st c r := by
  unfold lexStep
  rw [dashStartsComment_ws r w b hw]
  have h1 := head_append_ws r w b '/' hw (by decide)
  have h2 := head_append_ws r w b '*' hw (by decide)
  cases st <;> simp only [h1, h2]

theorem trimLoop_ws_aux (a rest : Str) (w : Char) (b : Str) (hrest : rest = w :: b) (hw : Spec.isWs w = true)
    (st : Lex) (i e : Nat) :
    trimLoop st i e (a ++ rest) = trimLoop (lexRun st a) (i + a.length) (trimLoop st i e a) rest := by
  induction a generalizing st i e with
  | nil => simp only [List.nil_append, lexRun, List.length_nil, Nat.add_zero, trimLoop]
  | cons c a ih =>
    simp only [List.cons_append, trimLoop, lexRun, List.length_cons]
    rw [hrest, lexStep_ws st c a w b hw, ← hrest, ih]
    have : i + 1 + a.length = i + (a.length + 1) := by omega
    rw [this]

/-- Scanning `a` followed by white space: scan `a` on its own, then go on. -/
theorem trimLoop_ws (a : Str) (w : Char) (b : Str) (hw : Spec.isWs w = true) (st : Lex) (i e : Nat) :
    trimLoop st i e (a ++ w :: b) = trimLoop (lexRun st a) (i + a.length) (trimLoop st i e a) (w :: b) :=
  trimLoop_ws_aux a (w :: b) w b rfl hw st i e

theorem letter_not (c d : Char) (hc : Spec.isLetter c = true) (hd : Spec.isLetter d = false) : (c == d) = false := by
  cases h : c == d
  · rfl
  · have : c = d := by simpa using h
    subst this; rw [hc] at hd; cases hd

theorem lexStep_code_letter (c : Char) (rest : Str) (hc : Spec.isLetter c = true) :
    lexStep .code c rest = (.code, true) := by
  have q1 := letter_not c '\'' hc (by decide)
  have q2 := letter_not c '"' hc (by decide)
  have q3 := letter_not c '`' hc (by decide)
  have q4 := letter_not c '/' hc (by decide)
  have q5 := letter_not c '#' hc (by decide)
  have q6 := letter_not c '-' hc (by decide)
  have q7 := letter_not c ' ' hc (by decide)
  have q8 : ('\t' ≤ c && c ≤ '\r') = false := by
    simp only [Spec.isLetter, Bool.or_eq_true, Bool.and_eq_true, decide_eq_true_eq] at hc
    simp only [Bool.and_eq_false_iff, decide_eq_false_iff_not]
    right
    intro h2
    rcases hc with h | h
    · exact absurd (Char.le_trans h.1 h2) (by decide)
    · exact absurd (Char.le_trans h.1 h2) (by decide)
  simp [lexStep, isQuoteChar, isBlank, q1, q2, q3, q4, q5, q6, q7, q8]

theorem lexStep_code_ws (c : Char) (rest : Str) (hc : Spec.isWs c = true) :
    lexStep .code c rest = (.code, false) := by
  rcases ws_cases c hc with h | h | h | h <;> subst h <;> simp [lexStep, isQuoteChar, isBlank] <;> decide

/-- From the code state, a run of white space and letters that ends in a letter
    keeps the scanner in the code state and moves `end` behind it. -/
theorem trimLoop_plain (cl rest : Str) (hp : ∀ c ∈ cl, Spec.isWs c = true ∨ Spec.isLetter c = true)
    (hl : ∃ l, cl.getLast? = some l ∧ Spec.isLetter l = true) (i e : Nat) :
    trimLoop .code i e (cl ++ rest) = trimLoop .code (i + cl.length) (i + cl.length) rest := by
  induction cl generalizing i e with
  | nil => obtain ⟨l, h, _⟩ := hl; simp at h
  | cons c cl ih =>
    simp only [List.cons_append, trimLoop, List.length_cons]
    match cl, ih, hp, hl with
    | [], _, _, hl =>
      obtain ⟨l, h, hll⟩ := hl
      have : c = l := by simpa using h
      subst this
      rw [lexStep_code_letter c _ hll]
      simp
    | d :: cl', ih, hp, hl =>
      have hl' : ∃ l, (d :: cl').getLast? = some l ∧ Spec.isLetter l = true := by
        obtain ⟨l, h, hll⟩ := hl
        exact ⟨l, by simpa [List.getLast?_cons_cons] using h, hll⟩
      have hp' : ∀ x ∈ d :: cl', Spec.isWs x = true ∨ Spec.isLetter x = true :=
        fun x hx => hp x (List.mem_cons_of_mem _ hx)
      have hstep : (lexStep .code c (d :: cl' ++ rest)).1 = .code := by
        rcases hp c (by simp) with h | h
        · rw [lexStep_code_ws c _ h]
        · rw [lexStep_code_letter c _ h]
      rw [hstep, ih hp' hl']
      have : i + 1 + (d :: cl').length = i + ((d :: cl').length + 1) := by omega
      rw [this]

/-! ### helper lemmas: the margin -/

theorem trimLoop_block_body (b r : Str) (hb : indexClose b = none) (i e : Nat) :
    trimLoop .block i e (b ++ '*' :: '/' :: r) = trimLoop .code (i + b.length + 2) e r := by
  induction b generalizing i with
  | nil => simp [trimLoop, lexStep]
  | cons c b ih =>
    simp only [indexClose] at hb
    split at hb
    · cases hb
    · rename_i hc
      have hb' : indexClose b = none := by
        cases h : indexClose b with
        | none => rfl
        | some k => rw [h] at hb; cases hb
      have hpeek : (c == '*' && (b ++ '*' :: '/' :: r).head? == some '/') = false := by
        cases b with
        | nil =>
          have : ((some '*' : Option Char) == some '/') = false := by decide
          simp [this]
        | cons d b' =>
          simp only [List.cons_append, List.head?_cons] at hc ⊢
          simpa using hc
      have hstep : lexStep .block c (b ++ '*' :: '/' :: r) = (.block, false) := by
        simp only [lexStep, hpeek]
        rfl
      simp only [List.cons_append, trimLoop, hstep, List.length_cons, Bool.false_eq_true, if_false]
      rw [ih hb']
      have : i + 1 + b.length + 2 = i + (b.length + 1) + 2 := by omega
      rw [this]

theorem trimLoop_line_end (l : Str) (hl : '\n' ∉ l) (i e : Nat) : trimLoop .line i e l = e := by
  induction l generalizing i with
  | nil => rfl
  | cons c l ih =>
    have hc : (c == '\n') = false := by
      cases h : c == '\n'
      · rfl
      · have : c = '\n' := by simpa using h
        subst this; simp at hl
    simp only [trimLoop, lexStep, hc, Bool.false_eq_true, if_false]
    exact ih (fun h => hl (List.mem_cons_of_mem _ h)) _

theorem trimLoop_line_body (l r : Str) (hl : '\n' ∉ l) (i e : Nat) :
    trimLoop .line i e (l ++ '\n' :: r) = trimLoop .code (i + l.length + 1) e r := by
  induction l generalizing i with
  | nil => simp [trimLoop, lexStep]
  | cons c l ih =>
    have hc : (c == '\n') = false := by
      cases h : c == '\n'
      · rfl
      · have : c = '\n' := by simpa using h
        subst this; simp at hl
    simp only [List.cons_append, trimLoop, lexStep, hc, List.length_cons, Bool.false_eq_true, if_false]
    rw [ih (fun h => hl (List.mem_cons_of_mem _ h))]
    have : i + 1 + l.length + 1 = i + (l.length + 1) + 1 := by omega
    rw [this]

/-- White space and comments do not move `end`. -/
theorem trimLoop_margin (t : Str) (ht : Margin t) (i e : Nat) : trimLoop .code i e t = e := by
  induction ht generalizing i with
  | nil => rfl
  | blank c r hc _ ih =>
    have hstep : lexStep .code c r = (.code, false) := by
      simp only [isBlank, Bool.or_eq_true, beq_iff_eq, Bool.and_eq_true, decide_eq_true_eq] at hc
      have hq : isQuoteChar c = false := by
        rcases hc with h | ⟨h1, h2⟩
        · subst h; decide
        · simp only [isQuoteChar, Bool.or_eq_false_iff, beq_eq_false_iff_ne]
          have e1 : ('\r' : Char) < '\'' := by decide
          have e2 : ('\r' : Char) < '"' := by decide
          have e3 : ('\r' : Char) < '`' := by decide
          refine ⟨⟨?_, ?_⟩, ?_⟩ <;> intro h <;> subst h
          · exact absurd h2 (by decide)
          · exact absurd h2 (by decide)
          · exact absurd h2 (by decide)
      have h1 : (c == '/') = false := by
        rcases hc with h | ⟨_, h2⟩
        · subst h; decide
        · cases h : c == '/'
          · rfl
          · have : c = '/' := by simpa using h
            subst this; exact absurd h2 (by decide)
      have h2' : (c == '#') = false := by
        rcases hc with h | ⟨_, h2⟩
        · subst h; decide
        · cases h : c == '#'
          · rfl
          · have : c = '#' := by simpa using h
            subst this; exact absurd h2 (by decide)
      have h3 : (c == '-') = false := by
        rcases hc with h | ⟨_, h2⟩
        · subst h; decide
        · cases h : c == '-'
          · rfl
          · have : c = '-' := by simpa using h
            subst this; exact absurd h2 (by decide)
      have hb : isBlank c = true := by
        simp only [isBlank, Bool.or_eq_true, beq_iff_eq, Bool.and_eq_true, decide_eq_true_eq]
        exact hc
      simp [lexStep, hq, h1, h2', h3, hb]
    simp only [trimLoop, hstep]
    exact ih _
  | block b r hb _ ih =>
    have s1 : lexStep .code '/' ('*' :: (b ++ '*' :: '/' :: r)) = (.blockOpen, false) := by
      simp [lexStep, isQuoteChar]
    have s2 : lexStep .blockOpen '*' (b ++ '*' :: '/' :: r) = (.block, false) := rfl
    simp only [trimLoop, s1, s2]
    rw [trimLoop_block_body b r hb]
    exact ih _
  | hashLine l r hl _ ih =>
    have s1 : lexStep .code '#' (l ++ '\n' :: r) = (.line, false) := by simp [lexStep, isQuoteChar]
    simp only [trimLoop, s1]
    rw [trimLoop_line_body l r hl]
    exact ih _
  | hashEnd l hl =>
    have s1 : lexStep .code '#' l = (.line, false) := by simp [lexStep, isQuoteChar]
    simp only [trimLoop, s1]
    exact trimLoop_line_end l hl _ _
  | dashLine l r hl hd _ ih =>
    have hd' : dashStartsComment ('-' :: (l ++ '\n' :: r)) = true := by
      cases l with
      | nil => simp [dashStartsComment]
      | cons x l' => simpa [dashStartsComment] using hd
    have s1 : lexStep .code '-' ('-' :: (l ++ '\n' :: r)) = (.line, false) := by
      simp [lexStep, isQuoteChar, hd']
    have s2 : lexStep .line '-' (l ++ '\n' :: r) = (.line, false) := by simp [lexStep]
    simp only [trimLoop, s1, s2]
    rw [trimLoop_line_body l r hl]
    exact ih _
  | dashEnd l hl hd =>
    have s1 : lexStep .code '-' ('-' :: l) = (.line, false) := by
      simp [lexStep, isQuoteChar, hd]
    have s2 : lexStep .line '-' l = (.line, false) := by simp [lexStep]
    simp only [trimLoop, s1, s2]
    exact trimLoop_line_end l hl _ _

/-! ### helper lemmas: words and separators -/

theorem letter_not_sep (c : Char) (h : Spec.isLetter c = true) : isSqlSep c = false := by
  have q1 := letter_not c ' ' h (by decide)
  have q2 := letter_not c ',' h (by decide)
  have q3 := letter_not c '\t' h (by decide)
  have q4 := letter_not c '/' h (by decide)
  have q5 := letter_not c '\n' h (by decide)
  have q6 := letter_not c '\r' h (by decide)
  simp only [isSqlSep, sqlSeps, List.contains_cons, List.contains_nil, Bool.or_false]
  simp [q1, q2, q3, q4, q5, q6]

theorem ws_is_sep (c : Char) (h : Spec.isWs c = true) : isSqlSep c = true := by
  rcases ws_cases c h with h | h | h | h <;> subst h <;> decide

theorem isLockPair_ne_nil (a b : Str) (h : isLockPair a b = true) : a ≠ [] ∧ b ≠ [] := by
  constructor
  · intro ha; subst ha; revert h; simp [isLockPair]
  · intro hb; subst hb; revert h; simp [isLockPair]

theorem mem_takeWhile_sat {p : Char → Bool} {l : Str} {c : Char} (h : c ∈ l.takeWhile p) : p c = true := by
  have := List.all_takeWhile (l := l) (p := p)
  rw [List.all_eq_true] at this
  exact this c h

theorem toLower_ne_nil (w : Str) (h : toLower w ≠ []) : w ≠ [] := by
  intro hw; subst hw; exact h rfl

/-- A text that ends in a lock clause — two words of letters, separated from
    each other and from what precedes by separators — passes the lock-clause test. -/
theorem lock_tail (x w1 s2 w2 : Str)
    (hx : ∀ c, x.getLast? = some c → isSqlSep c = true)
    (h1 : ∀ c ∈ w1, Spec.isLetter c = true) (h2 : ∀ c ∈ w2, Spec.isLetter c = true)
    (hsne : s2 ≠ []) (hs : ∀ c ∈ s2, Spec.isWs c = true)
    (hp : isLockPair (toLower w1) (toLower w2) = true) :
    endsWithLockClause (fieldsFunc isSqlSep (x ++ w1 ++ s2 ++ w2)) = true := by
  obtain ⟨n1, n2⟩ := isLockPair_ne_nil _ _ hp
  rw [fieldsFunc_two_last_words isSqlSep x w1 s2 w2 hx (toLower_ne_nil _ n1)
    (fun c hc => letter_not_sep c (h1 c hc)) (toLower_ne_nil _ n2)
    (fun c hc => letter_not_sep c (h2 c hc)) hsne (fun c hc => ws_is_sep c (hs c hc))]
  simp only [endsWithLockClause, List.reverse_append, List.reverse_cons, List.reverse_nil,
    List.nil_append, List.cons_append]
  exact hp

/-! ### locking reads -/

theorem checkExecuteFromSlave_of_lock (c : RwSplit.Cfg) (st : Nat) (tokens : List Str) (sql : Str)
    (hw : c.allowWrite = true) (hl : c.checkSelectLock = true)
    (hlock : endsWithLockClause (lockWords sql) = true) :
    checkExecuteFromSlave c st tokens sql = false := by
  unfold checkExecuteFromSlave
  simp [hw, hl, hlock]

/-- **The statement proper.**  `TrimTrailingComments` removes exactly the white
    space and comments that follow the lock clause, for every text `pre` that ends
    outside quotes and comments, every clause and every margin. -/
theorem trimTrailingComments_margin (pre clause trail : Str)
    (hpre : lexRun .code pre = .code) (hc : LockClause clause) (ht : Margin trail) :
    trimTrailingComments (pre ++ clause ++ trail) = pre ++ clause := by
  obtain ⟨s1, w1, s2, w2, hcl, hs1ne, hs1, _, hs2, hw1, hw2, hp⟩ := hc.ex
  obtain ⟨_, n2⟩ := isLockPair_ne_nil _ _ hp
  have hw2ne : w2 ≠ [] := toLower_ne_nil _ n2
  have hplain : ∀ c ∈ clause, Spec.isWs c = true ∨ Spec.isLetter c = true := by
    intro c hcm
    rw [hcl] at hcm
    simp only [List.mem_append] at hcm
    rcases hcm with ((h | h) | h) | h
    · exact Or.inl (hs1 c h)
    · exact Or.inr (hw1 c h)
    · exact Or.inl (hs2 c h)
    · exact Or.inr (hw2 c h)
  have hlast : ∃ l, clause.getLast? = some l ∧ Spec.isLetter l = true := by
    rcases List.eq_nil_or_concat w2 with h | ⟨w2', l, h⟩
    · exact absurd h hw2ne
    · refine ⟨l, ?_, hw2 l (by rw [h]; simp)⟩
      rw [hcl, h]
      simp [List.getLast?_append]
  match s1, hs1ne, hs1, hcl with
  | w :: s1', _, hs1, hcl =>
    have hw : Spec.isWs w = true := hs1 w (by simp)
    have hcl' : clause ++ trail = w :: (s1' ++ w1 ++ s2 ++ w2 ++ trail) := by rw [hcl]; simp
    have hloop : trimLoop .code 0 0 (pre ++ clause ++ trail) = pre.length + clause.length := by
      rw [List.append_assoc, hcl', trimLoop_ws pre w _ hw, hpre, ← hcl',
        trimLoop_plain clause trail hplain hlast, trimLoop_margin trail ht]
      omega
    unfold trimTrailingComments
    rw [hloop, ← List.length_append, List.take_left']
    rfl

/-- **C22, locking reads.**  For a user who may write, with `check_select_lock`
    on (`NewNamespace` always turns it on), a SELECT or SHOW that ends in a lock
    clause is not flagged for a replica — in any letter case, with any blanks,
    tabs and line breaks around the two words, and whatever white space and
    comments (trace comments appended by drivers, `-- …`, `# …`) follow it.
    `pre` is everything before the clause; it only has to end outside quotes and
    comments.  `tokens` is arbitrary: the lock test does not depend on it. -/
theorem locking_read_goes_to_master (c : RwSplit.Cfg) (st : Nat) (tokens : List Str) (pre clause trail : Str)
    (hw : c.allowWrite = true) (hl : c.checkSelectLock = true)
    (hpre : lexRun .code pre = .code) (hc : LockClause clause) (ht : Margin trail) :
    checkExecuteFromSlave c st tokens (pre ++ clause ++ trail) = false := by
  have htrim := trimTrailingComments_margin pre clause trail hpre hc ht
  obtain ⟨s1, w1, s2, w2, hcl, hs1ne, hs1, hs2ne, hs2, hw1, hw2, hp⟩ := hc.ex
  have hlock : endsWithLockClause (lockWords (pre ++ clause ++ trail)) = true := by
    unfold lockWords
    rw [htrim, hcl]
    have e : pre ++ (s1 ++ w1 ++ s2 ++ w2) = (pre ++ s1) ++ w1 ++ s2 ++ w2 := by simp
    rw [e]
    apply lock_tail _ w1 s2 w2 _ hw1 hw2 hs2ne hs2 hp
    intro ch hch
    rcases List.eq_nil_or_concat s1 with h | ⟨s1', l, h⟩
    · exact absurd h hs1ne
    · subst h
      have : ch = l := by
        have : (pre ++ s1'.concat l).getLast? = some l := by simp [List.getLast?_append]
        rw [this] at hch; injection hch with hch; exact hch.symm
      subst this
      exact ws_is_sep _ (hs1 _ (by simp))
  exact checkExecuteFromSlave_of_lock c st tokens _ hw hl hlock

/-- The hypotheses are satisfiable: `select * from t where a = '--' FOR\tUpdate  /* trace_id=1 */ -- x`. -/
example : checkExecuteFromSlave { rwFlag := 2, rwSplit := 1, checkSelectLock := true } stmtSelect []
    ("select * from t where a = '--'".toList ++ " FOR\tUpdate".toList ++ "  /* trace_id=1 */ -- x".toList) = false := by
  apply locking_read_goes_to_master _ _ _ _ _ _ rfl rfl (by decide)
  · exact ⟨[' '], "FOR".toList, ['\t'], "Update".toList, by decide, by decide, by decide, by decide, by decide,
      by decide, by decide, by decide⟩
  · exact .blank ' ' _ (by decide) (.blank ' ' _ (by decide)
      (.block " trace_id=1 ".toList _ (by decide) (.blank ' ' _ (by decide) (.dashEnd " x".toList (by decide) (by decide)))))

/-- A text with no quote and no comment mark ends outside quotes and comments. -/
theorem lexRun_code_of_plain (s : Str)
    (h : ∀ c ∈ s, isQuoteChar c = false ∧ c ≠ '/' ∧ c ≠ '#' ∧ c ≠ '-') : lexRun .code s = .code := by
  induction s with
  | nil => rfl
  | cons c s ih =>
    obtain ⟨h1, h2, h3, h4⟩ := h c (by simp)
    have e2 : (c == '/') = false := by simpa using h2
    have e3 : (c == '#') = false := by simpa using h3
    have e4 : (c == '-') = false := by simpa using h4
    have : (lexStep .code c s).1 = .code := by
      simp only [lexStep, h1, e2, e3, e4]
      cases isBlank c <;> simp
    simp only [lexRun, this]
    exact ih (fun d hd => h d (by simp [hd]))

/-- **C22, locking reads, on the reference semantics.**  Every statement the
    oracle classifies as a locking read (`Spec.lockingRead`) is not flagged for a
    replica, for every user who may write, with `check_select_lock` on. -/
theorem spec_locking_read_goes_to_master (c : RwSplit.Cfg) (st : Nat) (tokens : List Str) (sql : Str)
    (hw : c.allowWrite = true) (hl : c.checkSelectLock = true)
    (hs : Spec.lockingRead sql = true) :
    checkExecuteFromSlave c st tokens sql = false := by
  unfold Spec.lockingRead at hs
  simp only [Bool.and_eq_true, Bool.not_eq_eq_eq_not, Bool.not_true, List.isEmpty_eq_false_iff] at hs
  obtain ⟨⟨⟨⟨_, hs2ne⟩, _⟩, hr3⟩, hp⟩ := hs
  generalize ht : trimTrailingComments sql = t at *
  -- decomposition of the reversed text
  have d1 := List.takeWhile_append_dropWhile (p := Spec.isLetter) (l := t.reverse)
  have d2 := List.takeWhile_append_dropWhile (p := Spec.isWs) (l := t.reverse.dropWhile Spec.isLetter)
  have d3 := List.takeWhile_append_dropWhile (p := Spec.isLetter)
    (l := (t.reverse.dropWhile Spec.isLetter).dropWhile Spec.isWs)
  generalize hw2 : t.reverse.takeWhile Spec.isLetter = w2r at *
  generalize hr1 : t.reverse.dropWhile Spec.isLetter = r1 at *
  generalize hs2 : r1.takeWhile Spec.isWs = s2r at *
  generalize hr2 : r1.dropWhile Spec.isWs = r2 at *
  generalize hw1 : r2.takeWhile Spec.isLetter = w1r at *
  generalize hr3' : r2.dropWhile Spec.isLetter = r3 at *
  have ht' : t = r3.reverse ++ w1r.reverse ++ s2r.reverse ++ w2r.reverse := by
    have : t.reverse = w2r ++ (s2r ++ (w1r ++ r3)) := by rw [← d1, ← d2, ← d3]
    have := congrArg List.reverse this
    simpa [List.reverse_append, List.append_assoc] using this
  have hlock : endsWithLockClause (lockWords sql) = true := by
    unfold lockWords
    rw [ht, ht']
    apply lock_tail
    · intro ch hch
      rw [List.getLast?_reverse] at hch
      cases r3 with
      | nil => simp at hch
      | cons x r3' =>
        simp only [List.head?_cons, Option.some.injEq] at hch
        subst hch
        exact ws_is_sep _ (by simpa using hr3)
    · intro ch hch
      have : ch ∈ w1r := by simpa using hch
      rw [← hw1] at this
      exact mem_takeWhile_sat this
    · intro ch hch
      have : ch ∈ w2r := by simpa using hch
      rw [← hw2] at this
      exact mem_takeWhile_sat this
    · simpa using hs2ne
    · intro ch hch
      have : ch ∈ s2r := by simpa using hch
      rw [← hs2] at this
      exact mem_takeWhile_sat this
    · exact hp
  exact checkExecuteFromSlave_of_lock c st tokens _ hw hl hlock

example : Spec.lockingRead "select * from t Lock In Share\nMODE /* c */ -- x".toList = true := by decide

/-! ### the decision as a whole -/

/-- **C22, writes.**  A statement that is neither SELECT nor SHOW is never flagged for a replica. -/
theorem writes_go_to_master (c : RwSplit.Cfg) (st : Nat) (tokens : List Str) (sql : Str)
    (h1 : st ≠ stmtSelect) (h2 : st ≠ stmtShow) : checkExecuteFromSlave c st tokens sql = false := by
  unfold checkExecuteFromSlave
  simp [h1, h2]

/-- **C22, read_only probes.** -/
theorem read_only_probe_goes_to_master (c : RwSplit.Cfg) (st : Nat) (tokens : List Str) (sql : Str)
    (hw : c.allowWrite = true) (hp : isReadOnlyProbe st sql = true) :
    checkExecuteFromSlave c st tokens sql = false := by
  unfold checkExecuteFromSlave
  simp [hw, hp]

example : isReadOnlyProbe stmtShow "SHOW GLOBAL VARIABLES LIKE 'Read_Only'".toList = true := by decide
example : isReadOnlyProbe stmtSelect "select 'a', @@GLOBAL.READ_ONLY".toList = true := by decide

/-- A token that is the master hint sends the statement to the master. -/
theorem checkExecuteFromSlave_of_hint (c : RwSplit.Cfg) (st : Nat) (tokens : List Str) (sql : Str)
    (hw : c.allowWrite = true) (hh : hasMasterHint tokens = true) :
    checkExecuteFromSlave c st tokens sql = false := by
  unfold checkExecuteFromSlave
  simp [hw, hh]

/-- **C22, the decision.**  If a statement is flagged for a replica, then it is a
    SELECT or SHOW, and either the user may not write (read-only users are
    pinned to replicas), or the user is read/write-split and the statement does
    not end in a lock clause (`check_select_lock` on), is no read_only probe and
    carries no master-hint token. -/
theorem rw_split_decision (c : RwSplit.Cfg) (st : Nat) (tokens : List Str) (sql : Str)
    (h : checkExecuteFromSlave c st tokens sql = true) :
    (st = stmtSelect ∨ st = stmtShow) ∧
    (c.allowWrite = false ∨
      (c.isRWSplit = true ∧
       (c.checkSelectLock = true → endsWithLockClause (lockWords sql) = false ∧ Spec.lockingRead sql = false) ∧
       isReadOnlyProbe st sql = false ∧ hasMasterHint tokens = false)) := by
  have hst : st = stmtSelect ∨ st = stmtShow := by
    by_cases h1 : st = stmtSelect
    · exact Or.inl h1
    · by_cases h2 : st = stmtShow
      · exact Or.inr h2
      · rw [writes_go_to_master c st tokens sql h1 h2] at h; cases h
  refine ⟨hst, ?_⟩
  cases hw : c.allowWrite with
  | false => exact Or.inl rfl
  | true =>
    right
    have hp : isReadOnlyProbe st sql = false := by
      cases hp : isReadOnlyProbe st sql with
      | false => rfl
      | true => rw [read_only_probe_goes_to_master c st tokens sql hw hp] at h; cases h
    have hh : hasMasterHint tokens = false := by
      cases hh : hasMasterHint tokens with
      | false => rfl
      | true => rw [checkExecuteFromSlave_of_hint c st tokens sql hw hh] at h; cases h
    have hlk : c.checkSelectLock = true → endsWithLockClause (lockWords sql) = false ∧ Spec.lockingRead sql = false := by
      intro hl
      constructor
      · cases hk : endsWithLockClause (lockWords sql) with
        | false => rfl
        | true => rw [checkExecuteFromSlave_of_lock c st tokens sql hw hl hk] at h; cases h
      · cases hk : Spec.lockingRead sql with
        | false => rfl
        | true => rw [spec_locking_read_goes_to_master c st tokens sql hw hl hk] at h; cases h
    refine ⟨?_, hlk, hp, hh⟩
    unfold checkExecuteFromSlave at h
    rcases hst with hs | hs <;> subst hs <;>
      (cases hl : c.checkSelectLock <;> cases hk : endsWithLockClause (lockWords sql) <;>
        simp_all [stmtSelect, stmtShow])

example : checkExecuteFromSlave { rwFlag := 2, rwSplit := 1, checkSelectLock := true } stmtSelect
    ["select".toList, "1".toList] "select 1".toList = true := by decide

/-- `NewNamespace` never turns `check_select_lock` off, whatever the configuration says. -/
theorem newNamespace_checkSelectLock_always_on (configured : Bool) :
    newNamespaceCheckSelectLock configured = true := by
  cases configured <;> rfl

/-! ### from the flag to the backend node -/

theorem getNormalConnection_slave (sl : Slice) (f : Bool) (h : getNormalConnection sl f = .slave) : f = true := by
  cases f
  · simp [getNormalConnection, getconnectionMode] at h
  · rfl

theorem getBackendConn_slave (c : RwSplit.Cfg) (s : Sess) (sl : Slice) (f f' : Bool)
    (h : getBackendConn c s sl f = (.slave, f')) :
    s.keepSession = false ∧ s.isInTransaction = false ∧ f = true := by
  unfold getBackendConn at h
  cases hk : s.keepSession with
  | true =>
    simp only [hk, if_true] at h
    have h1 : getNormalConnection sl false = .slave := by
      injection h
    have := getNormalConnection_slave sl _ h1
    cases this
  | false =>
    simp only [hk, Bool.false_eq_true, if_false] at h
    cases ht : s.isInTransaction with
    | true => simp [ht] at h
    | false =>
      simp only [ht, Bool.not_false, if_true] at h
      have h1 : getNormalConnection sl f = .slave := by injection h
      exact ⟨rfl, rfl, getNormalConnection_slave sl f h1⟩

theorem allowWrite_not_readOnly (c : RwSplit.Cfg) (hw : c.allowWrite = true) : c.rwFlag ≠ rwReadOnly := by
  intro h
  simp [RwSplit.Cfg.allowWrite, h, rwReadOnly, rwReadWrite] at hw

/-- What `doQuery` does with a statement that reaches a backend: the flag is
    `checkExecuteFromSlave` (for SHOW through `handleShow`), the node comes from
    `getBackendConn`. -/
theorem doQuery_conn (c : RwSplit.Cfg) (s : Sess) (sl : Slice) (db : Str) (st : Nat) (sql : Str) (n : Node) (f' : Bool)
    (h : doQuery c s sl db st sql = .ok (.conn n f')) :
    ∃ tokens, tokenize sql = .ok tokens ∧
      getBackendConn c s sl (checkExecuteFromSlave c st tokens sql) = (n, f') := by
  unfold doQuery at h
  split at h
  · cases h
  · cases h
  · rename_i tokens htok
    refine ⟨tokens, htok, ?_⟩
    split at h
    · cases h
    · split at h
      · rename_i hshow
        have hst : st = stmtShow := by simpa using hshow
        split at h
        · cases h
        · split at h
          · cases h
          · simp only [handleShowFlag] at h
            injection h with h
            injection h with h1 h2
            rw [hst]
            exact Prod.ext h1 h2
      · split at h
        · cases h
        · split at h
          · cases h
          · injection h with h
            injection h with h1 h2
            exact Prod.ext h1 h2

/-- A keep-session session is always served by the master, whoever the user
    (read-only users included since fix cb8bfb6) and whatever the flag. -/
theorem keepsession_master (c : RwSplit.Cfg) (s : Sess) (sl : Slice) (db : Str) (st : Nat) (sql : Str)
    (n : Node) (f' : Bool) (hks : s.keepSession = true)
    (h : doQuery c s sl db st sql = .ok (.conn n f')) : n = .master := by
  obtain ⟨tokens, _, hg⟩ := doQuery_conn c s sl db st sql n f' h
  unfold getBackendConn at hg
  simp only [hks, if_true] at hg
  injection hg with h1 _
  rw [← h1]
  rfl

/-- **C22, inside a transaction.**  In a session that is in a transaction (or
    has autocommit off) - with or without keep-session, for every user - every
    statement that reaches a backend takes its connection from the master,
    whatever the flag. -/
theorem in_transaction_master (c : RwSplit.Cfg) (s : Sess) (sl : Slice) (db : Str) (st : Nat) (sql : Str)
    (n : Node) (f' : Bool) (htx : s.isInTransaction = true)
    (h : doQuery c s sl db st sql = .ok (.conn n f')) : n = .master := by
  cases hks : s.keepSession with
  | true => exact keepsession_master c s sl db st sql n f' hks h
  | false =>
    obtain ⟨tokens, _, hg⟩ := doQuery_conn c s sl db st sql n f' h
    unfold getBackendConn at hg
    simp only [hks, Bool.false_eq_true, if_false, htx, Bool.not_true] at hg
    injection hg with h1 _
    exact h1.symm

/-- the former exception: a read-only user's keep-session transaction -/
example : doQuery { rwFlag := 1, rwSplit := 1, checkSelectLock := true }
    { keepSession := true, inTrans := true, autocommit := true } { slaveUp := true, fallback := true }
    "db_a".toList stmtSelect "select * from t".toList = .ok (.conn .master false) := by decide

example : doQuery { rwFlag := 2, rwSplit := 1, checkSelectLock := true }
    { keepSession := false, inTrans := true, autocommit := true } { slaveUp := true, fallback := true }
    "db_a".toList stmtSelect "select * from t".toList = .ok (.conn .master true) := by decide

/-- **C22, end to end.**  If a statement of a user who may write is served by a
    replica, then the session uses neither keep-session nor a transaction, the
    statement is a SELECT or SHOW, the user is read/write-split, the statement
    is no locking read (reference semantics `Spec.lockingRead`; `check_select_lock`
    on), no read_only probe, and none of its tokens is the master hint. -/
theorem replica_only_for_plain_reads (c : RwSplit.Cfg) (s : Sess) (sl : Slice) (db : Str) (st : Nat) (sql : Str)
    (f' : Bool) (hw : c.allowWrite = true)
    (h : doQuery c s sl db st sql = .ok (.conn .slave f')) :
    s.keepSession = false ∧ s.isInTransaction = false ∧ (st = stmtSelect ∨ st = stmtShow) ∧
    c.isRWSplit = true ∧ (c.checkSelectLock = true → Spec.lockingRead sql = false) ∧
    isReadOnlyProbe st sql = false ∧
    ∃ tokens, tokenize sql = .ok tokens ∧ hasMasterHint tokens = false := by
  obtain ⟨tokens, htok, hg⟩ := doQuery_conn c s sl db st sql .slave f' h
  obtain ⟨hks, htx, hf⟩ := getBackendConn_slave c s sl _ f' hg
  obtain ⟨hst, hrest⟩ := rw_split_decision c st tokens sql hf
  rcases hrest with hnw | ⟨hsp, hlk, hp, hh⟩
  · rw [hw] at hnw; cases hnw
  · exact ⟨hks, htx, hst, hsp, fun hl => (hlk hl).2, hp, tokens, htok, hh⟩

example : doQuery { rwFlag := 2, rwSplit := 1, checkSelectLock := true }
    { keepSession := false, inTrans := false, autocommit := true } { slaveUp := true, fallback := true }
    "db_a".toList stmtSelect "select * from t".toList = .ok (.conn .slave true) := by decide

/-- A user who may write and uses keep-session is always served by the master. -/
theorem keepsession_writer_master (c : RwSplit.Cfg) (s : Sess) (sl : Slice) (db : Str) (st : Nat) (sql : Str)
    (n : Node) (f' : Bool) (_hw : c.allowWrite = true) (hks : s.keepSession = true)
    (h : doQuery c s sl db st sql = .ok (.conn n f')) : n = .master := by
  exact keepsession_master c s sl db st sql n f' hks h

/-- `doQuery` cannot panic (its only source would be `Tokenize`). -/
theorem doQuery_never_panics (c : RwSplit.Cfg) (s : Sess) (sl : Slice) (db : Str) (st : Nat) (sql : Str) :
    doQuery c s sl db st sql ≠ .panic := by
  obtain ⟨tokens, ht⟩ := tokenize_ok sql
  unfold doQuery
  rw [ht]
  simp only
  repeat' split
  all_goals simp

/-! ### the master hint -/

open GaeaVerif.RwSplit.Spec (hintWord hintComment caseVariants)

/-- `m` is a spelling of `master` the proxy recognises as the hint: letters
    only, `LowerEqual("*m*", "*master*")` (the test of `checkExecuteFromSlave`)
    and `EqualFold("*m*", "*master*")` (the test of `Tokenize`). -/
structure HintSpelling (m : Str) : Prop where
  letters : ∀ c ∈ m, Spec.isLetter c = true
  lower : lowerEqual (hintWord m) masterHint = true
  fold : equalFold (hintWord m) masterHint = true

/-- Every letter-case variant of `master` is a recognised spelling. -/
theorem hint_spellings_all_cases :
    ∀ m ∈ caseVariants Spec.master,
      (m.all Spec.isLetter && lowerEqual (hintWord m) masterHint && equalFold (hintWord m) masterHint) = true := by
  decide

theorem HintSpelling.of_variant (m : Str) (h : m ∈ caseVariants Spec.master) : HintSpelling m := by
  have := hint_spellings_all_cases m h
  simp only [Bool.and_eq_true, List.all_eq_true] at this
  exact ⟨this.1.1, this.1.2, this.2⟩

example : HintSpelling "MaSTer".toList := HintSpelling.of_variant _ (by decide)

theorem hintWord_no_sep (m : Str) (hm : ∀ c ∈ m, Spec.isLetter c = true) :
    ∀ c ∈ hintWord m, isSqlSep c = false := by
  intro c hc
  simp only [hintWord, List.mem_cons, List.mem_append, List.mem_nil_iff, or_false] at hc
  rcases hc with h | h | h
  · subst h; decide
  · exact letter_not_sep c (hm c h)
  · subst h; decide

theorem hintWord_ne_nil (m : Str) : hintWord m ≠ [] := by simp [hintWord]

/-- The hint word is a token of any text that contains the hint comment. -/
theorem hintWord_mem_fields (a m b : Str) (hm : ∀ c ∈ m, Spec.isLetter c = true) :
    hintWord m ∈ fieldsFunc isSqlSep (a ++ hintComment m ++ b) := by
  have e : a ++ hintComment m ++ b = (a ++ ['/']) ++ hintWord m ++ ('/' :: b) := by
    simp [hintComment]
  rw [e]
  apply mem_fieldsFunc_of_delimited _ _ _ _ (hintWord_ne_nil m) (hintWord_no_sep m hm)
  · intro c hc
    rw [getLast_snoc a '/'] at hc; injection hc with hc; subst hc; decide
  · intro c hc
    simp only [List.head?_cons, Option.some.injEq] at hc
    subst hc; decide

theorem indexClose_append_of_inside (a rest : Str) (k : Nat) (h : indexClose a = some k) (hk : k + 2 ≤ a.length) :
    indexClose (a ++ rest) = some k := by
  induction a generalizing k with
  | nil => simp [indexClose] at h
  | cons c a ih =>
    simp only [indexClose] at h
    simp only [List.cons_append, indexClose]
    split at h
    · rename_i hc
      injection h with h; subst h
      have ha : a ≠ [] := by
        intro ha; subst ha; simp at hk
      have : (a ++ rest).head? = a.head? := by
        cases a with
        | nil => exact absurd rfl ha
        | cons d a' => rfl
      rw [this, if_pos hc]
    · rename_i hc
      cases hi : indexClose a with
      | none => rw [hi] at h; cases h
      | some j =>
        rw [hi] at h
        simp only [Option.map_some, Option.some.injEq] at h
        subst h
        have hj : j + 2 ≤ a.length := by simp only [List.length_cons] at hk; omega
        have ha : a ≠ [] := by intro ha; subst ha; simp at hj
        have : (a ++ rest).head? = a.head? := by
          cases a with
          | nil => exact absurd rfl ha
          | cons d a' => rfl
        rw [this, if_neg hc, ih j hi hj]
        rfl

/-- A block comment that the scanner leaves again is closed inside the text. -/
theorem indexClose_of_block_left (r : Str) (st : Lex) (hst : st = .block ∨ st = .blockOpen)
    (h : lexRun st r = .code) : ∃ k, indexClose r = some k ∧ k + 2 ≤ r.length := by
  induction r generalizing st with
  | nil =>
    rcases hst with h' | h' <;> subst h' <;> simp [lexRun] at h
  | cons c r ih =>
    simp only [lexRun] at h
    by_cases hc : (c == '*' && r.head? == some '/') = true
    · refine ⟨0, by simp [indexClose, hc], ?_⟩
      cases r with
      | nil => simp at hc
      | cons d r' => simp
    · have hstep : (lexStep st c r).1 = .block := by
        rcases hst with h' | h' <;> subst h'
        · simp only [lexStep]
          simp only [Bool.not_eq_true] at hc
          rw [hc]; rfl
        · rfl
      rw [hstep] at h
      obtain ⟨k, hk, hlen⟩ := ih .block (Or.inl rfl) h
      refine ⟨k + 1, by simp [indexClose, hc, hk], by simp only [List.length_cons]; omega⟩

/-- Leading white space (in the sense of `strings.TrimSpace`) does not change the scanner state. -/
theorem lexRun_dropWhile_space (a : Str) : lexRun .code (a.dropWhile isSpace) = lexRun .code a := by
  induction a with
  | nil => rfl
  | cons c a ih =>
    by_cases hc : isSpace c = true
    · have hstep : (lexStep .code c a).1 = .code := by
        have hq : isQuoteChar c = false := by
          simp only [isQuoteChar, Bool.or_eq_false_iff, beq_eq_false_iff_ne]
          refine ⟨⟨?_, ?_⟩, ?_⟩ <;> intro h <;> subst h <;> exact absurd hc (by decide)
        have h1 : (c == '/') = false := by
          cases h : c == '/'
          · rfl
          · have : c = '/' := by simpa using h
            subst this; exact absurd hc (by decide)
        have h2 : (c == '#') = false := by
          cases h : c == '#'
          · rfl
          · have : c = '#' := by simpa using h
            subst this; exact absurd hc (by decide)
        have h3 : (c == '-') = false := by
          cases h : c == '-'
          · rfl
          · have : c = '-' := by simpa using h
            subst this; exact absurd hc (by decide)
        simp only [lexStep, hq, h1, h2, h3]
        cases isBlank c <;> simp
      simp only [List.dropWhile_cons_of_pos hc, lexRun, hstep]
      exact ih
    · simp [List.dropWhile_cons_of_neg hc]

theorem dropWhile_append_stop {p : Char → Bool} (a : Str) (c : Char) (r : Str) (hc : p c = false) :
    (a ++ c :: r).dropWhile p = a.dropWhile p ++ c :: r := by
  induction a with
  | nil => simp [hc]
  | cons d a ih =>
    by_cases hd : p d = true
    · simp [hd, ih]
    · simp [hd]

theorem trimRight_append_stop (x : Str) (c : Char) (b : Str) (hc : isSpace c = false) :
    trimRight (x ++ c :: b) = x ++ c :: trimRight b := by
  unfold trimRight
  have : (x ++ c :: b).reverse = b.reverse ++ c :: x.reverse := by simp
  rw [this, dropWhile_append_stop _ c _ hc]
  simp

/-- `strings.TrimSpace` around a text that holds the hint comment. -/
theorem trimSpace_around_hint (a m b : Str) :
    trimSpace (a ++ hintComment m ++ b) = a.dropWhile isSpace ++ hintComment m ++ trimRight b := by
  have hs : isSpace '/' = false := by decide
  unfold trimSpace
  have e1 : a ++ hintComment m ++ b = a ++ '/' :: (hintWord m ++ '/' :: b) := by simp [hintComment]
  rw [e1, dropWhile_append_stop a '/' _ hs]
  have e2 : a.dropWhile isSpace ++ '/' :: (hintWord m ++ '/' :: b)
      = (a.dropWhile isSpace ++ '/' :: hintWord m) ++ '/' :: b := by simp
  rw [e2, trimRight_append_stop _ '/' b hs]
  simp [hintComment]

/-- The core of `Tokenize` keeps the hint word, wherever the hint comment
    stands, provided the text before it ends outside quotes and comments. -/
theorem tokenizeCore_keeps_hint (a m b : Str) (hs : HintSpelling m) (ha : lexRun .code a = .code)
    (tokens : List Str) (ht : tokenizeCore (a ++ hintComment m ++ b) = .ok tokens) :
    hintWord m ∈ tokens := by
  have hmem := hintWord_mem_fields a m b hs.letters
  have e : a ++ hintComment m ++ b = a ++ '/' :: '*' :: (m ++ '*' :: '/' :: b) := by
    simp [hintComment, hintWord]
  unfold tokenizeCore at ht
  simp only at ht
  split at ht
  · -- the text starts with `/*!`: the first token is dropped; it is not the hint word
    rename_i hv
    obtain ⟨t, htx⟩ := (hasPrefix_iff versionCommentOpen _).1 hv
    match a, e, htx, hmem, ht with
    | [], e, htx, _, _ =>
      rw [e] at htx
      simp only [versionCommentOpen, List.nil_append, List.cons_append, List.cons.injEq, true_and] at htx
      cases m with
      | nil => simp at htx
      | cons c m' =>
        simp only [List.cons_append, List.cons.injEq] at htx
        have := hs.letters c (by simp)
        rw [htx.1] at this
        exact absurd this (by decide)
    | [x], e, htx, _, _ =>
      rw [e] at htx
      simp [versionCommentOpen] at htx
    | x :: y :: r, e, htx, hmem, ht =>
      have hxy : x = '/' ∧ y = '*' := by
        rw [e] at htx
        simp only [versionCommentOpen, List.cons_append, List.cons.injEq] at htx
        exact ⟨htx.1, htx.2.1⟩
      obtain ⟨hx, hy⟩ := hxy
      subst hx; subst hy
      have e' : '/' :: '*' :: r ++ hintComment m ++ b
          = ('/' :: '*' :: r ++ ['/']) ++ hintWord m ++ ('/' :: b) := by simp [hintComment]
      obtain ⟨rest, hsplit⟩ := fieldsFunc_word_split isSqlSep ('/' :: '*' :: r ++ ['/']) (hintWord m) ('/' :: b)
        (hintWord_ne_nil m) (hintWord_no_sep m hs.letters)
        (by
          intro c hc
          rw [getLast_snoc ('/' :: '*' :: r) '/'] at hc; injection hc with hc; subst hc; decide)
        (by
          intro c hc
          simp only [List.head?_cons, Option.some.injEq] at hc
          subst hc; decide)
      have hne : fieldsFunc isSqlSep ('/' :: '*' :: r ++ ['/']) ≠ [] := by
        apply tokens_of_block_comment_ne_nil
        simp [hasPrefix, blockCommentOpen]
      rw [e', hsplit] at ht
      cases hf : fieldsFunc isSqlSep ('/' :: '*' :: r ++ ['/']) with
      | nil => exact absurd hf hne
      | cons t0 ts =>
        rw [hf] at ht
        simp only [List.cons_append, List.length_cons, List.length_append] at ht
        have hlen : (ts.length + (rest.length + 1) + 1 > 1) = True := by
          simp only [gt_iff_lt, eq_iff_iff, iff_true]; omega
        simp only [hlen, if_true, List.tail_cons] at ht
        injection ht with ht
        rw [← ht]
        simp
  · split at ht
    · -- the text starts with `/*`
      rename_i hnv hb
      split at ht
      · cases ht
      · rename_i hint tl htok
        injection ht with ht
        match a, e, ha, hb, htok, hmem, ht with
        | [], _, _, _, htok, _, ht =>
          -- the hint comment is the first thing of the text: its word is the first token
          have hfirst : fieldsFunc isSqlSep ([] ++ hintComment m ++ b) = hintWord m :: fieldsAux isSqlSep [] b := by
            simp only [List.nil_append, hintComment, List.cons_append, List.append_assoc, fieldsFunc, fieldsAux]
            have h1 : isSqlSep '/' = true := by decide
            simp only [h1, if_true, List.isEmpty_nil]
            exact fieldsAux_word_sep isSqlSep (hintWord m) (hintWord_ne_nil m) (hintWord_no_sep m hs.letters) '/' h1 b
          rw [hfirst] at htok
          injection htok with h1 _
          subst h1
          rw [hs.fold] at ht
          simp only [if_true] at ht
          rw [← ht]
          simp
        | [x], e, _, hb, _, _, _ =>
          obtain ⟨t, htx⟩ := (hasPrefix_iff blockCommentOpen _).1 hb
          rw [e] at htx
          simp [blockCommentOpen] at htx
        | x :: y :: r, e, ha, hb, htok, hmem, ht =>
          obtain ⟨t, htx⟩ := (hasPrefix_iff blockCommentOpen _).1 hb
          have hxy : x = '/' ∧ y = '*' := by
            rw [e] at htx
            simp only [blockCommentOpen, List.cons_append, List.cons.injEq] at htx
            exact ⟨htx.1, htx.2.1⟩
          obtain ⟨hx, hy⟩ := hxy
          subst hx; subst hy
          -- the comment that opens the text is closed inside `a`
          have hblk : lexRun .blockOpen ('*' :: r) = .code := by
            have : lexRun .code ('/' :: '*' :: r) = lexRun .blockOpen ('*' :: r) := by
              simp [lexRun, lexStep, isQuoteChar]
            rw [← this]; exact ha
          obtain ⟨k, hk, hklen⟩ := indexClose_of_block_left ('*' :: r) .blockOpen (Or.inr rfl) hblk
          have hidx : indexClose ('/' :: '*' :: r) = some (k + 1) := by
            have h0 : (('/' : Char) == '*') = false := by decide
            rw [indexClose, h0, hk]
            rfl
          have hidxlen : k + 1 + 2 ≤ ('/' :: '*' :: r).length := by
            simp only [List.length_cons] at hklen ⊢; omega
          have hfull : indexClose ('/' :: '*' :: r ++ hintComment m ++ b) = some (k + 1) := by
            rw [List.append_assoc]
            exact indexClose_append_of_inside _ _ _ hidx hidxlen
          rw [hfull] at ht
          have hpos : (k + 1 > 0) = True := by simp
          simp only [hpos, if_true] at ht
          have hdrop : ('/' :: '*' :: r ++ hintComment m ++ b).drop (k + 1 + 2)
              = ('/' :: '*' :: r).drop (k + 1 + 2) ++ hintComment m ++ b := by
            rw [List.append_assoc, List.drop_append_of_le_length hidxlen, List.append_assoc]
          rw [hdrop] at ht
          have hm2 := hintWord_mem_fields (('/' :: '*' :: r).drop (k + 1 + 2)) m b hs.letters
          rw [← ht]
          split
          · exact List.mem_append_left _ hm2
          · exact hm2
    · injection ht with ht
      rw [← ht]
      exact hmem

/-- The master hint in the text as `Tokenize` reads it (`stripDashLines`: trimmed,
    and without the `--` lines if it begins with one). -/
theorem master_hint_in_tokenized_text (c : RwSplit.Cfg) (st : Nat) (sql a m b : Str) (tokens : List Str)
    (hw : c.allowWrite = true) (hs : HintSpelling m) (ha : lexRun .code a = .code)
    (hdec : stripDashLines sql = a ++ hintComment m ++ b)
    (ht : tokenize sql = .ok tokens) :
    checkExecuteFromSlave c st tokens sql = false := by
  unfold tokenize at ht
  rw [hdec] at ht
  have hmem := tokenizeCore_keeps_hint a m b hs ha tokens ht
  apply checkExecuteFromSlave_of_hint c st tokens _ hw
  simp only [hasMasterHint, List.any_eq_true]
  exact ⟨hintWord m, hmem, hs.lower⟩

/-- **C22, the master hint.**  A SELECT or SHOW of a user who may write that
    contains the comment `/*master*/`, in any letter case, is not flagged for a
    replica — wherever the comment stands (in front of the statement, after its
    first word, inside it, behind it) and whatever other comments and white space
    surround it.  The text before the comment has to end outside quotes and
    comments (`lexRun .code a = .code`: the hint is a comment in its own right).
    This form is for statements that do not begin with a `--` comment; for
    those see `hinted_statement_goes_to_master`. -/
theorem master_hint_goes_to_master (c : RwSplit.Cfg) (st : Nat) (a m b : Str) (tokens : List Str)
    (hw : c.allowWrite = true) (hs : HintSpelling m) (ha : lexRun .code a = .code)
    (hnd : hasPrefix dashDash (trimSpace (a ++ hintComment m ++ b)) = false)
    (ht : tokenize (a ++ hintComment m ++ b) = .ok tokens) :
    checkExecuteFromSlave c st tokens (a ++ hintComment m ++ b) = false := by
  have hdec : stripDashLines (a ++ hintComment m ++ b)
      = a.dropWhile isSpace ++ hintComment m ++ trimRight b := by
    unfold stripDashLines
    simp only [hnd, Bool.false_eq_true, if_false]
    exact trimSpace_around_hint a m b
  have ha' : lexRun .code (a.dropWhile isSpace) = .code := by rw [lexRun_dropWhile_space]; exact ha
  exact master_hint_in_tokenized_text c st _ _ m _ tokens hw hs ha' hdec ht

/-- The hypotheses are satisfiable: a trace comment in front of and behind a hint
    that follows the statement. -/
example : checkExecuteFromSlave { rwFlag := 2, rwSplit := 1, checkSelectLock := true } stmtSelect
    ["select".toList, "*".toList, "from".toList, "t".toList, "*MASTER*".toList, "*".toList, "trace_id=1".toList, "*".toList]
    ("/* c */ select * from t ".toList ++ hintComment "MASTER".toList ++ " /* trace_id=1 */".toList) = false := by
  apply master_hint_goes_to_master _ _ _ _ _ _ rfl (HintSpelling.of_variant _ (by decide)) (by decide) (by decide)
  decide

/-- **C22, the master hint, on the reference semantics.**  Every statement the
    oracle classifies as hinted (`Spec.hinted`: the comment `/*master*/` in any
    letter case, anywhere outside quotes and other comments, the statement read
    as `Tokenize` reads it) is not flagged for a replica, for every user who may
    write.  No restriction on how the statement begins. -/
theorem hinted_statement_goes_to_master (c : RwSplit.Cfg) (st : Nat) (sql : Str) (tokens : List Str)
    (hw : c.allowWrite = true) (hh : Spec.hinted sql = true) (ht : tokenize sql = .ok tokens) :
    checkExecuteFromSlave c st tokens sql = false := by
  unfold Spec.hinted at hh
  simp only [List.any_eq_true, Bool.and_eq_true, beq_iff_eq] at hh
  obtain ⟨i, _, ⟨_, m, hm, hpre⟩, hrun⟩ := hh
  obtain ⟨t, htail⟩ := (hasPrefix_iff (hintComment m) _).1 hpre
  have hdec : stripDashLines sql = (stripDashLines sql).take i ++ hintComment m ++ t := by
    have := List.take_append_drop i (stripDashLines sql)
    rw [htail] at this
    rw [List.append_assoc]
    exact this.symm
  exact master_hint_in_tokenized_text c st sql _ m t tokens hw (HintSpelling.of_variant m hm) hrun hdec ht

example : Spec.hinted "-- c\n/* trace */ select * from t /*MaStEr*/ -- d".toList = true := by decide

/-! ### the oracle and the model -/

/-- **The oracle accepts every decision of the model.**  Whenever the model flags
    a statement for a replica (`tokens` being `Tokenize(sql)`, as in `doQuery`),
    the verdict of the reference semantics (`Spec.replicaVerdict`, the lock clause
    demanded iff `check_select_lock` is on) is "allowed": on the unchanged tree
    the oracle can only object where the implementation differs from the model. -/
theorem replicaVerdict_of_flag (c : RwSplit.Cfg) (st : Nat) (tokens : List Str) (sql : Str)
    (ht : tokenize sql = .ok tokens)
    (h : checkExecuteFromSlave c st tokens sql = true) :
    Spec.replicaVerdict c c.checkSelectLock st sql = none := by
  obtain ⟨hst, hrest⟩ := rw_split_decision c st tokens sql h
  unfold Spec.replicaVerdict
  rcases hrest with hnw | ⟨hsp, hlk, hp, _⟩
  · simp [hnw]
  · cases hw : c.allowWrite with
    | false => simp
    | true =>
      have hst' : (st != stmtSelect && st != stmtShow) = false := by
        rcases hst with h' | h' <;> subst h' <;> decide
      have hl' : (c.checkSelectLock && Spec.lockingRead sql) = false := by
        cases hl : c.checkSelectLock with
        | false => rfl
        | true => simp [(hlk hl).2]
      have hh : Spec.hinted sql = false := by
        cases hh : Spec.hinted sql with
        | false => rfl
        | true => rw [hinted_statement_goes_to_master c st sql tokens hw hh ht] at h; cases h
      simp [hst', hsp, hl', hp, hh]

/-- … and so does every route of `doQuery` to a replica, for a user who may write. -/
theorem replicaVerdict_of_route (c : RwSplit.Cfg) (s : Sess) (sl : Slice) (db : Str) (st : Nat) (sql : Str)
    (f' : Bool) (hw : c.allowWrite = true)
    (h : doQuery c s sl db st sql = .ok (.conn .slave f')) :
    s.isInTransaction = false ∧ Spec.replicaVerdict c c.checkSelectLock st sql = none := by
  obtain ⟨tokens, htok, hg⟩ := doQuery_conn c s sl db st sql .slave f' h
  obtain ⟨_, htx, hf⟩ := getBackendConn_slave c s sl _ f' hg
  exact ⟨htx, replicaVerdict_of_flag c st tokens sql htok hf⟩

/-! ### multi-statement packets: every piece is routed as if it were sent alone -/

/-- The flag a request context holds on entry does not matter to `doQuery`:
    either the outcome is the one of a fresh context, or no connection is taken
    (`show databases`, a SHOW without tokens) and only the untouched flag differs. -/
theorem doQueryFrom_cases (f0 : Bool) (c : RwSplit.Cfg) (s : Sess) (sl : Slice) (db : Str) (st : Nat) (sql : Str) :
    doQueryFrom f0 c s sl db st sql = doQuery c s sl db st sql ∨
    (doQueryFrom f0 c s sl db st sql = .ok (.local f0) ∧ doQuery c s sl db st sql = .ok (.local false)) ∨
    (doQueryFrom f0 c s sl db st sql = .ok (.failed f0) ∧ doQuery c s sl db st sql = .ok (.failed false)) := by
  unfold doQueryFrom doQuery
  repeat' split
  all_goals simp

theorem doQueryFrom_false (c : RwSplit.Cfg) (s : Sess) (sl : Slice) (db : Str) (st : Nat) (sql : Str) :
    doQueryFrom false c s sl db st sql = doQuery c s sl db st sql := by
  rcases doQueryFrom_cases false c s sl db st sql with h | ⟨h1, h2⟩ | ⟨h1, h2⟩
  · exact h
  · rw [h1, h2]
  · rw [h1, h2]

/-- **C22, multi-statement packets.**  `doMultiStmts` runs the pieces of a
    packet on one request context; whatever flag the earlier pieces left there,
    every piece runs where it would run if it were sent alone (and the packet
    stops at the same piece): a write, a locking read, a hinted statement or a
    read_only probe that follows a plain read in the same packet does not
    inherit the read's route to a replica. -/
theorem multi_pieces_routed_alone (c : RwSplit.Cfg) (s : Sess) (sl : Slice) (db : Str) :
    ∀ (ps : List (Nat × Str)) (f0 : Bool), doMulti c s sl db f0 ps = doAlone c s sl db ps := by
  intro ps
  induction ps with
  | nil => intro f0; rfl
  | cons p ps ih =>
    intro f0
    obtain ⟨st, sql⟩ := p
    simp only [doMulti, doAlone]
    rcases doQueryFrom_cases f0 c s sl db st sql with h | ⟨h1, h2⟩ | ⟨h1, h2⟩
    · rw [h]
      cases hq : doQuery c s sl db st sql with
      | ok r =>
        simp only
        cases hn : r.next with
        | none => rfl
        | some f => simp only [ih f]
      | fail => rfl
      | panic => rfl
    · rw [h1, h2]; simp only [Route.next, Route.where_, ih f0]
    · rw [h1, h2]; simp only [Route.next, Route.where_]

/-- A piece of a packet that is served by a replica is served by a replica when sent alone. -/
theorem multi_slave_piece (c : RwSplit.Cfg) (s : Sess) (sl : Slice) (db : Str) :
    ∀ (ps : List (Nat × Str)) (f0 : Bool) (i : Nat), (doMulti c s sl db f0 ps)[i]? = some .slave →
      ∃ st sql f', ps[i]? = some (st, sql) ∧ doQuery c s sl db st sql = .ok (.conn .slave f') := by
  intro ps f0 i h
  rw [multi_pieces_routed_alone] at h
  clear f0
  induction ps generalizing i with
  | nil => simp [doAlone] at h
  | cons p ps ih =>
    obtain ⟨st, sql⟩ := p
    simp only [doAlone] at h
    cases hq : doQuery c s sl db st sql with
    | ok r =>
      rw [hq] at h
      simp only at h
      cases i with
      | zero =>
        have hw : r.where_ = .slave := by
          cases hn : r.next with
          | none => rw [hn] at h; simpa using h
          | some f => rw [hn] at h; simpa using h
        refine ⟨st, sql, ?_⟩
        cases r with
        | conn n f => cases n <;> simp [Route.where_] at hw; exact ⟨f, rfl, hq⟩
        | «local» f => simp [Route.where_] at hw
        | failed f => simp [Route.where_] at hw
        | unmodelled => simp [Route.where_] at hw
      | succ j =>
        cases hn : r.next with
        | none => rw [hn] at h; simp at h
        | some f =>
          rw [hn] at h
          simp only [List.getElem?_cons_succ] at h
          obtain ⟨st', sql', f', h1, h2⟩ := ih j h
          exact ⟨st', sql', f', by simpa using h1, h2⟩
    | fail => rw [hq] at h; simp at h
    | panic => rw [hq] at h; simp at h

/-- … so, for a user who may write, such a piece is a plain read outside a
    transaction and keep-session (`replica_only_for_plain_reads` applies to it). -/
theorem multi_replica_only_for_plain_reads (c : RwSplit.Cfg) (s : Sess) (sl : Slice) (db : Str)
    (ps : List (Nat × Str)) (f0 : Bool) (i : Nat) (hw : c.allowWrite = true)
    (h : (doMulti c s sl db f0 ps)[i]? = some .slave) :
    ∃ st sql, ps[i]? = some (st, sql) ∧
      s.keepSession = false ∧ s.isInTransaction = false ∧ (st = stmtSelect ∨ st = stmtShow) ∧
      c.isRWSplit = true ∧ (c.checkSelectLock = true → Spec.lockingRead sql = false) ∧
      isReadOnlyProbe st sql = false ∧
      ∃ tokens, tokenize sql = .ok tokens ∧ hasMasterHint tokens = false := by
  obtain ⟨st, sql, f', hp, hq⟩ := multi_slave_piece c s sl db ps f0 i h
  exact ⟨st, sql, hp, replica_only_for_plain_reads c s sl db st sql f' hw hq⟩

/-- "select …; update …" for a read/write-split user: the read on a replica, the write on the master
    (the seeded change C22-2 dropped `SetFromSlave(false)`: the update inherited the replica) -/
example : doMulti { rwFlag := 2, rwSplit := 1, checkSelectLock := true }
    { keepSession := false, inTrans := false, autocommit := true } { slaveUp := true, fallback := true } "db_a".toList false
    [(stmtSelect, "select * from t where id = 1".toList), (stmtUpdate, " update t set a = 1 where id = 1".toList),
     (stmtSelect, " select * from t where id = 1 for update".toList)] = [.slave, .master, .master] := by decide

/-! ### the pinned tree violated the property: witnesses

  `checkExecuteFromSlavePinned` / `handleShowFlagPinned` are the decisions before
  the `fix:` commits.  Each witness pairs the pinned decision (replica) with the
  current one (master) on the same statement; the statements are regression
  cases of corpus/C22. -/

def flagOf (f : RwSplit.Cfg → Nat → List Str → Str → Bool) (c : RwSplit.Cfg) (st : Nat) (sql : String) : Option Bool :=
  match tokenize sql.toList with
  | .ok t => some (f c st t sql.toList)
  | _ => none

def splitUser : RwSplit.Cfg := { rwFlag := 2, rwSplit := 1, checkSelectLock := true }
def writeUser : RwSplit.Cfg := { rwFlag := 2, rwSplit := 0, checkSelectLock := true }

theorem trailing_block_comment_witness :
    flagOf checkExecuteFromSlavePinned splitUser stmtSelect "select * from t where id=1 for update /* trace_id=1 */" = some true ∧
    flagOf checkExecuteFromSlave splitUser stmtSelect "select * from t where id=1 for update /* trace_id=1 */" = some false := by
  decide

theorem trailing_line_comment_witness :
    flagOf checkExecuteFromSlavePinned splitUser stmtSelect "select * from t where id=1 lock in share mode -- x" = some true ∧
    flagOf checkExecuteFromSlave splitUser stmtSelect "select * from t where id=1 lock in share mode -- x" = some false := by
  decide

theorem trailing_hash_comment_witness :
    flagOf checkExecuteFromSlavePinned splitUser stmtSelect "select * from t for share skip locked # x" = some true ∧
    flagOf checkExecuteFromSlave splitUser stmtSelect "select * from t for share skip locked # x" = some false := by
  decide

theorem hint_before_trace_comment_witness :
    flagOf checkExecuteFromSlavePinned splitUser stmtSelect "select * from t /*master*/ /* trace_id=1 */" = some true ∧
    flagOf checkExecuteFromSlave splitUser stmtSelect "select * from t /*master*/ /* trace_id=1 */" = some false := by
  decide

theorem hint_after_leading_comment_witness :
    flagOf checkExecuteFromSlavePinned splitUser stmtSelect "/* trace */ /*master*/ select * from t" = some true ∧
    flagOf checkExecuteFromSlave splitUser stmtSelect "/* trace */ /*master*/ select * from t" = some false := by
  decide

/-- A statement that tokenises to one word (a vertical tab is white space for
    `parser.Preview` and MySQL but no separator for `Tokenize`) was sent to a
    replica even for a user without read/write splitting, and even when it
    probes `@@read_only`. -/
theorem one_word_statement_witness :
    flagOf checkExecuteFromSlavePinned writeUser stmtSelect "select\x0b@@read_only" = some true ∧
    flagOf checkExecuteFromSlave writeUser stmtSelect "select\x0b@@read_only" = some false ∧
    flagOf checkExecuteFromSlave splitUser stmtSelect "select\x0b@@read_only" = some false := by
  decide

theorem show_read_only_upper_case_witness :
    handleShowFlagPinned splitUser false "SHOW VARIABLES LIKE 'READ_ONLY'".toList = true ∧
    flagOf (fun c _ t s => handleShowFlag c t s) splitUser stmtShow "SHOW VARIABLES LIKE 'READ_ONLY'" = some false := by
  decide

theorem show_master_hint_witness :
    handleShowFlagPinned splitUser false "/*master*/ show tables".toList = true ∧
    flagOf (fun c _ t s => handleShowFlag c t s) splitUser stmtShow "/*master*/ show tables" = some false := by
  decide

/-- **Former open finding** (class `readonly-keepsession-tx-on-replica`, repaired by
    fix cb8bfb6).  The property says that inside a transaction every statement
    runs on the master.  For a read-only user in a keep-session session,
    `getBackendKsConn` of the pinned tree set the flag to "replica" whatever the
    transaction state, so the statements of the transaction ran on a replica
    (`getBackendConnPinned`); the repaired code takes the master
    (`in_transaction_master`, `keepsession_master`). -/
theorem readonly_keepsession_tx_on_replica_witness :
    getBackendConnPinned { rwFlag := 1, rwSplit := 1, checkSelectLock := true }
      { keepSession := true, inTrans := true, autocommit := true } { slaveUp := true, fallback := true } true =
        (.slave, true) ∧
    doQuery { rwFlag := 1, rwSplit := 1, checkSelectLock := true }
      { keepSession := true, inTrans := true, autocommit := true } { slaveUp := true, fallback := true }
      "db_a".toList stmtSelect "select * from t".toList = .ok (.conn .master false) := by
  decide

end GaeaVerif.C22
