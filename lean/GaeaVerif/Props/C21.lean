import GaeaVerif.Lemmas.PreviewC21With
import GaeaVerif.Lemmas.LexC17Split
import GaeaVerif.Gen.Consts
/-
  C21 — Read-only users cannot change data or schema.

  Theorems about `Model/PreviewC21.lean` (parser.Preview, PreviewMainStatement,
  withMainStatement, StripLeadingComments, SplitMarginComments,
  isSQLNotAllowedByUser, checkSQLAllowed, doQuery, handleQuery,
  handleStmtExecute with bound parameters), instantiated with
  the keyword tables the translator extracts from the source on every run
  (`Gen.c21…`).  The tie to the Go code is the correspondence check
  `gvh run C21` plus those generated facts.
-/
namespace GaeaVerif.C21
open GaeaVerif GaeaVerif.LexC17 GaeaVerif.PreviewC21

/-- The tables of the current source, as extracted by the translator. -/
def genTables : Tables :=
  { sw1 := Gen.c21Switch1, sw2 := Gen.c21Switch2, sw3 := Gen.c21Switch3,
    unknown := Gen.c21StmtUnknown, comment := Gen.c21StmtComment, withK := Gen.c21StmtWith,
    notAllowed := Gen.c21NotAllowed }

/-! ### ties to the source -/

/-- The hand-written tables of the model (what the driver runs) are those of the source. -/
theorem tables_eq : genTables = PreviewC21.tables := by rfl

/-- `unicode.Letter` of the Go release in use is the table of the model. -/
theorem letterRanges_eq : Gen.c21LetterRanges = UnicodeC21.letterRanges := by rfl

/-- The only runes ≥ 0x80 whose `unicode.ToLower` is ASCII are the two `lowerRune` knows. -/
theorem lowerToAscii_eq : Gen.c21LowerToAscii = [(0x130, 0x69), (0x212A, 0x6B)] := by decide

theorem lowerRune_special : ∀ p ∈ Gen.c21LowerToAscii, lowerRune p.1 = p.2 := by decide

/-- `unicode.IsSpace` is `isSpace`. -/
theorem spaces_eq (r : Nat) : r ∈ Gen.c21Spaces ↔ isSpace r = true := by
  simp only [Gen.c21Spaces, isSpace, List.mem_cons, List.mem_nil_iff, or_false, Bool.or_eq_true, Bool.and_eq_true,
    decide_eq_true_eq]
  omega

theorem paths_shape : Gen.c21DoQueryChecksFirst = true ∧ Gen.c21CheckShape = true ∧ Gen.c21PathsShape = true ∧
    Gen.c21MainShape = true ∧ Gen.c21PlanChecksTree = true := by decide

/-- `stmtTypeOfNode` (the kind a parsed tree is checked as in `getPlan`): every
    node type it knows — INSERT/REPLACE, UPDATE, DELETE, LOAD DATA, PREPARE,
    EXECUTE and the ten DDL statements of the grammar — maps to a refused kind. -/
theorem node_kinds_refused : Gen.c21NodeKinds.all (fun e => Gen.c21NotAllowed.contains e.2) = true ∧
    Gen.c21NodeKinds.map (·.1) =
      ["ast.InsertStmt", "ast.InsertStmt", "ast.UpdateStmt", "ast.DeleteStmt", "ast.LoadDataStmt", "ast.PrepareStmt",
       "ast.ExecuteStmt", "ast.CreateDatabaseStmt", "ast.DropDatabaseStmt", "ast.CreateTableStmt", "ast.DropTableStmt",
       "ast.RenameTableStmt", "ast.CreateViewStmt", "ast.CreateIndexStmt", "ast.DropIndexStmt", "ast.AlterTableStmt",
       "ast.TruncateTableStmt"] := by decide

/-- Statement kinds by name, for readability of the statements below. -/
theorem rejected_kinds :
    Gen.c21NotAllowed.map (fun k => (Gen.c21StmtKinds.find? (·.2 = k)).map (·.1)) =
      [some "StmtDelete", some "StmtInsert", some "StmtUpdate", some "StmtReplace", some "StmtDDL", some "StmtLoad",
       some "StmtCallProc", some "StmtPrepare", some "StmtExecute", some "StmtWith"] := by
  decide

/-! ### facts about the keywords in the extracted tables -/

/-- The kind `Preview` answers for a text whose first word is keyword `k`,
    when that can be told from the tables alone: the first switch has `k`, or
    it misses it, no key of the second switch starts with its first two
    letters, and the third switch has `k`. -/
def kwKind (T : Tables) (k : List Nat) : Option Nat :=
  match lookup T.sw1 k with
  | some kind => some kind
  | none =>
    match k with
    | x :: y :: _ => if missTwo T.sw2 x y then lookup T.sw3 k else none
    | _ => none

/-- A kind the read-only check refuses as it is: `isSQLNotAllowedByUser` rejects
    it and `checkSQLAllowed` does not look further (it is neither StmtComment
    nor StmtWith). -/
def Final (T : Tables) (kind : Nat) : Prop :=
  T.notAllowed.contains kind = true ∧ kind ≠ T.comment ∧ kind ≠ T.withK

instance (T : Tables) (kind : Nat) : Decidable (Final T kind) := by unfold Final; infer_instance

/-- Every refused keyword (the ten write keywords, CALL, PREPARE, EXECUTE) previews as a `Final` kind. -/
theorem refused_kw_facts : ∀ k ∈ refusedKeywords, ∃ kind, kwKind genTables k = some kind ∧ Final genTables kind := by
  decide

theorem with_kw_fact : kwKind genTables kwWith = some genTables.withK := by decide

theorem sw2_keys_long : genTables.sw2.all (fun e => decide (2 ≤ e.1.length)) = true := by decide

theorem comment_not_rejected : genTables.notAllowed.contains genTables.comment = false := by decide

theorem with_rejected : genTables.notAllowed.contains genTables.withK = true := by decide

theorem with_ne_comment : genTables.withK ≠ genTables.comment := by decide

/-! ### Preview of a text that starts with a keyword -/

theorem lowerRune_letter (b : UInt8) (h : isAsciiLetterB b = true) : lowerRune b.toNat = asciiLower b := by
  have := letterB b h
  simp only [lowerRune, asciiLower]
  split
  · rfl
  · rw [if_neg (by omega), if_neg (by omega)]

/-- `Preview` (after `StripLeadingComments`) of a text whose first word is the
    ASCII spelling `kw` (any letter case) of a keyword the tables decide. -/
theorem previewTrimmed_kw (kw rest : Bytes) (kind : Nat) (hne : kw ≠ []) (hletters : ∀ b ∈ kw, isAsciiLetterB b = true)
    (hstop : KwStop rest) (hk : kwKind genTables (kw.map asciiLower) = some kind) :
    previewTrimmed genTables (kw ++ rest) = kind := by
  obtain ⟨b, t, hkw⟩ : ∃ b t, kw = b :: t := by cases kw with | nil => exact absurd rfl hne | cons b t => exact ⟨b, t, rfl⟩
  have hb := letterB b (hletters b (by rw [hkw]; simp))
  have hpre : isPrefixB cSlashStarBang (kw ++ rest) = false := by
    rw [hkw]
    simp only [isPrefixB, cSlashStarBang, List.cons_append, List.length_cons, List.length_nil, List.take_succ_cons,
      beq_eq_false_iff_ne, ne_eq, List.cons.injEq, not_and]
    intro e; rw [e] at hb; exact absurd hb.2 (by decide)
  have hlw : toLower (firstWord (kw ++ rest)) = kw.map asciiLower := by
    rw [firstWord_kw kw rest hne hletters hstop, toLower_kw kw hletters]
  simp only [previewTrimmed, hpre, Bool.false_eq_true, if_false, hlw]
  simp only [kwKind] at hk
  cases h1 : lookup genTables.sw1 (kw.map asciiLower) with
  | some kind' => rw [h1] at hk; simp only [Option.some.injEq] at hk; exact hk
  | none =>
    rw [h1] at hk
    -- the second switch: the statement without margin comments is a prefix of the text
    have hsw2 : lookup genTables.sw2 (toLower (splitMarginQuery (kw ++ rest))) = none ∧
        lookup genTables.sw3 (kw.map asciiLower) = some kind := by
      obtain ⟨m, hm⟩ := splitMarginQuery_prefix (kw ++ rest) (Or.inr ⟨b, t ++ rest, by rw [hkw]; rfl, hletters b (by rw [hkw]; simp)⟩)
      rw [hm]
      cases t with
      | nil => rw [hkw] at hk; simp at hk
      | cons c t' =>
        have hc := letterB c (hletters c (by rw [hkw]; simp))
        rw [hkw] at hk
        simp only [List.map_cons] at hk
        split at hk
        · rename_i hmiss
          refine ⟨?_, by rw [hkw]; exact hk⟩
          by_cases hm2 : 2 ≤ m
          · obtain ⟨m', rfl⟩ : ∃ m', m = m' + 2 := ⟨m - 2, by omega⟩
            rw [hkw]
            simp only [List.cons_append, List.take_succ_cons]
            obtain ⟨r, hr⟩ := toLower_two b c (List.take m' (t' ++ rest)) hb.1 hc.1
            rw [hr, lowerRune_letter b (hletters b (by rw [hkw]; simp)), lowerRune_letter c (hletters c (by rw [hkw]; simp))]
            exact lookup_missTwo _ _ _ _ hmiss
          · exact lookup_short _ _ (toLower_short _ (by simp only [List.length_take]; omega)) sw2_keys_long
        · exact absurd hk (by simp)
    simp only [hsw2.1, hsw2.2]

/-- A keyword followed by the rest of the statement: `kw` is an ASCII spelling
    (any letter case) of one of the refused keywords (INSERT, REPLACE, UPDATE,
    DELETE, CREATE, ALTER, DROP, TRUNCATE, RENAME, LOAD, CALL, PREPARE,
    EXECUTE), `rest` is empty or starts with an ASCII byte that ends a word and
    ends with an ASCII byte that is not white space. -/
structure KwText (kw rest : Bytes) : Prop where
  letters : ∀ b ∈ kw, isAsciiLetterB b = true
  isWrite : kw.map asciiLower ∈ refusedKeywords
  stop : KwStop rest
  ending : rest = [] ∨ ∃ s b, rest = s ++ [b] ∧ b.toNat < 0x80 ∧ isSpace b.toNat = false

theorem KwText.ne {kw rest : Bytes} (h : KwText kw rest) : kw ≠ [] := by
  intro e
  have := h.isWrite
  rw [e] at this
  revert this; decide

theorem solid_of_letters (kw rest : Bytes) (hne : kw ≠ []) (hletters : ∀ b ∈ kw, isAsciiLetterB b = true)
    (hend : rest = [] ∨ ∃ s b, rest = s ++ [b] ∧ b.toNat < 0x80 ∧ isSpace b.toNat = false) : Solid (kw ++ rest) := by
  cases hk : kw with
  | nil => exact absurd hk hne
  | cons b t =>
    have hb := letterB b (hletters b (by rw [hk]; simp))
    have hsp : isLeadBlank b.toNat = false := by
      simp only [isLeadBlank, isSpace, Bool.or_eq_false_iff, Bool.and_eq_false_iff, decide_eq_false_iff_not]; omega
    refine ⟨⟨b, t ++ rest, rfl, hb.1, hsp⟩, ?_⟩
    rcases hend with e | ⟨s, x, e, hx, hsx⟩
    · subst e
      rcases List.eq_nil_or_concat (b :: t) with e' | ⟨init, x, e'⟩
      · simp at e'
      · rw [List.concat_eq_append] at e'
        have hx := letterB x (hletters x (by rw [hk, e']; simp))
        refine ⟨init, x, by simp [e'], hx.1, ?_⟩
        simp only [isSpace, Bool.or_eq_false_iff, Bool.and_eq_false_iff, decide_eq_false_iff_not]; omega
    · exact ⟨(b :: t) ++ s, x, by rw [e]; simp, hx, hsx⟩

theorem stable_of_letters (kw rest : Bytes) (hne : kw ≠ []) (hletters : ∀ b ∈ kw, isAsciiLetterB b = true) :
    ∀ n, stripLoop n (kw ++ rest) = kw ++ rest := by
  intro n
  apply stripLoop_solid_nocomment
  cases hk : kw with
  | nil => exact absurd hk hne
  | cons b t =>
    have hb := letterB b (hletters b (by rw [hk]; simp))
    cases t with
    | nil =>
      cases rest with
      | nil => rfl
      | cons c r => simp only [List.cons_append, List.nil_append, hasCommentPrefix, Bool.or_eq_false_iff,
          Bool.and_eq_false_iff, decide_eq_false_iff_not]; omega
    | cons c r => simp only [List.cons_append, hasCommentPrefix, Bool.or_eq_false_iff, Bool.and_eq_false_iff,
        decide_eq_false_iff_not]; omega

theorem KwText.solid {kw rest : Bytes} (h : KwText kw rest) : Solid (kw ++ rest) :=
  solid_of_letters kw rest h.ne h.letters h.ending

theorem KwText.stable {kw rest : Bytes} (h : KwText kw rest) : ∀ n, stripLoop n (kw ++ rest) = kw ++ rest :=
  stable_of_letters kw rest h.ne h.letters

/-- `Preview` (after `StripLeadingComments`) of a keyword text is a kind the read-only check rejects as it is. -/
theorem previewTrimmed_write (kw rest : Bytes) (h : KwText kw rest) :
    Final genTables (previewTrimmed genTables (kw ++ rest)) := by
  obtain ⟨kind, hk, hfin⟩ := refused_kw_facts _ h.isWrite
  rw [previewTrimmed_kw kw rest kind h.ne h.letters h.stop hk]
  exact hfin

/-- Trailing ASCII white space after the statement. -/
abbrev Tail (tail : Bytes) : Prop := AsciiWs tail

/-- **Preview rejects.** Leading white space, semicolons of empty statements
    and comments (`/* */`, `-- `, `#`, any number, any order), a write keyword in any letter case, the rest of the
    statement, trailing white space: `Preview` answers a kind that
    `isSQLNotAllowedByUser` rejects for a read-only user. -/
theorem preview_write (ts : List Trivia) (kw rest tail : Bytes)
    (hts : ∀ t ∈ ts, t.ok = true ∧ t.isXopen = false) (h : KwText kw rest) (ht : Tail tail) :
    Final genTables (preview genTables (renderTrivia ts ++ (kw ++ rest) ++ tail)) := by
  simp only [preview]
  rw [stripLeadingComments_trivia ts (kw ++ rest) tail hts h.solid h.stable ht]
  exact previewTrimmed_write kw rest h

/-- A text whose `Preview` is a `Final` kind is refused. -/
theorem check_of_final (sql : Bytes) (h : Final genTables (preview genTables sql)) :
    checkSQLAllowed genTables false sql = true := by
  simp only [checkSQLAllowed, isSQLNotAllowedByUser, Bool.false_eq_true, if_false]
  rw [if_neg (by intro e; rcases e with e | e; exact h.2.1 e; exact h.2.2 e)]
  exact h.1

/-- `PreviewMainStatement` stops at a `Final` kind. -/
theorem previewMainLoop_final (n : Nat) (sql : Bytes) (h : Final genTables (preview genTables sql)) :
    previewMainLoop genTables n sql = preview genTables sql := by
  cases n with
  | zero => rfl
  | succ n => simp only [previewMainLoop]; rw [if_neg h.2.1, if_neg h.2.2]

/-- **readonly_rejects (plain and commented statements; also CALL, and PREPARE /
    EXECUTE sent as queries).** `checkSQLAllowed` returns the read-only error
    for every such text. -/
theorem readonly_rejects (ts : List Trivia) (kw rest tail : Bytes)
    (hts : ∀ t ∈ ts, t.ok = true ∧ t.isXopen = false) (h : KwText kw rest) (ht : Tail tail) :
    checkSQLAllowed genTables false (renderTrivia ts ++ (kw ++ rest) ++ tail) = true :=
  check_of_final _ (preview_write ts kw rest tail hts h ht)


/-! ### statements inside a leading `/*!NNNNN … */` comment -/

/-- The code of the comment does not start with a blank, a digit or `M`
    (those would belong to the version number / the blanks after it). -/
def CodeStart (y : Bytes) : Prop :=
  ∀ c, y.head? = some c → isBlankB c = false ∧ isDigitB c = false ∧ c.toNat ≠ 0x4D

theorem headStop (p : UInt8 → Bool) (y : Bytes) (h : ∀ c, y.head? = some c → p c = false) :
    y = [] ∨ ∃ n t, y = n :: t ∧ p n = false := by
  cases y with
  | nil => left; rfl
  | cons n t => right; exact ⟨n, t, rfl, h n rfl⟩

/-- `specCodeStart` removes exactly `/*!`, the version and the blanks. -/
theorem specCodeStartLen_xopen (v bl y : Bytes) (hv : isVersion v = true)
    (hbl : ∀ b ∈ bl, isBlankB b = true) (hy : CodeStart y) :
    specCodeStartLen (0x2F :: 0x2A :: 0x21 :: (v ++ bl ++ y)) = 3 + v.length + bl.length := by
  have hblank : spanLen isBlankB (bl ++ y) = bl.length :=
    spanLen_run isBlankB bl y hbl (headStop isBlankB y (fun c hc => (hy c hc).1))
  -- what follows the version is not a digit
  have hnd : bl ++ y = [] ∨ ∃ n t, bl ++ y = n :: t ∧ isDigitB n = false := by
    cases bl with
    | nil => simpa using headStop isDigitB y (fun c hc => (hy c hc).2.1)
    | cons b t =>
      right
      refine ⟨b, t ++ y, rfl, ?_⟩
      have := hbl b (by simp)
      simp only [isBlankB, Bool.or_eq_true, decide_eq_true_eq] at this
      simp only [isDigitB, isDigit, Bool.and_eq_false_iff, decide_eq_false_iff_not]; omega
  simp only [specCodeStartLen, List.drop_succ_cons, List.drop_zero]
  simp only [isVersion, Bool.or_eq_true, decide_eq_true_eq, Bool.and_eq_true, List.all_eq_true] at hv
  rcases hv with rfl | hv
  · -- no version number
    simp only [List.nil_append, List.length_nil, Nat.add_zero]
    cases hby : bl ++ y with
    | nil =>
      have : bl = [] := by cases bl <;> simp_all
      subst this
      simp [spanLen]
    | cons c t =>
      rw [hby] at hblank hnd
      have hcd : isDigitB c = false := by
        rcases hnd with e | ⟨n, t', e, hn⟩
        · simp at e
        · simp only [List.cons.injEq] at e; rw [e.1]; exact hn
      have hcM : ¬ c.toNat = 0x4D := by
        cases bl with
        | nil => simp only [List.nil_append] at hby; exact (hy c (by rw [hby]; rfl)).2.2
        | cons b' t' =>
          simp only [List.cons_append, List.cons.injEq] at hby
          have := hbl b' (by simp)
          simp only [isBlankB, Bool.or_eq_true, decide_eq_true_eq] at this
          rw [← hby.1]; omega
      have hd0 : spanLen isDigitB (c :: t) = 0 := by simp [spanLen, List.takeWhile, hcd]
      simp only [hcM, if_false, List.drop_zero, hd0]
      rw [if_neg (by omega)]
      simp only [List.drop_zero, hblank]
  · obtain ⟨hlen, hdig⟩ := hv
    cases v with
    | nil => simp at hlen
    | cons m t =>
      by_cases hM : m.toNat = 0x4D
      · simp only [hM, if_true] at hlen hdig
        have hd : spanLen isDigitB (t ++ (bl ++ y)) = t.length := spanLen_run isDigitB t _ hdig hnd
        simp only [List.cons_append, List.append_assoc, hM, if_true, List.drop_succ_cons, List.drop_zero, hd]
        rw [if_pos (by omega)]
        have hmin : min t.length 6 = t.length := by omega
        rw [hmin]
        have : List.drop (1 + t.length) (m :: (t ++ (bl ++ y))) = bl ++ y := by
          rw [show 1 + t.length = t.length + 1 by omega, List.drop_succ_cons, List.drop_left]
        rw [this, hblank]
        simp only [List.length_cons]; omega
      · simp only [hM, if_false] at hlen hdig
        have hd : spanLen isDigitB ((m :: t) ++ (bl ++ y)) = (m :: t).length := spanLen_run isDigitB (m :: t) _ hdig hnd
        simp only [List.cons_append, List.append_assoc, hM, if_false, List.drop_zero]
        simp only [List.cons_append] at hd
        rw [hd, if_pos (by omega)]
        have hmin : min (m :: t).length 6 = (m :: t).length := by omega
        rw [hmin, Nat.zero_add]
        have : List.drop (m :: t).length (m :: (t ++ (bl ++ y))) = bl ++ y := by
          have : m :: (t ++ (bl ++ y)) = (m :: t) ++ (bl ++ y) := rfl
          rw [this, List.drop_left]
        rw [this, hblank]

/-- **readonly_rejects (executable comments).** A write statement inside a
    leading `/*!NNNNN … */` comment — which `Preview` classifies as a comment
    but the parser and MySQL execute — is rejected as well: leading trivia,
    `/*!`, an optional version number, blanks, more trivia, the keyword. -/
theorem readonly_rejects_special (ts1 ts2 : List Trivia) (v bl kw rest tail : Bytes)
    (hts1 : ∀ t ∈ ts1, t.ok = true ∧ t.isXopen = false) (hts2 : ∀ t ∈ ts2, t.ok = true ∧ t.isXopen = false)
    (hv : isVersion v = true) (hbl : ∀ b ∈ bl, isBlankB b = true)
    (hy : CodeStart (renderTrivia ts2 ++ (kw ++ rest))) (h : KwText kw rest) (ht : Tail tail) :
    checkSQLAllowed genTables false
      (renderTrivia ts1 ++ (0x2F :: 0x2A :: 0x21 :: (v ++ bl ++ (renderTrivia ts2 ++ (kw ++ rest)))) ++ tail) = true := by
  -- the text from the comment on
  generalize hX : (0x2F : UInt8) :: 0x2A :: 0x21 :: (v ++ bl ++ (renderTrivia ts2 ++ (kw ++ rest))) = X
  have hXsolid : Solid X := by
    obtain ⟨s, x, e2, hx, hsx⟩ := h.solid.last
    rw [← hX]
    refine ⟨⟨0x2F, _, rfl, by decide, by decide⟩, ⟨0x2F :: 0x2A :: 0x21 :: (v ++ bl ++ (renderTrivia ts2 ++ s)), x, ?_, hx, hsx⟩⟩
    rw [e2]; simp
  have hXpre : isPrefixB cSlashStarBang X = true := by rw [← hX]; rfl
  have hXstable : ∀ n, stripLoop n X = X := by
    intro n
    cases n with
    | zero => rfl
    | succ n =>
      rw [← hX]
      simp only [stripLoop, hasCommentPrefix, thirdIsBang]
      simp
      split <;> rfl
  have hstrip : stripLeadingComments (renderTrivia ts1 ++ X ++ tail) = X :=
    stripLeadingComments_trivia ts1 X tail hts1 hXsolid hXstable ht
  have hprev : preview genTables (renderTrivia ts1 ++ X ++ tail) = genTables.comment := by
    simp only [preview, hstrip, previewTrimmed, hXpre, if_true]
  -- inside the comment
  have hdrop : X.drop (specCodeStartLen X) = renderTrivia ts2 ++ (kw ++ rest) := by
    rw [← hX, specCodeStartLen_xopen v bl _ hv hbl hy]
    have : (0x2F : UInt8) :: 0x2A :: 0x21 :: (v ++ bl ++ (renderTrivia ts2 ++ (kw ++ rest)))
        = ((0x2F : UInt8) :: 0x2A :: 0x21 :: v ++ bl) ++ (renderTrivia ts2 ++ (kw ++ rest)) := by simp
    rw [this, List.drop_left' (by simp; omega)]
  have hp : Final genTables (preview genTables (renderTrivia ts2 ++ (kw ++ rest))) := by
    have := preview_write ts2 kw rest [] hts2 h (by intro b hb; simp at hb)
    simpa using this
  have hmain : previewMainStatement genTables (renderTrivia ts1 ++ X ++ tail) = preview genTables (renderTrivia ts2 ++ (kw ++ rest)) := by
    simp only [previewMainStatement, previewMainLoop, hprev, if_true, hstrip, dropSpecCodeStart, hXpre, hdrop]
    exact previewMainLoop_final _ _ hp
  simp only [checkSQLAllowed, isSQLNotAllowedByUser, Bool.false_eq_true, if_false, hprev, true_or, if_true, hmain]
  exact hp.1

/-! ### WITH -/

theorem asciiLower_two (kw : Bytes) (X : Bytes) (h3 : 3 ≤ kw.length) (hletters : ∀ b ∈ kw, isAsciiLetterB b = true) :
    isAsWord (spanLen isIdentByte (kw ++ X)) (kw ++ X) = false := by
  -- the word is at least as long as the keyword, which has three letters or more
  have hge : kw.length ≤ spanLen isIdentByte (kw ++ X) := by
    simp only [spanLen]
    have hall : ∀ b ∈ kw, isIdentByte b = true := fun b hb => (letter_facts b (hletters b hb)).1
    rw [List.takeWhile_append_of_pos hall]
    simp
  simp only [isAsWord, Bool.and_eq_false_iff, decide_eq_false_iff_not]
  left; omega

theorem refused_three : ∀ k ∈ refusedKeywords, 3 ≤ k.length := by decide

/-- A main statement that starts with a refused keyword. -/
theorem mainStart_kw (kw rest : Bytes) (h : KwText kw rest) : MainStart (kw ++ rest) := by
  have hne := h.ne
  refine ⟨?_, asciiLower_two kw rest (by have := refused_three _ h.isWrite; simpa using this) h.letters⟩
  cases hk : kw with
  | nil => exact absurd hk hne
  | cons b t => exact ⟨b, t ++ rest, rfl, h.letters b (by rw [hk]; simp)⟩

/-- The word WITH in any letter case. -/
def IsWith (w : Bytes) : Prop := (∀ b ∈ w, isAsciiLetterB b = true) ∧ w.map asciiLower = kwWith

theorem IsWith.ne {w : Bytes} (h : IsWith w) : w ≠ [] := by
  intro e; have := h.2; rw [e] at this; revert this; decide

theorem IsWith.ident {w : Bytes} (h : IsWith w) : (WTok.word w).ok = true := by
  simp only [WTok.ok, Bool.and_eq_true, decide_eq_true_eq, List.all_eq_true]
  exact ⟨h.ne, fun b hb => (letter_facts b (h.1 b hb)).1⟩

/-- **readonly_rejects (WITH).** Leading white space and comments, the word
    WITH, the common table expressions — any pieces (words, quoted texts without
    backslash, comments, parentheses, other characters) with balanced
    parentheses, where every parenthesis that closes at the outermost level is
    followed by AS or a comma, except the last —, then a statement that starts
    with a refused keyword: `checkSQLAllowed` returns the read-only error. -/
theorem readonly_rejects_with (ts : List Trivia) (w : Bytes) (ctes : List WTok) (kw rest tail : Bytes)
    (hts : ∀ t ∈ ts, t.ok = true ∧ t.isXopen = false) (hw : IsWith w)
    (hok : ∀ t ∈ ctes, t.ok = true) (hwf : wfW 0 false (.word w :: ctes) = true)
    (h : KwText kw rest) (ht : Tail tail) :
    checkSQLAllowed genTables false (renderTrivia ts ++ (w ++ (renderW ctes ++ (kw ++ rest))) ++ tail) = true := by
  have hm := mainStart_kw kw rest h
  -- the text from WITH on
  generalize hZ : w ++ (renderW ctes ++ (kw ++ rest)) = Z
  have hZsolid : Solid Z := by
    rw [← hZ, ← List.append_assoc]
    have := solid_of_letters w [] hw.ne hw.1 (Or.inl rfl)
    simp only [List.append_nil] at this
    obtain ⟨b, t, e, hb, hsb⟩ := this.first
    obtain ⟨s, x, e2, hx, hsx⟩ := h.solid.last
    exact ⟨⟨b, t ++ renderW ctes ++ (kw ++ rest), by rw [e]; simp, hb, hsb⟩,
      ⟨w ++ renderW ctes ++ s, x, by rw [e2]; simp, hx, hsx⟩⟩
  have hZstable : ∀ n, stripLoop n Z = Z := by
    rw [← hZ]; exact stable_of_letters w _ hw.ne hw.1
  have hstrip : stripLeadingComments (renderTrivia ts ++ Z ++ tail) = Z :=
    stripLeadingComments_trivia ts Z tail hts hZsolid hZstable ht
  -- what follows the word WITH ends it
  obtain ⟨n, tl, hR, hhead⟩ := head_rest ctes (kw ++ rest) hm
  have hwf' := hwf
  simp only [wfW, Bool.and_eq_true, Bool.or_eq_true, Bool.not_eq_true', isComma, Bool.false_eq_true, or_false, true_or,
    true_and] at hwf'
  have hnext : isIdentByte n = false := by
    have hbd := hwf'.1
    simp only [boundary] at hbd
    rcases hhead with hh | ⟨hh, _⟩
    · rw [hh] at hbd; simpa using hbd
    · rw [hh] at hbd; simp at hbd
  have hstop : KwStop (renderW ctes ++ (kw ++ rest)) := by
    right
    refine ⟨n, tl, hR, ?_⟩
    simp only [isIdentByte, isLetter, isDigit, Bool.or_eq_false_iff, Bool.and_eq_false_iff, decide_eq_false_iff_not] at hnext
    refine ⟨by omega, ?_⟩
    simp only [isWordEnd, isIdentChar, isLetter, isDigit, isIdentExtend, Bool.or_eq_true, Bool.not_eq_true',
      Bool.or_eq_false_iff, Bool.and_eq_false_iff, decide_eq_false_iff_not]
    right; omega
  have hprev : preview genTables (renderTrivia ts ++ Z ++ tail) = genTables.withK := by
    simp only [preview, hstrip]
    rw [← hZ]
    exact previewTrimmed_kw w _ _ hw.ne hw.1 hstop (by rw [hw.2]; exact with_kw_fact)
  -- the text starts with a letter: nothing is trimmed in front of WITH
  have htrim : trimLeftFunc (fun r => !isLetterU r) Z.length Z = Z := by
    obtain ⟨b, t, e⟩ : ∃ b t, w = b :: t := by cases hw' : w with | nil => exact absurd hw' hw.ne | cons b t => exact ⟨b, t, rfl⟩
    have hb := letterB b (hw.1 b (by rw [e]; simp))
    rw [← hZ, e, List.cons_append]
    apply trimLeft_stop _ _ b _ hb.1
    simp only [Bool.not_eq_false']
    exact isLetterU_ascii b.toNat (by omega)
  have hscan : withMainStatement Z = some (kw ++ rest) := by
    simp only [withMainStatement]
    have e : renderW (.word w :: ctes) ++ (kw ++ rest) = Z := by rw [← hZ]; simp [renderW, WTok.render]
    have hlen : (renderW (.word w :: ctes)).length ≤ Z.length := by rw [← e]; simp
    have := withMainLoop_toks (.word w :: ctes) 0 false (kw ++ rest) (Z.length + 1)
      (by intro t ht'; simp only [List.mem_cons] at ht'; rcases ht' with rfl | ht'; exact hw.ident; exact hok t ht')
      hwf hm (by omega)
    rw [e] at this
    exact this
  have hp : Final genTables (preview genTables (kw ++ rest)) := by
    have := preview_write [] kw rest [] (by intro t ht'; simp at ht') h (by intro b hb; simp at hb)
    simpa [renderTrivia] using this
  have hmain : previewMainStatement genTables (renderTrivia ts ++ Z ++ tail) = preview genTables (kw ++ rest) := by
    simp only [previewMainStatement, previewMainLoop, hprev, hstrip, htrim, hscan]
    rw [if_neg with_ne_comment]
    simp only [if_true]
    exact previewMainLoop_final _ _ hp
  simp only [checkSQLAllowed, isSQLNotAllowedByUser, Bool.false_eq_true, if_false, hprev, or_true, if_true, hmain]
  exact hp.1

/-- **A WITH statement passes only when its main statement was found and passes.**
    For every text that previews as WITH: if the read-only check lets it
    through, `withMainStatement` found a main statement (on the text from its
    first letter) and `PreviewMainStatement` of that statement is a kind the
    check does not reject.  In particular every WITH statement whose main
    statement cannot be told (unclosed quote or comment, a backslash inside
    quotes, a `/*!` comment, nothing after the last parenthesis) is refused. -/
theorem with_passes_only_through_main (sql : Bytes) (hprev : preview genTables sql = genTables.withK)
    (hpass : checkSQLAllowed genTables false sql = false) :
    ∃ main, withMainStatement (trimLeftFunc (fun r => !isLetterU r) (stripLeadingComments sql).length (stripLeadingComments sql)) = some main ∧
      genTables.notAllowed.contains (previewMainLoop genTables sql.length main) = false := by
  simp only [checkSQLAllowed, isSQLNotAllowedByUser, Bool.false_eq_true, if_false, hprev, or_true, if_true,
    previewMainStatement, previewMainLoop] at hpass
  rw [if_neg with_ne_comment] at hpass
  cases hm : withMainStatement (trimLeftFunc (fun r => !isLetterU r) (stripLeadingComments sql).length (stripLeadingComments sql)) with
  | none => rw [hm] at hpass; simp only [with_rejected] at hpass; exact absurd hpass (by simp)
  | some main => rw [hm] at hpass; exact ⟨main, rfl, hpass⟩

/-! ### the entry paths -/

/-- Texts the read-only check rejects. -/
def Rejected (sql : Bytes) : Prop := checkSQLAllowed genTables false sql = true

/-- **doQuery.** A rejected text gets the read-only error as the first thing
    `doQuery` does: the outcome carries nothing of what follows the check
    (planning, backend) and does not depend on it. -/
theorem doQuery_rejects (planned : Bytes → Option Nat) (rest : Bytes → Bool) (sql : Bytes) (h : Rejected sql) :
    doQuery genTables false planned rest sql = .rejected := by
  unfold Rejected at h
  simp only [doQuery, h, if_true]

/-- **Plans built from the parsed tree.** Whatever `Preview` made of the text:
    when `getPlan` builds the plan from the tree the parser returns and that
    tree is a statement of a refused kind, `doQuery` returns the read-only error
    (before the plan is built, let alone executed). -/
theorem planned_tree_checked (planned : Bytes → Option Nat) (rest : Bytes → Bool) (sql : Bytes) (kind : Nat)
    (hp : planned sql = some kind) (hk : genTables.notAllowed.contains kind = true) :
    doQuery genTables false planned rest sql = .rejected := by
  simp only [doQuery, hp, isSQLNotAllowedByUser, Bool.false_eq_true, if_false, hk, if_true]
  split <;> rfl

theorem reject_before_backend (T : Tables) (aw : Bool) (planned : Bytes → Option Nat) (rest rest' : Bytes → Bool) (sql : Bytes)
    (h : doQuery T aw planned rest sql = .rejected) : doQuery T aw planned rest' sql = .rejected := by
  simp only [doQuery] at h ⊢
  split at h
  · rename_i hc; rw [if_pos hc]
  · rename_i hc
    rw [if_neg hc]
    split at h
    · split at h
      · rename_i hk; rw [if_pos hk]
      · exact absurd h (by simp)
    · exact absurd h (by simp)

/-- Only texts that passed the check are handed to what follows it. -/
theorem passed_not_rejected (planned : Bytes → Option Nat) (rest : Bytes → Bool) (sql : Bytes) (ok : Bool)
    (h : doQuery genTables false planned rest sql = .passed ok) : ¬ Rejected sql := by
  intro hr; rw [doQuery_rejects planned rest sql hr] at h; exact absurd h (by simp)

/-- … and, when the plan is built from the parsed tree, only trees of a kind that is not refused. -/
theorem passed_tree_not_refused (planned : Bytes → Option Nat) (rest : Bytes → Bool) (sql : Bytes) (ok : Bool) (kind : Nat)
    (hp : planned sql = some kind) (h : doQuery genTables false planned rest sql = .passed ok) :
    genTables.notAllowed.contains kind = false := by
  cases hk : genTables.notAllowed.contains kind with
  | false => rfl
  | true => rw [planned_tree_checked planned rest sql kind hp hk] at h; exact absurd h (by simp)

/-- **handleQuery, single statement** (also the path of `handleStmtExecute`):
    the text, without trailing `;`, goes through `doQuery`. -/
theorem handleQuery_single (aw : Bool) (planned : Bytes → Option Nat) (rest : Bytes → Bool) (sql : Bytes) :
    handleQuery genTables aw false planned rest sql =
      [(trimRightSemi sql, doQuery genTables aw planned rest (trimRightSemi sql))] := rfl

theorem handleStmtExecute_eq (aw multi : Bool) (planned : Bytes → Option Nat) (rest : Bytes → Bool) (sql : Bytes) :
    handleStmtExecute genTables aw multi planned rest sql = handleQuery genTables aw multi planned rest sql := rfl

/-- **Every path.** Whatever the text and whichever way it comes in (query,
    multi-statement query, prepared statement, with or without multi-statement
    support), every text that reaches `doQuery` and is `Rejected` gets the
    read-only error; so nothing rejected reaches the backend. -/
theorem readonly_all_paths (multi : Bool) (planned : Bytes → Option Nat) (rest : Bytes → Bool) (sql : Bytes) :
    ∀ e ∈ handleStmtExecute genTables false multi planned rest sql,
      e.2 = doQuery genTables false planned rest e.1 ∧ (Rejected e.1 → e.2 = .rejected) ∧
      (∀ ok, e.2 = .passed ok → ¬ Rejected e.1) := by
  intro e he
  have hdq : e.2 = doQuery genTables false planned rest e.1 := by
    cases multi with
    | false =>
      simp only [handleStmtExecute, handleQuery, Bool.false_eq_true, if_false, List.mem_singleton] at he
      rw [he]
    | true =>
      simp only [handleStmtExecute, handleQuery, if_true, List.mem_map] at he
      obtain ⟨s, _, rfl⟩ := he
      rfl
  refine ⟨hdq, fun hr => by rw [hdq]; exact doQuery_rejects planned rest _ hr, fun ok hok => ?_⟩
  rw [hdq] at hok
  exact passed_not_rejected planned rest _ ok hok

/-- **Inside a multi-statement query.** A rejected piece makes its `doQuery`
    fail, so the loop of `doMultiStmts` stops there: nothing after it is
    executed (C17 `multi_stops_at_first_error`). -/
theorem multi_stops_at_rejected (planned : Bytes → Option Nat) (rest : Bytes → Bool) (pieces : List Bytes) (p : Bytes)
    (pre post : List Bytes)
    (hp : pieces = pre ++ p :: post) (hr : Rejected p)
    (hpre : ∀ q ∈ pre, (doQuery genTables false planned rest q).noError = true) :
    (runPieces (fun s => (doQuery genTables false planned rest s).noError) pieces).executed = pre ++ [p] ∧
    (runPieces (fun s => (doQuery genTables false planned rest s).noError) pieces).failed = true := by
  subst hp
  induction pre with
  | nil =>
    simp [runPieces, doQuery_rejects planned rest p hr, QueryOut.noError]
  | cons q t ih =>
    have hq := hpre q (by simp)
    simp only [List.cons_append, runPieces, hq, if_true]
    have := ih (fun q' h' => hpre q' (by simp [h']))
    exact ⟨by rw [this.1], this.2⟩

/-- Users with write permission are never refused by this check. -/
theorem readwrite_never_rejected (T : Tables) (sql : Bytes) : checkSQLAllowed T true sql = false := by
  simp [checkSQLAllowed, isSQLNotAllowedByUser]

/-! ### prepared statements of the binary protocol with bound parameters -/

/-- The text `GetRewriteSQL` makes starts with the statement's first item
    (which is not a `?`), whatever is bound. -/
theorem rewrite_keeps_first_item (nbe : Bool) (args : List StmtBind.Arg) (first : Bytes) (items : List Bytes) (sql : Bytes)
    (hq : first ≠ [StmtLex.cQMark]) (h : StmtBind.getRewriteSQL nbe (first :: items) args = .ok sql) :
    ∃ r, sql = first ++ r := by
  simp only [StmtBind.getRewriteSQL, StmtBind.rewriteLoop, hq, if_false] at h
  cases hr : StmtBind.rewriteLoop nbe args items 0 with
  | ok r =>
    rw [hr] at h
    simp only [bind, StmtBind.O.bind, StmtBind.O.ok.injEq] at h
    exact ⟨r, h.symm⟩
  | err e => rw [hr] at h; simp [bind, StmtBind.O.bind] at h
  | panic => rw [hr] at h; simp [bind, StmtBind.O.bind] at h

theorem dropWhile_head (p : UInt8 → Bool) : ∀ (l : Bytes) (c : UInt8) (t : Bytes), l.dropWhile p = c :: t → p c = false := by
  intro l
  induction l with
  | nil => intro c t h; simp at h
  | cons a r ih =>
    intro c t h
    by_cases ha : p a = true
    · simp only [List.dropWhile, ha] at h; exact ih c t h
    · simp only [List.dropWhile, ha] at h
      simp only [List.cons.injEq] at h
      rw [← h.1]; simpa using ha

theorem takeWhile_mem (p : UInt8 → Bool) : ∀ (l : Bytes) (b : UInt8), b ∈ l.takeWhile p → p b = true := by
  intro l
  induction l with
  | nil => intro b h; simp at h
  | cons a r ih =>
    intro b h
    by_cases ha : p a = true
    · simp only [List.takeWhile, ha, List.mem_cons] at h
      rcases h with rfl | h
      · exact ha
      · exact ih b h
    · simp [List.takeWhile, ha] at h

theorem dropWhile_nil_all (p : UInt8 → Bool) : ∀ (l : Bytes), l.dropWhile p = [] → ∀ x ∈ l, p x = true := by
  intro l
  induction l with
  | nil => intro _ x h; simp at h
  | cons a r ih =>
    intro h x hx
    by_cases ha : p a = true
    · simp only [List.dropWhile, ha] at h
      simp only [List.mem_cons] at hx
      rcases hx with rfl | hx
      · exact ha
      · exact ih h x hx
    · simp [List.dropWhile, ha] at h

theorem split_ws_tail (y : Bytes) : ∃ rest tail, y = rest ++ tail ∧ (∀ b ∈ tail, isAsciiWs b = true) ∧
    (rest = [] ∨ ∃ s b, rest = s ++ [b] ∧ isAsciiWs b = false) := by
  refine ⟨(y.reverse.dropWhile isAsciiWs).reverse, (y.reverse.takeWhile isAsciiWs).reverse, ?_, ?_, ?_⟩
  · rw [← List.reverse_append, List.takeWhile_append_dropWhile, List.reverse_reverse]
  · intro b hb
    rw [List.mem_reverse] at hb
    exact takeWhile_mem isAsciiWs _ b hb
  · cases hd : y.reverse.dropWhile isAsciiWs with
    | nil => left; rfl
    | cons c t =>
      right
      exact ⟨t.reverse, c, by simp, dropWhile_head isAsciiWs _ c t hd⟩

theorem trimRightSemi_append (P y : Bytes) (hP : ∃ s b, P = s ++ [b] ∧ b.toNat ≠ 0x3B) :
    trimRightSemi (P ++ y) = P ++ trimRightSemi y := by
  obtain ⟨s, b, rfl, hb⟩ := hP
  simp only [trimRightSemi, List.reverse_append, List.reverse_cons, List.reverse_nil, List.nil_append, List.singleton_append]
  cases hd : List.dropWhile (fun x : UInt8 => decide (x.toNat = 0x3B)) y.reverse with
  | nil =>
    have hall := dropWhile_nil_all _ _ hd
    rw [List.dropWhile_append_of_pos hall]
    simp [List.dropWhile, hb]
  | cons c t =>
    have : List.dropWhile (fun x : UInt8 => decide (x.toNat = 0x3B)) (y.reverse ++ b :: s.reverse) = (c :: t) ++ b :: s.reverse := by
      rw [List.dropWhile_append, hd]; simp
    rw [this]
    simp

/-- The last character of the text that is not ASCII white space is an ASCII character. -/
def EndsAscii (sql : Bytes) : Prop :=
  ∀ s b tail, sql = s ++ [b] ++ tail → (∀ x ∈ tail, isAsciiWs x = true) → isAsciiWs b = false → b.toNat < 0x80

theorem ascii_not_ws_not_space (b : UInt8) (h1 : b.toNat < 0x80) (h2 : isAsciiWs b = false) : isSpace b.toNat = false := by
  simp only [isAsciiWs, Bool.or_eq_false_iff, Bool.and_eq_false_iff, decide_eq_false_iff_not] at h2
  simp only [isSpace, Bool.or_eq_false_iff, Bool.and_eq_false_iff, decide_eq_false_iff_not]
  omega

/-- **readonly_rejects (prepared statement with bound parameters).** A prepared
    statement of the binary protocol whose text, up to its first `?`, is leading
    trivia, a refused keyword and at least one more character that ends the
    word: whatever values are bound (and whatever the escaping mode), the text
    `handleStmtExecute` hands to `handleQuery` is refused once its final
    semicolons are trimmed, as `handleQuery` does. -/
theorem readonly_rejects_bound (nbe : Bool) (ts : List Trivia) (kw r0 : Bytes) (items : List Bytes) (args : List StmtBind.Arg)
    (sql : Bytes) (hts : ∀ t ∈ ts, t.ok = true ∧ t.isXopen = false)
    (hletters : ∀ b ∈ kw, isAsciiLetterB b = true) (hkw : kw.map asciiLower ∈ refusedKeywords)
    (hr0 : r0 ≠ []) (hstop : KwStop r0)
    (hrw : StmtBind.getRewriteSQL nbe ((renderTrivia ts ++ (kw ++ r0)) :: items) args = .ok sql)
    (hend : EndsAscii (trimRightSemi sql)) :
    checkSQLAllowed genTables false (trimRightSemi sql) = true := by
  have h3 := refused_three _ hkw
  simp only [List.length_map] at h3
  have hne : kw ≠ [] := by intro e; rw [e] at h3; simp at h3
  -- the bound text keeps the first item
  obtain ⟨r, hsql⟩ := rewrite_keeps_first_item nbe args _ items sql (by
    intro e
    have := congrArg List.length e
    simp only [List.length_append, List.length_cons, List.length_nil] at this
    omega) hrw
  -- the part in front of what follows the keyword ends with a letter
  have hP : ∃ s b, renderTrivia ts ++ kw = s ++ [b] ∧ b.toNat ≠ 0x3B := by
    rcases List.eq_nil_or_concat kw with e | ⟨init, x, e⟩
    · exact absurd e hne
    · rw [List.concat_eq_append] at e
      have hx := letterB x (hletters x (by rw [e]; simp))
      exact ⟨renderTrivia ts ++ init, x, by rw [e]; simp, by omega⟩
  have htrim : trimRightSemi sql = (renderTrivia ts ++ kw) ++ trimRightSemi (r0 ++ r) := by
    rw [hsql, show renderTrivia ts ++ (kw ++ r0) ++ r = (renderTrivia ts ++ kw) ++ (r0 ++ r) by simp]
    exact trimRightSemi_append _ _ hP
  -- what follows the keyword: the rest of the statement, then white space
  obtain ⟨rest, tail, hy, htail, hrest⟩ := split_ws_tail (trimRightSemi (r0 ++ r))
  have htext : trimRightSemi sql = renderTrivia ts ++ (kw ++ rest) ++ tail := by rw [htrim, hy]; simp
  -- the first character after the keyword is that of `r0`
  have hstop' : KwStop rest := by
    cases hrest' : rest with
    | nil => left; rfl
    | cons n t =>
      right
      rcases hstop with e | ⟨n0, t0, e, hn0, hw0⟩
      · exact absurd e hr0
      · -- `trimRightSemi y` is a prefix of `y`
        have hpre : ∃ m, trimRightSemi (r0 ++ r) = (r0 ++ r).take m := by
          simp only [trimRightSemi]
          generalize (r0 ++ r) = y
          refine ⟨(List.dropWhile (fun x : UInt8 => decide (x.toNat = 0x3B)) y.reverse).length, ?_⟩
          have h1 := List.takeWhile_append_dropWhile (p := fun x : UInt8 => decide (x.toNat = 0x3B)) (l := y.reverse)
          have h2 : y = (List.dropWhile (fun x : UInt8 => decide (x.toNat = 0x3B)) y.reverse).reverse ++
              (List.takeWhile (fun x : UInt8 => decide (x.toNat = 0x3B)) y.reverse).reverse := by
            rw [← List.reverse_append, h1, List.reverse_reverse]
          conv => rhs; rw [h2]
          rw [List.take_left' (by simp)]
        obtain ⟨m, hm⟩ := hpre
        rw [hy, hrest', e] at hm
        cases m with
        | zero => simp at hm
        | succ m =>
          simp only [List.cons_append, List.take_succ_cons, List.cons.injEq] at hm
          exact ⟨n, t, rfl, by rw [hm.1]; exact hn0, by rw [hm.1]; exact hw0⟩
  have hending : rest = [] ∨ ∃ s b, rest = s ++ [b] ∧ b.toNat < 0x80 ∧ isSpace b.toNat = false := by
    rcases hrest with e | ⟨s, b, e, hb⟩
    · left; exact e
    · right
      have hlt := hend (renderTrivia ts ++ kw ++ s) b tail (by rw [htext, e]; simp) htail hb
      exact ⟨s, b, e, hlt, ascii_not_ws_not_space b hlt hb⟩
  rw [htext]
  exact readonly_rejects ts kw rest tail hts ⟨hletters, hkw, hstop', hending⟩ (fun b hb => isAsciiWs_space b (htail b hb))

/-- The same on the path itself: such a prepared statement, executed with any
    bound values by a read-only user, is refused before anything else happens. -/
theorem bound_execute_rejected (nbe : Bool) (planned : Bytes → Option Nat) (rest' : Bytes → Bool) (ts : List Trivia) (kw r0 : Bytes) (items : List Bytes)
    (args : List StmtBind.Arg) (sql : Bytes) (hts : ∀ t ∈ ts, t.ok = true ∧ t.isXopen = false)
    (hletters : ∀ b ∈ kw, isAsciiLetterB b = true) (hkw : kw.map asciiLower ∈ refusedKeywords)
    (hr0 : r0 ≠ []) (hstop : KwStop r0)
    (hrw : StmtBind.getRewriteSQL nbe ((renderTrivia ts ++ (kw ++ r0)) :: items) args = .ok sql)
    (hend : EndsAscii (trimRightSemi sql)) :
    handleStmtExecuteBound genTables false false planned rest' nbe ((renderTrivia ts ++ (kw ++ r0)) :: items) args =
      some [(trimRightSemi sql, .rejected)] := by
  have h := readonly_rejects_bound nbe ts kw r0 items args sql hts hletters hkw hr0 hstop hrw hend
  simp only [handleStmtExecuteBound, hrw, handleQuery, Bool.false_eq_true, if_false, doQuery, h, if_true]

/-! ### non-vacuity -/

/-- `; /* c; */ ;-- x` newline `# y` newline `DrOp` + ` table t` + trailing newline. -/
def exTrivia : List Trivia :=
  [.ws [59, 32], .cblock [32, 99, 59, 32], .ws [32, 59], .cdash [32, 120], .chash [32, 121]]

example : (∀ t ∈ exTrivia, t.ok = true ∧ t.isXopen = false) := by decide

example : KwText [68, 114, 79, 112] [32, 116, 97, 98, 108, 101, 32, 116] :=
  ⟨by decide, by decide, Or.inr ⟨0x20, [116, 97, 98, 108, 101, 32, 116], rfl, by decide, by decide⟩, Or.inr ⟨[32, 116, 97, 98, 108, 101, 32], 0x74, rfl, by decide, by decide⟩⟩

example : isVersion [52, 48, 49, 48, 49] = true ∧ CodeStart (renderTrivia [] ++ ([68, 114, 79, 112] ++ [32, 116, 97, 98, 108, 101, 32, 116])) := by
  refine ⟨by decide, ?_⟩
  intro c hc
  simp [renderTrivia] at hc
  subst hc
  decide

/-- `WITH x AS (select ')') , y (a) as (select 1) ` in front of `DrOp table t`. -/
def exCtes : List WTok :=
  [.blank (.ws [32]), .word [120], .blank (.ws [32]), .word [65, 83], .blank (.ws [32]), .lpar,
   .word [115, 101, 108, 101, 99, 116], .blank (.ws [32]), .quoted 0x27 [0x29], .rpar, .blank (.ws [32]), .sym 0x2C,
   .blank (.cblock [32, 41, 32]), .word [121], .blank (.ws [32]), .lpar, .word [97], .rpar, .blank (.ws [32]), .word [97, 115],
   .blank (.cdash [32, 40]), .lpar, .word [115, 101, 108, 101, 99, 116], .blank (.ws [32]), .word [49], .sym 0x2D, .word [49], .rpar,
   .blank (.ws [32])]

example : IsWith [87, 105, 84, 104] := ⟨by decide, by decide⟩

example : (∀ t ∈ exCtes, t.ok = true) ∧ wfW 0 false (.word [87, 105, 84, 104] :: exCtes) = true := by decide

/-- `call p()`, `Prepare s from @q`, `EXECUTE s` are refused like the write statements. -/
example : KwText [99, 97, 108, 108] [32, 112, 40, 41] ∧ KwText [80, 114, 101, 112, 97, 114, 101] [32, 115] ∧
    KwText [69, 88, 69, 67, 85, 84, 69] [32, 115] :=
  ⟨⟨by decide, by decide, Or.inr ⟨0x20, [112, 40, 41], rfl, by decide, by decide⟩, Or.inr ⟨[32, 112, 40], 0x29, rfl, by decide, by decide⟩⟩,
   ⟨by decide, by decide, Or.inr ⟨0x20, [115], rfl, by decide, by decide⟩, Or.inr ⟨[32], 0x73, rfl, by decide, by decide⟩⟩,
   ⟨by decide, by decide, Or.inr ⟨0x20, [115], rfl, by decide, by decide⟩, Or.inr ⟨[32], 0x73, rfl, by decide, by decide⟩⟩⟩

/-- `delete from t where a = ?` bound to the string `x'; -- `: the rewritten text ends in the closing quote. -/
example : StmtBind.getRewriteSQL false
      [[100, 101, 108, 101, 116, 101, 32, 102, 114, 111, 109, 32, 116, 32, 119, 104, 101, 114, 101, 32, 97, 32, 61, 32], [0x3F]]
      [.bytes [120, 39, 59, 32, 45, 45, 32]] =
    .ok [100, 101, 108, 101, 116, 101, 32, 102, 114, 111, 109, 32, 116, 32, 119, 104, 101, 114, 101, 32, 97, 32, 61, 32,
      39, 120, 39, 39, 59, 32, 45, 45, 32, 39] := by decide

/-- A WITH statement that is let through: `with x as (select 1) select 2`. -/
example : preview genTables [119, 105, 116, 104, 32, 120, 32, 97, 115, 32, 40, 115, 101, 108, 101, 99, 116, 32, 49, 41, 32,
      115, 101, 108, 101, 99, 116, 32, 50] = genTables.withK ∧
    checkSQLAllowed genTables false [119, 105, 116, 104, 32, 120, 32, 97, 115, 32, 40, 115, 101, 108, 101, 99, 116, 32, 49, 41, 32,
      115, 101, 108, 101, 99, 116, 32, 50] = false := by decide

end GaeaVerif.C21
