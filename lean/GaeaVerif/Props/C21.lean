import GaeaVerif.Lemmas.PreviewC21Margin
import GaeaVerif.Lemmas.LexC17Split
import GaeaVerif.Gen.Consts
/-
  C21 — Read-only users cannot change data or schema.

  Theorems about `Model/PreviewC21.lean` (parser.Preview, PreviewSpecialComment,
  StripLeadingComments, SplitMarginComments, isSQLNotAllowedByUser,
  checkSQLAllowed, doQuery, handleQuery, handleStmtExecute), instantiated with
  the keyword tables the translator extracts from the source on every run
  (`Gen.c21…`).  The tie to the Go code is the correspondence check
  `gvh run C21` plus those generated facts.
-/
namespace GaeaVerif.C21
open GaeaVerif GaeaVerif.LexC17 GaeaVerif.PreviewC21

/-- The tables of the current source, as extracted by the translator. -/
def genTables : Tables :=
  { sw1 := Gen.c21Switch1, sw2 := Gen.c21Switch2, sw3 := Gen.c21Switch3,
    unknown := Gen.c21StmtUnknown, comment := Gen.c21StmtComment, notAllowed := Gen.c21NotAllowed }

/-! ### ties to the source -/

/-- The hand-written tables of the model (what the driver runs) are those of the source. -/
theorem tables_eq : genTables = PreviewC21.tables := by rfl

/-- `unicode.Letter` of the Go release in use is the table of the model. -/
theorem letterRanges_eq : Gen.c21LetterRanges = UnicodeC21.letterRanges := by rfl

/-- The only runes ≥ 0x80 whose `unicode.ToLower` is ASCII are the two `lowerRune` knows. -/
theorem lowerToAscii_eq : Gen.c21LowerToAscii = [(0x130, 0x69), (0x212A, 0x6B)] := by decide

theorem lowerRune_special : ∀ p ∈ Gen.c21LowerToAscii, lowerRune p.1 = p.2 := by decide

/-- `unicode.IsSpace` is `isSpace`. -/
theorem spaces_eq (r : Nat) : r ∈ Gen.c21Spaces ↔ isSpace r = true := by
  simp only [Gen.c21Spaces, isSpace, List.mem_cons, List.mem_nil_iff, or_false, Bool.or_eq_true, Bool.and_eq_true,
    decide_eq_true_eq]
  omega

theorem paths_shape : Gen.c21DoQueryChecksFirst = true ∧ Gen.c21CheckShape = true ∧ Gen.c21PathsShape = true := by decide

/-- Statement kinds by name, for readability of the statements below. -/
theorem rejected_kinds :
    Gen.c21NotAllowed.map (fun k => (Gen.c21StmtKinds.find? (·.2 = k)).map (·.1)) =
      [some "StmtDelete", some "StmtInsert", some "StmtUpdate", some "StmtReplace", some "StmtDDL", some "StmtLoad"] := by
  decide

/-! ### facts about the ten write keywords in the extracted tables -/

/-- For keyword `k`: the first switch maps it to a rejected kind, or the first
    switch misses it, no key of the second switch starts with its first two
    letters, and the third switch maps it to a rejected kind. -/
def kwFact (T : Tables) (k : List Nat) : Bool :=
  match lookup T.sw1 k with
  | some kind => T.notAllowed.contains kind
  | none =>
    (match k with
     | x :: y :: _ => missTwo T.sw2 x y
     | _ => false) &&
    (match lookup T.sw3 k with
     | some kind => T.notAllowed.contains kind
     | none => false)

theorem write_kw_facts : writeKeywords.all (kwFact genTables) = true := by decide

theorem sw2_keys_long : genTables.sw2.all (fun e => decide (2 ≤ e.1.length)) = true := by decide

theorem comment_not_rejected : genTables.notAllowed.contains genTables.comment = false := by decide

/-! ### Preview of a text that starts with a write keyword -/

theorem lowerRune_letter (b : UInt8) (h : isAsciiLetterB b = true) : lowerRune b.toNat = asciiLower b := by
  have := letterB b h
  simp only [lowerRune, asciiLower]
  split
  · rfl
  · rw [if_neg (by omega), if_neg (by omega)]

/-- A keyword followed by the rest of the statement: `kw` is an ASCII spelling
    (any letter case) of one of the write keywords, `rest` is empty or starts
    with an ASCII byte that ends a word and ends with an ASCII byte that is not
    white space. -/
structure KwText (kw rest : Bytes) : Prop where
  letters : ∀ b ∈ kw, isAsciiLetterB b = true
  isWrite : kw.map asciiLower ∈ writeKeywords
  stop : KwStop rest
  ending : rest = [] ∨ ∃ s b, rest = s ++ [b] ∧ b.toNat < 0x80 ∧ isSpace b.toNat = false

theorem KwText.ne {kw rest : Bytes} (h : KwText kw rest) : kw ≠ [] := by
  intro e
  have := h.isWrite
  rw [e] at this
  revert this; decide

theorem KwText.solid {kw rest : Bytes} (h : KwText kw rest) : Solid (kw ++ rest) := by
  have hne := h.ne
  cases hk : kw with
  | nil => exact absurd hk hne
  | cons b t =>
    have hb := letterB b (h.letters b (by rw [hk]; simp))
    have hsp : isSpace b.toNat = false := by
      simp only [isSpace, Bool.or_eq_false_iff, Bool.and_eq_false_iff, decide_eq_false_iff_not]; omega
    refine ⟨⟨b, t ++ rest, rfl, hb.1, hsp⟩, ?_⟩
    rcases h.ending with e | ⟨s, x, e, hx, hsx⟩
    · subst e
      rcases List.eq_nil_or_concat (b :: t) with e' | ⟨init, x, e'⟩
      · simp at e'
      · rw [List.concat_eq_append] at e'
        have hx := letterB x (h.letters x (by rw [hk, e']; simp))
        refine ⟨init, x, by simp [e'], hx.1, ?_⟩
        simp only [isSpace, Bool.or_eq_false_iff, Bool.and_eq_false_iff, decide_eq_false_iff_not]; omega
    · exact ⟨(b :: t) ++ s, x, by rw [e]; simp, hx, hsx⟩

theorem KwText.stable {kw rest : Bytes} (h : KwText kw rest) : ∀ n, stripLoop n (kw ++ rest) = kw ++ rest := by
  intro n
  apply stripLoop_solid_nocomment
  have hne := h.ne
  cases hk : kw with
  | nil => exact absurd hk hne
  | cons b t =>
    have hb := letterB b (h.letters b (by rw [hk]; simp))
    cases t with
    | nil =>
      cases rest with
      | nil => rfl
      | cons c r => simp only [List.cons_append, List.nil_append, hasCommentPrefix, Bool.or_eq_false_iff,
          Bool.and_eq_false_iff, decide_eq_false_iff_not]; omega
    | cons c r => simp only [List.cons_append, hasCommentPrefix, Bool.or_eq_false_iff, Bool.and_eq_false_iff,
        decide_eq_false_iff_not]; omega

/-- `Preview` (after `StripLeadingComments`) of a keyword text is a kind the read-only check rejects. -/
theorem previewTrimmed_write (kw rest : Bytes) (h : KwText kw rest) :
    genTables.notAllowed.contains (previewTrimmed genTables (kw ++ rest)) = true := by
  have hne := h.ne
  have hfact : kwFact genTables (kw.map asciiLower) = true :=
    (List.all_eq_true.mp write_kw_facts) _ h.isWrite
  obtain ⟨b, t, hk⟩ : ∃ b t, kw = b :: t := by cases kw with | nil => exact absurd rfl hne | cons b t => exact ⟨b, t, rfl⟩
  have hb := letterB b (h.letters b (by rw [hk]; simp))
  have hpre : isPrefixB cSlashStarBang (kw ++ rest) = false := by
    rw [hk]
    simp only [isPrefixB, cSlashStarBang, List.cons_append, List.length_cons, List.length_nil, List.take_succ_cons,
      beq_eq_false_iff_ne, ne_eq, List.cons.injEq, not_and]
    intro e; rw [e] at hb; exact absurd hb.2 (by decide)
  have hlw : toLower (firstWord (kw ++ rest)) = kw.map asciiLower := by
    rw [firstWord_kw kw rest hne h.letters h.stop, toLower_kw kw h.letters]
  simp only [previewTrimmed, hpre, Bool.false_eq_true, if_false, hlw]
  simp only [kwFact] at hfact
  cases h1 : lookup genTables.sw1 (kw.map asciiLower) with
  | some kind => rw [h1] at hfact; exact hfact
  | none =>
    rw [h1] at hfact
    simp only [Bool.and_eq_true] at hfact
    obtain ⟨hmiss, h3⟩ := hfact
    -- the second switch: the statement without margin comments is a prefix of the text
    have hsw2 : lookup genTables.sw2 (toLower (splitMarginQuery (kw ++ rest))) = none := by
      obtain ⟨m, hm⟩ := splitMarginQuery_prefix (kw ++ rest) (Or.inr ⟨b, t ++ rest, by rw [hk]; rfl, h.letters b (by rw [hk]; simp)⟩)
      rw [hm]
      cases t with
      | nil => rw [hk] at hmiss; simp at hmiss
      | cons c t' =>
        have hc := letterB c (h.letters c (by rw [hk]; simp))
        rw [hk] at hmiss
        simp only [List.map_cons] at hmiss
        by_cases hm2 : 2 ≤ m
        · obtain ⟨m', rfl⟩ : ∃ m', m = m' + 2 := ⟨m - 2, by omega⟩
          rw [hk]
          simp only [List.cons_append, List.take_succ_cons]
          obtain ⟨r, hr⟩ := toLower_two b c (List.take m' (t' ++ rest)) hb.1 hc.1
          rw [hr, lowerRune_letter b (h.letters b (by rw [hk]; simp)), lowerRune_letter c (h.letters c (by rw [hk]; simp))]
          exact lookup_missTwo _ _ _ _ hmiss
        · exact lookup_short _ _ (toLower_short _ (by simp only [List.length_take]; omega)) sw2_keys_long
    simp only [hsw2]
    cases h3' : lookup genTables.sw3 (kw.map asciiLower) with
    | some kind => rw [h3'] at h3; exact h3
    | none => rw [h3'] at h3; simp at h3

/-- Trailing ASCII white space after the statement. -/
abbrev Tail (tail : Bytes) : Prop := AsciiWs tail

/-- **Preview rejects.** Leading white space and comments (`/* */`, `-- `, `#`,
    any number, any order), a write keyword in any letter case, the rest of the
    statement, trailing white space: `Preview` answers a kind that
    `isSQLNotAllowedByUser` rejects for a read-only user. -/
theorem preview_write (ts : List Trivia) (kw rest tail : Bytes)
    (hts : ∀ t ∈ ts, t.ok = true ∧ t.isXopen = false) (h : KwText kw rest) (ht : Tail tail) :
    genTables.notAllowed.contains (preview genTables (renderTrivia ts ++ (kw ++ rest) ++ tail)) = true := by
  simp only [preview]
  rw [stripLeadingComments_trivia ts (kw ++ rest) tail hts h.solid h.stable ht]
  exact previewTrimmed_write kw rest h

/-- **readonly_rejects (plain and commented statements).** `checkSQLAllowed`
    returns the read-only error for every such text. -/
theorem readonly_rejects (ts : List Trivia) (kw rest tail : Bytes)
    (hts : ∀ t ∈ ts, t.ok = true ∧ t.isXopen = false) (h : KwText kw rest) (ht : Tail tail) :
    checkSQLAllowed genTables false (renderTrivia ts ++ (kw ++ rest) ++ tail) = true := by
  have hp := preview_write ts kw rest tail hts h ht
  simp only [checkSQLAllowed, isSQLNotAllowedByUser, Bool.false_eq_true, if_false]
  have hne : preview genTables (renderTrivia ts ++ (kw ++ rest) ++ tail) ≠ genTables.comment := by
    intro e; rw [e, comment_not_rejected] at hp; exact absurd hp (by simp)
  rw [if_neg hne]
  exact hp


/-! ### statements inside a leading `/*!NNNNN … */` comment -/

/-- The code of the comment does not start with a blank, a digit or `M`
    (those would belong to the version number / the blanks after it). -/
def CodeStart (y : Bytes) : Prop :=
  ∀ c, y.head? = some c → isBlankB c = false ∧ isDigitB c = false ∧ c.toNat ≠ 0x4D

theorem headStop (p : UInt8 → Bool) (y : Bytes) (h : ∀ c, y.head? = some c → p c = false) :
    y = [] ∨ ∃ n t, y = n :: t ∧ p n = false := by
  cases y with
  | nil => left; rfl
  | cons n t => right; exact ⟨n, t, rfl, h n rfl⟩

/-- `specCodeStart` removes exactly `/*!`, the version and the blanks. -/
theorem specCodeStartLen_xopen (v bl y : Bytes) (hv : isVersion v = true)
    (hbl : ∀ b ∈ bl, isBlankB b = true) (hy : CodeStart y) :
    specCodeStartLen (0x2F :: 0x2A :: 0x21 :: (v ++ bl ++ y)) = 3 + v.length + bl.length := by
  have hblank : spanLen isBlankB (bl ++ y) = bl.length :=
    spanLen_run isBlankB bl y hbl (headStop isBlankB y (fun c hc => (hy c hc).1))
  -- what follows the version is not a digit
  have hnd : bl ++ y = [] ∨ ∃ n t, bl ++ y = n :: t ∧ isDigitB n = false := by
    cases bl with
    | nil => simpa using headStop isDigitB y (fun c hc => (hy c hc).2.1)
    | cons b t =>
      right
      refine ⟨b, t ++ y, rfl, ?_⟩
      have := hbl b (by simp)
      simp only [isBlankB, Bool.or_eq_true, decide_eq_true_eq] at this
      simp only [isDigitB, isDigit, Bool.and_eq_false_iff, decide_eq_false_iff_not]; omega
  simp only [specCodeStartLen, List.drop_succ_cons, List.drop_zero]
  simp only [isVersion, Bool.or_eq_true, decide_eq_true_eq, Bool.and_eq_true, List.all_eq_true] at hv
  rcases hv with rfl | hv
  · -- no version number
    simp only [List.nil_append, List.length_nil, Nat.add_zero]
    cases hby : bl ++ y with
    | nil =>
      have : bl = [] := by cases bl <;> simp_all
      subst this
      simp [spanLen]
    | cons c t =>
      rw [hby] at hblank hnd
      have hcd : isDigitB c = false := by
        rcases hnd with e | ⟨n, t', e, hn⟩
        · simp at e
        · simp only [List.cons.injEq] at e; rw [e.1]; exact hn
      have hcM : ¬ c.toNat = 0x4D := by
        cases bl with
        | nil => simp only [List.nil_append] at hby; exact (hy c (by rw [hby]; rfl)).2.2
        | cons b' t' =>
          simp only [List.cons_append, List.cons.injEq] at hby
          have := hbl b' (by simp)
          simp only [isBlankB, Bool.or_eq_true, decide_eq_true_eq] at this
          rw [← hby.1]; omega
      have hd0 : spanLen isDigitB (c :: t) = 0 := by simp [spanLen, List.takeWhile, hcd]
      simp only [hcM, if_false, List.drop_zero, hd0]
      rw [if_neg (by omega)]
      simp only [List.drop_zero, hblank]
  · obtain ⟨hlen, hdig⟩ := hv
    cases v with
    | nil => simp at hlen
    | cons m t =>
      by_cases hM : m.toNat = 0x4D
      · simp only [hM, if_true] at hlen hdig
        have hd : spanLen isDigitB (t ++ (bl ++ y)) = t.length := spanLen_run isDigitB t _ hdig hnd
        simp only [List.cons_append, List.append_assoc, hM, if_true, List.drop_succ_cons, List.drop_zero, hd]
        rw [if_pos (by omega)]
        have hmin : min t.length 6 = t.length := by omega
        rw [hmin]
        have : List.drop (1 + t.length) (m :: (t ++ (bl ++ y))) = bl ++ y := by
          rw [show 1 + t.length = t.length + 1 by omega, List.drop_succ_cons, List.drop_left]
        rw [this, hblank]
        simp only [List.length_cons]; omega
      · simp only [hM, if_false] at hlen hdig
        have hd : spanLen isDigitB ((m :: t) ++ (bl ++ y)) = (m :: t).length := spanLen_run isDigitB (m :: t) _ hdig hnd
        simp only [List.cons_append, List.append_assoc, hM, if_false, List.drop_zero]
        simp only [List.cons_append] at hd
        rw [hd, if_pos (by omega)]
        have hmin : min (m :: t).length 6 = (m :: t).length := by omega
        rw [hmin, Nat.zero_add]
        have : List.drop (m :: t).length (m :: (t ++ (bl ++ y))) = bl ++ y := by
          have : m :: (t ++ (bl ++ y)) = (m :: t) ++ (bl ++ y) := rfl
          rw [this, List.drop_left]
        rw [this, hblank]

/-- **readonly_rejects (executable comments).** A write statement inside a
    leading `/*!NNNNN … */` comment — which `Preview` classifies as a comment
    but the parser and MySQL execute — is rejected as well: leading trivia,
    `/*!`, an optional version number, blanks, more trivia, the keyword. -/
theorem readonly_rejects_special (ts1 ts2 : List Trivia) (v bl kw rest tail : Bytes)
    (hts1 : ∀ t ∈ ts1, t.ok = true ∧ t.isXopen = false) (hts2 : ∀ t ∈ ts2, t.ok = true ∧ t.isXopen = false)
    (hv : isVersion v = true) (hbl : ∀ b ∈ bl, isBlankB b = true)
    (hy : CodeStart (renderTrivia ts2 ++ (kw ++ rest))) (h : KwText kw rest) (ht : Tail tail) :
    checkSQLAllowed genTables false
      (renderTrivia ts1 ++ (0x2F :: 0x2A :: 0x21 :: (v ++ bl ++ (renderTrivia ts2 ++ (kw ++ rest)))) ++ tail) = true := by
  -- the text from the comment on
  generalize hX : (0x2F : UInt8) :: 0x2A :: 0x21 :: (v ++ bl ++ (renderTrivia ts2 ++ (kw ++ rest))) = X
  have hXsolid : Solid X := by
    obtain ⟨s, x, e2, hx, hsx⟩ := h.solid.last
    rw [← hX]
    refine ⟨⟨0x2F, _, rfl, by decide, by decide⟩, ⟨0x2F :: 0x2A :: 0x21 :: (v ++ bl ++ (renderTrivia ts2 ++ s)), x, ?_, hx, hsx⟩⟩
    rw [e2]; simp
  have hXpre : isPrefixB cSlashStarBang X = true := by rw [← hX]; rfl
  have hXstable : ∀ n, stripLoop n X = X := by
    intro n
    cases n with
    | zero => rfl
    | succ n =>
      rw [← hX]
      simp only [stripLoop, hasCommentPrefix, thirdIsBang]
      simp
      split <;> rfl
  have hstrip : stripLeadingComments (renderTrivia ts1 ++ X ++ tail) = X :=
    stripLeadingComments_trivia ts1 X tail hts1 hXsolid hXstable ht
  have hprev : preview genTables (renderTrivia ts1 ++ X ++ tail) = genTables.comment := by
    simp only [preview, hstrip, previewTrimmed, hXpre, if_true]
  -- inside the comment
  have hdrop : X.drop (specCodeStartLen X) = renderTrivia ts2 ++ (kw ++ rest) := by
    rw [← hX, specCodeStartLen_xopen v bl _ hv hbl hy]
    have : (0x2F : UInt8) :: 0x2A :: 0x21 :: (v ++ bl ++ (renderTrivia ts2 ++ (kw ++ rest)))
        = ((0x2F : UInt8) :: 0x2A :: 0x21 :: v ++ bl) ++ (renderTrivia ts2 ++ (kw ++ rest)) := by simp
    rw [this, List.drop_left' (by simp; omega)]
  have hinner : stripLeadingComments (renderTrivia ts2 ++ (kw ++ rest)) = kw ++ rest := by
    have := stripLeadingComments_trivia ts2 (kw ++ rest) [] hts2 h.solid h.stable (by intro b hb; simp at hb)
    simpa using this
  have hnotpre : isPrefixB cSlashStarBang (kw ++ rest) = false := by
    obtain ⟨b, t, e, hb, _⟩ := h.solid.first
    have hne := h.ne
    cases hk : kw with
    | nil => exact absurd hk hne
    | cons c r =>
      have hc := letterB c (h.letters c (by rw [hk]; simp))
      simp only [isPrefixB, cSlashStarBang, List.cons_append, List.length_cons, List.length_nil, List.take_succ_cons,
        beq_eq_false_iff_ne, ne_eq, List.cons.injEq, not_and]
      intro e'; rw [e'] at hc; exact absurd hc.2 (by decide)
  have hspecial : previewSpecialComment genTables (renderTrivia ts1 ++ X ++ tail) = preview genTables (kw ++ rest) := by
    simp only [previewSpecialComment, hstrip]
    have hlen : X.length + 1 = (X.length - 1) + 1 + 1 := by
      rw [← hX]; simp only [List.length_cons]; omega
    rw [hlen]
    simp only [specialLoop, hXpre, if_true, hdrop, hinner, hnotpre, Bool.false_eq_true, if_false]
  have hp : genTables.notAllowed.contains (preview genTables (kw ++ rest)) = true := by
    have := preview_write [] kw rest [] (by intro t ht; simp at ht) h (by intro b hb; simp at hb)
    simpa [renderTrivia] using this
  simp only [checkSQLAllowed, isSQLNotAllowedByUser, Bool.false_eq_true, if_false, hprev, if_true, hspecial]
  exact hp

/-! ### the three entry paths -/

/-- Texts the read-only check rejects. -/
def Rejected (sql : Bytes) : Prop := checkSQLAllowed genTables false sql = true

/-- **doQuery.** A rejected text gets the read-only error as the first thing
    `doQuery` does: the outcome carries nothing of what follows the check
    (planning, backend) and does not depend on it. -/
theorem doQuery_rejects (rest : Bytes → Bool) (sql : Bytes) (h : Rejected sql) :
    doQuery genTables false rest sql = .rejected := by
  unfold Rejected at h
  simp only [doQuery, h, if_true]

theorem reject_before_backend (T : Tables) (aw : Bool) (rest rest' : Bytes → Bool) (sql : Bytes)
    (h : doQuery T aw rest sql = .rejected) : doQuery T aw rest' sql = .rejected := by
  simp only [doQuery] at h ⊢
  split at h
  · rename_i hc; rw [if_pos hc]
  · exact absurd h (by simp)

/-- Only texts that passed the check are handed to what follows it. -/
theorem passed_not_rejected (rest : Bytes → Bool) (sql : Bytes) (ok : Bool)
    (h : doQuery genTables false rest sql = .passed ok) : ¬ Rejected sql := by
  intro hr; rw [doQuery_rejects rest sql hr] at h; exact absurd h (by simp)

/-- **handleQuery, single statement** (also the path of `handleStmtExecute`):
    the text, without trailing `;`, goes through `doQuery`. -/
theorem handleQuery_single (aw : Bool) (rest : Bytes → Bool) (sql : Bytes) :
    handleQuery genTables aw false rest sql = [(trimRightSemi sql, doQuery genTables aw rest (trimRightSemi sql))] := rfl

theorem handleStmtExecute_eq (aw multi : Bool) (rest : Bytes → Bool) (sql : Bytes) :
    handleStmtExecute genTables aw multi rest sql = handleQuery genTables aw multi rest sql := rfl

/-- **Every path.** Whatever the text and whichever way it comes in (query,
    multi-statement query, prepared statement, with or without multi-statement
    support), every text that reaches `doQuery` and is `Rejected` gets the
    read-only error; so nothing rejected reaches the backend. -/
theorem readonly_all_paths (multi : Bool) (rest : Bytes → Bool) (sql : Bytes) :
    ∀ e ∈ handleStmtExecute genTables false multi rest sql,
      e.2 = doQuery genTables false rest e.1 ∧ (Rejected e.1 → e.2 = .rejected) ∧
      (∀ ok, e.2 = .passed ok → ¬ Rejected e.1) := by
  intro e he
  have hdq : e.2 = doQuery genTables false rest e.1 := by
    cases multi with
    | false =>
      simp only [handleStmtExecute, handleQuery, Bool.false_eq_true, if_false, List.mem_singleton] at he
      rw [he]
    | true =>
      simp only [handleStmtExecute, handleQuery, if_true, List.mem_map] at he
      obtain ⟨s, _, rfl⟩ := he
      rfl
  refine ⟨hdq, fun hr => by rw [hdq]; exact doQuery_rejects rest _ hr, fun ok hok => ?_⟩
  rw [hdq] at hok
  exact passed_not_rejected rest _ ok hok

/-- **Inside a multi-statement query.** A rejected piece makes its `doQuery`
    fail, so the loop of `doMultiStmts` stops there: nothing after it is
    executed (C17 `multi_stops_at_first_error`). -/
theorem multi_stops_at_rejected (rest : Bytes → Bool) (pieces : List Bytes) (p : Bytes) (pre post : List Bytes)
    (hp : pieces = pre ++ p :: post) (hr : Rejected p)
    (hpre : ∀ q ∈ pre, (doQuery genTables false rest q).noError = true) :
    (runPieces (fun s => (doQuery genTables false rest s).noError) pieces).executed = pre ++ [p] ∧
    (runPieces (fun s => (doQuery genTables false rest s).noError) pieces).failed = true := by
  subst hp
  induction pre with
  | nil =>
    simp [runPieces, doQuery_rejects rest p hr, QueryOut.noError]
  | cons q t ih =>
    have hq := hpre q (by simp)
    simp only [List.cons_append, runPieces, hq, if_true]
    have := ih (fun q' h' => hpre q' (by simp [h']))
    exact ⟨by rw [this.1], this.2⟩

/-- Users with write permission are never refused by this check. -/
theorem readwrite_never_rejected (T : Tables) (sql : Bytes) : checkSQLAllowed T true sql = false := by
  simp [checkSQLAllowed, isSQLNotAllowedByUser]

/-! ### non-vacuity -/

/-- ` /* c; */ -- x` newline `# y` newline `DrOp` + ` table t` + trailing newline. -/
def exTrivia : List Trivia :=
  [.ws [32], .cblock [32, 99, 59, 32], .ws [32], .cdash [32, 120], .chash [32, 121]]

example : (∀ t ∈ exTrivia, t.ok = true ∧ t.isXopen = false) := by decide

example : KwText [68, 114, 79, 112] [32, 116, 97, 98, 108, 101, 32, 116] :=
  ⟨by decide, by decide, Or.inr ⟨0x20, [116, 97, 98, 108, 101, 32, 116], rfl, by decide, by decide⟩, Or.inr ⟨[32, 116, 97, 98, 108, 101, 32], 0x74, rfl, by decide, by decide⟩⟩

example : isVersion [52, 48, 49, 48, 49] = true ∧ CodeStart (renderTrivia [] ++ ([68, 114, 79, 112] ++ [32, 116, 97, 98, 108, 101, 32, 116])) := by
  refine ⟨by decide, ?_⟩
  intro c hc
  simp [renderTrivia] at hc
  subst hc
  decide

end GaeaVerif.C21
