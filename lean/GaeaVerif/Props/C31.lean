import GaeaVerif.Model.MgrReload
import GaeaVerif.Gen.Consts
/-
  C31 — Online reload never loses or resurrects a namespace configuration.

  Theorems about `Model/MgrReload.lean` (the model of the repaired
  `Manager.ReloadNamespacePrepare / ReloadNamespaceCommit / DeleteNamespace`;
  the tie to /repo/proxy/server/manager.go is the correspondence `gvh run C31`).

  Rendering of the English property.  A history is any list of operations
  `prepare n v` (possibly of a configuration the proxy cannot build),
  `commit n`, `delete n` — the operations of all administrators in the order in
  which `Manager.reloadMu` admits them.  `Spec` keeps, per namespace, the
  configuration last committed or deleted (`active`) and the configuration last
  prepared (`prepared`), updated from the *observed* outcomes.  The theorems say
  that after every operation of every history the tables sessions read
  (`GetNamespace`, `GetNamespaceByUser`) are exactly `active`:
    * a successful commit of `n` activates the version last prepared for `n`
      and changes no other namespace (`commit_activates_last_prepared`);
    * failed commits, prepares and failed prepares change nothing, a delete
      removes that namespace only (`prepare_keeps_view`, `failed_commit_keeps_view`,
      `delete_removes_only_that`);
    * a deleted namespace stays absent until a commit of it succeeds
      (`deleted_stays_deleted`);
    * no operation panics (`reload_history`);
    * a reader that looks between two stores of a running operation sees the
      generation before or the generation after it, namespaces and users from
      the same one (`reader_sees_complete_generation`).
  `pinned_*_witness`: the histories on which the code before the repair
  violated this (regression witnesses for the `fix:` commit).
-/
namespace GaeaVerif.C31
open GaeaVerif GaeaVerif.MgrReload

/-- The modelling step "one operation = one atomic step" is what the source
    does: the three operations each start with `Lock` / `defer Unlock` of one
    `sync.Mutex` field of `Manager` (structural fact extracted from
    proxy/server/manager.go on every run; removing a lock breaks this proof). -/
theorem reload_ops_serialised : Gen.mgrReloadOpsSerialised = true := by decide

/-! ### tables and pairs -/

@[simp] theorem set_same (t : Table) (n : Name) (v : Ver) : (t.set n v) n = some v := by
  simp [Table.set]

@[simp] theorem set_other (t : Table) {n k : Name} (v : Ver) (h : k ≠ n) : (t.set n v) k = t k := by
  simp [Table.set, h]

@[simp] theorem erase_same (t : Table) (n : Name) : (t.erase n) n = none := by
  simp [Table.erase]

@[simp] theorem erase_other (t : Table) {n k : Name} (h : k ≠ n) : (t.erase n) k = t k := by
  simp [Table.erase, h]

theorem erase_set (t : Table) (n : Name) (v : Ver) : (t.erase n).set n v = t.set n v := by
  funext k; by_cases h : k = n <;> simp [Table.set, Table.erase, h]

@[simp] theorem put_same {α : Type} (a : Pair α) (i : Bool) (x : α) : (a.put i x) i = x := by
  simp [Pair.put]

@[simp] theorem put_not {α : Type} (a : Pair α) (i : Bool) (x : α) : (a.put (!i) x) i = a i := by
  cases i <;> simp [Pair.put]

@[simp] theorem put_not' {α : Type} (a : Pair α) (i : Bool) (x : α) : (a.put i x) (!i) = a (!i) := by
  cases i <;> simp [Pair.put]

/-! ### the refinement relation -/

/-- The manager `m` implements the abstract state `s`: the active generation
    holds exactly the configurations last committed; if a prepare is pending,
    the inactive generation is the active one with the version last prepared
    for `preparedName` put in. -/
structure Rel (m : Manager) (s : Spec) : Prop where
  ns : m.namespaces m.switchIndex = some s.active
  us : m.users m.switchIndex = some s.active
  prep : m.reloadPrepared = true → ∃ v, s.prepared m.preparedName = some v ∧
    m.namespaces (!m.switchIndex) = some (s.active.set m.preparedName v) ∧
    m.users (!m.switchIndex) = some (s.active.set m.preparedName v)

theorem rel_init (cfgs : List (Name × Ver)) : Rel (CreateManager cfgs) (Spec.init cfgs) := by
  constructor <;> simp [CreateManager, Spec.init]

/-- What sessions read is the abstract `active` table. -/
theorem view_eq_active {m : Manager} {s : Spec} (h : Rel m s) (n : Name) :
    GetNamespace m n = some (s.active n) ∧ GetNamespaceByUser m n = some (s.active n) := by
  simp [GetNamespace, GetNamespaceByUser, h.ns, h.us]

theorem prepare_refines {m : Manager} {s : Spec} (h : Rel m s) (n : Name) (v : Ver) (b : Bool) :
    Rel (ReloadNamespacePrepare m n v b).1 (s.step (.prepare n v b) (ReloadNamespacePrepare m n v b).2) ∧
    (ReloadNamespacePrepare m n v b).2 = (if b then .ok else .errBuild) := by
  cases b with
  | false =>
    simp [ReloadNamespacePrepare, ReloadNamespacePrepareTrace, h.ns, Spec.step]
    exact h
  | true =>
    simp only [ReloadNamespacePrepare, ReloadNamespacePrepareTrace, h.ns, h.us, Spec.step]
    refine ⟨?_, by simp⟩
    constructor
    · simp [h.ns]
    · simp [h.us]
    · intro _
      exact ⟨v, by simp, by simp, by simp [erase_set]⟩

theorem commit_refines {m : Manager} {s : Spec} (h : Rel m s) (n : Name) :
    Rel (ReloadNamespaceCommit m n).1 (s.step (.commit n) (ReloadNamespaceCommit m n).2) ∧
    ((ReloadNamespaceCommit m n).2 = .errNotPrepared ∨
     ((ReloadNamespaceCommit m n).2 = .ok ∧ m.reloadPrepared = true ∧ m.preparedName = n ∧
        ∃ v, s.prepared n = some v)) := by
  by_cases hp : m.reloadPrepared = true ∧ m.preparedName = n
  · obtain ⟨hp1, hp2⟩ := hp
    obtain ⟨v, hv, hns, hus⟩ := h.prep hp1
    subst hp2
    have hc : ReloadNamespaceCommit m m.preparedName =
        ({ m with reloadPrepared := false, switchIndex := !m.switchIndex }, .ok) := by
      simp [ReloadNamespaceCommit, ReloadNamespaceCommitTrace, hp1, h.ns, GetNamespace, hns]
    rw [hc]
    refine ⟨?_, Or.inr ⟨rfl, hp1, rfl, v, hv⟩⟩
    simp only [Spec.step, hv]
    constructor
    · simpa using hns
    · simpa using hus
    · intro hf; simp at hf
  · have hc : ReloadNamespaceCommit m n = (m, .errNotPrepared) := by
      have : (m.reloadPrepared && m.preparedName == n) = false := by
        cases hr : m.reloadPrepared <;> simp_all
      simp [ReloadNamespaceCommit, ReloadNamespaceCommitTrace, this]
    rw [hc]
    exact ⟨by simpa [Spec.step] using h, Or.inl rfl⟩

theorem delete_refines {m : Manager} {s : Spec} (h : Rel m s) (n : Name) :
    Rel (DeleteNamespace m n).1 (s.step (.delete n) (DeleteNamespace m n).2) ∧
    (DeleteNamespace m n).2 = .ok := by
  cases ha : s.active n with
  | none =>
    have hc : DeleteNamespace m n = (m, .ok) := by
      simp [DeleteNamespace, DeleteNamespaceTrace, h.ns, ha]
    rw [hc]
    refine ⟨?_, rfl⟩
    have he : s.active.erase n = s.active := by
      funext k; by_cases hk : k = n <;> simp [Table.erase, hk, ha]
    simp only [Spec.step, he]
    exact h
  | some w =>
    have hc : DeleteNamespace m n =
        ({ m with namespaces := m.namespaces.put (!m.switchIndex) (some (s.active.erase n)),
                  users := m.users.put (!m.switchIndex) (some (s.active.erase n)),
                  reloadPrepared := false, switchIndex := !m.switchIndex }, .ok) := by
      simp [DeleteNamespace, DeleteNamespaceTrace, h.ns, h.us, ha]
    rw [hc]
    refine ⟨?_, rfl⟩
    simp only [Spec.step]
    constructor
    · simp
    · simp
    · intro hf; simp at hf

/-- One operation: the result implements the abstract successor state, and
    the operation does not panic. -/
theorem step_refines {m : Manager} {s : Spec} (h : Rel m s) (op : Op) :
    Rel (step m op).1 (s.step op (step m op).2) ∧ (step m op).2 ≠ .panic := by
  cases op with
  | prepare n v b =>
    have := prepare_refines h n v b
    refine ⟨this.1, ?_⟩
    simp only [step]; rw [this.2]; cases b <;> simp
  | commit n =>
    have := commit_refines h n
    refine ⟨this.1, ?_⟩
    simp only [step]
    rcases this.2 with h1 | h1
    · rw [h1]; simp
    · rw [h1.1]; simp
  | delete n =>
    have := delete_refines h n
    refine ⟨this.1, ?_⟩
    simp only [step]; rw [this.2]; simp

/-! ### whole histories -/

/-- The abstract state after a history, driven by the outcomes the manager gave. -/
def specRun (m : Manager) (s : Spec) : List Op → List (Out × Manager × Spec)
  | [] => []
  | op :: rest =>
    let r := step m op
    let s' := s.step op r.2
    (r.2, r.1, s') :: specRun r.1 s' rest

theorem specRun_length (m : Manager) (s : Spec) (ops : List Op) : (specRun m s ops).length = ops.length := by
  induction ops generalizing m s with
  | nil => rfl
  | cons op rest ih => simp [specRun, ih]

theorem specRun_outcomes (m : Manager) (s : Spec) (ops : List Op) :
    (specRun m s ops).map (fun e => (e.1, e.2.1)) = run m ops := by
  induction ops generalizing m s with
  | nil => rfl
  | cons op rest ih => simp [specRun, run, ih]

theorem history_refines {m : Manager} {s : Spec} (h : Rel m s) (ops : List Op) :
    ∀ e ∈ specRun m s ops, Rel e.2.1 e.2.2 ∧ e.1 ≠ .panic := by
  induction ops generalizing m s with
  | nil => intro e he; simp [specRun] at he
  | cons op rest ih =>
    intro e he
    simp only [specRun, List.mem_cons] at he
    have hs := step_refines h op
    rcases he with he | he
    · subst he; exact hs
    · exact ih hs.1 e he

/-- **C31, main statement.**  From the state `CreateManager` builds out of any
    set of configurations, after every operation of every history: the
    operation did not panic, and for every namespace both tables sessions read
    hold exactly the configuration last committed or deleted for it (`active`
    of the reference semantics; `none` = absent). -/
theorem reload_history (cfgs : List (Name × Ver)) (ops : List Op) :
    ∀ e ∈ specRun (CreateManager cfgs) (Spec.init cfgs) ops,
      e.1 ≠ .panic ∧
      (∀ n, GetNamespace e.2.1 n = some (e.2.2.active n)) ∧
      (∀ n, GetNamespaceByUser e.2.1 n = some (e.2.2.active n)) := by
  intro e he
  have := history_refines (rel_init cfgs) ops e he
  exact ⟨this.2, fun n => (view_eq_active this.1 n).1, fun n => (view_eq_active this.1 n).2⟩

example : (specRun (CreateManager [(0, 1), (1, 1)]) (Spec.init [(0, 1), (1, 1)])
    [.prepare 0 2 true, .prepare 1 2 true, .commit 0, .commit 1, .delete 0]).map (·.1) =
    [.ok, .ok, .errNotPrepared, .ok, .ok] := by decide

/-! ### the clauses of the property, spelled out -/

/-- A successful commit of `n` activates exactly the version last prepared for
    `n` and leaves every other namespace as it was; it can only succeed when a
    version was prepared for `n`. -/
theorem commit_activates_last_prepared {m : Manager} {s : Spec} (h : Rel m s) (n : Name)
    (hok : (ReloadNamespaceCommit m n).2 = .ok) :
    ∃ v, s.prepared n = some v ∧
      GetNamespace (ReloadNamespaceCommit m n).1 n = some (some v) ∧
      GetNamespaceByUser (ReloadNamespaceCommit m n).1 n = some (some v) ∧
      ∀ k, k ≠ n → GetNamespace (ReloadNamespaceCommit m n).1 k = GetNamespace m k ∧
                   GetNamespaceByUser (ReloadNamespaceCommit m n).1 k = GetNamespaceByUser m k := by
  have hc := commit_refines h n
  rcases hc.2 with h1 | ⟨_, _, _, v, hv⟩
  · rw [h1] at hok; cases hok
  · have hr := hc.1
    rw [hok] at hr
    simp only [Spec.step, hv] at hr
    refine ⟨v, hv, ?_, ?_, ?_⟩
    · simpa using (view_eq_active hr n).1
    · simpa using (view_eq_active hr n).2
    · intro k hk
      have a := view_eq_active hr k
      have b := view_eq_active h k
      simp only [set_other _ _ hk] at a
      exact ⟨a.1.trans b.1.symm, a.2.trans b.2.symm⟩

example : (ReloadNamespaceCommit (ReloadNamespacePrepare (CreateManager [(0, 1)]) 0 2 true).1 0).2 = .ok := by decide

/-- A commit that fails changes nothing sessions can see. -/
theorem failed_commit_keeps_view {m : Manager} {s : Spec} (h : Rel m s) (n : Name)
    (hne : (ReloadNamespaceCommit m n).2 ≠ .ok) (k : Name) :
    GetNamespace (ReloadNamespaceCommit m n).1 k = GetNamespace m k ∧
    GetNamespaceByUser (ReloadNamespaceCommit m n).1 k = GetNamespaceByUser m k := by
  have hc := commit_refines h n
  rcases hc.2 with h1 | h1
  · have hr := hc.1
    rw [h1] at hr
    have a := view_eq_active hr k
    have b := view_eq_active h k
    simp only [Spec.step] at a
    exact ⟨a.1.trans b.1.symm, a.2.trans b.2.symm⟩
  · exact absurd h1.1 hne

example : (ReloadNamespaceCommit (CreateManager [(0, 1)]) 0).2 ≠ .ok := by decide

/-- A prepare (successful or not) changes nothing sessions can see. -/
theorem prepare_keeps_view {m : Manager} {s : Spec} (h : Rel m s) (n : Name) (v : Ver) (b : Bool) (k : Name) :
    GetNamespace (ReloadNamespacePrepare m n v b).1 k = GetNamespace m k ∧
    GetNamespaceByUser (ReloadNamespacePrepare m n v b).1 k = GetNamespaceByUser m k := by
  have hr := (prepare_refines h n v b).1
  have a := view_eq_active hr k
  have c := view_eq_active h k
  have : (s.step (.prepare n v b) (ReloadNamespacePrepare m n v b).2).active = s.active := by
    cases hb : (ReloadNamespacePrepare m n v b).2 <;> simp [Spec.step]
  rw [this] at a
  exact ⟨a.1.trans c.1.symm, a.2.trans c.2.symm⟩

/-- A delete removes that namespace and no other. -/
theorem delete_removes_only_that {m : Manager} {s : Spec} (h : Rel m s) (n : Name) :
    GetNamespace (DeleteNamespace m n).1 n = some none ∧
    GetNamespaceByUser (DeleteNamespace m n).1 n = some none ∧
    ∀ k, k ≠ n → GetNamespace (DeleteNamespace m n).1 k = GetNamespace m k ∧
                 GetNamespaceByUser (DeleteNamespace m n).1 k = GetNamespaceByUser m k := by
  have hd := delete_refines h n
  have hr := hd.1
  rw [hd.2] at hr
  simp only [Spec.step] at hr
  refine ⟨by simpa using (view_eq_active hr n).1, by simpa using (view_eq_active hr n).2, ?_⟩
  intro k hk
  have a := view_eq_active hr k
  have b := view_eq_active h k
  simp only [erase_other _ hk] at a
  exact ⟨a.1.trans b.1.symm, a.2.trans b.2.symm⟩

/-- Only a successful commit of `n` or a successful delete of `n` changes the
    abstract configuration of `n`. -/
theorem spec_active_unchanged (s : Spec) (op : Op) (o : Out) (n : Name)
    (hc : ¬ (op = .commit n ∧ o = .ok)) (hd : ¬ (op = .delete n ∧ o = .ok)) :
    (s.step op o).active n = s.active n := by
  cases op with
  | prepare k v b => cases o <;> simp [Spec.step]
  | commit k =>
    cases o <;> simp [Spec.step]
    cases hp : s.prepared k with
    | none => simp
    | some v =>
      have : n ≠ k := by intro e; subst e; exact hc ⟨rfl, rfl⟩
      simp [set_other _ _ this]
  | delete k =>
    cases o <;> simp [Spec.step]
    have : n ≠ k := by intro e; subst e; exact hd ⟨rfl, rfl⟩
    simp [erase_other _ this]

/-- A deleted (absent) namespace stays absent through any further history in
    which no commit of it succeeds: nothing resurrects it. -/
theorem deleted_stays_deleted {m : Manager} {s : Spec} (h : Rel m s) (n : Name)
    (habs : GetNamespace m n = some none) (ops : List Op)
    (hno : ∀ (i : Nat) (e : Out × Manager), ops[i]? = some (Op.commit n) → (run m ops)[i]? = some e → e.1 ≠ .ok) :
    ∀ e ∈ run m ops, GetNamespace e.2 n = some none ∧ GetNamespaceByUser e.2 n = some none := by
  have hs0 : s.active n = none := by
    have := (view_eq_active h n).1
    rw [habs] at this
    simpa using this.symm
  clear habs
  induction ops generalizing m s with
  | nil => intro e he; simp [run] at he
  | cons op rest ih =>
    intro e he
    simp only [run, List.mem_cons] at he
    have hst := step_refines h op
    have hact : (s.step op (step m op).2).active n = none := by
      by_cases hc : op = .commit n ∧ (step m op).2 = .ok
      · exfalso
        have := hno 0 ((step m op).2, (step m op).1) (by simp [hc.1]) (by simp [run])
        exact this hc.2
      · by_cases hd : op = .delete n ∧ (step m op).2 = .ok
        · obtain ⟨hd1, hd2⟩ := hd
          subst hd1
          rw [hd2]; simp [Spec.step]
        · rw [spec_active_unchanged s op _ n hc hd]; exact hs0
    rcases he with he | he
    · subst he
      have v := view_eq_active hst.1 n
      rw [hact] at v
      exact v
    · refine ih hst.1 ?_ hact e he
      intro i e' hi hr
      exact hno (i + 1) e' (by simpa using hi) (by simpa [run] using hr)

example : (run (CreateManager [(0, 1), (1, 1)]) [.delete 1, .prepare 0 2 true, .commit 0]).map
    (fun e => GetNamespace e.2 1) = [some none, some none, some none] := by decide

/-! ### readers between the stores of a running operation -/

theorem step_eq_trace (m : Manager) (op : Op) : step m op = ((trace m op).1.getLastD m, (trace m op).2) := by
  cases op <;> rfl

/-- **Sessions observe one complete generation.**  While an operation runs
    (from any state reachable by whole operations), a reader looking after any
    of its stores finds namespaces and users of the same generation, and that
    generation is the one before the operation or the one after it. -/
theorem reader_sees_complete_generation {m : Manager} {s : Spec} (h : Rel m s) (op : Op) :
    ∀ m' ∈ (trace m op).1,
      (∀ n, GetNamespace m' n = GetNamespaceByUser m' n) ∧
      ((∀ n, GetNamespace m' n = GetNamespace m n) ∨
       (∀ n, GetNamespace m' n = GetNamespace (step m op).1 n)) := by
  cases op with
  | prepare n v b =>
    cases b with
    | false => simp [trace, ReloadNamespacePrepareTrace, h.ns]
    | true =>
      intro m' hm'
      simp only [trace, ReloadNamespacePrepareTrace, h.ns, h.us] at hm'
      simp at hm'
      rcases hm' with e | e | e | e <;> subst e <;>
        simp [GetNamespace, GetNamespaceByUser, h.ns, h.us]
  | commit n =>
    intro m' hm'
    by_cases hp : m.reloadPrepared = true ∧ m.preparedName = n
    · obtain ⟨hp1, hp2⟩ := hp
      obtain ⟨v, hv, hns, hus⟩ := h.prep hp1
      subst hp2
      simp [trace, ReloadNamespaceCommitTrace, hp1, h.ns, GetNamespace, hns] at hm'
      rcases hm' with e | e <;> subst e
      · simp [GetNamespace, GetNamespaceByUser, h.ns, h.us]
      · refine ⟨by simp [GetNamespace, GetNamespaceByUser, hns, hus], Or.inr ?_⟩
        simp [step, ReloadNamespaceCommit, ReloadNamespaceCommitTrace, hp1, h.ns, GetNamespace, hns]
    · have : (m.reloadPrepared && m.preparedName == n) = false := by
        cases hr : m.reloadPrepared <;> simp_all
      simp [trace, ReloadNamespaceCommitTrace, this] at hm'
  | delete n =>
    intro m' hm'
    cases ha : s.active n with
    | none => simp [trace, DeleteNamespaceTrace, h.ns, ha] at hm'
    | some w =>
      simp [trace, DeleteNamespaceTrace, h.ns, h.us, ha] at hm'
      rcases hm' with e | e | e | e <;> subst e
      · simp [GetNamespace, GetNamespaceByUser, h.ns, h.us]
      · simp [GetNamespace, GetNamespaceByUser, h.ns, h.us]
      · simp [GetNamespace, GetNamespaceByUser, h.ns, h.us]
      · refine ⟨by simp [GetNamespace, GetNamespaceByUser], Or.inr ?_⟩
        simp [step, DeleteNamespace, DeleteNamespaceTrace, h.ns, h.us, ha, GetNamespace]

example : ((trace (ReloadNamespacePrepare (CreateManager [(0, 1)]) 0 2 true).1 (.commit 0)).1.map
    (fun m' => (GetNamespace m' 0, GetNamespaceByUser m' 0))) =
    [(some (some 1), some (some 1)), (some (some 2), some (some 2))] := by decide

/-! ### regression witnesses: the machine before the repair -/

/-- Before the repair: `prepare 0 v2; prepare 1 v2; commit 0` left namespace 0
    at version 1 (its prepared change lost) and activated the uncommitted
    version 2 of namespace 1. -/
theorem pinned_lost_witness :
    let r := Pinned.run (CreateManager [(0, 1), (1, 1)]) [.prepare 0 2 true, .prepare 1 2 true, .commit 0]
    r.map (fun e => (e.1, GetNamespace e.2 0, GetNamespace e.2 1)) =
      [(.ok, some (some 1), some (some 1)), (.ok, some (some 1), some (some 1)),
       (.ok, some (some 1), some (some 2))] := by decide

/-- Before the repair: `prepare 0 v2; delete 1; commit 0` brought the deleted
    namespace 1 back and dropped the change of namespace 0. -/
theorem pinned_resurrect_witness :
    let r := Pinned.run (CreateManager [(0, 1), (1, 1)]) [.prepare 0 2 true, .delete 1, .commit 0]
    r.map (fun e => (e.1, GetNamespace e.2 0, GetNamespace e.2 1)) =
      [(.ok, some (some 1), some (some 1)), (.ok, some (some 1), some none),
       (.ok, some (some 1), some (some 1))] := by decide

/-- Before the repair: a commit of a name the prepared generation does not
    hold switched generations (activating the other namespace's uncommitted
    version) and then dereferenced a nil namespace. -/
theorem pinned_commit_other_name_witness :
    let r := Pinned.run (CreateManager [(0, 1)]) [.prepare 0 2 true, .commit 1]
    r.map (fun e => (e.1, GetNamespace e.2 0)) = [(.ok, some (some 1)), (.panic, some (some 2))] := by decide

/-- The same histories on the repaired machine. -/
theorem repaired_on_witness_histories :
    ((run (CreateManager [(0, 1), (1, 1)]) [.prepare 0 2 true, .prepare 1 2 true, .commit 0, .commit 1]).map
        (fun e => (e.1, GetNamespace e.2 0, GetNamespace e.2 1)) =
      [(.ok, some (some 1), some (some 1)), (.ok, some (some 1), some (some 1)),
       (.errNotPrepared, some (some 1), some (some 1)), (.ok, some (some 1), some (some 2))]) ∧
    ((run (CreateManager [(0, 1), (1, 1)]) [.prepare 0 2 true, .delete 1, .commit 0]).map
        (fun e => (e.1, GetNamespace e.2 0, GetNamespace e.2 1)) =
      [(.ok, some (some 1), some (some 1)), (.ok, some (some 1), some none),
       (.errNotPrepared, some (some 1), some none)]) ∧
    ((run (CreateManager [(0, 1)]) [.prepare 0 2 true, .commit 1, .commit 0]).map
        (fun e => (e.1, GetNamespace e.2 0)) =
      [(.ok, some (some 1)), (.errNotPrepared, some (some 1)), (.ok, some (some 2))]) := by decide

end GaeaVerif.C31
