import GaeaVerif.Model.Noninterf
import GaeaVerif.Gen.Consts
/-
  C07 — Concurrent sessions plan independently of each other.
  `noninterference` is about the transition system of Model/Noninterf.lean; the
  premise "planning never writes shared routing state" is the generated fact
  `Gen.c07SharedWrites = []` (translator, regenerated from /repo on every run):
  adding such a write to the source breaks `shared_state_never_written`.
-/
namespace GaeaVerif.C07
open GaeaVerif.Noninterf

theorem stepOf_shared {S P : Type} (step : Step S P) (h : NoWrites step) (sys : Sys S P) (i : Nat) :
    (sys.stepOf step i).shared = sys.shared := by
  simp only [Sys.stepOf]; rw [h sys.shared (sys.priv i)]; rfl

theorem run_shared {S P : Type} (step : Step S P) (h : NoWrites step) (sys : Sys S P) (sched : List Nat) :
    (sys.run step sched).shared = sys.shared := by
  induction sched generalizing sys with
  | nil => rfl
  | cons i is ih =>
    simp only [Sys.run, List.foldl_cons] at ih ⊢
    rw [ih, stepOf_shared step h]

/-- **C07.** If no step writes the shared routing state then, for every
    interleaving of any number of sessions, every session ends in exactly the
    state it reaches when it runs alone for as many steps as it took in the
    interleaving, and the shared state is unchanged. -/
theorem noninterference {S P : Type} (step : Step S P) (h : NoWrites step) (sys : Sys S P)
    (sched : List Nat) (i : Nat) :
    (sys.run step sched).priv i = alone step sys.shared (sched.count i) (sys.priv i) ∧
    (sys.run step sched).shared = sys.shared := by
  refine ⟨?_, run_shared step h sys sched⟩
  induction sched generalizing sys with
  | nil => rfl
  | cons j js ih =>
    simp only [Sys.run, List.foldl_cons] at ih ⊢
    rw [ih, stepOf_shared step h]
    by_cases hji : j = i
    · subst hji
      simp [Sys.stepOf, alone]
    · have hij : ¬ i = j := fun e => hji e.symm
      simp [Sys.stepOf, hji, hij]

/-- no two steps of different sessions ever conflict (hence no data race on
    the shared state) -/
theorem no_conflict {S P : Type} (step : Step S P) (h : NoWrites step) (s : S) (p q : P) :
    ¬ Conflict step s p q := by
  simp [Conflict, h s p, h s q]

/-- The proof obligation tied to the source: the translator found no write to
    shared routing state in the planning code of the current tree. -/
theorem shared_state_never_written : GaeaVerif.Gen.c07SharedWrites = [] := by decide

/-- Witness that the premise matters (the defect repaired by the `fix:` commit
    was such a write): with a step that writes the shared state, a session's
    result depends on what the other session did. -/
theorem write_interferes_witness :
    let step : Step Nat Nat := fun s p => (some p, s)   -- publish own value, read the shared one
    let sys : Sys Nat Nat := { shared := 0, priv := fun j => j + 1 }
    (sys.run step [1, 0]).priv 0 ≠ alone step sys.shared 1 (sys.priv 0) := by
  decide

/-- non-vacuity: a read-only step function satisfies the premise -/
example : NoWrites (fun (s : Nat) (p : Nat) => ((none : Option Nat), s + p)) := fun _ _ => rfl

end GaeaVerif.C07
