import GaeaVerif.Model.Noninterf
import GaeaVerif.Model.PlanShared
import GaeaVerif.Model.SliceAlias
import GaeaVerif.Gen.Consts
/-
  C07 — Concurrent sessions plan independently of each other.

  Part 1 (abstract): `noninterference` for the transition system of Model/Noninterf.lean; its
  premise is tied to the source by the syntactic fact `Gen.c07SharedWrites = []`.

  Part 2 (the planning system of Model/PlanShared.lean): sessions step in any interleaving over
  a shared state made of the routing configuration and the cells planning does write (global
  sequences, math/rand's source, the log).  The set of cells follows the typed translator's fact
  `Gen.c07Effects` (points-to analysis over go/ssa, harness/extract/c07ssa.go):
    * `planning_reads_shared_only`   every effect of planning on shared memory listed by the
      translator is one of the modelled cells — a store, append, map update … into the router,
      a rule, the namespace or a package variable is not, and breaks this proof;
    * `step_kinds_follow_facts`      the cells the model's steps write are exactly the cells of
      the facts;
    * `configuration_never_written`  no interleaving changes the configuration;
    * `plans_on_initial_configuration`, `plan_independent_of_other_sessions`, `alone_plan`
      every plan any session ends with is `planOf` of the INITIAL configuration, its statement
      and the values it obtained itself; with no value needed it is exactly the plan of the
      same statement planned alone;
    * `draws_distinct`, `run_events`  sequence values are never handed out twice, whoever asks;
    * `statements_kept`              no statement of a session is lost, duplicated or reordered.

  Part 3 (Go slices over a heap of arrays, Model/SliceAlias.lean): the route result of a statement
  starts as the rule's own sub table list (the getters hand out internal slices, fact
  `Gen.c07AliasGetters`) and goes through RouteResult.Inter / Union with that list, windows of it
  or new lists: `route_ops_leave_shared_lists_alone` — no array that existed before is written;
  the `append(indexes[:0], x)` idiom of two seeded changes is (`…_witness`).
-/
namespace GaeaVerif.C07

section abstract
open GaeaVerif.Noninterf

theorem stepOf_shared {S P : Type} (step : Step S P) (h : NoWrites step) (sys : Sys S P) (i : Nat) :
    (sys.stepOf step i).shared = sys.shared := by
  simp only [Sys.stepOf]; rw [h sys.shared (sys.priv i)]; rfl

theorem run_shared {S P : Type} (step : Step S P) (h : NoWrites step) (sys : Sys S P) (sched : List Nat) :
    (sys.run step sched).shared = sys.shared := by
  induction sched generalizing sys with
  | nil => rfl
  | cons i is ih =>
    simp only [Sys.run, List.foldl_cons] at ih ⊢
    rw [ih, stepOf_shared step h]

/-- **C07.** If no step writes the shared routing state then, for every
    interleaving of any number of sessions, every session ends in exactly the
    state it reaches when it runs alone for as many steps as it took in the
    interleaving, and the shared state is unchanged. -/
theorem noninterference {S P : Type} (step : Step S P) (h : NoWrites step) (sys : Sys S P)
    (sched : List Nat) (i : Nat) :
    (sys.run step sched).priv i = alone step sys.shared (sched.count i) (sys.priv i) ∧
    (sys.run step sched).shared = sys.shared := by
  refine ⟨?_, run_shared step h sys sched⟩
  induction sched generalizing sys with
  | nil => rfl
  | cons j js ih =>
    simp only [Sys.run, List.foldl_cons] at ih ⊢
    rw [ih, stepOf_shared step h]
    by_cases hji : j = i
    · subst hji
      simp [Sys.stepOf, alone]
    · have hij : ¬ i = j := fun e => hji e.symm
      simp [Sys.stepOf, hji, hij]

/-- no two steps of different sessions ever conflict (hence no data race on
    the shared state) -/
theorem no_conflict {S P : Type} (step : Step S P) (h : NoWrites step) (s : S) (p q : P) :
    ¬ Conflict step s p q := by
  simp [Conflict, h s p, h s q]

/-- The proof obligation tied to the source: the translator found no write to
    shared routing state in the planning code of the current tree. -/
theorem shared_state_never_written : GaeaVerif.Gen.c07SharedWrites = [] := by decide

/-- Witness that the premise matters (the defect repaired by the `fix:` commit
    was such a write): with a step that writes the shared state, a session's
    result depends on what the other session did. -/
theorem write_interferes_witness :
    let step : Step Nat Nat := fun s p => (some p, s)   -- publish own value, read the shared one
    let sys : Sys Nat Nat := { shared := 0, priv := fun j => j + 1 }
    (sys.run step [1, 0]).priv 0 ≠ alone step sys.shared 1 (sys.priv 0) := by
  decide

/-- non-vacuity: a read-only step function satisfies the premise -/
example : NoWrites (fun (s : Nat) (p : Nat) => ((none : Option Nat), s + p)) := fun _ _ => rfl

end abstract

/-! ## Part 2: the planning system -/

section planning
open GaeaVerif.PlanShared
variable {Cfg Stmt Plan : Type}

theorem step_cfg (P : Planner Cfg Stmt Plan) (sh : Shared Cfg) (s : Sess Stmt Plan) :
    (step P sh s).1.cfg = sh.cfg := by
  unfold step
  split
  · split <;> rfl
  · split <;> rfl

theorem stepOf_cfg (P : Planner Cfg Stmt Plan) (sys : Sys Cfg Stmt Plan) (i : Nat) :
    (sys.stepOf P i).1.shared.cfg = sys.shared.cfg := by
  simp only [Sys.stepOf]; exact step_cfg P _ _

theorem run_cfg (P : Planner Cfg Stmt Plan) (sys : Sys Cfg Stmt Plan) (sched : List Nat) :
    (sys.run P sched).1.shared.cfg = sys.shared.cfg := by
  induction sched generalizing sys with
  | nil => rfl
  | cons i is ih =>
    simp only [Sys.run]
    rw [ih, stepOf_cfg]

/-- what the plans of a session's finished statements may be, and how far the one in progress is,
    relative to a fixed configuration `c` -/
def SessOk (P : Planner Cfg Stmt Plan) (c : Cfg) (s : Sess Stmt Plan) : Prop :=
  (∀ e ∈ s.done, ∃ got, e.2 = P.planOf c e.1 got ∧ got.length = yieldCount (P.needs c e.1)) ∧
  (∀ j, s.cur = some j → ∃ pre, P.needs c j.stmt = pre ++ j.todo ∧ j.got.length = yieldCount pre)

theorem yieldCount_append (a b : List Need) : yieldCount (a ++ b) = yieldCount a + yieldCount b := by
  simp [yieldCount, List.filter_append]

theorem step_ok (P : Planner Cfg Stmt Plan) (sh : Shared Cfg) (s : Sess Stmt Plan)
    (h : SessOk P sh.cfg s) : SessOk P sh.cfg (step P sh s).2.1 := by
  obtain ⟨hd, hc⟩ := h
  unfold step
  split
  next hcur =>
    split
    · exact ⟨hd, hc⟩
    next st q hq =>
      refine ⟨hd, ?_⟩
      intro j hj
      simp only [Option.some.injEq] at hj
      subst hj
      exact ⟨[], by simp, by simp [yieldCount]⟩
  next j hcur =>
    obtain ⟨pre, hpre, hlen⟩ := hc j hcur
    split
    next htodo =>
      refine ⟨?_, by intro j' hj'; simp at hj'⟩
      intro e he
      simp only [List.mem_append, List.mem_singleton] at he
      rcases he with he | he
      · exact hd e he
      · subst he
        refine ⟨j.got, rfl, ?_⟩
        rw [hlen, hpre, htodo]; simp
    next k t htodo =>
      refine ⟨hd, ?_⟩
      intro j' hj'
      simp only [Option.some.injEq] at hj'
      subst hj'
      refine ⟨pre ++ [.draw k], by simp [hpre, htodo], ?_⟩
      rw [List.length_append, yieldCount_append, hlen]; rfl
    next t htodo =>
      refine ⟨hd, ?_⟩
      intro j' hj'
      simp only [Option.some.injEq] at hj'
      subst hj'
      refine ⟨pre ++ [.rnd], by simp [hpre, htodo], ?_⟩
      rw [List.length_append, yieldCount_append, hlen]; rfl
    next t htodo =>
      refine ⟨hd, ?_⟩
      intro j' hj'
      simp only [Option.some.injEq] at hj'
      subst hj'
      refine ⟨pre ++ [.logLine], by simp [hpre, htodo], ?_⟩
      rw [yieldCount_append, hlen]; rfl


def SysOk (P : Planner Cfg Stmt Plan) (c : Cfg) (sys : Sys Cfg Stmt Plan) : Prop := ∀ i, SessOk P c (sys.sess i)

theorem fresh_ok (P : Planner Cfg Stmt Plan) (c : Cfg) (q : List Stmt) : SessOk P c (Sess.fresh q : Sess Stmt Plan) :=
  ⟨by intro e he; simp [Sess.fresh] at he, by intro j hj; simp [Sess.fresh] at hj⟩

theorem stepOf_ok (P : Planner Cfg Stmt Plan) (sys : Sys Cfg Stmt Plan) (i : Nat)
    (h : SysOk P sys.shared.cfg sys) : SysOk P sys.shared.cfg (sys.stepOf P i).1 := by
  intro j
  simp only [Sys.stepOf]
  by_cases hj : j = i
  · subst hj; simp only [if_true]; exact step_ok P _ _ (h j)
  · simp only [hj, if_false]; exact h j

theorem run_ok (P : Planner Cfg Stmt Plan) (sys : Sys Cfg Stmt Plan) (sched : List Nat)
    (h : SysOk P sys.shared.cfg sys) : SysOk P sys.shared.cfg (sys.run P sched).1 := by
  induction sched generalizing sys with
  | nil => exact h
  | cons i is ih =>
    simp only [Sys.run]
    have h1 := stepOf_ok P sys i h
    have hc := stepOf_cfg P sys i
    rw [← hc] at h1 ⊢
    exact ih _ h1

theorem plans_on_initial_configuration (P : Planner Cfg Stmt Plan) (sys : Sys Cfg Stmt Plan)
    (hfresh : ∀ i, ∃ q, sys.sess i = Sess.fresh q) (sched : List Nat) (i : Nat)
    (e : Stmt × Plan) (he : e ∈ ((sys.run P sched).1.sess i).done) :
    ∃ got, e.2 = P.planOf sys.shared.cfg e.1 got ∧ got.length = yieldCount (P.needs sys.shared.cfg e.1) := by
  have h0 : SysOk P sys.shared.cfg sys := by
    intro j; obtain ⟨q, hq⟩ := hfresh j; rw [hq]; exact fresh_ok P _ q
  exact (run_ok P sys sched h0 i).1 e he

theorem plan_independent_of_other_sessions (P : Planner Cfg Stmt Plan) (sys : Sys Cfg Stmt Plan)
    (hfresh : ∀ i, ∃ q, sys.sess i = Sess.fresh q) (sched : List Nat) (i : Nat)
    (e : Stmt × Plan) (he : e ∈ ((sys.run P sched).1.sess i).done)
    (hno : yieldCount (P.needs sys.shared.cfg e.1) = 0) :
    e.2 = P.planOf sys.shared.cfg e.1 [] := by
  obtain ⟨got, hp, hl⟩ := plans_on_initial_configuration P sys hfresh sched i e he
  rw [hno] at hl
  rw [List.length_eq_zero_iff.mp hl] at hp
  exact hp

/-- a session stepping `n` times with nobody else around -/
def solo (P : Planner Cfg Stmt Plan) : Nat → Shared Cfg → Sess Stmt Plan → Shared Cfg × Sess Stmt Plan
  | 0, sh, s => (sh, s)
  | n + 1, sh, s => solo P n (step P sh s).1 (step P sh s).2.1

theorem run_solo (P : Planner Cfg Stmt Plan) (sys : Sys Cfg Stmt Plan) (i n : Nat) :
    ((sys.run P (List.replicate n i)).1.shared, (sys.run P (List.replicate n i)).1.sess i)
      = solo P n sys.shared (sys.sess i) := by
  induction n generalizing sys with
  | zero => rfl
  | succ n ih =>
    simp only [List.replicate_succ, Sys.run, solo]
    rw [ih]
    simp [Sys.stepOf]

theorem step_log (P : Planner Cfg Stmt Plan) (sh : Shared Cfg) (q : List Stmt) (st : Stmt) (t : List Need)
    (got : List Nat) (done : List (Stmt × Plan)) :
    step P sh { queue := q, cur := some { stmt := st, todo := .logLine :: t, got := got }, done := done }
      = ({ sh with log := sh.log + 1 }, { queue := q, cur := some { stmt := st, todo := t, got := got }, done := done }, none) := rfl

/-- working alone on a statement whose remaining needs are log lines only: after writing them and
    one more step the plan is `planOf` of the configuration and the values obtained so far -/
theorem solo_finish (P : Planner Cfg Stmt Plan) (q : List Stmt) (st : Stmt) (got : List Nat) (done : List (Stmt × Plan))
    (todo : List Need) (hall : ∀ n ∈ todo, n = Need.logLine) (sh : Shared Cfg) :
    (solo P (todo.length + 1) sh { queue := q, cur := some { stmt := st, todo := todo, got := got }, done := done }).2.done
      = done ++ [(st, P.planOf sh.cfg st got)] := by
  induction todo generalizing sh with
  | nil => rfl
  | cons n t ih =>
    have hn : n = Need.logLine := hall n (by simp)
    subst hn
    have ht : ∀ n ∈ t, n = Need.logLine := fun n hn => hall n (by simp [hn])
    show (solo P (t.length + 1) (step P sh _).1 (step P sh _).2.1).2.done = _
    rw [step_log]
    exact ih ht _

/-- **planned alone**: a session that is alone in the namespace and has one statement that needs no
    value from the shared cells ends, after `needs + 2` steps, with the plan `planOf cfg st []` -/
theorem alone_plan (P : Planner Cfg Stmt Plan) (sh : Shared Cfg) (st : Stmt)
    (hall : ∀ n ∈ P.needs sh.cfg st, n = Need.logLine) (others : Nat → Sess Stmt Plan) :
    ((Sys.run P { shared := sh, sess := fun j => if j = 0 then Sess.fresh [st] else others j }
        (List.replicate ((P.needs sh.cfg st).length + 2) 0)).1.sess 0).done = [(st, P.planOf sh.cfg st [])] := by
  have h := run_solo P { shared := sh, sess := fun j => if j = 0 then Sess.fresh [st] else others j } 0 ((P.needs sh.cfg st).length + 2)
  have h2 := congrArg (fun p => p.2.done) h
  simp only [if_true] at h2
  rw [h2]
  show (solo P ((P.needs sh.cfg st).length + 1) (step P sh (Sess.fresh [st])).1 (step P sh (Sess.fresh [st])).2.1).2.done = _
  have := solo_finish P [] st [] [] (P.needs sh.cfg st) hall sh
  simpa [step, Sess.fresh] using this

theorem step_stmts (P : Planner Cfg Stmt Plan) (sh : Shared Cfg) (s : Sess Stmt Plan) :
    (step P sh s).2.1.stmts = s.stmts := by
  unfold step
  split
  next hcur =>
    split
    next hq => rfl
    next st q hq => simp [Sess.stmts, hcur, hq]
  next j hcur =>
    split <;> simp [Sess.stmts, hcur]

theorem step_event (P : Planner Cfg Stmt Plan) (sh : Shared Cfg) (s : Sess Stmt Plan) (k v : Nat)
    (h : (step P sh s).2.2 = some (k, v)) : v = sh.seq k + 1 ∧ (step P sh s).1.seq k = v := by
  cases hc : s.cur with
  | none =>
    cases hq : s.queue <;> simp [step, hc, hq] at h
  | some j =>
    cases ht : j.todo with
    | nil => simp [step, hc, ht] at h
    | cons n t =>
      cases n with
      | draw k' =>
        simp only [step, hc, ht, Option.some.injEq, Prod.mk.injEq] at h
        obtain ⟨rfl, rfl⟩ := h
        simp [step, hc, ht]
      | rnd => simp [step, hc, ht] at h
      | logLine => simp [step, hc, ht] at h

theorem step_seq_mono (P : Planner Cfg Stmt Plan) (sh : Shared Cfg) (s : Sess Stmt Plan) (k : Nat) :
    sh.seq k ≤ (step P sh s).1.seq k := by
  cases hc : s.cur with
  | none =>
    cases hq : s.queue <;> simp [step, hc, hq]
  | some j =>
    cases ht : j.todo with
    | nil => simp [step, hc, ht]
    | cons n t =>
      cases n with
      | draw k' =>
        simp only [step, hc, ht]
        by_cases hk : k = k'
        · simp [hk]
        · simp [hk]
      | rnd => simp [step, hc, ht]
      | logLine => simp [step, hc, ht]

/-- the sequence values drawn in a run: per sequence strictly increasing in the order they were
    drawn, all above what the sequence had issued before the run -/
theorem run_events (P : Planner Cfg Stmt Plan) (sys : Sys Cfg Stmt Plan) (sched : List Nat) :
    (sys.run P sched).2.Pairwise (fun a b => a.1 = b.1 → a.2 < b.2) ∧
    ∀ e ∈ (sys.run P sched).2, sys.shared.seq e.1 < e.2 := by
  induction sched generalizing sys with
  | nil => simp [Sys.run]
  | cons i is ih =>
    obtain ⟨ihp, ihb⟩ := ih (sys.stepOf P i).1
    have hmono : ∀ k, sys.shared.seq k ≤ (sys.stepOf P i).1.shared.seq k := by
      intro k; simp only [Sys.stepOf]; exact step_seq_mono P _ _ k
    simp only [Sys.run]
    cases hev : (sys.stepOf P i).2 with
    | none =>
      simp only [List.nil_append]
      exact ⟨ihp, fun e he => Nat.lt_of_le_of_lt (hmono e.1) (ihb e he)⟩
    | some ev =>
      obtain ⟨k, v⟩ := ev
      have hst := step_event P sys.shared (sys.sess i) k v (by simpa [Sys.stepOf] using hev)
      simp only [List.singleton_append, List.pairwise_cons, List.mem_cons]
      refine ⟨⟨?_, ihp⟩, ?_⟩
      · intro b hb hkb
        have := ihb b hb
        have hkb' : k = b.1 := hkb
        rw [← hkb'] at this
        have h2 : (sys.stepOf P i).1.shared.seq k = v := by simpa [Sys.stepOf] using hst.2
        omega
      · intro e he
        rcases he with rfl | he
        · show sys.shared.seq k < v
          omega
        · exact Nat.lt_of_le_of_lt (hmono e.1) (ihb e he)

theorem draws_distinct (P : Planner Cfg Stmt Plan) (sys : Sys Cfg Stmt Plan) (sched : List Nat) :
    (sys.run P sched).2.Nodup := by
  have h := (run_events P sys sched).1
  refine List.Pairwise.imp ?_ h
  intro a b hab heq
  subst heq
  exact Nat.lt_irrefl _ (hab rfl)

/-- no statement of a session is lost, duplicated or reordered by any interleaving -/
theorem statements_kept (P : Planner Cfg Stmt Plan) (sys : Sys Cfg Stmt Plan) (sched : List Nat) (i : Nat) :
    ((sys.run P sched).1.sess i).stmts = (sys.sess i).stmts := by
  induction sched generalizing sys with
  | nil => rfl
  | cons j js ih =>
    simp only [Sys.run]
    rw [ih]
    simp only [Sys.stepOf]
    by_cases h : i = j
    · subst h; simp only [if_true]; exact step_stmts P _ _
    · simp only [h, if_false]

/-- **C07, the shared configuration is read-only**: whatever the sessions do, in whatever order. -/
theorem configuration_never_written (P : Planner Cfg Stmt Plan) (sys : Sys Cfg Stmt Plan) (sched : List Nat) :
    (sys.run P sched).1.shared.cfg = sys.shared.cfg := run_cfg P sys sched

end planning

/-! ## Part 3: route results alias the rule's list of sub tables (Model/SliceAlias.lean) -/

section aliasing
open GaeaVerif.SliceAlias

theorem frame_refl (n : Nat) (h : Heap) : Frame n h h := ⟨Nat.le_refl _, fun _ _ => rfl⟩

theorem frame_trans {n : Nat} {h1 h2 h3 : Heap} (a : Frame n h1 h2) (b : Frame n h2 h3) : Frame n h1 h3 :=
  ⟨Nat.le_trans a.1 b.1, fun x hx => (b.2 x hx).trans (a.2 x hx)⟩

theorem frame_alloc (n : Nat) (h : Heap) (xs : List Int) (cap : Nat) (hn : n ≤ h.length) :
    Frame n h (h.alloc xs cap).1 ∧ n ≤ (h.alloc xs cap).2.arr := by
  refine ⟨⟨by simp [Heap.alloc], ?_⟩, by simpa [Heap.alloc] using hn⟩
  intro a ha
  have : a < h.length := Nat.lt_of_lt_of_le ha hn
  simp [Heap.alloc, List.getD, List.getElem?_append_left this]

theorem frame_setAt (n : Nat) (h : Heap) (a i : Nat) (x : Int) (ha : n ≤ a) : Frame n h (h.setAt a i x) := by
  refine ⟨by simp [Heap.setAt], ?_⟩
  intro b hb
  have : a ≠ b := by omega
  simp [Heap.setAt, List.getD, this]

theorem frame_append1 (n : Nat) (h : Heap) (s : Slice) (x : Int) (hn : n ≤ h.length) (hs : n ≤ s.arr) :
    Frame n h (append1 h s x).1 ∧ n ≤ (append1 h s x).2.arr := by
  unfold append1
  split
  · exact ⟨frame_setAt n h _ _ x hs, hs⟩
  · exact frame_alloc n h _ _ hn

theorem frame_appendAll (n : Nat) (xs : List Int) (h : Heap) (s : Slice) (hn : n ≤ h.length) (hs : n ≤ s.arr) :
    Frame n h (appendAll h s xs).1 ∧ n ≤ (appendAll h s xs).2.arr := by
  induction xs generalizing h s with
  | nil => exact ⟨frame_refl n h, hs⟩
  | cons x xs ih =>
    have h1 := frame_append1 n h s x hn hs
    have h2 := ih (append1 h s x).1 (append1 h s x).2 (Nat.le_trans hn h1.1.1) h1.2
    exact ⟨frame_trans h1.1 h2.1, h2.2⟩

theorem frame_interLoop (n : Nat) (l1 l2 : Slice) (fuel : Nat) (h : Heap) (l3 : Slice) (i j : Nat)
    (hn : n ≤ h.length) (hs : n ≤ l3.arr) :
    Frame n h (interLoop l1 l2 fuel h l3 i j).1 ∧ n ≤ (interLoop l1 l2 fuel h l3 i j).2.arr := by
  induction fuel generalizing h l3 i j with
  | zero => exact ⟨frame_refl n h, hs⟩
  | succ fuel ih =>
    unfold interLoop
    split
    · split
      · have h1 := frame_append1 n h l3 (h.get l1 i) hn hs
        have h2 := ih (append1 h l3 (h.get l1 i)).1 (append1 h l3 (h.get l1 i)).2 (i + 1) (j + 1) (Nat.le_trans hn h1.1.1) h1.2
        exact ⟨frame_trans h1.1 h2.1, h2.2⟩
      · split
        · exact ih h l3 (i + 1) j hn hs
        · exact ih h l3 i (j + 1) hn hs
    · exact ⟨frame_refl n h, hs⟩

theorem frame_interList (n : Nat) (h : Heap) (l1 l2 : Slice) (hn : n ≤ h.length) :
    Frame n h (interList h l1 l2).1 ∧ n ≤ (interList h l1 l2).2.arr := by
  unfold interList
  split
  · exact frame_alloc n h _ _ hn
  · have h1 := frame_alloc n h [] (l1.len + l2.len) hn
    have h2 := frame_interLoop n l1 l2 (l1.len + l2.len) _ _ 0 0 (Nat.le_trans hn h1.1.1) h1.2
    exact ⟨frame_trans h1.1 h2.1, h2.2⟩

theorem frame_unionLoop (n : Nat) (l1 l2 : Slice) (fuel : Nat) (h : Heap) (l3 : Slice) (i j : Nat)
    (hn : n ≤ h.length) (hs : n ≤ l3.arr) :
    Frame n h (unionLoop l1 l2 fuel h l3 i j).1 ∧ n ≤ (unionLoop l1 l2 fuel h l3 i j).2.1.arr := by
  induction fuel generalizing h l3 i j with
  | zero => exact ⟨frame_refl n h, hs⟩
  | succ fuel ih =>
    unfold unionLoop
    split
    · split
      · have h1 := frame_append1 n h l3 (h.get l1 i) hn hs
        have h2 := ih _ _ (i + 1) j (Nat.le_trans hn h1.1.1) h1.2
        exact ⟨frame_trans h1.1 h2.1, h2.2⟩
      · split
        · have h1 := frame_append1 n h l3 (h.get l2 j) hn hs
          have h2 := ih _ _ i (j + 1) (Nat.le_trans hn h1.1.1) h1.2
          exact ⟨frame_trans h1.1 h2.1, h2.2⟩
        · have h1 := frame_append1 n h l3 (h.get l1 i) hn hs
          have h2 := ih _ _ (i + 1) (j + 1) (Nat.le_trans hn h1.1.1) h1.2
          exact ⟨frame_trans h1.1 h2.1, h2.2⟩
    · exact ⟨frame_refl n h, hs⟩

theorem frame_unionList (n : Nat) (h : Heap) (l1 l2 : Slice) (hn : n ≤ h.length) :
    Frame n h (unionList h l1 l2).1 := by
  unfold unionList
  split
  · exact frame_refl n h
  · split
    · exact frame_refl n h
    · have h1 := frame_alloc n h [] (l1.len + l2.len) hn
      have h2 := frame_unionLoop n l1 l2 (l1.len + l2.len) _ _ 0 0 (Nat.le_trans hn h1.1.1) h1.2
      have h12 := frame_trans h1.1 h2.1
      simp only
      split
      · exact frame_trans h12 (frame_appendAll n _ _ _ (Nat.le_trans hn h12.1) h2.2).1
      · split
        · exact frame_trans h12 (frame_appendAll n _ _ _ (Nat.le_trans hn h12.1) h2.2).1
        · exact h12

theorem frame_evalArg (n : Nat) (h : Heap) (rule : Slice) (a : Arg) (hn : n ≤ h.length) :
    Frame n h (evalArg h rule a).1 := by
  cases a <;> simp only [evalArg] <;> first | exact frame_refl n h | exact (frame_alloc n h _ _ hn).1

theorem frame_stepOp (n : Nat) (h : Heap) (rule idx : Slice) (op : Op) (hn : n ≤ h.length) :
    Frame n h (stepOp h rule idx op).1 := by
  cases op with
  | inter a =>
    have h1 := frame_evalArg n h rule a hn
    exact frame_trans h1 (frame_interList n _ idx _ (Nat.le_trans hn h1.1)).1
  | union a =>
    have h1 := frame_evalArg n h rule a hn
    exact frame_trans h1 (frame_unionList n _ idx _ (Nat.le_trans hn h1.1))

theorem frame_runOps (n : Nat) (rule : Slice) (ops : List Op) (h : Heap) (idx : Slice) (hn : n ≤ h.length) :
    Frame n h (runOps h rule idx ops).1 := by
  induction ops generalizing h idx with
  | nil => exact frame_refl n h
  | cons op ops ih =>
    have h1 := frame_stepOp n h rule idx op hn
    exact frame_trans h1 (ih _ _ (Nat.le_trans hn h1.1))

/-- **The rule's list of sub tables survives planning**: whatever sequence of Inter / Union steps a
    statement's route result goes through — starting as the rule's own list, combined with the
    list itself, with windows of it (makeLeList …) or with new lists — every array that existed
    before, the rule's among them, holds what it held. -/
theorem route_ops_leave_shared_lists_alone (h : Heap) (rule : Slice) (ops : List Op) (a : Nat) (ha : a < h.length) :
    (runOps h rule rule ops).1.getD a [] = h.getD a [] :=
  (frame_runOps h.length rule ops h rule (Nat.le_refl _)).2 a ha

example : (runOps [[0, 1, 2, 3]] ⟨0, 0, 4, 4⟩ ⟨0, 0, 4, 4⟩ [.inter (.fresh [2]), .union (.gt 1), .inter .whole]).1.getD 0 []
    = [0, 1, 2, 3] := by decide
example : let r := runOps [[0, 1, 2, 3]] ⟨0, 0, 4, 4⟩ ⟨0, 0, 4, 4⟩ [.inter (.fresh [2]), .union (.gt 1), .inter .whole]
    r.1.read r.2 = [2, 3] := by decide

/-- Witness (seeds C07-3, C07-4): the "reset and append" idiom on a route result that still is the
    rule's list writes the rule's first element. -/
theorem append_in_place_writes_rule_list_witness :
    (append1 [[0, 1, 2, 3]] ((⟨0, 0, 4, 4⟩ : Slice).sub 0 0) 2).1 = [[2, 1, 2, 3]] := by decide

/-- Witness: appending to a window handed out by makeLtList overwrites the element behind it. -/
theorem append_to_window_writes_rule_list_witness :
    (append1 [[0, 1, 2, 3]] (makeLtList [[0, 1, 2, 3]] 2 ⟨0, 0, 4, 4⟩) 9).1 = [[0, 1, 9, 3]] := by decide

end aliasing

/-! ## The tie to the source: the cells follow the translator's facts -/

open GaeaVerif.PlanShared

/-- the cell a fact of the typed translator stands for; `none`: not a cell planning may write
    (a write into the router, a rule, a shard, the namespace, a cache, a package variable …) -/
def cellOf (kind target : String) : Option Cell :=
  if kind = "call" then
    if target = "sequence" then some Cell.seq
    else if target = "rand" then some Cell.rand
    else if target = "log" then some Cell.log
    else none
  else none

/-- the cells the steps of the model write (the constructors of `Need`) -/
def modelledCells : List Cell := [(Need.draw 0).cell, Need.rnd.cell, Need.logLine.cell]

def factCells : List Cell := (GaeaVerif.Gen.c07Effects.filterMap fun e => cellOf e.2.1 e.2.2).eraseDups

/-- **The proof obligation tied to the source** (typed translator): every place where the planning
    code may write shared memory, hand a shared pointer to code that may write it, lock it or call
    into an unanalysed package is one of the modelled cells.  A new store / append / map update
    whose target may be the router, a rule, the namespace or a package variable makes this false. -/
theorem planning_reads_shared_only :
    (GaeaVerif.Gen.c07Effects.all fun e => (cellOf e.2.1 e.2.2).isSome) = true := by decide

/-- the model has a step kind for every cell the facts name, and no other -/
theorem step_kinds_follow_facts :
    (factCells.all fun c => modelledCells.contains c) = true ∧
    (modelledCells.all fun c => factCells.contains c) = true := by decide

/-- the getters that hand out internal slices and maps of the shared configuration are the known
    ones (every caller of a new one has to be looked at: the list is a proof obligation) -/
theorem alias_getters_known :
    (GaeaVerif.Gen.c07AliasGetters.map Prod.snd).eraseDups =
      ["proxy/router.BaseRule.mycatDatabases", "proxy/router.BaseRule.slices",
       "proxy/router.BaseRule.subTableIndexes", "proxy/router.Router.rules",
       "proxy/server.Namespace.defaultPhyDBs"] := by decide

/-! ## Non-vacuity -/

/-- a planner whose plan is (routing of the statement under the configuration, values obtained) -/
def demoPlanner : Planner Nat Nat (Nat × List Nat) :=
  { needs := fun _ st => if st % 2 = 0 then [.logLine] else [.draw 0, .logLine]
    planOf := fun cfg st got => (st % cfg, got)
    rng := fun r => (r, r + 1) }

def demoSys : Sys Nat Nat (Nat × List Nat) :=
  { shared := { cfg := 4, seq := fun _ => 0, rand := 0, log := 0 }
    sess := fun i => if i < 2 then Sess.fresh [i + 5, i + 8] else Sess.fresh [] }

/-- two sessions interleaved step by step: both INSERT-like statements (odd) draw different values,
    the plans are those of the initial configuration -/
example : ((demoSys.run demoPlanner [0, 1, 0, 1, 0, 1, 0, 1, 0, 1, 0, 1, 0, 1, 0, 1]).1.sess 0).done
    = [(5, (1, [1])), (8, (0, []))] := by decide
example : ((demoSys.run demoPlanner [0, 1, 0, 1, 0, 1, 0, 1, 0, 1, 0, 1, 0, 1, 0, 1]).1.sess 1).done
    = [(6, (2, [])), (9, (1, [2]))] := by decide
example : (demoSys.run demoPlanner [0, 1, 0, 1, 0, 1, 0, 1, 0, 1, 0, 1, 0, 1, 0, 1]).2 = [(0, 1), (0, 2)] := by decide
example : ∀ i, ∃ q, demoSys.sess i = Sess.fresh q := fun i => by
  by_cases h : i < 2
  · exact ⟨[i + 5, i + 8], by simp [demoSys, h]⟩
  · exact ⟨[], by simp [demoSys, h]⟩

/-- Witness that the read-only configuration matters: a planner step that wrote the configuration
    (here: a second system whose configuration differs) gives another plan for the same statement. -/
theorem configuration_matters_witness :
    demoPlanner.planOf 4 6 [] ≠ demoPlanner.planOf 3 6 [] := by decide

end GaeaVerif.C07
