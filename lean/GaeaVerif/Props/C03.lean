import GaeaVerif.Model.InsertPlan
import GaeaVerif.Model.InsertStored
import GaeaVerif.Lemmas.InsertStoredLemmas
import GaeaVerif.Lemmas.RouteLists
import GaeaVerif.Lemmas.ShardLayoutLemmas
/-
  C03 — Every inserted row is stored once, where lookups will find it.
  Theorems about `Model/InsertPlan.lean` (+ `Model/ShardLayout.lean`); the tie to
  proxy/plan is `gvh run C03`.
-/
namespace GaeaVerif.C03
open GaeaVerif GaeaVerif.Layout GaeaVerif.Insert

/-- the sharding cell of the row is a literal the planner places (an integer
    or a string literal; on a hash rule not a string MySQL reads as a number
    while the rule hashes its text), and the rule places it in table `i` -/
def PlacedAt (rt : String) (sci : Nat) (row : Row) (i : Int) : Prop :=
  ∃ txt val, row[sci]? = some (.lit txt val (.ok i)) ∧ shardingValueOk head rt val = true

/-- the sharding value of the row can be routed -/
def Routable (rt : String) (sci : Nat) (row : Row) : Prop := ∃ i, PlacedAt rt sci row i

/-! ### `addRow` / `splitRows`: the batch split of `handleInsertValues` -/

theorem addRow_keys (i : Int) (row : Row) (acc : List (Int × List Row)) :
    (addRow i row acc).map (·.1) = if i ∈ acc.map (·.1) then acc.map (·.1) else acc.map (·.1) ++ [i] := by
  induction acc with
  | nil => simp [addRow]
  | cons g rest ih =>
    obtain ⟨j, rs⟩ := g
    simp only [addRow]
    by_cases hji : j = i
    · simp [hji]
    · simp only [hji, ↓reduceIte, List.map_cons, ih, List.mem_cons]
      have : ¬ i = j := fun h => hji h.symm
      by_cases hm : i ∈ rest.map (·.1)
      · simp [hm]
      · simp [hm, this]

theorem addRow_perm (i : Int) (row : Row) (acc : List (Int × List Row)) :
    ((addRow i row acc).flatMap (·.2)).Perm (row :: acc.flatMap (·.2)) := by
  induction acc with
  | nil => simp [addRow]
  | cons g rest ih =>
    obtain ⟨j, rs⟩ := g
    simp only [addRow]
    by_cases hji : j = i
    · simp only [hji, ↓reduceIte, List.flatMap_cons, List.append_assoc]
      have : (rs ++ ([row] ++ rest.flatMap (·.2))).Perm (rs ++ (row :: rest.flatMap (·.2))) := by simp
      refine this.trans ?_
      exact List.perm_middle
    · simp only [hji, ↓reduceIte, List.flatMap_cons]
      refine (List.Perm.append_left rs ih).trans ?_
      exact List.perm_middle

/-- invariant of the accumulator of `handleInsertValues` -/
structure GroupsOK (rt : String) (sci : Nat) (acc : List (Int × List Row)) : Prop where
  nodup : (acc.map (·.1)).Nodup
  placed : ∀ g ∈ acc, ∀ row ∈ g.2, PlacedAt rt sci row g.1
  nonempty : ∀ g ∈ acc, g.2 ≠ []

theorem addRow_mem (i : Int) (row : Row) (acc : List (Int × List Row)) (g : Int × List Row)
    (h : g ∈ addRow i row acc) :
    (g ∈ acc) ∨ (g.1 = i ∧ ∃ rs, g.2 = rs ++ [row] ∧ (rs = [] ∨ (i, rs) ∈ acc)) := by
  induction acc with
  | nil => simp [addRow] at h; subst h; exact Or.inr ⟨rfl, [], rfl, Or.inl rfl⟩
  | cons g' rest ih =>
    obtain ⟨j, rs⟩ := g'
    simp only [addRow] at h
    by_cases hji : j = i
    · simp only [hji, ↓reduceIte, List.mem_cons] at h
      rcases h with h | h
      · subst h; exact Or.inr ⟨rfl, rs, rfl, Or.inr (by simp [hji])⟩
      · exact Or.inl (by simp [h])
    · simp only [hji, ↓reduceIte, List.mem_cons] at h
      rcases h with h | h
      · exact Or.inl (by simp [h])
      · rcases ih h with h' | ⟨h1, rs', h2, h3⟩
        · exact Or.inl (by simp [h'])
        · refine Or.inr ⟨h1, rs', h2, ?_⟩
          rcases h3 with h3 | h3
          · exact Or.inl h3
          · exact Or.inr (by simp [h3])

theorem addRow_ok (rt : String) (sci : Nat) (i : Int) (row : Row) (acc : List (Int × List Row))
    (hacc : GroupsOK rt sci acc) (hrow : PlacedAt rt sci row i) : GroupsOK rt sci (addRow i row acc) := by
  refine ⟨?_, ?_, ?_⟩
  · rw [addRow_keys]
    split
    · exact hacc.nodup
    · rename_i hni
      exact List.nodup_append.mpr ⟨hacc.nodup, by simp, by
        intro a ha b hb; simp at hb; subst hb; intro hab; subst hab; exact hni ha⟩
  · intro g hg r hr
    rcases addRow_mem i row acc g hg with h | ⟨h1, rs, h2, h3⟩
    · exact hacc.placed g h r hr
    · rw [h2] at hr
      rw [h1]
      simp only [List.mem_append, List.mem_singleton] at hr
      rcases hr with hr | hr
      · rcases h3 with h3 | h3
        · subst h3; simp at hr
        · exact hacc.placed (i, rs) h3 r hr
      · subst hr; exact hrow
  · intro g hg
    rcases addRow_mem i row acc g hg with h | ⟨_, rs, h2, _⟩
    · exact hacc.nonempty g h
    · rw [h2]; simp

/-- what an accepted batch split guarantees, for any accumulator -/
theorem splitRows_inv (rt : String) (sci : Nat) (rows : List Row) (acc groups : List (Int × List Row))
    (hacc : GroupsOK rt sci acc) (h : splitRows head rt sci rows acc = .ok groups) :
    GroupsOK rt sci groups ∧ (groups.flatMap (·.2)).Perm (acc.flatMap (·.2) ++ rows) ∧
      ∀ row ∈ rows, Routable rt sci row := by
  induction rows generalizing acc with
  | nil =>
    simp only [splitRows, R.ok.injEq] at h
    subst h
    exact ⟨hacc, by simp, by simp⟩
  | cons row rest ih =>
    simp only [splitRows] at h
    split at h
    · simp at h
    · rename_i txt val i hcell
      split at h
      · rename_i hok
        have hp : PlacedAt rt sci row i := ⟨txt, val, hcell, hok⟩
        obtain ⟨h1, h2, h3⟩ := ih (addRow i row acc) (addRow_ok rt sci i row acc hacc hp) h
        refine ⟨h1, ?_, ?_⟩
        · refine h2.trans ?_
          refine (List.Perm.append_right rest (addRow_perm i row acc)).trans ?_
          simp only [List.cons_append]
          exact List.perm_middle.symm
        · intro r hr
          simp only [List.mem_cons] at hr
          rcases hr with hr | hr
          · subst hr; exact ⟨i, hp⟩
          · exact h3 r hr
      · simp at h
    all_goals first | (simp at h; done) | (split at h <;> simp_all)

/-- **Batch split (the VALUES form).** If `handleInsertValues` accepts the rows,
    the per-table row lists together are a permutation of the statement's rows
    (nothing lost, nothing duplicated), no table index occurs twice, every list
    is non-empty and every row sits under the index its sharding literal is
    placed in. -/
theorem splitRows_partition (rt : String) (sci : Nat) (rows : List Row) (groups : List (Int × List Row))
    (h : splitRows head rt sci rows [] = .ok groups) :
    (groups.flatMap (·.2)).Perm rows ∧ (groups.map (·.1)).Nodup ∧
      (∀ g ∈ groups, g.2 ≠ [] ∧ ∀ row ∈ g.2, PlacedAt rt sci row g.1) := by
  have hnil : GroupsOK rt sci [] := ⟨by simp, by simp, by simp⟩
  obtain ⟨h1, h2, _⟩ := splitRows_inv rt sci rows [] groups hnil h
  exact ⟨by simpa using h2, h1.nodup, fun g hg => ⟨h1.nonempty g hg, h1.placed g hg⟩⟩

/-- a row whose sharding value cannot be routed makes the split fail (or panic) -/
theorem splitRows_reject (rt : String) (sci : Nat) (rows : List Row) (acc : List (Int × List Row))
    (hbad : ∃ row ∈ rows, ¬ Routable rt sci row) : ∀ groups, splitRows head rt sci rows acc ≠ .ok groups := by
  intro groups h
  induction rows generalizing acc with
  | nil => simp at hbad
  | cons row rest ih =>
    simp only [splitRows] at h
    split at h
    · simp at h
    · rename_i txt val i hcell
      split at h
      · rename_i hok
        obtain ⟨r, hr, hnr⟩ := hbad
        simp only [List.mem_cons] at hr
        rcases hr with hr | hr
        · subst hr; exact hnr ⟨i, txt, val, hcell, hok⟩
        · exact ih (addRow i row acc) ⟨r, hr, hnr⟩ h
      · simp at h
    all_goals first | (simp at h; done) | (split at h <;> simp_all)

/-! ### From the route result to the per-table statements -/

/-- entry `o` of the plan's SQL map is the statement for table index `i` of the
    rule, carrying exactly `rows`: it is filed under the slice and database of
    table `i`, names the table as the rule names table `i`, and keeps the
    column list. -/
structure Stored (t : TableRule) (s : Stmt) (i : Int) (rows : List Row) (o : Target Out) : Prop where
  target : targetOf t.layout i o.sql = .ok o
  table : restoreTableName t.layout s.schema s.table "" i = .ok [o.sql.table]
  rows : o.sql.rows = rows
  cols : o.sql.cols = s.cols
  /-- REPLACE / IGNORE / priority / ON DUPLICATE KEY UPDATE are those of the statement -/
  flags : o.sql.flags = s.flags
  /-- `i` is one of the tables the rule maps to a slice -/
  known : mapGet t.layout.t2s i ≠ none

theorem restoreInsert_spec (t : TableRule) (s : Stmt) (rows : List Row) (i : Int) (o : Out)
    (h : restoreInsert t s rows i = .ok o) :
    restoreTableName t.layout s.schema s.table "" i = .ok [o.table] ∧ o.rows = rows ∧ o.cols = s.cols ∧
      o.flags = s.flags := by
  unfold restoreInsert at h
  split at h
  · rename_i c cs heq
    simp only [R.ok.injEq] at h
    subst h
    refine ⟨?_, rfl, rfl, rfl⟩
    unfold restoreTableName at heq ⊢
    split at heq <;> simp at heq
    rename_i sc hsc
    obtain ⟨h1, h2⟩ := heq
    subst h1; subst h2
    simp
  all_goals simp at h

theorem stored_of (t : TableRule) (s : Stmt) (rows : List Row) (i : Int) (sql : Out) (o : Target Out)
    (h1 : restoreInsert t s rows i = .ok sql) (h2 : targetOf t.layout i sql = .ok o) : Stored t s i rows o := by
  obtain ⟨e, hk⟩ := targetOf_sql _ _ _ _ h2
  obtain ⟨a, b, c, d⟩ := restoreInsert_spec t s rows i sql h1
  subst e
  exact ⟨h2, a, b, c, d, hk⟩

theorem multiLoop_spec (t : TableRule) (s : Stmt) (groups : List (Int × List Row)) (out : List (Target Out))
    (h : multiLoop t.layout (restoreInsert t s) (groups.map (·.2)) (groups.map (·.1)) = .ok out) :
    Forall₂ (fun g o => Stored t s g.1 g.2 o) groups out := by
  induction groups generalizing out with
  | nil => simp [multiLoop] at h; subst h; exact .nil
  | cons g rest ih =>
    simp only [List.map_cons, multiLoop] at h
    split at h
    · rename_i sql hs
      split at h
      · rename_i o ho
        split at h
        · rename_i ts hts
          simp only [R.ok.injEq] at h
          subst h
          exact .cons (stored_of t s g.2 g.1 sql o hs ho) (ih ts hts)
        all_goals simp at h
      all_goals simp at h
    all_goals simp at h

theorem shardingSQLs_spec (t : TableRule) (s : Stmt) (idxs : List Int) (out : List (Target Out))
    (h : generateShardingSQLs t.layout (restoreInsert t s s.rows) idxs = .ok out) :
    Forall₂ (fun i o => Stored t s i s.rows o) idxs out := by
  induction idxs generalizing out with
  | nil => simp [generateShardingSQLs] at h; subst h; exact .nil
  | cons i rest ih =>
    simp only [generateShardingSQLs] at h
    split at h
    · rename_i sql hs
      split at h
      · rename_i o ho
        split at h
        · rename_i ts hts
          simp only [R.ok.injEq] at h
          subst h
          exact .cons (stored_of t s s.rows i sql o hs ho) (ih ts hts)
        all_goals simp at h
      all_goals simp at h
    all_goals simp at h

/-- what `HandleInsertStmt` does before the rows are looked at -/
theorem handleInsertStmt_sharded (t : TableRule) (seq : Option Seq) (s : Stmt) (out : List (Target Out))
    (hk : t.layout.kind ≠ .global) (h : handleInsertStmt head t seq s = .ok out) :
    ∃ s' sci, precheckInsertStmt head s = .ok () ∧ handleInsertGlobalSequenceValue seq s = .ok s' ∧
      lastIndex t.shardCol s'.cols = some sci ∧ handleInsertValues head t s' sci = .ok out := by
  unfold handleInsertStmt at h
  split at h <;> try simp at h
  rename_i hpre
  split at h <;> try simp at h
  rename_i s' hseq
  simp only [hk, ↓reduceIte] at h
  split at h <;> try simp at h
  rename_i sci hsci
  split at h <;> try simp at h
  refine ⟨s', sci, hpre, hseq, ?_, h⟩
  unfold handleInsertColumnNames at hsci
  split at hsci <;> simp at hsci
  subst hsci
  assumption

/-- **C03 (VALUES form: every row exactly once, in its own table).** If the
    planner accepts `INSERT/REPLACE … VALUES` on a sharded table, then the
    statements it produces are, one per distinct table index, the statement for
    that physical table (`Stored`), the rows they carry are together a
    permutation of the statement's rows (after the global-sequence values were
    filled in), and every row is carried by the statement of the table its
    sharding literal is placed in by `FindTableIndex`.  In particular every
    row's sharding value was routable. -/
theorem insert_partition (t : TableRule) (seq : Option Seq) (s : Stmt) (out : List (Target Out))
    (hk : t.layout.kind ≠ .global) (h : handleInsertStmt head t seq s = .ok out) :
    ∃ s' sci, handleInsertGlobalSequenceValue seq s = .ok s' ∧ lastIndex t.shardCol s'.cols = some sci ∧
      (s'.setMode = false →
        ∃ groups : List (Int × List Row),
          Forall₂ (fun g o => Stored t s' g.1 g.2 o) groups out ∧
          (groups.flatMap (·.2)).Perm s'.rows ∧
          (groups.map (·.1)).Nodup ∧
          (∀ g ∈ groups, g.2 ≠ [] ∧ ∀ row ∈ g.2, PlacedAt t.ruleType sci row g.1)) := by
  obtain ⟨s', sci, _, hseq, hsci, hv⟩ := handleInsertStmt_sharded t seq s out hk h
  refine ⟨s', sci, hseq, hsci, ?_⟩
  intro hm
  unfold handleInsertValues at hv
  simp only [hm, Bool.false_eq_true, ↓reduceIte] at hv
  split at hv <;> try simp at hv
  rename_i groups hg
  unfold generateMultiShardingSQLs at hv
  split at hv
  · simp at hv
  · obtain ⟨p1, p2, p3⟩ := splitRows_partition t.ruleType sci s'.rows groups hg
    exact ⟨groups, multiLoop_spec t s' groups out hv, p1, p2, p3⟩

/-- **C03 (SET form).** An accepted `INSERT … SET` on a sharded table produces
    exactly one statement: the one for the table its sharding literal is placed
    in, which is one of the rule's tables. -/
theorem insert_set_once (t : TableRule) (seq : Option Seq) (s : Stmt) (out : List (Target Out))
    (hk : t.layout.kind ≠ .global) (h : handleInsertStmt head t seq s = .ok out) :
    ∃ s' sci, handleInsertGlobalSequenceValue seq s = .ok s' ∧ lastIndex t.shardCol s'.cols = some sci ∧
      (s'.setMode = true →
        ∃ row i o, s'.rows = [row] ∧ out = [o] ∧ PlacedAt t.ruleType sci row i ∧ i ∈ t.layout.idxs ∧ Stored t s' i [row] o) := by
  obtain ⟨s', sci, _, hseq, hsci, hv⟩ := handleInsertStmt_sharded t seq s out hk h
  refine ⟨s', sci, hseq, hsci, ?_⟩
  intro hm
  unfold handleInsertValues at hv
  simp only [hm, ↓reduceIte] at hv
  split at hv <;> try simp at hv
  rename_i row hrows
  split at hv
  · simp at hv
  · rename_i txt val i hcell
    split at hv
    · rename_i hok
      unfold generateMultiShardingSQLs at hv
      split at hv
      · simp at hv
      · rename_i hlen
        simp only [List.length_cons, List.length_nil, Nat.zero_add, ne_eq, Decidable.not_not] at hlen
        match hi : Route.interList t.layout.idxs [i], hlen with
        | [a], _ =>
          rw [hi] at hv
          have hspec := multiLoop_spec t s' [(a, [row])] out (by simpa using hv)
          have ha : a ∈ Route.interList t.layout.idxs [i] := by rw [hi]; simp
          obtain ⟨ha1, ha2⟩ := Route.interList_mem_left _ _ _ ha
          simp only [List.mem_singleton] at ha2
          subst ha2
          cases hspec with
          | cons hst hrest =>
            cases hrest
            exact ⟨row, a, _, hrows, rfl, ⟨txt, val, hcell, hok⟩, ha1, hst⟩
    · simp at hv
  all_goals first | (simp at hv; done) | (split at hv <;> simp_all)

/-- **C03 (rejection).** If, after the global-sequence values were filled in,
    some row's sharding value is not a literal that `FindTableIndex` places
    (NULL, a signed number, arithmetic, a function call, a column, a key the
    rule reports an error or panics for, or a row too short to have one), the
    statement is not accepted: no statement is produced for any table. -/
theorem insert_reject (t : TableRule) (seq : Option Seq) (s s' : Stmt) (sci : Nat)
    (hk : t.layout.kind ≠ .global)
    (hseq : handleInsertGlobalSequenceValue seq s = .ok s') (hsci : lastIndex t.shardCol s'.cols = some sci)
    (hbad : ∃ row ∈ s'.rows, ¬ Routable t.ruleType sci row) :
    ∀ out, handleInsertStmt head t seq s ≠ .ok out := by
  intro out h
  obtain ⟨s'', sci'', _, hseq', hsci', hv⟩ := handleInsertStmt_sharded t seq s out hk h
  rw [hseq] at hseq'
  simp only [R.ok.injEq] at hseq'
  subst hseq'
  rw [hsci] at hsci'
  simp only [Option.some.injEq] at hsci'
  subst hsci'
  unfold handleInsertValues at hv
  split at hv
  · split at hv <;> try simp at hv
    rename_i row hrows
    obtain ⟨r, hr, hnr⟩ := hbad
    rw [hrows] at hr
    simp only [List.mem_singleton] at hr
    subst hr
    split at hv
    · simp at hv
    · rename_i txt val i hcell
      split at hv
      · rename_i hok
        exact hnr ⟨i, txt, val, hcell, hok⟩
      · simp at hv
    all_goals first | (simp at hv; done) | (split at hv <;> simp_all)
  · split at hv <;> try simp at hv
    rename_i groups hg
    exact splitRows_reject t.ruleType sci s'.rows [] hbad groups hg

/-- a statement that does not name the sharding column is rejected -/
theorem insert_reject_no_sharding_column (t : TableRule) (seq : Option Seq) (s s' : Stmt)
    (hk : t.layout.kind ≠ .global)
    (hseq : handleInsertGlobalSequenceValue seq s = .ok s') (hsci : lastIndex t.shardCol s'.cols = none) :
    ∀ out, handleInsertStmt head t seq s ≠ .ok out := by
  intro out h
  obtain ⟨s'', sci'', _, hseq', hsci', _⟩ := handleInsertStmt_sharded t seq s out hk h
  rw [hseq] at hseq'
  simp only [R.ok.injEq] at hseq'
  subst hseq'
  rw [hsci] at hsci'
  simp at hsci'

/-- a VALUES row with another number of values than the column list has
    (it could not be stored by any backend) makes the statement rejected -/
theorem insert_reject_ragged (t : TableRule) (seq : Option Seq) (s : Stmt)
    (hm : s.setMode = false) (hbad : ∃ row ∈ s.rows, row.length ≠ s.cols.length) :
    ∀ out, handleInsertStmt head t seq s ≠ .ok out := by
  intro out h
  unfold handleInsertStmt at h
  have : precheckInsertStmt head s ≠ .ok () := by
    unfold precheckInsertStmt
    simp only [hm, head_rows, Bool.false_eq_true, ↓reduceIte]
    split
    · simp
    · split
      · simp
      · split
        · rename_i hall
          obtain ⟨row, hr, hne⟩ := hbad
          have := List.all_eq_true.mp hall row hr
          simp at this
          exact absurd this.symm hne
        · simp
  split at h <;> try simp at h
  rename_i hp
  exact this hp

/-- **C03 (global tables).** An accepted insert into a global table produces,
    for every table index of the rule in order, exactly one statement: the
    whole statement (all rows), filed under the slice and database of that
    copy. -/
theorem insert_global (t : TableRule) (seq : Option Seq) (s : Stmt) (out : List (Target Out))
    (hk : t.layout.kind = .global) (h : handleInsertStmt head t seq s = .ok out) :
    ∃ s', handleInsertGlobalSequenceValue seq s = .ok s' ∧
      Forall₂ (fun i o => Stored t s' i s'.rows o) t.layout.idxs out := by
  unfold handleInsertStmt at h
  split at h <;> try simp at h
  split at h <;> try simp at h
  rename_i s' hseq
  simp only [hk, ↓reduceIte] at h
  exact ⟨s', hseq, shardingSQLs_spec t s' t.layout.idxs out h⟩

/-! ### Where lookups will find it (link to the routing model of C01) -/

theorem sorted_singleton_of_mem (l : List Int) (i : Int) (hs : Route.Sorted l) (h : ∀ a, a ∈ l ↔ a = i) : l = [i] := by
  match l, hs with
  | [], _ => exact absurd ((h i).mpr rfl) (by simp)
  | [a], _ => have := (h a).mp (by simp); subst this; rfl
  | a :: b :: rest, hs =>
    have ha := (h a).mp (by simp)
    have hb := (h b).mp (by simp)
    have hab : a < b := by
      have := List.pairwise_cons.mp hs
      exact this.1 b (by simp)
    omega

/-- a point query on a sharding value placed in table `i` is routed to exactly
    table `i` (`Route.routeStmt` is the model `route_sound` of C01 is about).
    `l.wide = false`: the planner asks the rule to place the literal of the
    query (since the repairs of C01 `getShardingCompareValue` routes a literal
    it does not place to every sub table, which contains table `i` as well). -/
theorem point_query_route (rr : Route.Rule) (l : Route.Lit) (i : Int) (hs : Route.Sorted rr.idxs)
    (hin : i ∈ rr.idxs) (hg : rr.isGlobal = false) (hp : l.place = some i) (hw : l.wide = false) :
    Route.routeStmt rr (some (.cmp true false .eq l)) = some [i] := by
  simp only [Route.routeStmt, Route.route, hg, hw, Bool.false_eq_true, ↓reduceIte, Route.findTableIndexes,
    Bool.not_true, hp, Option.map_some]
  congr 1
  apply sorted_singleton_of_mem
  · exact Route.interList_sorted _ _ hs (by simp [Route.Sorted])
  · intro a
    rw [Route.interList_mem _ _ hs (by simp [Route.Sorted])]
    simp only [List.mem_singleton]
    constructor
    · exact fun h => h.2
    · intro h; subst h; exact ⟨hin, rfl⟩

/-- **C03 (where lookups will find it).** For an accepted insert on a sharded
    table whose layout maps only listed tables to slices: every row of every
    produced statement has a sharding literal placed in some table `i`, the
    statement carrying the row is the statement of table `i`, and a point query
    `shardcol = literal` with the same placement, written with a literal the
    planner asks the rule to place (`wide = false`: an integer or a string the
    rule reads, as the inserted literal is), is routed to exactly `[i]`. -/
theorem insert_findable (t : TableRule) (seq : Option Seq) (s : Stmt) (out : List (Target Out))
    (rr : Route.Rule) (hk : t.layout.kind ≠ .global) (h : handleInsertStmt head t seq s = .ok out)
    (hidx : rr.idxs = t.layout.idxs) (hs : Route.Sorted rr.idxs) (hg : rr.isGlobal = false)
    (hlay : ∀ i, mapGet t.layout.t2s i ≠ none → i ∈ t.layout.idxs) :
    ∃ s' sci, handleInsertGlobalSequenceValue seq s = .ok s' ∧ lastIndex t.shardCol s'.cols = some sci ∧
      ∀ o ∈ out, ∀ row ∈ o.sql.rows, ∃ i, PlacedAt t.ruleType sci row i ∧ Stored t s' i o.sql.rows o ∧
        ∀ l : Route.Lit, l.place = some i → l.wide = false →
          Route.routeStmt rr (some (.cmp true false .eq l)) = some [i] := by
  cases hm : (match handleInsertGlobalSequenceValue seq s with | .ok s' => s'.setMode | _ => false) with
  | false =>
    obtain ⟨s', sci, hseq, hsci, hv⟩ := insert_partition t seq s out hk h
    refine ⟨s', sci, hseq, hsci, ?_⟩
    simp only [hseq] at hm
    obtain ⟨groups, hf, _, _, hpl⟩ := hv hm
    intro o ho row hrow
    obtain ⟨g, hg', hst⟩ := hf.exists_left o ho
    have hr : row ∈ g.2 := by rw [← hst.rows]; exact hrow
    refine ⟨g.1, (hpl g hg').2 row hr, by rw [hst.rows]; exact hst, ?_⟩
    intro l hl hw
    exact point_query_route rr l g.1 hs (by rw [hidx]; exact hlay _ hst.known) hg hl hw
  | true =>
    obtain ⟨s', sci, hseq, hsci, hv⟩ := insert_set_once t seq s out hk h
    refine ⟨s', sci, hseq, hsci, ?_⟩
    simp only [hseq] at hm
    obtain ⟨row, i, o', hrows, hout, hp, hi, hst⟩ := hv hm
    intro o ho r hr
    subst hout
    simp only [List.mem_singleton] at ho
    subst ho
    rw [hst.rows] at hr
    simp only [List.mem_singleton] at hr
    subst hr
    refine ⟨i, hp, by rw [hst.rows]; exact hst, ?_⟩
    intro l hl hw
    exact point_query_route rr l i hs (by rw [hidx]; exact hi) hg hl hw

/-! ### The global sequence only fills the sequence cells -/

/-- `r'` is `r`, or `r` with its sequence cell (which was `nextval()` or NULL)
    replaced by the integer literal of a sequence value, carrying the placement
    of that value -/
def SeqFilled (q : Seq) (si : Nat) (r r' : Row) : Prop :=
  r' = r ∨ ((r[si]? = some .nextval ∨ r[si]? = some .null) ∧
    ∃ k : Nat, r' = r.set si (.lit (toString (q.start + k)) (.int (q.start + k)) (q.places.getD k .err)))

theorem consRow_ok (row : Row) (x : R (List Row × Nat)) (rows' : List Row) (m : Nat)
    (h : consRow row x = .ok (rows', m)) : ∃ rs, x = .ok (rs, m) ∧ rows' = row :: rs := by
  unfold consRow at h
  split at h <;> simp at h
  obtain ⟨h1, h2⟩ := h
  subst h1; subst h2
  exact ⟨_, rfl, rfl⟩

theorem seqRows_spec (q : Seq) (si : Nat) (rows rows' : List Row) (n m : Nat)
    (h : seqRows q si rows n = .ok (rows', m)) : Forall₂ (SeqFilled q si) rows rows' := by
  induction rows generalizing n rows' with
  | nil => simp [seqRows] at h; rw [h.1]; exact .nil
  | cons row rest ih =>
    unfold seqRows at h
    cases hc : row[si]? with
    | none => simp [hc] at h
    | some c =>
      simp only [hc] at h
      by_cases hw : wantsSeq c = true
      · simp only [hw, ↓reduceIte] at h
        cases hn : nextSeq q n with
        | none => simp [hn] at h
        | some c' =>
          simp only [hn] at h
          obtain ⟨rs, hr, he⟩ := consRow_ok _ _ _ _ h
          subst he
          have hcc : row[si]? = some .nextval ∨ row[si]? = some .null := by
            cases c <;> simp [wantsSeq] at hw
            · exact Or.inr hc
            · exact Or.inl hc
          refine .cons (Or.inr ⟨hcc, n, ?_⟩) (ih rs (n + 1) hr)
          unfold nextSeq at hn
          split at hn <;> simp at hn
          subst hn
          rfl
      · simp only [hw, Bool.false_eq_true, ↓reduceIte] at h
        obtain ⟨rs, hr, he⟩ := consRow_ok _ _ _ _ h
        subst he
        exact .cons (Or.inl rfl) (ih rs n hr)

/-- **VALUES form with a global sequence**: the rows the planner goes on with
    are the statement's rows (extended by a `nextval()` cell when the sequence
    column is not listed) in the same order, each unchanged except that a
    `nextval()` / NULL sequence cell became a literal. -/
theorem sequence_fills_only_sequence_cells (q : Seq) (s s' : Stmt) (hm : s.setMode = false)
    (h : handleInsertGlobalSequenceValue (some q) s = .ok s') :
    (∃ si, firstIndex q.pk s.cols = some si ∧ s'.cols = s.cols ∧ Forall₂ (SeqFilled q si) s.rows s'.rows) ∨
    (firstIndex q.pk s.cols = none ∧ s'.cols = s.cols ++ [q.pk] ∧
      Forall₂ (SeqFilled q s.cols.length) (s.rows.map (· ++ [Cell.nextval])) s'.rows) := by
  unfold handleInsertGlobalSequenceValue at h
  simp only [hm, Bool.false_eq_true, ↓reduceIte] at h
  cases hf : firstIndex q.pk s.cols with
  | some i =>
    simp only [hf] at h
    split at h <;> try simp at h
    rename_i rows' m hr
    subst h
    exact Or.inl ⟨i, rfl, rfl, seqRows_spec q i _ _ _ _ hr⟩
  | none =>
    simp only [hf] at h
    split at h <;> try simp at h
    rename_i rows' m hr
    subst h
    exact Or.inr ⟨rfl, rfl, seqRows_spec q _ _ _ _ _ hr⟩

/-! ### Non-vacuity and the defects of the pinned tree -/

/-- hash rule with four tables on two slices -/
def exRule : TableRule :=
  { layout := { kind := .kingshard, db := "db_ks", slices := ["slice-0", "slice-1"], idxs := [0, 1, 2, 3],
                t2s := [(0, 0), (1, 0), (2, 1), (3, 1)], dbs := [] },
    shardCol := "k", ruleType := "hash" }

/-- `INSERT INTO t (k,a) VALUES (1,10),(6,NULL),(5,2+1)` with keys placed in tables 1, 2, 1 -/
def exStmt : Stmt :=
  { hasSelect := false, setMode := false, cols := ["k", "a"],
    rows := [[.lit "1" (.int 1) (.ok 1), .lit "10" (.int 10) .err], [.lit "6" (.int 6) (.ok 2), .null], [.lit "5" (.int 5) (.ok 1), .expr "2+1"]],
    onDup := [], schema := "", table := "t" }

def exOut1 : Target Out :=
  { slice := "slice-0", db := "db_ks",
    sql := { table := ["t_0001"], cols := ["k", "a"],
             rows := [[.lit "1" (.int 1) (.ok 1), .lit "10" (.int 10) .err], [.lit "5" (.int 5) (.ok 1), .expr "2+1"]] } }

def exOut2 : Target Out :=
  { slice := "slice-1", db := "db_ks",
    sql := { table := ["t_0002"], cols := ["k", "a"], rows := [[.lit "6" (.int 6) (.ok 2), .null]] } }

/-- the hypotheses of `insert_partition` / `insert_findable` are satisfiable: the
    statement is accepted and split over two tables -/
example : handleInsertStmt head exRule none exStmt = .ok [exOut1, exOut2] ∧ exRule.layout.kind ≠ .global := by
  decide

/-- `insert_set_once` is not vacuous: `INSERT INTO t SET k = 6, a = NULL` goes to table 2 only -/
def exSetStmt : Stmt := { exStmt with setMode := true, rows := [[.lit "6" (.int 6) (.ok 2), .null]] }

example : handleInsertStmt head exRule none exSetStmt = .ok [exOut2] := by
  have hi : Route.interList [0, 1, 2, 3] [2] = [2] := by simp [Route.interList]
  have h1 : handleInsertValues head exRule exSetStmt 0 = .ok [exOut2] := by
    simp only [handleInsertValues, exRule, exSetStmt, exStmt, ↓reduceIte, List.getElem?_cons_zero, hi]
    decide
  have h2 : precheckInsertStmt head exSetStmt = .ok () := by decide
  have h3 : exRule.layout.kind ≠ .global := by decide
  have h4 : handleInsertColumnNames exRule exSetStmt = .ok 0 := by decide
  have h5 : handleInsertOnDuplicate exRule exSetStmt = .ok () := by decide
  simp only [handleInsertStmt, h2, handleInsertGlobalSequenceValue, h3, ↓reduceIte, h4, h5]
  exact h1

/-- `insert_findable`: the remaining hypotheses hold for the example rule (its
    `tableToSlice` has exactly the listed tables, which are ascending) -/
example : (∀ i, mapGet exRule.layout.t2s i ≠ none → i ∈ exRule.layout.idxs) ∧ Route.Sorted exRule.layout.idxs := by
  constructor
  · intro i h
    simp only [exRule, mapGet] at h
    simp only [exRule, List.mem_cons, List.not_mem_nil, or_false]
    repeat' split at h
    all_goals first | omega | simp at h
  · simp [exRule, Route.Sorted]

/-- `INSERT INTO t (k,a) VALUES (1,1),(-5,2),(2+1,3)`: the probed statement -/
def exExprStmt : Stmt :=
  { exStmt with rows := [[.lit "1" (.int 1) (.ok 1), .lit "1" (.int 1) .err], [.expr "-5", .lit "2" (.int 2) .err], [.expr "2+1", .lit "3" (.int 3) .err]] }

/-- the repaired code rejects it (hypotheses of `insert_reject` satisfiable) -/
example : handleInsertStmt head exRule none exExprStmt = .fail ∧
    handleInsertGlobalSequenceValue none exExprStmt = .ok exExprStmt ∧
    lastIndex exRule.shardCol exExprStmt.cols = some 0 ∧ ¬ Routable "hash" 0 [.expr "-5", .lit "2" (.int 2) .err] := by
  refine ⟨by decide, by decide, by decide, ?_⟩
  rintro ⟨i, txt, val, h, _⟩
  simp at h

/-- what a plan stores where: per produced statement its slice, database,
    table name chain and rows (`none`: the statement was not accepted) -/
structure Seen where
  slice : String
  db : String
  table : Chain
  rows : List Row
  deriving DecidableEq, Repr

def observe : R (List (Target Out)) → Option (List Seen)
  | .ok out => some (out.map fun o => ⟨o.slice, o.db, o.sql.table, o.sql.rows⟩)
  | _ => none

/-- **Defect of the pinned tree (repaired by d687a71)**: before the fix the two
    rows with expression sharding values were silently dropped and the
    statement accepted with the first row only. -/
theorem pinned_drops_expression_rows_witness :
    observe (handleInsertStmt pinned exRule none exExprStmt) =
      some [⟨"slice-0", "db_ks", ["t_0001"], [[.lit "1" (.int 1) (.ok 1), .lit "1" (.int 1) .err]]⟩] ∧ exExprStmt.rows.length = 3 := by
  decide

/-- with only expression rows the pinned planner accepted the statement with an empty plan -/
theorem pinned_all_expression_rows_empty_plan_witness :
    handleInsertStmt pinned exRule none { exStmt with rows := [[.expr "-5", .null], [.expr "2+1", .null]] } = .ok [] := by
  decide

/-- hash rule with a single sub table -/
def exOne : TableRule :=
  { layout := { kind := .kingshard, db := "db_ks", slices := ["slice-1"], idxs := [0], t2s := [(0, 0)], dbs := [] },
    shardCol := "k", ruleType := "hash" }

/-- SET form, pinned: an expression sharding value was accepted on a rule with a
    single sub table (on the others it was rejected only by the statement/route
    count check) -/
theorem pinned_set_expression_accepted_witness :
    observe (handleInsertStmt pinned exOne none { exStmt with setMode := true, rows := [[.expr "-5", .lit "3" (.int 3) .err]] }) =
      some [⟨"slice-1", "db_ks", ["t_0000"], [[.expr "-5", .lit "3" (.int 3) .err]]⟩] ∧
    handleInsertStmt head exOne none { exStmt with setMode := true, rows := [[.expr "-5", .lit "3" (.int 3) .err]] } = .fail := by
  decide

/-- **Defect of the pinned tree (repaired by e8a3dcf)**: a later row shorter than
    the column list made the planner index past its end; a longer one was
    accepted and split off to its own table. -/
theorem pinned_ragged_rows_witness :
    handleInsertStmt pinned exRule none { exStmt with cols := ["a", "k"], rows := [[.null, .lit "1" (.int 1) (.ok 1)], [.null]] } = .panic ∧
    observe (handleInsertStmt pinned exRule none
        { exStmt with cols := ["a", "k"], rows := [[.null, .lit "1" (.int 1) (.ok 1)], [.null, .lit "3" (.int 3) (.ok 3), .null]] }) =
      some [⟨"slice-0", "db_ks", ["t_0001"], [[.null, .lit "1" (.int 1) (.ok 1)]]⟩,
            ⟨"slice-1", "db_ks", ["t_0003"], [[.null, .lit "3" (.int 3) (.ok 3), .null]]⟩] ∧
    handleInsertStmt head exRule none { exStmt with cols := ["a", "k"], rows := [[.null, .lit "1" (.int 1) (.ok 1)], [.null]] } = .fail := by
  decide

/-- global table with three copies; the sequence column `sid` is not listed -/
def exGlobal : TableRule :=
  { layout := { kind := .global, db := "db_mycat", slices := ["slice-2", "slice-0"], idxs := [0, 1, 2],
                t2s := [(0, 0), (1, 1), (2, 1)], dbs := ["db_mycat_0", "db_mycat_1", "db_mycat_2"] },
    shardCol := "" }

def exSeq : Seq := { pk := "sid", start := 100, failAt := none, places := [] }

/-- `insert_global` and `sequence_fills_only_sequence_cells` are not vacuous:
    every copy gets the three rows, each extended by its sequence value -/
example :
    observe (handleInsertStmt head exGlobal (some exSeq) { exStmt with schema := "db_mycat", rows := [[.lit "1" (.int 1) .err, .null]] }) =
      some [⟨"slice-2", "db_mycat_0", ["db_mycat_0", "t"], [[.lit "1" (.int 1) .err, .null, .lit "100" (.int 100) .err]]⟩,
            ⟨"slice-0", "db_mycat_1", ["db_mycat_1", "t"], [[.lit "1" (.int 1) .err, .null, .lit "100" (.int 100) .err]]⟩,
            ⟨"slice-0", "db_mycat_2", ["db_mycat_2", "t"], [[.lit "1" (.int 1) .err, .null, .lit "100" (.int 100) .err]]⟩] := by
  decide


/-! ### The table is the one of the value the backend holds (second round)

`insert_findable` says: a point query written with the *same literal* is routed
to the table the row is in.  The backend does not keep the literal, it keeps a
value: `'007'` in an integer column is 7, `7` in a string column is `'7'`, and
a later query is written with that value.  `StoredSound rt find`: whatever
literal the planner accepts for a rule of type `rt` whose `FindTableIndex` is
`find`, every other spelling of the stored value (`InsertStored.storedKeys`)
that `find` places at all is placed in the same table. -/

open GaeaVerif.ShardGo GaeaVerif.ShardPlace GaeaVerif.InsertStored GaeaVerif.ShardLemmas

def StoredSound (rt : String) (find : Key → Out Int) : Prop :=
  ∀ val i, LitVal.wf val → shardingValueOk head rt val = true → find (keyOf val) = .ok i →
    ∀ k ∈ storedKeys rt val, ∀ j, find k = .ok j → j = i

theorem storedKeys_mem (rt : String) (val : LitVal) (k : Key) (h : k ∈ storedKeys rt val) :
    (∃ v, val = .int v ∧ k = .str (fmtInt v)) ∨ (∃ v, val = .uint v ∧ k = .str (fmtNat v)) ∨
    (∃ s n, val = .str s ∧ mysqlInt s = some n ∧ intKey n = some k) := by
  unfold storedKeys at h
  split at h
  · simp at h
  · cases val with
    | int v => simp at h; exact Or.inl ⟨v, rfl, h⟩
    | uint v => simp at h; exact Or.inr (Or.inl ⟨v, rfl, h⟩)
    | str s =>
      simp only at h
      cases hm : mysqlInt s with
      | none => simp [hm] at h
      | some n => simp [hm] at h; exact Or.inr (Or.inr ⟨s, n, rfl, hm, h⟩)
    | other => simp at h

theorem intKey_some (n : Int) (k : Key) (h : intKey n = some k) :
    (k = .int64 n ∧ -2 ^ 63 ≤ n ∧ n < 2 ^ 63) ∨ (k = .uint64 n.toNat ∧ 2 ^ 63 ≤ n ∧ n < 2 ^ 64) := by
  unfold intKey at h
  split at h
  · simp at h; exact Or.inl ⟨h.symm, by assumption⟩
  · split at h
    · simp at h; exact Or.inr ⟨h.symm, by assumption⟩
    · simp at h

/-- **Rules that read the key as a number** (`NumValue`: range, mod, mycat_long,
    mycat_padding_mod, and the rules linked to them): the string literals they
    accept are exactly spellings `strconv.ParseInt` reads, MySQL reads the same
    integer from them, and an integer literal is the number of its digits. -/
theorem viaNum_stored_sound (rt : String) (f : Int → Out Int) : StoredSound rt (viaNum f) := by
  intro val i hwf _ hfind k hk j hj
  rcases storedKeys_mem rt val k hk with ⟨v, hv, hkv⟩ | ⟨v, hv, hkv⟩ | ⟨s, n, hv, hm, hkn⟩
  · subst hv; subst hkv
    simp only [LitVal.wf] at hwf
    have hp : parseInt64 (fmtInt v) = some v := parseInt64_fmtInt v ⟨by omega, hwf.2⟩
    simp only [viaNum, NumValue, hp, keyOf] at hj hfind
    rw [hfind] at hj; simpa using hj.symm
  · subst hv; subst hkv
    simp only [LitVal.wf] at hwf
    simp only [viaNum, NumValue, parseInt64_fmtNat, keyOf] at hj hfind
    by_cases hlt : v < 2 ^ 63
    · simp only [hlt, ↓reduceIte] at hj
      have : u64ToI64 v = (v : Int) := by unfold u64ToI64; exact wrap64_id _ ⟨by omega, by omega⟩
      rw [this, hj] at hfind; simpa using hfind
    · simp [hlt] at hj
  · subst hv
    simp only [viaNum, NumValue, keyOf] at hfind
    cases hp : parseInt64 s with
    | none => simp [hp] at hfind
    | some v =>
      have hm' := mysqlInt_of_parseInt64 s v hp
      rw [hm] at hm'
      simp only [Option.some.injEq] at hm'
      subst hm'
      have hr : -2 ^ 63 ≤ n ∧ n < 2 ^ 63 := by
        unfold parseInt64 at hp
        cases hb : parseBigDec s with
        | none => simp [hb] at hp
        | some w =>
          simp only [hb] at hp
          split at hp <;> simp at hp
          subst hp; assumption
      rcases intKey_some n k hkn with ⟨hk1, _⟩ | ⟨_, h2, _⟩
      · subst hk1
        simp only [hp] at hfind
        simp only [viaNum, NumValue] at hj
        rw [hfind] at hj; simpa using hj.symm
      · omega

/-- **mycat_mod** reads the key through `GetString` and `big.Int.SetString` -/
theorem viaBig_stored_sound (rt : String) (g : Int → Out Int) :
    StoredSound rt (viaStr fun s => match parseBigDec s with
      | none => .err .keyPanic
      | some n => g n) := by
  intro val i hwf _ hfind k hk j hj
  rcases storedKeys_mem rt val k hk with ⟨v, hv, hkv⟩ | ⟨v, hv, hkv⟩ | ⟨s, n, hv, hm, hkn⟩
  · subst hv; subst hkv
    simp only [viaStr, GetString, keyOf] at hj hfind
    rw [hfind] at hj; simpa using hj.symm
  · subst hv; subst hkv
    simp only [viaStr, GetString, keyOf] at hj hfind
    rw [hfind] at hj; simpa using hj.symm
  · subst hv
    simp only [viaStr, GetString, keyOf] at hfind
    cases hp : parseBigDec s with
    | none => simp [hp] at hfind
    | some v =>
      have hm' := mysqlInt_of_parseBigDec s v hp
      rw [hm] at hm'
      simp only [Option.some.injEq] at hm'
      subst hm'
      simp only [hp] at hfind
      rcases intKey_some n k hkn with ⟨hk1, _⟩ | ⟨hk1, h2, _⟩
      · subst hk1
        simp only [viaStr, GetString, parseBigDec_fmtInt] at hj
        rw [hfind] at hj; simpa using hj.symm
      · subst hk1
        have hn : ((n.toNat : Nat) : Int) = n := by omega
        simp only [viaStr, GetString, parseBigDec_fmtNat, hn] at hj
        rw [hfind] at hj; simpa using hj.symm

/-- **Rules that hash the text of the key** (`GetString`: mycat_murmur,
    mycat_string).  FULL STATEMENT, NOT TRUE:
      `∀ rt f, StoredSound rt (viaStr f)`
    (`mycat_string_numeric_text_witness` below: `'007'` and 7 are hashed as
    different texts; known finding `mycat-numeric-string-hashed-as-text`).
    Proved: an integer literal is placed where the string of its digits is,
    and so is a string literal that is the decimal spelling of the integer
    MySQL reads from it. -/
theorem viaStr_stored_sound_partial (rt : String) (f : GoStr → Out Int) :
    ∀ val i, LitVal.wf val → (∀ s n, val = .str s → mysqlInt s = some n → s = fmtInt n) →
      viaStr f (keyOf val) = .ok i → ∀ k ∈ storedKeys rt val, ∀ j, viaStr f k = .ok j → j = i := by
  intro val i _ hcanon hfind k hk j hj
  rcases storedKeys_mem rt val k hk with ⟨v, hv, hkv⟩ | ⟨v, hv, hkv⟩ | ⟨s, n, hv, hm, hkn⟩
  · subst hv; subst hkv
    simp only [viaStr, GetString, keyOf] at hj hfind
    rw [hfind] at hj; simpa using hj.symm
  · subst hv; subst hkv
    simp only [viaStr, GetString, keyOf] at hj hfind
    rw [hfind] at hj; simpa using hj.symm
  · have hs := hcanon s n hv hm
    subst hv
    simp only [viaStr, GetString, keyOf] at hfind
    rcases intKey_some n k hkn with ⟨hk1, _⟩ | ⟨hk1, h2, _⟩
    · subst hk1
      simp only [viaStr, GetString, ← hs] at hj
      rw [hfind] at hj; simpa using hj.symm
    · subst hk1
      have hn : fmtNat n.toNat = fmtInt n := by rw [fmtInt_nonneg n (by omega)]
      simp only [viaStr, GetString, hn, ← hs] at hj
      rw [hfind] at hj; simpa using hj.symm

/-- **The kingshard hash rule** after e5ce616: a string key the planner accepts
    is a string of digits `HashValue` reads as the number MySQL reads from it,
    or MySQL does not read an integer from it at all. -/
theorem ksHash_stored_sound (n : Nat) : StoredSound "hash" (HashShard.FindForKey n) := by
  intro val i hwf hok hfind k hk j hj
  rcases storedKeys_mem "hash" val k hk with ⟨v, hv, hkv⟩ | ⟨v, hv, hkv⟩ | ⟨s, m, hv, hm, hkn⟩
  · subst hv; subst hkv
    simp only [LitVal.wf] at hwf
    have hu : parseUint64 (fmtInt v) = some v.toNat := by
      rw [fmtInt_nonneg v hwf.1]; exact parseUint64_fmtNat _ (by omega)
    have hv' : (v % 2 ^ 64).toNat = v.toNat := by
      have : v % 2 ^ 64 = v := Int.emod_eq_of_lt hwf.1 (by omega)
      rw [this]
    simp only [HashShard.FindForKey, HashValue, hu, keyOf, hv'] at hj hfind
    rw [hfind] at hj; simpa using hj.symm
  · subst hv; subst hkv
    simp only [LitVal.wf] at hwf
    simp only [HashShard.FindForKey, HashValue, parseUint64_fmtNat v hwf, keyOf] at hj hfind
    rw [hfind] at hj; simpa using hj.symm
  · subst hv
    have hlook := looksLikeNumber_of_mysqlInt s m hm
    simp only [shardingValueOk, head_hashStr, bne_self_eq_false, Bool.false_or, hashStringOk, hlook,
      Bool.not_true, Bool.or_false] at hok
    cases hu : parseUint64 s with
    | none => simp [hu] at hok
    | some u =>
      obtain ⟨hud, hlt⟩ := parseUint64_some s u hu
      have hm' := mysqlInt_of_parseUDec s u hud
      rw [hm] at hm'
      simp only [Option.some.injEq] at hm'
      subst hm'
      simp only [HashShard.FindForKey, HashValue, hu, keyOf] at hfind
      rcases intKey_some _ k hkn with ⟨hk1, _, h3⟩ | ⟨hk1, _, _⟩
      · subst hk1
        have : ((u : Int) % 2 ^ 64).toNat = u := by
          have : (u : Int) % 2 ^ 64 = u := Int.emod_eq_of_lt (by omega) (by omega)
          rw [this]; simp
        simp only [HashShard.FindForKey, HashValue, this] at hj
        rw [hfind] at hj; simpa using hj.symm
      · subst hk1
        simp only [HashShard.FindForKey, HashValue, Int.toNat_natCast] at hj
        rw [hfind] at hj; simpa using hj.symm

/-- the rule models these theorems are about, as instances of `viaNum` / `viaStr` -/
theorem numRange_is_viaNum (shards : List (Int × Int)) :
    NumRangeShard.FindForKey shards = viaNum (findRange shards 0) := rfl
theorem mycatLong_is_viaNum (segment : List Int) :
    MycatPartitionLongShard.FindForKey segment = viaNum (fun h => arrGet segment (slotOf h)) := rfl
theorem ksMod_is_viaNum (n : Nat) :
    ModShard.FindForKey n = viaNum (fun v => if n = 0 then .panic else .ok (hackAbs (Int.tmod v n))) := rfl
theorem mycatMod_is_viaBig (shardNum : Int) :
    MycatPartitionModShard.FindForKey shardNum = viaStr fun s => match parseBigDec s with
      | none => .err .keyPanic
      | some n => if shardNum = 0 then .panic else .ok ((n.natAbs : Int) % shardNum) := by
  funext key
  unfold MycatPartitionModShard.FindForKey viaStr
  cases GetString key <;> rfl

theorem numRange_stored_sound (rt : String) (shards : List (Int × Int)) :
    StoredSound rt (NumRangeShard.FindForKey shards) := by
  rw [numRange_is_viaNum]; exact viaNum_stored_sound rt _
theorem mycatLong_stored_sound (rt : String) (segment : List Int) :
    StoredSound rt (MycatPartitionLongShard.FindForKey segment) := by
  rw [mycatLong_is_viaNum]; exact viaNum_stored_sound rt _
theorem ksMod_stored_sound (rt : String) (n : Nat) : StoredSound rt (ModShard.FindForKey n) := by
  rw [ksMod_is_viaNum]; exact viaNum_stored_sound rt _
theorem mycatMod_stored_sound (rt : String) (shardNum : Int) :
    StoredSound rt (MycatPartitionModShard.FindForKey shardNum) := by
  rw [mycatMod_is_viaBig]; exact viaBig_stored_sound rt _
/-- calendar rules: the type of the literal is taken as the type of the column -/
theorem date_stored_sound (rt : String) (hd : isDateRule rt = true) (find : Key → Out Int) : StoredSound rt find := by
  intro val i _ _ _ k hk
  simp [storedKeys, hd] at hk


/-! ### Through the planner: every stored row is where its stored value is looked for -/

/-- every literal of the rows that carries a table index is a value the parser
    can deliver, and the index is what the rule's `FindTableIndex` (`find`)
    gives for it -/
def Faithful (find : Key → Out Int) (rows : List Row) : Prop :=
  ∀ row ∈ rows, ∀ txt val i, Cell.lit txt val (.ok i) ∈ row → LitVal.wf val ∧ find (keyOf val) = .ok i

/-- the values of the sequence are integers the parser could deliver and the
    placements it carries are those of `find` -/
def SeqFaithful (find : Key → Out Int) (q : Seq) : Prop :=
  ∀ (k : Nat) i, q.places[k]? = some (.ok i) →
    (0 ≤ q.start + k ∧ q.start + k < 2 ^ 63) ∧ find (.int64 (q.start + k)) = .ok i

/-- **The generated sharding keys are placed by the rule too**: filling in the
    global-sequence values (VALUES form) keeps the rows faithful, so
    `insert_stored_value` speaks about the rows with generated keys as well. -/
theorem sequence_keeps_faithful (find : Key → Out Int) (q : Seq) (s s' : Stmt) (hm : s.setMode = false)
    (h : handleInsertGlobalSequenceValue (some q) s = .ok s') (hq : SeqFaithful find q)
    (hf : Faithful find s.rows) : Faithful find s'.rows := by
  have step : ∀ (si : Nat) (rows0 : List Row), Faithful find rows0 → Forall₂ (SeqFilled q si) rows0 s'.rows →
      Faithful find s'.rows := by
    intro si rows0 hf0 hall row' hrow' txt val i hmem
    obtain ⟨r, hr, hfill⟩ := hall.exists_left row' hrow'
    rcases hfill with he | ⟨_, k, he⟩
    · rw [he] at hmem; exact hf0 r hr txt val i hmem
    · rw [he] at hmem
      rcases List.mem_or_eq_of_mem_set hmem with hin | heq
      · exact hf0 r hr txt val i hin
      · simp only [Cell.lit.injEq] at heq
        obtain ⟨_, hv, hp⟩ := heq
        subst hv
        have hk : q.places[k]? = some (.ok i) := by
          rw [List.getD_eq_getElem?_getD] at hp
          cases hg : q.places[k]? with
          | none => simp [hg] at hp
          | some pl => simp [hg] at hp; rw [hp]
        obtain ⟨hr1, hr2⟩ := hq k i hk
        exact ⟨hr1, hr2⟩
  rcases sequence_fills_only_sequence_cells q s s' hm h with ⟨si, _, _, hall⟩ | ⟨_, _, hall⟩
  · exact step si s.rows hf hall
  · refine step _ _ ?_ hall
    intro row hrow txt val i hmem
    simp only [List.mem_map] at hrow
    obtain ⟨r, hr, he⟩ := hrow
    subst he
    simp only [List.mem_append, List.mem_singleton, reduceCtorEq, or_false] at hmem
    exact hf r hr txt val i hmem

/-- **C03 (the row is stored where its stored value is looked for).** For an
    accepted insert on a sharded table whose rule places keys by `find`, with
    `StoredSound` for the rule's type (proved above for range, mod, hash,
    mycat_mod, mycat_long and the calendar rules; for mycat_murmur /
    mycat_string see `viaStr_stored_sound_partial`): every row of every produced
    statement has a sharding literal which `find` places in table `i`, the
    statement is the statement of table `i`, and every other spelling of the
    value the backend holds for that literal (the digits of an integer literal
    as a string, the integer MySQL reads from a string literal) that `find`
    places at all is placed in table `i` too. -/
theorem insert_stored_value (t : TableRule) (seq : Option Seq) (s : Stmt) (out : List (Target Out))
    (find : Key → Out Int) (hk : t.layout.kind ≠ .global) (h : handleInsertStmt head t seq s = .ok out)
    (hsound : StoredSound t.ruleType find) :
    ∃ s' sci, handleInsertGlobalSequenceValue seq s = .ok s' ∧ lastIndex t.shardCol s'.cols = some sci ∧
      (Faithful find s'.rows →
        ∀ o ∈ out, ∀ row ∈ o.sql.rows, ∃ i txt val, row[sci]? = some (.lit txt val (.ok i)) ∧
          Stored t s' i o.sql.rows o ∧ find (keyOf val) = .ok i ∧
          ∀ k ∈ storedKeys t.ruleType val, ∀ j, find k = .ok j → j = i) := by
  have key : ∀ (s' : Stmt) (sci : Nat) (row : Row) (i : Int), Faithful find s'.rows → row ∈ s'.rows →
      PlacedAt t.ruleType sci row i → ∃ txt val, row[sci]? = some (.lit txt val (.ok i)) ∧ find (keyOf val) = .ok i ∧
        ∀ k ∈ storedKeys t.ruleType val, ∀ j, find k = .ok j → j = i := by
    intro s' sci row i hf hrow ⟨txt, val, hcell, hok⟩
    have hmem : Cell.lit txt val (.ok i) ∈ row := List.mem_of_getElem? hcell
    obtain ⟨hwf, hfind⟩ := hf row hrow txt val i hmem
    exact ⟨txt, val, hcell, hfind, hsound val i hwf hok hfind⟩
  cases hm : (match handleInsertGlobalSequenceValue seq s with | .ok s' => s'.setMode | _ => false) with
  | false =>
    obtain ⟨s', sci, hseq, hsci, hv⟩ := insert_partition t seq s out hk h
    refine ⟨s', sci, hseq, hsci, ?_⟩
    simp only [hseq] at hm
    obtain ⟨groups, hf2, hperm, _, hpl⟩ := hv hm
    intro hfaith o ho row hrow
    obtain ⟨g, hg', hst⟩ := hf2.exists_left o ho
    have hr : row ∈ g.2 := by rw [← hst.rows]; exact hrow
    have hrs : row ∈ s'.rows := by
      apply hperm.subset
      simp only [List.mem_flatMap]
      exact ⟨g, hg', hr⟩
    obtain ⟨txt, val, hc, hfd, hall⟩ := key s' sci row g.1 hfaith hrs ((hpl g hg').2 row hr)
    exact ⟨g.1, txt, val, hc, by rw [hst.rows]; exact hst, hfd, hall⟩
  | true =>
    obtain ⟨s', sci, hseq, hsci, hv⟩ := insert_set_once t seq s out hk h
    refine ⟨s', sci, hseq, hsci, ?_⟩
    simp only [hseq] at hm
    obtain ⟨row, i, o', hrows, hout, hp, _, hst⟩ := hv hm
    intro hfaith o ho r hr
    subst hout
    simp only [List.mem_singleton] at ho
    subst ho
    rw [hst.rows] at hr
    simp only [List.mem_singleton] at hr
    subst hr
    obtain ⟨txt, val, hc, hfd, hall⟩ := key s' sci r i hfaith (by rw [hrows]; simp) hp
    exact ⟨i, txt, val, hc, by rw [hst.rows]; exact hst, hfd, hall⟩

/-! ### Statements the planner cannot place are refused (second round) -/

/-- `INSERT … SELECT` (sharded or global table): the rows are not in the
    statement, the proxy cannot split them; refused -/
theorem insert_reject_select (t : TableRule) (seq : Option Seq) (s : Stmt) (hsel : s.hasSelect = true) :
    handleInsertStmt head t seq s = .fail := by
  simp [handleInsertStmt, precheckInsertStmt, hsel]

/-- `INSERT … VALUES` without a column list: the position of the sharding value is not known; refused -/
theorem insert_reject_no_column_list (t : TableRule) (seq : Option Seq) (s : Stmt)
    (hsel : s.setMode = false) (hcols : s.cols = []) : handleInsertStmt head t seq s = .fail := by
  unfold handleInsertStmt precheckInsertStmt
  cases hs : s.hasSelect <;> simp [hsel, hcols]

/-- **ON DUPLICATE KEY UPDATE must not move the row**: an assignment to the
    sharding column (however the column is written: the harness hands over
    `Column.Name.L`, so upper case, back quotes and qualifiers do not matter, and
    whatever the assigned expression is, `VALUES(col)` included) makes the
    statement refused. -/
theorem insert_reject_on_duplicate_sharding_column (t : TableRule) (seq : Option Seq) (s s' : Stmt)
    (hk : t.layout.kind ≠ .global) (hseq : handleInsertGlobalSequenceValue seq s = .ok s')
    (hdup : t.shardCol ∈ s'.onDup) : ∀ out, handleInsertStmt head t seq s ≠ .ok out := by
  intro out h
  unfold handleInsertStmt at h
  split at h <;> try simp at h
  simp only [hseq, hk, ↓reduceIte] at h
  split at h <;> try simp at h
  have hd : handleInsertOnDuplicate t s' = .fail := by
    unfold handleInsertOnDuplicate
    simp [hdup]
  rw [hd] at h
  simp at h

/-- a hexadecimal, bit, decimal or float literal as sharding value: refused (40aac80) -/
theorem insert_reject_literal_kind (t : TableRule) (seq : Option Seq) (s s' : Stmt) (sci : Nat)
    (hk : t.layout.kind ≠ .global)
    (hseq : handleInsertGlobalSequenceValue seq s = .ok s') (hsci : lastIndex t.shardCol s'.cols = some sci)
    (hbad : ∃ row ∈ s'.rows, ∃ txt pl, row[sci]? = some (.lit txt .other pl)) :
    ∀ out, handleInsertStmt head t seq s ≠ .ok out := by
  apply insert_reject t seq s s' sci hk hseq hsci
  obtain ⟨row, hr, txt, pl, hc⟩ := hbad
  refine ⟨row, hr, ?_⟩
  rintro ⟨i, txt', val, hc', hok⟩
  rw [hc] at hc'
  simp only [Option.some.injEq, Cell.lit.injEq] at hc'
  rw [← hc'.2.1] at hok
  simp [shardingValueOk] at hok

/-- on a hash rule a string sharding value that MySQL reads as a number while
    `HashValue` would hash its text: refused (e5ce616) -/
theorem insert_reject_hash_numeric_text (t : TableRule) (seq : Option Seq) (s s' : Stmt) (sci : Nat)
    (hk : t.layout.kind ≠ .global) (hrt : t.ruleType = "hash")
    (hseq : handleInsertGlobalSequenceValue seq s = .ok s') (hsci : lastIndex t.shardCol s'.cols = some sci)
    (hbad : ∃ row ∈ s'.rows, ∃ txt str pl, row[sci]? = some (.lit txt (.str str) pl) ∧
      looksLikeNumber str = true ∧ parseUint64 str = none) :
    ∀ out, handleInsertStmt head t seq s ≠ .ok out := by
  apply insert_reject t seq s s' sci hk hseq hsci
  obtain ⟨row, hr, txt, str, pl, hc, hl, hu⟩ := hbad
  refine ⟨row, hr, ?_⟩
  rintro ⟨i, txt', val, hc', hok⟩
  rw [hc] at hc'
  simp only [Option.some.injEq, Cell.lit.injEq] at hc'
  rw [← hc'.2.1, hrt] at hok
  simp [shardingValueOk, hashStringOk, hl, hu] at hok


/-! ### Non-vacuity and the defects repaired in the second round -/

/-- `'006'`, `7` and a string cell: faithful to the hash rule with four tables -/
def exStmt2 : Stmt :=
  { exStmt with rows := [[.lit "1" (.int 1) (.ok 1), .lit "'a'" (.str [97]) (.ok 3)],
                         [.lit "'006'" (.str [48, 48, 54]) (.ok 2), .null]] }

/-- the hypotheses of `insert_stored_value` are satisfiable, with a row whose
    key is written as a string MySQL reads as a number: `'006'` is in the table
    of 6 -/
example : (observe (handleInsertStmt head exRule none exStmt2)).isSome = true ∧ exRule.layout.kind ≠ .global ∧
    Faithful (HashShard.FindForKey 4) exStmt2.rows ∧
    storedKeys "hash" (.str [48, 48, 54]) = [.int64 6] ∧ HashShard.FindForKey 4 (.int64 6) = .ok 2 ∧
    storedKeys "hash" (.int 1) = [.str [49]] ∧ HashShard.FindForKey 4 (.str [49]) = .ok 1 := by
  refine ⟨by decide, by decide, ?_, by decide, by decide, by decide, by decide⟩
  intro row hrow txt val i hmem
  simp only [exStmt2, exStmt, List.mem_cons, List.not_mem_nil, or_false] at hrow
  rcases hrow with hrow | hrow <;> subst hrow <;>
    simp only [List.mem_cons, List.not_mem_nil, or_false, Cell.lit.injEq, reduceCtorEq, Place.ok.injEq] at hmem
  · rcases hmem with ⟨_, h2, h3⟩ | ⟨_, h2, h3⟩ <;> subst h2 <;> subst h3 <;> exact ⟨by simp [LitVal.wf], by decide⟩
  · obtain ⟨_, h2, h3⟩ := hmem
    subst h2; subst h3; exact ⟨by simp [LitVal.wf], by decide⟩

/-- the sharding key comes from the global sequence: `INSERT INTO t (a) VALUES (1),(2)` with the
    sequence on `k` starting at 6 is stored in tables 2 and 3, where 6 and 7 are looked for -/
def exKeySeq : Seq := { pk := "k", start := 6, failAt := none, places := [.ok 2, .ok 3] }

example : SeqFaithful (HashShard.FindForKey 4) exKeySeq ∧
    observe (handleInsertStmt head exRule (some exKeySeq)
        { exStmt with cols := ["a"], rows := [[.lit "1" (.int 1) (.ok 1)], [.lit "2" (.int 2) (.ok 2)]] }) =
      some [⟨"slice-1", "db_ks", ["t_0002"], [[.lit "1" (.int 1) (.ok 1), .lit "6" (.int 6) (.ok 2)]]⟩,
            ⟨"slice-1", "db_ks", ["t_0003"], [[.lit "2" (.int 2) (.ok 2), .lit "7" (.int 7) (.ok 3)]]⟩] := by
  refine ⟨?_, by decide⟩
  intro k i h
  match k with
  | 0 => simp [exKeySeq] at h; subst h; exact ⟨by simp [exKeySeq], by decide⟩
  | 1 => simp [exKeySeq] at h; subst h; exact ⟨by simp [exKeySeq], by decide⟩
  | n + 2 => simp [exKeySeq] at h

/-- **Defect of the pinned tree (repaired by 40aac80)**: the hexadecimal literal
    `0x10` was placed by the string "x'10'" (table 3 of 4) while the column
    holds 16, which the rule places in table 0; the planner accepted the row
    for table 3.  It is refused now. -/
theorem pinned_literal_placed_by_sql_text_witness :
    HashShard.FindForKey 4 (.str [120, 39, 49, 48, 39]) = .ok 3 ∧ HashShard.FindForKey 4 (.int64 16) = .ok 0 ∧
    observe (handleInsertStmt { lits := true } exRule none
        { exStmt with rows := [[.lit "x'10'" .other (.ok 3), .null]] }) =
      some [⟨"slice-1", "db_ks", ["t_0003"], [[.lit "x'10'" .other (.ok 3), .null]]⟩] ∧
    handleInsertStmt head exRule none { exStmt with rows := [[.lit "x'10'" .other (.ok 3), .null]] } = .fail := by
  decide

/-- **Defect of the pinned tree (repaired by e5ce616)**: on a hash rule `' 7'`
    was placed by the CRC32 of its text (table 2 of 4); MySQL reads the number
    7 from it, which the rule places in table 3.  It is refused now, while
    `'007'` goes with 7. -/
theorem pinned_hash_numeric_text_witness :
    HashShard.FindForKey 4 (.str [32, 55]) = .ok 2 ∧ storedKeys "hash" (.str [32, 55]) = [.int64 7] ∧
    HashShard.FindForKey 4 (.int64 7) = .ok 3 ∧ HashShard.FindForKey 4 (.str [48, 48, 55]) = .ok 3 ∧
    observe (handleInsertStmt { hashStr := true } exRule none
        { exStmt with rows := [[.lit "' 7'" (.str [32, 55]) (.ok 2), .null]] }) =
      some [⟨"slice-1", "db_ks", ["t_0002"], [[.lit "' 7'" (.str [32, 55]) (.ok 2), .null]]⟩] ∧
    handleInsertStmt head exRule none { exStmt with rows := [[.lit "' 7'" (.str [32, 55]) (.ok 2), .null]] } = .fail ∧
    shardingValueOk head "hash" (.str [48, 48, 55]) = true := by
  decide

/-- two partitions of 512 slots -/
def exSegment : List Int := List.replicate 512 0 ++ List.replicate 512 1

set_option maxRecDepth 10000 in
/-- **Known finding `mycat-numeric-string-hashed-as-text` (not repaired)**:
    mycat_string (here: hash of the whole key, two partitions) and mycat_murmur
    (seed 0, a ring of two nodes) place the string `'007'` and the number 7,
    which an integer column holds for it, in different tables; the planner
    accepts the string. -/
theorem mycat_string_numeric_text_witness :
    MycatPartitionStringShard.FindForKey exSegment 0 0 (.str [48, 48, 55]) = .ok 1 ∧
    MycatPartitionStringShard.FindForKey exSegment 0 0 (.int64 7) = .ok 0 ∧
    MycatPartitionMurmurHashShard.FindForKey 0 [(0, 0), (1000000000, 1)] (.str [48, 48, 55]) = .ok 1 ∧
    MycatPartitionMurmurHashShard.FindForKey 0 [(0, 0), (1000000000, 1)] (.int64 7) = .ok 0 ∧
    storedKeys "mycat_string" (.str [48, 48, 55]) = [.int64 7] ∧
    shardingValueOk head "mycat_string" (.str [48, 48, 55]) = true := by
  decide

/-- `insert_reject_on_duplicate_sharding_column`, `insert_reject_select`,
    `insert_reject_literal_kind`, `insert_reject_hash_numeric_text`: the
    hypotheses are satisfiable -/
example : handleInsertStmt head exRule none { exStmt with onDup := ["a", "k"] } = .fail ∧
    handleInsertStmt head exRule none { exStmt with hasSelect := true, rows := [] } = .fail ∧
    handleInsertStmt head exRule none { exStmt with cols := [] } = .fail ∧
    looksLikeNumber [32, 55] = true ∧ parseUint64 [32, 55] = none ∧ exRule.ruleType = "hash" := by
  decide

end GaeaVerif.C03
