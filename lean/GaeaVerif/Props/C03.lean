import GaeaVerif.Model.InsertPlan
import GaeaVerif.Lemmas.RouteLists
import GaeaVerif.Lemmas.ShardLayoutLemmas
/-
  C03 — Every inserted row is stored once, where lookups will find it.
  Theorems about `Model/InsertPlan.lean` (+ `Model/ShardLayout.lean`); the tie to
  proxy/plan is `gvh run C03`.
-/
namespace GaeaVerif.C03
open GaeaVerif GaeaVerif.Layout GaeaVerif.Insert

/-- the sharding cell of the row is a literal which the rule places in table `i` -/
def PlacedAt (sci : Nat) (row : Row) (i : Int) : Prop := ∃ txt, row[sci]? = some (.lit txt (.ok i))

/-- the sharding value of the row can be routed -/
def Routable (sci : Nat) (row : Row) : Prop := ∃ i, PlacedAt sci row i

/-! ### `addRow` / `splitRows`: the batch split of `handleInsertValues` -/

theorem addRow_keys (i : Int) (row : Row) (acc : List (Int × List Row)) :
    (addRow i row acc).map (·.1) = if i ∈ acc.map (·.1) then acc.map (·.1) else acc.map (·.1) ++ [i] := by
  induction acc with
  | nil => simp [addRow]
  | cons g rest ih =>
    obtain ⟨j, rs⟩ := g
    simp only [addRow]
    by_cases hji : j = i
    · simp [hji]
    · simp only [hji, ↓reduceIte, List.map_cons, ih, List.mem_cons]
      have : ¬ i = j := fun h => hji h.symm
      by_cases hm : i ∈ rest.map (·.1)
      · simp [hm]
      · simp [hm, this]

theorem addRow_perm (i : Int) (row : Row) (acc : List (Int × List Row)) :
    ((addRow i row acc).flatMap (·.2)).Perm (row :: acc.flatMap (·.2)) := by
  induction acc with
  | nil => simp [addRow]
  | cons g rest ih =>
    obtain ⟨j, rs⟩ := g
    simp only [addRow]
    by_cases hji : j = i
    · simp only [hji, ↓reduceIte, List.flatMap_cons, List.append_assoc]
      have : (rs ++ ([row] ++ rest.flatMap (·.2))).Perm (rs ++ (row :: rest.flatMap (·.2))) := by simp
      refine this.trans ?_
      exact List.perm_middle
    · simp only [hji, ↓reduceIte, List.flatMap_cons]
      refine (List.Perm.append_left rs ih).trans ?_
      exact List.perm_middle

/-- invariant of the accumulator of `handleInsertValues` -/
structure GroupsOK (sci : Nat) (acc : List (Int × List Row)) : Prop where
  nodup : (acc.map (·.1)).Nodup
  placed : ∀ g ∈ acc, ∀ row ∈ g.2, PlacedAt sci row g.1
  nonempty : ∀ g ∈ acc, g.2 ≠ []

theorem addRow_mem (i : Int) (row : Row) (acc : List (Int × List Row)) (g : Int × List Row)
    (h : g ∈ addRow i row acc) :
    (g ∈ acc) ∨ (g.1 = i ∧ ∃ rs, g.2 = rs ++ [row] ∧ (rs = [] ∨ (i, rs) ∈ acc)) := by
  induction acc with
  | nil => simp [addRow] at h; subst h; exact Or.inr ⟨rfl, [], rfl, Or.inl rfl⟩
  | cons g' rest ih =>
    obtain ⟨j, rs⟩ := g'
    simp only [addRow] at h
    by_cases hji : j = i
    · simp only [hji, ↓reduceIte, List.mem_cons] at h
      rcases h with h | h
      · subst h; exact Or.inr ⟨rfl, rs, rfl, Or.inr (by simp [hji])⟩
      · exact Or.inl (by simp [h])
    · simp only [hji, ↓reduceIte, List.mem_cons] at h
      rcases h with h | h
      · exact Or.inl (by simp [h])
      · rcases ih h with h' | ⟨h1, rs', h2, h3⟩
        · exact Or.inl (by simp [h'])
        · refine Or.inr ⟨h1, rs', h2, ?_⟩
          rcases h3 with h3 | h3
          · exact Or.inl h3
          · exact Or.inr (by simp [h3])

theorem addRow_ok (sci : Nat) (i : Int) (row : Row) (acc : List (Int × List Row))
    (hacc : GroupsOK sci acc) (hrow : PlacedAt sci row i) : GroupsOK sci (addRow i row acc) := by
  refine ⟨?_, ?_, ?_⟩
  · rw [addRow_keys]
    split
    · exact hacc.nodup
    · rename_i hni
      exact List.nodup_append.mpr ⟨hacc.nodup, by simp, by
        intro a ha b hb; simp at hb; subst hb; intro hab; subst hab; exact hni ha⟩
  · intro g hg r hr
    rcases addRow_mem i row acc g hg with h | ⟨h1, rs, h2, h3⟩
    · exact hacc.placed g h r hr
    · rw [h2] at hr
      rw [h1]
      simp only [List.mem_append, List.mem_singleton] at hr
      rcases hr with hr | hr
      · rcases h3 with h3 | h3
        · subst h3; simp at hr
        · exact hacc.placed (i, rs) h3 r hr
      · subst hr; exact hrow
  · intro g hg
    rcases addRow_mem i row acc g hg with h | ⟨_, rs, h2, _⟩
    · exact hacc.nonempty g h
    · rw [h2]; simp

/-- what an accepted batch split guarantees, for any accumulator -/
theorem splitRows_inv (sci : Nat) (rows : List Row) (acc groups : List (Int × List Row))
    (hacc : GroupsOK sci acc) (h : splitRows false sci rows acc = .ok groups) :
    GroupsOK sci groups ∧ (groups.flatMap (·.2)).Perm (acc.flatMap (·.2) ++ rows) ∧
      ∀ row ∈ rows, Routable sci row := by
  induction rows generalizing acc with
  | nil =>
    simp only [splitRows, R.ok.injEq] at h
    subst h
    exact ⟨hacc, by simp, by simp⟩
  | cons row rest ih =>
    simp only [splitRows] at h
    split at h
    · simp at h
    · rename_i txt i hcell
      have hp : PlacedAt sci row i := ⟨txt, hcell⟩
      obtain ⟨h1, h2, h3⟩ := ih (addRow i row acc) (addRow_ok sci i row acc hacc hp) h
      refine ⟨h1, ?_, ?_⟩
      · refine h2.trans ?_
        refine (List.Perm.append_right rest (addRow_perm i row acc)).trans ?_
        simp only [List.cons_append]
        exact List.perm_middle.symm
      · intro r hr
        simp only [List.mem_cons] at hr
        rcases hr with hr | hr
        · subst hr; exact ⟨i, hp⟩
        · exact h3 r hr
    all_goals simp at h

/-- **Batch split (the VALUES form).** If `handleInsertValues` accepts the rows,
    the per-table row lists together are a permutation of the statement's rows
    (nothing lost, nothing duplicated), no table index occurs twice, every list
    is non-empty and every row sits under the index its sharding literal is
    placed in. -/
theorem splitRows_partition (sci : Nat) (rows : List Row) (groups : List (Int × List Row))
    (h : splitRows false sci rows [] = .ok groups) :
    (groups.flatMap (·.2)).Perm rows ∧ (groups.map (·.1)).Nodup ∧
      (∀ g ∈ groups, g.2 ≠ [] ∧ ∀ row ∈ g.2, PlacedAt sci row g.1) := by
  have hnil : GroupsOK sci [] := ⟨by simp, by simp, by simp⟩
  obtain ⟨h1, h2, _⟩ := splitRows_inv sci rows [] groups hnil h
  exact ⟨by simpa using h2, h1.nodup, fun g hg => ⟨h1.nonempty g hg, h1.placed g hg⟩⟩

/-- a row whose sharding value cannot be routed makes the split fail (or panic) -/
theorem splitRows_reject (sci : Nat) (rows : List Row) (acc : List (Int × List Row))
    (hbad : ∃ row ∈ rows, ¬ Routable sci row) : ∀ groups, splitRows false sci rows acc ≠ .ok groups := by
  intro groups h
  induction rows generalizing acc with
  | nil => simp at hbad
  | cons row rest ih =>
    simp only [splitRows] at h
    split at h
    · simp at h
    · rename_i txt i hcell
      obtain ⟨r, hr, hnr⟩ := hbad
      simp only [List.mem_cons] at hr
      rcases hr with hr | hr
      · subst hr; exact hnr ⟨i, txt, hcell⟩
      · exact ih (addRow i row acc) ⟨r, hr, hnr⟩ h
    all_goals simp at h

/-! ### From the route result to the per-table statements -/

/-- entry `o` of the plan's SQL map is the statement for table index `i` of the
    rule, carrying exactly `rows`: it is filed under the slice and database of
    table `i`, names the table as the rule names table `i`, and keeps the
    column list. -/
structure Stored (t : TableRule) (s : Stmt) (i : Int) (rows : List Row) (o : Target Out) : Prop where
  target : targetOf t.layout i o.sql = .ok o
  table : restoreTableName t.layout s.schema s.table "" i = .ok [o.sql.table]
  rows : o.sql.rows = rows
  cols : o.sql.cols = s.cols
  /-- `i` is one of the tables the rule maps to a slice -/
  known : mapGet t.layout.t2s i ≠ none

theorem restoreInsert_spec (t : TableRule) (s : Stmt) (rows : List Row) (i : Int) (o : Out)
    (h : restoreInsert t s rows i = .ok o) :
    restoreTableName t.layout s.schema s.table "" i = .ok [o.table] ∧ o.rows = rows ∧ o.cols = s.cols := by
  unfold restoreInsert at h
  split at h
  · rename_i c cs heq
    simp only [R.ok.injEq] at h
    subst h
    refine ⟨?_, rfl, rfl⟩
    unfold restoreTableName at heq ⊢
    split at heq <;> simp at heq
    rename_i sc hsc
    obtain ⟨h1, h2⟩ := heq
    subst h1; subst h2
    simp
  all_goals simp at h

theorem stored_of (t : TableRule) (s : Stmt) (rows : List Row) (i : Int) (sql : Out) (o : Target Out)
    (h1 : restoreInsert t s rows i = .ok sql) (h2 : targetOf t.layout i sql = .ok o) : Stored t s i rows o := by
  obtain ⟨e, hk⟩ := targetOf_sql _ _ _ _ h2
  obtain ⟨a, b, c⟩ := restoreInsert_spec t s rows i sql h1
  subst e
  exact ⟨h2, a, b, c, hk⟩

theorem multiLoop_spec (t : TableRule) (s : Stmt) (groups : List (Int × List Row)) (out : List (Target Out))
    (h : multiLoop t.layout (restoreInsert t s) (groups.map (·.2)) (groups.map (·.1)) = .ok out) :
    Forall₂ (fun g o => Stored t s g.1 g.2 o) groups out := by
  induction groups generalizing out with
  | nil => simp [multiLoop] at h; subst h; exact .nil
  | cons g rest ih =>
    simp only [List.map_cons, multiLoop] at h
    split at h
    · rename_i sql hs
      split at h
      · rename_i o ho
        split at h
        · rename_i ts hts
          simp only [R.ok.injEq] at h
          subst h
          exact .cons (stored_of t s g.2 g.1 sql o hs ho) (ih ts hts)
        all_goals simp at h
      all_goals simp at h
    all_goals simp at h

theorem shardingSQLs_spec (t : TableRule) (s : Stmt) (idxs : List Int) (out : List (Target Out))
    (h : generateShardingSQLs t.layout (restoreInsert t s s.rows) idxs = .ok out) :
    Forall₂ (fun i o => Stored t s i s.rows o) idxs out := by
  induction idxs generalizing out with
  | nil => simp [generateShardingSQLs] at h; subst h; exact .nil
  | cons i rest ih =>
    simp only [generateShardingSQLs] at h
    split at h
    · rename_i sql hs
      split at h
      · rename_i o ho
        split at h
        · rename_i ts hts
          simp only [R.ok.injEq] at h
          subst h
          exact .cons (stored_of t s s.rows i sql o hs ho) (ih ts hts)
        all_goals simp at h
      all_goals simp at h
    all_goals simp at h

/-- what `HandleInsertStmt` does before the rows are looked at -/
theorem handleInsertStmt_sharded (t : TableRule) (seq : Option Seq) (s : Stmt) (out : List (Target Out))
    (hk : t.layout.kind ≠ .global) (h : handleInsertStmt false t seq s = .ok out) :
    ∃ s' sci, precheckInsertStmt false s = .ok () ∧ handleInsertGlobalSequenceValue seq s = .ok s' ∧
      lastIndex t.shardCol s'.cols = some sci ∧ handleInsertValues false t s' sci = .ok out := by
  unfold handleInsertStmt at h
  split at h <;> try simp at h
  rename_i hpre
  split at h <;> try simp at h
  rename_i s' hseq
  simp only [hk, ↓reduceIte] at h
  split at h <;> try simp at h
  rename_i sci hsci
  split at h <;> try simp at h
  refine ⟨s', sci, hpre, hseq, ?_, h⟩
  unfold handleInsertColumnNames at hsci
  split at hsci <;> simp at hsci
  subst hsci
  assumption

/-- **C03 (VALUES form: every row exactly once, in its own table).** If the
    planner accepts `INSERT/REPLACE … VALUES` on a sharded table, then the
    statements it produces are, one per distinct table index, the statement for
    that physical table (`Stored`), the rows they carry are together a
    permutation of the statement's rows (after the global-sequence values were
    filled in), and every row is carried by the statement of the table its
    sharding literal is placed in by `FindTableIndex`.  In particular every
    row's sharding value was routable. -/
theorem insert_partition (t : TableRule) (seq : Option Seq) (s : Stmt) (out : List (Target Out))
    (hk : t.layout.kind ≠ .global) (h : handleInsertStmt false t seq s = .ok out) :
    ∃ s' sci, handleInsertGlobalSequenceValue seq s = .ok s' ∧ lastIndex t.shardCol s'.cols = some sci ∧
      (s'.setMode = false →
        ∃ groups : List (Int × List Row),
          Forall₂ (fun g o => Stored t s' g.1 g.2 o) groups out ∧
          (groups.flatMap (·.2)).Perm s'.rows ∧
          (groups.map (·.1)).Nodup ∧
          (∀ g ∈ groups, g.2 ≠ [] ∧ ∀ row ∈ g.2, PlacedAt sci row g.1)) := by
  obtain ⟨s', sci, _, hseq, hsci, hv⟩ := handleInsertStmt_sharded t seq s out hk h
  refine ⟨s', sci, hseq, hsci, ?_⟩
  intro hm
  unfold handleInsertValues at hv
  simp only [hm, Bool.false_eq_true, ↓reduceIte] at hv
  split at hv <;> try simp at hv
  rename_i groups hg
  unfold generateMultiShardingSQLs at hv
  split at hv
  · simp at hv
  · obtain ⟨p1, p2, p3⟩ := splitRows_partition sci s'.rows groups hg
    exact ⟨groups, multiLoop_spec t s' groups out hv, p1, p2, p3⟩

/-- **C03 (SET form).** An accepted `INSERT … SET` on a sharded table produces
    exactly one statement: the one for the table its sharding literal is placed
    in, which is one of the rule's tables. -/
theorem insert_set_once (t : TableRule) (seq : Option Seq) (s : Stmt) (out : List (Target Out))
    (hk : t.layout.kind ≠ .global) (h : handleInsertStmt false t seq s = .ok out) :
    ∃ s' sci, handleInsertGlobalSequenceValue seq s = .ok s' ∧ lastIndex t.shardCol s'.cols = some sci ∧
      (s'.setMode = true →
        ∃ row i o, s'.rows = [row] ∧ out = [o] ∧ PlacedAt sci row i ∧ i ∈ t.layout.idxs ∧ Stored t s' i [row] o) := by
  obtain ⟨s', sci, _, hseq, hsci, hv⟩ := handleInsertStmt_sharded t seq s out hk h
  refine ⟨s', sci, hseq, hsci, ?_⟩
  intro hm
  unfold handleInsertValues at hv
  simp only [hm, ↓reduceIte] at hv
  split at hv <;> try simp at hv
  rename_i row hrows
  split at hv <;> try simp at hv
  rename_i txt i hcell
  unfold generateMultiShardingSQLs at hv
  split at hv
  · simp at hv
  · rename_i hlen
    simp only [List.length_cons, List.length_nil, Nat.zero_add, ne_eq, Decidable.not_not] at hlen
    match hi : Route.interList t.layout.idxs [i], hlen with
    | [a], _ =>
      rw [hi] at hv
      have hspec := multiLoop_spec t s' [(a, [row])] out (by simpa using hv)
      have ha : a ∈ Route.interList t.layout.idxs [i] := by rw [hi]; simp
      obtain ⟨ha1, ha2⟩ := Route.interList_mem_left _ _ _ ha
      simp only [List.mem_singleton] at ha2
      subst ha2
      cases hspec with
      | cons hst hrest =>
        cases hrest
        exact ⟨row, a, _, hrows, rfl, ⟨txt, hcell⟩, ha1, hst⟩

/-- **C03 (rejection).** If, after the global-sequence values were filled in,
    some row's sharding value is not a literal that `FindTableIndex` places
    (NULL, a signed number, arithmetic, a function call, a column, a key the
    rule reports an error or panics for, or a row too short to have one), the
    statement is not accepted: no statement is produced for any table. -/
theorem insert_reject (t : TableRule) (seq : Option Seq) (s s' : Stmt) (sci : Nat)
    (hk : t.layout.kind ≠ .global)
    (hseq : handleInsertGlobalSequenceValue seq s = .ok s') (hsci : lastIndex t.shardCol s'.cols = some sci)
    (hbad : ∃ row ∈ s'.rows, ¬ Routable sci row) :
    ∀ out, handleInsertStmt false t seq s ≠ .ok out := by
  intro out h
  obtain ⟨s'', sci'', _, hseq', hsci', hv⟩ := handleInsertStmt_sharded t seq s out hk h
  rw [hseq] at hseq'
  simp only [R.ok.injEq] at hseq'
  subst hseq'
  rw [hsci] at hsci'
  simp only [Option.some.injEq] at hsci'
  subst hsci'
  unfold handleInsertValues at hv
  split at hv
  · split at hv <;> try simp at hv
    rename_i row hrows
    obtain ⟨r, hr, hnr⟩ := hbad
    rw [hrows] at hr
    simp only [List.mem_singleton] at hr
    subst hr
    split at hv <;> try simp at hv
    rename_i txt i hcell
    exact hnr ⟨i, txt, hcell⟩
  · split at hv <;> try simp at hv
    rename_i groups hg
    exact splitRows_reject sci s'.rows [] hbad groups hg

/-- a statement that does not name the sharding column is rejected -/
theorem insert_reject_no_sharding_column (t : TableRule) (seq : Option Seq) (s s' : Stmt)
    (hk : t.layout.kind ≠ .global)
    (hseq : handleInsertGlobalSequenceValue seq s = .ok s') (hsci : lastIndex t.shardCol s'.cols = none) :
    ∀ out, handleInsertStmt false t seq s ≠ .ok out := by
  intro out h
  obtain ⟨s'', sci'', _, hseq', hsci', _⟩ := handleInsertStmt_sharded t seq s out hk h
  rw [hseq] at hseq'
  simp only [R.ok.injEq] at hseq'
  subst hseq'
  rw [hsci] at hsci'
  simp at hsci'

/-- a VALUES row with another number of values than the column list has
    (it could not be stored by any backend) makes the statement rejected -/
theorem insert_reject_ragged (t : TableRule) (seq : Option Seq) (s : Stmt)
    (hm : s.setMode = false) (hbad : ∃ row ∈ s.rows, row.length ≠ s.cols.length) :
    ∀ out, handleInsertStmt false t seq s ≠ .ok out := by
  intro out h
  unfold handleInsertStmt at h
  have : precheckInsertStmt false s ≠ .ok () := by
    unfold precheckInsertStmt
    simp only [hm, Bool.false_eq_true, ↓reduceIte]
    split
    · simp
    · split
      · simp
      · split
        · rename_i hall
          obtain ⟨row, hr, hne⟩ := hbad
          have := List.all_eq_true.mp hall row hr
          simp at this
          exact absurd this.symm hne
        · simp
  split at h <;> try simp at h
  rename_i hp
  exact this hp

/-- **C03 (global tables).** An accepted insert into a global table produces,
    for every table index of the rule in order, exactly one statement: the
    whole statement (all rows), filed under the slice and database of that
    copy. -/
theorem insert_global (t : TableRule) (seq : Option Seq) (s : Stmt) (out : List (Target Out))
    (hk : t.layout.kind = .global) (h : handleInsertStmt false t seq s = .ok out) :
    ∃ s', handleInsertGlobalSequenceValue seq s = .ok s' ∧
      Forall₂ (fun i o => Stored t s' i s'.rows o) t.layout.idxs out := by
  unfold handleInsertStmt at h
  split at h <;> try simp at h
  split at h <;> try simp at h
  rename_i s' hseq
  simp only [hk, ↓reduceIte] at h
  exact ⟨s', hseq, shardingSQLs_spec t s' t.layout.idxs out h⟩

/-! ### Where lookups will find it (link to the routing model of C01) -/

theorem sorted_singleton_of_mem (l : List Int) (i : Int) (hs : Route.Sorted l) (h : ∀ a, a ∈ l ↔ a = i) : l = [i] := by
  match l, hs with
  | [], _ => exact absurd ((h i).mpr rfl) (by simp)
  | [a], _ => have := (h a).mp (by simp); subst this; rfl
  | a :: b :: rest, hs =>
    have ha := (h a).mp (by simp)
    have hb := (h b).mp (by simp)
    have hab : a < b := by
      have := List.pairwise_cons.mp hs
      exact this.1 b (by simp)
    omega

/-- a point query on a sharding value placed in table `i` is routed to exactly
    table `i` (`Route.routeStmt` is the model `route_sound` of C01 is about) -/
theorem point_query_route (rr : Route.Rule) (l : Route.Lit) (i : Int) (hs : Route.Sorted rr.idxs)
    (hin : i ∈ rr.idxs) (hg : rr.isGlobal = false) (hp : l.place = some i) :
    Route.routeStmt rr (some (.cmp true false .eq l)) = some [i] := by
  simp only [Route.routeStmt, Route.route, hg, Bool.false_eq_true, ↓reduceIte, Route.findTableIndexes,
    Bool.not_true, hp, Option.map_some]
  congr 1
  apply sorted_singleton_of_mem
  · exact Route.interList_sorted _ _ hs (by simp [Route.Sorted])
  · intro a
    rw [Route.interList_mem _ _ hs (by simp [Route.Sorted])]
    simp only [List.mem_singleton]
    constructor
    · exact fun h => h.2
    · intro h; subst h; exact ⟨hin, rfl⟩

/-- **C03 (where lookups will find it).** For an accepted insert on a sharded
    table whose layout maps only listed tables to slices: every row of every
    produced statement has a sharding literal placed in some table `i`, the
    statement carrying the row is the statement of table `i`, and a point query
    `shardcol = literal` with the same placement is routed to exactly `[i]`. -/
theorem insert_findable (t : TableRule) (seq : Option Seq) (s : Stmt) (out : List (Target Out))
    (rr : Route.Rule) (hk : t.layout.kind ≠ .global) (h : handleInsertStmt false t seq s = .ok out)
    (hidx : rr.idxs = t.layout.idxs) (hs : Route.Sorted rr.idxs) (hg : rr.isGlobal = false)
    (hlay : ∀ i, mapGet t.layout.t2s i ≠ none → i ∈ t.layout.idxs) :
    ∃ s' sci, handleInsertGlobalSequenceValue seq s = .ok s' ∧ lastIndex t.shardCol s'.cols = some sci ∧
      ∀ o ∈ out, ∀ row ∈ o.sql.rows, ∃ i, PlacedAt sci row i ∧ Stored t s' i o.sql.rows o ∧
        ∀ l : Route.Lit, l.place = some i → Route.routeStmt rr (some (.cmp true false .eq l)) = some [i] := by
  cases hm : (match handleInsertGlobalSequenceValue seq s with | .ok s' => s'.setMode | _ => false) with
  | false =>
    obtain ⟨s', sci, hseq, hsci, hv⟩ := insert_partition t seq s out hk h
    refine ⟨s', sci, hseq, hsci, ?_⟩
    simp only [hseq] at hm
    obtain ⟨groups, hf, _, _, hpl⟩ := hv hm
    intro o ho row hrow
    obtain ⟨g, hg', hst⟩ := hf.exists_left o ho
    have hr : row ∈ g.2 := by rw [← hst.rows]; exact hrow
    refine ⟨g.1, (hpl g hg').2 row hr, by rw [hst.rows]; exact hst, ?_⟩
    intro l hl
    exact point_query_route rr l g.1 hs (by rw [hidx]; exact hlay _ hst.known) hg hl
  | true =>
    obtain ⟨s', sci, hseq, hsci, hv⟩ := insert_set_once t seq s out hk h
    refine ⟨s', sci, hseq, hsci, ?_⟩
    simp only [hseq] at hm
    obtain ⟨row, i, o', hrows, hout, hp, hi, hst⟩ := hv hm
    intro o ho r hr
    subst hout
    simp only [List.mem_singleton] at ho
    subst ho
    rw [hst.rows] at hr
    simp only [List.mem_singleton] at hr
    subst hr
    refine ⟨i, hp, by rw [hst.rows]; exact hst, ?_⟩
    intro l hl
    exact point_query_route rr l i hs (by rw [hidx]; exact hi) hg hl

/-! ### The global sequence only fills the sequence cells -/

/-- `r'` is `r`, or `r` with its sequence cell (which was `nextval()` or NULL)
    replaced by a literal -/
def SeqFilled (q : Seq) (si : Nat) (r r' : Row) : Prop :=
  r' = r ∨ ((r[si]? = some .nextval ∨ r[si]? = some .null) ∧
    ∃ k pl, r' = r.set si (.lit (toString (q.start + (k : Nat))) pl))

theorem consRow_ok (row : Row) (x : R (List Row × Nat)) (rows' : List Row) (m : Nat)
    (h : consRow row x = .ok (rows', m)) : ∃ rs, x = .ok (rs, m) ∧ rows' = row :: rs := by
  unfold consRow at h
  split at h <;> simp at h
  obtain ⟨h1, h2⟩ := h
  subst h1; subst h2
  exact ⟨_, rfl, rfl⟩

theorem seqRows_spec (q : Seq) (si : Nat) (rows rows' : List Row) (n m : Nat)
    (h : seqRows q si rows n = .ok (rows', m)) : Forall₂ (SeqFilled q si) rows rows' := by
  induction rows generalizing n rows' with
  | nil => simp [seqRows] at h; rw [h.1]; exact .nil
  | cons row rest ih =>
    unfold seqRows at h
    cases hc : row[si]? with
    | none => simp [hc] at h
    | some c =>
      simp only [hc] at h
      by_cases hw : wantsSeq c = true
      · simp only [hw, ↓reduceIte] at h
        cases hn : nextSeq q n with
        | none => simp [hn] at h
        | some c' =>
          simp only [hn] at h
          obtain ⟨rs, hr, he⟩ := consRow_ok _ _ _ _ h
          subst he
          have hcc : row[si]? = some .nextval ∨ row[si]? = some .null := by
            cases c <;> simp [wantsSeq] at hw
            · exact Or.inr hc
            · exact Or.inl hc
          refine .cons (Or.inr ⟨hcc, n, q.places.getD n .err, ?_⟩) (ih rs (n + 1) hr)
          unfold nextSeq at hn
          split at hn <;> simp at hn
          subst hn
          rfl
      · simp only [hw, Bool.false_eq_true, ↓reduceIte] at h
        obtain ⟨rs, hr, he⟩ := consRow_ok _ _ _ _ h
        subst he
        exact .cons (Or.inl rfl) (ih rs n hr)

/-- **VALUES form with a global sequence**: the rows the planner goes on with
    are the statement's rows (extended by a `nextval()` cell when the sequence
    column is not listed) in the same order, each unchanged except that a
    `nextval()` / NULL sequence cell became a literal. -/
theorem sequence_fills_only_sequence_cells (q : Seq) (s s' : Stmt) (hm : s.setMode = false)
    (h : handleInsertGlobalSequenceValue (some q) s = .ok s') :
    (∃ si, firstIndex q.pk s.cols = some si ∧ s'.cols = s.cols ∧ Forall₂ (SeqFilled q si) s.rows s'.rows) ∨
    (firstIndex q.pk s.cols = none ∧ s'.cols = s.cols ++ [q.pk] ∧
      Forall₂ (SeqFilled q s.cols.length) (s.rows.map (· ++ [Cell.nextval])) s'.rows) := by
  unfold handleInsertGlobalSequenceValue at h
  simp only [hm, Bool.false_eq_true, ↓reduceIte] at h
  cases hf : firstIndex q.pk s.cols with
  | some i =>
    simp only [hf] at h
    split at h <;> try simp at h
    rename_i rows' m hr
    subst h
    exact Or.inl ⟨i, rfl, rfl, seqRows_spec q i _ _ _ _ hr⟩
  | none =>
    simp only [hf] at h
    split at h <;> try simp at h
    rename_i rows' m hr
    subst h
    exact Or.inr ⟨rfl, rfl, seqRows_spec q _ _ _ _ _ hr⟩

/-! ### Non-vacuity and the defects of the pinned tree -/

/-- hash rule with four tables on two slices -/
def exRule : TableRule :=
  { layout := { kind := .kingshard, db := "db_ks", slices := ["slice-0", "slice-1"], idxs := [0, 1, 2, 3],
                t2s := [(0, 0), (1, 0), (2, 1), (3, 1)], dbs := [] },
    shardCol := "k" }

/-- `INSERT INTO t (k,a) VALUES (1,10),(6,NULL),(5,2+1)` with keys placed in tables 1, 2, 1 -/
def exStmt : Stmt :=
  { hasSelect := false, setMode := false, cols := ["k", "a"],
    rows := [[.lit "1" (.ok 1), .lit "10" .err], [.lit "6" (.ok 2), .null], [.lit "5" (.ok 1), .expr "2+1"]],
    onDup := [], schema := "", table := "t" }

def exOut1 : Target Out :=
  { slice := "slice-0", db := "db_ks",
    sql := { table := ["t_0001"], cols := ["k", "a"],
             rows := [[.lit "1" (.ok 1), .lit "10" .err], [.lit "5" (.ok 1), .expr "2+1"]] } }

def exOut2 : Target Out :=
  { slice := "slice-1", db := "db_ks",
    sql := { table := ["t_0002"], cols := ["k", "a"], rows := [[.lit "6" (.ok 2), .null]] } }

/-- the hypotheses of `insert_partition` / `insert_findable` are satisfiable: the
    statement is accepted and split over two tables -/
example : handleInsertStmt false exRule none exStmt = .ok [exOut1, exOut2] ∧ exRule.layout.kind ≠ .global := by
  decide

/-- `insert_set_once` is not vacuous: `INSERT INTO t SET k = 6, a = NULL` goes to table 2 only -/
def exSetStmt : Stmt := { exStmt with setMode := true, rows := [[.lit "6" (.ok 2), .null]] }

example : handleInsertStmt false exRule none exSetStmt = .ok [exOut2] := by
  have hi : Route.interList [0, 1, 2, 3] [2] = [2] := by simp [Route.interList]
  have h1 : handleInsertValues false exRule exSetStmt 0 = .ok [exOut2] := by
    simp only [handleInsertValues, exRule, exSetStmt, exStmt, ↓reduceIte, List.getElem?_cons_zero, hi]
    decide
  have h2 : precheckInsertStmt false exSetStmt = .ok () := by decide
  have h3 : exRule.layout.kind ≠ .global := by decide
  have h4 : handleInsertColumnNames exRule exSetStmt = .ok 0 := by decide
  have h5 : handleInsertOnDuplicate exRule exSetStmt = .ok () := by decide
  simp only [handleInsertStmt, h2, handleInsertGlobalSequenceValue, h3, ↓reduceIte, h4, h5]
  exact h1

/-- `insert_findable`: the remaining hypotheses hold for the example rule (its
    `tableToSlice` has exactly the listed tables, which are ascending) -/
example : (∀ i, mapGet exRule.layout.t2s i ≠ none → i ∈ exRule.layout.idxs) ∧ Route.Sorted exRule.layout.idxs := by
  constructor
  · intro i h
    simp only [exRule, mapGet] at h
    simp only [exRule, List.mem_cons, List.not_mem_nil, or_false]
    repeat' split at h
    all_goals first | omega | simp at h
  · simp [exRule, Route.Sorted]

/-- `INSERT INTO t (k,a) VALUES (1,1),(-5,2),(2+1,3)`: the probed statement -/
def exExprStmt : Stmt :=
  { exStmt with rows := [[.lit "1" (.ok 1), .lit "1" .err], [.expr "-5", .lit "2" .err], [.expr "2+1", .lit "3" .err]] }

/-- the repaired code rejects it (hypotheses of `insert_reject` satisfiable) -/
example : handleInsertStmt false exRule none exExprStmt = .fail ∧
    handleInsertGlobalSequenceValue none exExprStmt = .ok exExprStmt ∧
    lastIndex exRule.shardCol exExprStmt.cols = some 0 ∧ ¬ Routable 0 [.expr "-5", .lit "2" .err] := by
  refine ⟨by decide, by decide, by decide, ?_⟩
  rintro ⟨i, txt, h⟩
  simp at h

/-- what a plan stores where: per produced statement its slice, database,
    table name chain and rows (`none`: the statement was not accepted) -/
structure Seen where
  slice : String
  db : String
  table : Chain
  rows : List Row
  deriving DecidableEq, Repr

def observe : R (List (Target Out)) → Option (List Seen)
  | .ok out => some (out.map fun o => ⟨o.slice, o.db, o.sql.table, o.sql.rows⟩)
  | _ => none

/-- **Defect of the pinned tree (repaired by d687a71)**: before the fix the two
    rows with expression sharding values were silently dropped and the
    statement accepted with the first row only. -/
theorem pinned_drops_expression_rows_witness :
    observe (handleInsertStmt true exRule none exExprStmt) =
      some [⟨"slice-0", "db_ks", ["t_0001"], [[.lit "1" (.ok 1), .lit "1" .err]]⟩] ∧ exExprStmt.rows.length = 3 := by
  decide

/-- with only expression rows the pinned planner accepted the statement with an empty plan -/
theorem pinned_all_expression_rows_empty_plan_witness :
    handleInsertStmt true exRule none { exStmt with rows := [[.expr "-5", .null], [.expr "2+1", .null]] } = .ok [] := by
  decide

/-- hash rule with a single sub table -/
def exOne : TableRule :=
  { layout := { kind := .kingshard, db := "db_ks", slices := ["slice-1"], idxs := [0], t2s := [(0, 0)], dbs := [] },
    shardCol := "k" }

/-- SET form, pinned: an expression sharding value was accepted on a rule with a
    single sub table (on the others it was rejected only by the statement/route
    count check) -/
theorem pinned_set_expression_accepted_witness :
    observe (handleInsertStmt true exOne none { exStmt with setMode := true, rows := [[.expr "-5", .lit "3" .err]] }) =
      some [⟨"slice-1", "db_ks", ["t_0000"], [[.expr "-5", .lit "3" .err]]⟩] ∧
    handleInsertStmt false exOne none { exStmt with setMode := true, rows := [[.expr "-5", .lit "3" .err]] } = .fail := by
  decide

/-- **Defect of the pinned tree (repaired by e8a3dcf)**: a later row shorter than
    the column list made the planner index past its end; a longer one was
    accepted and split off to its own table. -/
theorem pinned_ragged_rows_witness :
    handleInsertStmt true exRule none { exStmt with cols := ["a", "k"], rows := [[.null, .lit "1" (.ok 1)], [.null]] } = .panic ∧
    observe (handleInsertStmt true exRule none
        { exStmt with cols := ["a", "k"], rows := [[.null, .lit "1" (.ok 1)], [.null, .lit "3" (.ok 3), .null]] }) =
      some [⟨"slice-0", "db_ks", ["t_0001"], [[.null, .lit "1" (.ok 1)]]⟩,
            ⟨"slice-1", "db_ks", ["t_0003"], [[.null, .lit "3" (.ok 3), .null]]⟩] ∧
    handleInsertStmt false exRule none { exStmt with cols := ["a", "k"], rows := [[.null, .lit "1" (.ok 1)], [.null]] } = .fail := by
  decide

/-- global table with three copies; the sequence column `sid` is not listed -/
def exGlobal : TableRule :=
  { layout := { kind := .global, db := "db_mycat", slices := ["slice-2", "slice-0"], idxs := [0, 1, 2],
                t2s := [(0, 0), (1, 1), (2, 1)], dbs := ["db_mycat_0", "db_mycat_1", "db_mycat_2"] },
    shardCol := "" }

def exSeq : Seq := { pk := "sid", start := 100, failAt := none, places := [] }

/-- `insert_global` and `sequence_fills_only_sequence_cells` are not vacuous:
    every copy gets the three rows, each extended by its sequence value -/
example :
    observe (handleInsertStmt false exGlobal (some exSeq) { exStmt with schema := "db_mycat", rows := [[.lit "1" .err, .null]] }) =
      some [⟨"slice-2", "db_mycat_0", ["db_mycat_0", "t"], [[.lit "1" .err, .null, .lit "100" .err]]⟩,
            ⟨"slice-0", "db_mycat_1", ["db_mycat_1", "t"], [[.lit "1" .err, .null, .lit "100" .err]]⟩,
            ⟨"slice-0", "db_mycat_2", ["db_mycat_2", "t"], [[.lit "1" .err, .null, .lit "100" .err]]⟩] := by
  decide

end GaeaVerif.C03
