import GaeaVerif.Lemmas.SessConnsInv
/-
  C19 — Backend connections are returned exactly once and never leaked.

  The model (Model/SessionConns.lean) runs an arbitrary sequence of client
  commands, disconnects and namespace reloads (`run cfg ops`) against a backend
  world whose ledger records, for every connection a pool ever handed out, how
  often it was given back (`returns`), whether it was touched after it was
  given back (`uar`) and whether it was given back while a statement was still
  in flight (`rif`).  Every operation carries its own fault script (any backend
  call may fail; a statement may time out or stream its result) and its own
  map-iteration order; the theorems quantify over all of them, for every
  configuration (keep-session or not, every kind of user, with and without
  fallback to the master).  No theorem of this file has a hypothesis on the
  faults any more: the one defect that needed it
  (shard-timeout-conn-returned-in-flight) is repaired by fix e307c15.

  The theorems are consequences of one invariant (`Idle`, Lemmas/SessConnsInv):
  between two commands the connections that are out are exactly the ones the
  session holds in `txConns` / `ksConns`, one per slice.
-/
namespace GaeaVerif.C19
open GaeaVerif.SessionConns

/-- No connection is ever given back twice — for every configuration and every
    history of commands, faults, timeouts, reloads and iteration orders. -/
theorem returned_once (cfg : Cfg) (ops : List Op) :
    ∀ c ∈ (run cfg ops).w.conns, c.returns ≤ 1 := by
  intro c hc
  have h := (idle_run_all cfg ops).inv.wi
  obtain ⟨i, hi, hget⟩ := List.mem_iff_getElem.1 hc
  have hcn : (run cfg ops).w.conns[i]? = some c := by rw [List.getElem?_eq_getElem hi, hget]
  by_cases hm : i ∈ (held (run cfg ops) ++ []).vals
  · obtain ⟨sl, hsl⟩ := mem_vals.1 hm
    obtain ⟨cn, hcn', h0, _⟩ := h.out _ hsl
    rw [hcn] at hcn'; cases hcn'; omega
  · have := h.ret i c hcn hm; omega

/-- No backend call (and no close) ever reaches a connection after it was given
    back to its pool: the session never uses a connection another session may
    have been given. -/
theorem no_use_after_return (cfg : Cfg) (ops : List Op) :
    ∀ c ∈ (run cfg ops).w.conns, c.uar = false := by
  intro c hc
  have h := (idle_run_all cfg ops).inv.wi
  obtain ⟨i, hi, hget⟩ := List.mem_iff_getElem.1 hc
  exact (h.flags i c (by rw [List.getElem?_eq_getElem hi, hget])).1

/-- Between two commands the connections that are out (taken and not given
    back) are exactly those the session holds in its two maps: nothing leaks,
    nothing the session still holds was given back. -/
theorem ledger_inv (cfg : Cfg) (ops : List Op) (id : Nat) (c : Conn)
    (hc : (run cfg ops).w.conns[id]? = some c) :
    c.returns = 0 ↔ id ∈ (held (run cfg ops)).vals := by
  have h := (idle_run_all cfg ops).inv.wi
  simp only [List.append_nil] at h
  constructor
  · intro h0; exact h.mem_of_out hc h0
  · intro hm
    obtain ⟨sl, hsl⟩ := mem_vals.1 hm
    obtain ⟨cn, hcn, h0, _⟩ := h.out _ hsl
    rw [hc] at hcn; cases hcn; exact h0

/-- The session holds at most one connection per slice, and holds no connection twice. -/
theorem held_distinct (cfg : Cfg) (ops : List Op) :
    (held (run cfg ops)).vals.Nodup ∧ (held (run cfg ops)).keys.Nodup := by
  have h := (idle_run_all cfg ops).inv.wi
  simp only [List.append_nil] at h
  exact ⟨h.nodupC, h.nodupS⟩

/-- When the session has ended (quit, disconnect, error that closes it) it holds
    nothing and every connection it ever took was given back exactly once.
    (`ConnectionPool.Put` resets a reused connection and a closed one takes its
    transaction with it, so no backend transaction is left open.) -/
theorem end_clean (cfg : Cfg) (ops : List Op) (hcl : (run cfg ops).closed = true) :
    (run cfg ops).txConns = [] ∧ (run cfg ops).ksConns = [] ∧
    ∀ c ∈ (run cfg ops).w.conns, c.returns = 1 := by
  have hI := idle_run_all cfg ops
  obtain ⟨htx, hks⟩ := hI.clean hcl
  refine ⟨htx, hks, ?_⟩
  intro c hc
  obtain ⟨i, hi, hget⟩ := List.mem_iff_getElem.1 hc
  have hcn : (run cfg ops).w.conns[i]? = some c := by rw [List.getElem?_eq_getElem hi, hget]
  exact hI.inv.wi.ret i c hcn (by simp [held, htx, hks, CMap.vals])

/-- No connection is ever given back while one of its statements is still in
    flight, and between two commands no statement is in flight at all - for
    every configuration and every history, statement timeouts on both execution
    paths included: a timeout closes the connection before anything else happens
    to it (`executeUnshardSQLInSlice`; `executeMultipleSQLInSlice` since fix
    e307c15). -/
theorem no_return_in_flight (cfg : Cfg) (ops : List Op) :
    ∀ c ∈ (run cfg ops).w.conns, c.inflight = false ∧ c.rif = false := by
  intro c hc
  have h := (idle_run_all cfg ops).inv.wi
  obtain ⟨i, hi, hget⟩ := List.mem_iff_getElem.1 hc
  exact h.quiet rfl i c (by rw [List.getElem?_eq_getElem hi, hget])

/-- the history of the former known finding `shard-timeout-conn-returned-in-flight`:
    a sharded read outside a transaction, the statement on slice 1 times out -/
def inFlightOps : List Op :=
  [{ body := .qs .r [0, 1], ord := [0, 1], faults := [{ k := .x, slice := 1, mode := .t }] }]

/-- On that history the repaired code (e307c15) closes the connection of slice 1
    before it gives it back: it goes back closed, not in flight (the pinned tree
    gave it back open with the worker still waiting on it). -/
theorem timeout_conn_closed_before_return :
    ((run { ks := false, user := .w, fb := true } inFlightOps).w.conns.map fun c => (c.closed, c.returns, c.rif)) =
      [(false, 1, false), (true, 1, false)] := by
  decide

/-! Non-vacuity: the hypotheses are satisfiable on non-trivial histories. -/

/-- a two-slice transaction that loses a connection to a timeout, then commits and quits -/
def demoOps : List Op :=
  [ { body := .begin, ord := [0, 1], faults := [] },
    { body := .qs .w [0, 1], ord := [1, 0], faults := [] },
    { body := .qu .w, ord := [0, 1], faults := [{ k := .x, slice := 0, mode := .t }] },
    { body := .qu .w, ord := [0, 1], faults := [] },
    { body := .commit, ord := [0, 1], faults := [{ k := .c, slice := 0, mode := .e }] },
    { body := .quit, ord := [0, 1], faults := [] } ]

example : (run { ks := false, user := .w, fb := true } demoOps).closed = true := by decide
example : ((run { ks := false, user := .w, fb := true } demoOps).w.conns.map (·.returns)) = [1, 1] := by decide
/-- the timeout of the third command closed the session (the transaction lost its connection):
    both connections of the transaction were given back once, nothing else was ever taken -/
example : (run { ks := false, user := .w, fb := true } (demoOps.take 3)).closed = true := by decide
example : ((run { ks := false, user := .w, fb := true } demoOps).w.conns.map (·.inflight)) = [false, false] := by decide

/-- a statement answered with a further result pending and no rows pending
    (SERVER_MORE_RESULTS_EXISTS: a stored procedure call): the connection stays
    with the response writer, which reads the result from it, and is given back
    once, afterwards (the seeded change C19-3 dropped the `MoreResultsExist` half
    of `recycleBackendConn`'s guard: returned first, read afterwards, returned again) -/
def moreResultsOps : List Op :=
  [{ body := .qu .r, ord := [0, 1], faults := [{ k := .x, slice := 0, mode := .mres }] }]

example : (run { ks := false, user := .w, fb := true } moreResultsOps).w.trace.reverse =
    [.get true 0 (some 0), .call .U 0 .ok, .call .X 0 .mres, .call .N 0 .ok, .recycle 0] := by decide
example : ((run { ks := false, user := .w, fb := true } moreResultsOps).w.conns.map
    fun c => (c.returns, c.uar, c.moreRes, c.closed)) = [(1, false, false, false)] := by decide

end GaeaVerif.C19
