import GaeaVerif.Lemmas.TokenizeC06
import GaeaVerif.Lemmas.TabRefC06
import GaeaVerif.Model.FastPathC06
import GaeaVerif.Model.TabRefC06
import GaeaVerif.Gen.Consts
/-
  C06 — The fast unsharded path never bypasses sharding.

  Theorems about `Model/FastPathC06.lean` (`preBuildUnshardPlan` and what it
  calls), whose tie to /repo is the correspondence check `gvh run C06`.

  The property compares the token pre-check with the parser-based analysis.
  The parser is not modelled (it is the reference); the property is rendered
  on the lexical layer, as DESIGN.md C06 describes:

    the pre-check answers "unshard" only for statements none of whose words —
    maximal runs of letters, digits, `_`, `$` and non-ASCII characters,
    lower-cased — is the name of a table with a shard, linked or global rule in
    any database of the router                                  (`fastpath_sound`),

  for every statement text, router, session database and statement kind; and,
  read the other way round, whatever surrounds the name — letter case,
  back-quotes, schema qualification, comments and line breaks glued to it,
  commas, JOINs, sub-queries, several FROMs — a statement that mentions a ruled
  table as a word never takes the shortcut       (`fastpath_never_shortcuts_mention`).

  The bridge to "the plan `BuildPlan` returns" used to be the assumption
  `parser_tables_are_words` (every table name the parser reports is a word of
  the text).  It is now a lemma about a grammar of table references
  (`Model/TabRefC06.lean`: bare and back-quoted identifiers with doubled
  back-quotes and any characters inside, schema qualification with blanks and
  comments around the dot, any letter case, names glued to punctuation, names
  glued to the version number of an executable comment, names delimited by
  Unicode white space): `stmt_refs_seen` shows that the guard sees every table
  reference of a well-formed statement of the grammar, and
  `fastpath_agrees_with_checker_grammar` that `plan.Checker` (modelled:
  `checkerScan`) finds no sharded table in such a statement when the pre-check
  forwards it — for every router, also one whose table names need quoting.
  What remains trusted is that the parser reports, for the text `renderStmt`
  renders, the references of the grammar; the correspondence checks that on
  every statement generated from the grammar (field `gram`), checks on every
  generated statement, grammar or not, that the guard sees every table name
  the parser reports (`NameSeen`, field `asm`), compares `checkerScan` with the
  real `plan.Checker` (field `chk`), and checks the property itself: pre-check =
  unshard never coincides with a shard plan / shard-planner error of `BuildPlan`.
-/
namespace GaeaVerif.C06
open GaeaVerif GaeaVerif.Tok GaeaVerif.FastPath

/-! ### facts regenerated from the source on every run -/

/-- The separator set of `parser.IsSqlSep` is the one the model uses. -/
theorem sqlSeps_eq_source : Tok.sqlSeps = Gen.c06_sqlSeps := by decide

/-- The keys of `mysql.ParseTokenMap` are the ones the model knows. -/
theorem parseTokenKeys_eq_source : FastPath.parseTokenKeys = Gen.c06_parseTokenKeys := by decide

/-- `mysql.ParseTokenIdStrMap` for the five statement keywords the pre-check switches on. -/
theorem keyword_neighbours_eq_source :
    Gen.c06_tokenNeighbour =
      [("select", "from"), ("delete", "from"), ("insert", "into"), ("replace", "into"), ("update", "set")] := by
  decide

/-- The statement kinds of `parser.Preview` the models use. -/
theorem stmt_kinds_eq_source :
    (FastPath.stmtSelect, FastPath.stmtInsert, FastPath.stmtReplace, FastPath.stmtUpdate,
      FastPath.stmtDelete, FastPath.stmtShow, FastPath.stmtComment)
    = (Gen.c06_StmtSelect, Gen.c06_StmtInsert, Gen.c06_StmtReplace, Gen.c06_StmtUpdate,
      Gen.c06_StmtDelete, Gen.c06_StmtShow, Gen.c06_StmtComment) := by decide

theorem lastInsertIdMark_eq_source : String.ofList FastPath.lastInsertIdMark = Gen.c06_lastInsetIdMark := by decide

/-! ### helper lemmas -/

/-- `Tokenize` cannot panic: its only index expression, `tokens[0]`, is
    evaluated only for texts that start with `/*`, which always have a token
    (`Tok.tokens_of_block_comment_ne_nil`). -/
theorem tokenize_never_panics (s : Str) : tokenize s ≠ .panic := by
  obtain ⟨t, ht⟩ := tokenize_ok s
  rw [ht]; simp

/-- No word of the statement, lower-cased, is the name of a table with a rule. -/
def NoRuledWord (rules : List (Str × Str)) (sql : Str) : Prop :=
  ∀ w ∈ identWords sql, ∀ r ∈ rules, r.2 ≠ toLower w

/-- No table with a rule is mentioned: each has a word in its name that the
    guard's word set of the statement lacks. -/
def NotMentioned (rules : List (Str × Str)) (sql : Str) : Prop :=
  ∀ r ∈ rules, ∃ p ∈ identWords r.2, p ∉ statementWords sql

theorem mentionsShardTable_false_iff (sql : Str) (rules : List (Str × Str)) :
    mentionsShardTable sql rules = false ↔ NotMentioned rules sql := by
  unfold mentionsShardTable NotMentioned isMentioned
  simp only [List.any_eq_false, List.all_eq_true, List.contains_iff_mem]
  constructor
  · intro h r hr
    have := h r hr
    by_cases hex : ∃ p ∈ identWords r.2, p ∉ statementWords sql
    · exact hex
    · exfalso
      apply this
      intro p hp
      by_cases hm : p ∈ statementWords sql
      · exact hm
      · exact absurd ⟨p, hp, hm⟩ hex
  · intro h r hr hall
    obtain ⟨p, hp, hn⟩ := h r hr
    exact hn (hall p hp)

/-- The guard sees the table name `n`: every word of the lower-cased name is in
    the guard's word set of the statement. -/
def NameSeen (sql n : Str) : Prop := ∀ p ∈ identWords (toLower n), p ∈ statementWords sql

instance (sql n : Str) : Decidable (NameSeen sql n) := by unfold NameSeen; exact inferInstance

/-! ### helper lemmas: words and the router -/

theorem fieldsAux_no_sep (f : Char → Bool) (cur s : Str) (hcur : ∀ c ∈ cur, f c = false) :
    ∀ w ∈ fieldsAux f cur s, ∀ c ∈ w, f c = false := by
  induction s generalizing cur with
  | nil =>
    intro w hw c hc
    simp only [fieldsAux] at hw
    split at hw
    · simp at hw
    · simp only [List.mem_singleton] at hw
      subst hw
      exact hcur c (by simpa using hc)
  | cons x s ih =>
    intro w hw
    simp only [fieldsAux] at hw
    by_cases hx : f x = true
    · simp only [hx, if_true] at hw
      split at hw
      · exact ih [] (by simp) w hw
      · simp only [List.mem_cons] at hw
        rcases hw with h | h
        · subst h
          intro c hc
          exact hcur c (by simpa using hc)
        · exact ih [] (by simp) w h
    · simp only [hx] at hw
      apply ih (x :: cur) _ w hw
      intro c hc
      simp only [List.mem_cons] at hc
      rcases hc with h | h
      · subst h; simpa using hx
      · exact hcur c h

/-- `strings.FieldsFunc` never yields an empty field. -/
theorem fieldsAux_nil_not_mem (f : Char → Bool) (s : Str) : ∀ cur, ([] : Str) ∉ fieldsAux f cur s := by
  induction s with
  | nil =>
    intro cur h
    simp only [fieldsAux] at h
    split at h
    · simp at h
    · rename_i hc
      simp only [List.mem_singleton] at h
      exact hc (by simpa using h.symm)
  | cons x s ih =>
    intro cur h
    simp only [fieldsAux] at h
    split at h
    · split at h
      · exact ih [] h
      · rename_i hc
        simp only [List.mem_cons] at h
        rcases h with h | h
        · exact hc (by simpa using h.symm)
        · exact ih [] h
    · exact ih (x :: cur) h

theorem upper_shift_ne_dot : ∀ n < 91, 65 ≤ n → Char.ofNat (n + 32) ≠ '.' := by decide

theorem lowerChar_ne_dot (c : Char) (h : isIdentChar c = true) : lowerChar c ≠ '.' := by
  have hc : c ≠ '.' := by intro h'; subst h'; exact absurd h (by decide)
  unfold lowerChar
  split
  · rename_i hu
    have h1 : 65 ≤ c.toNat := by
      have := Char.le_def.1 hu.1
      exact UInt32.le_iff_toNat_le.1 this
    have h2 : c.toNat < 91 := by
      have := Char.le_def.1 hu.2
      have := UInt32.le_iff_toNat_le.1 this
      have e : ('Z' : Char).val.toNat = 90 := by decide
      simp only [Char.toNat]
      omega
    exact upper_shift_ne_dot c.toNat h2 h1
  · split
    · decide
    · split
      · decide
      · exact hc

theorem splitAll_no_sep (sep : Char) (s : Str) (h : ∀ c ∈ s, c ≠ sep) : splitAll sep s = [s] := by
  induction s with
  | nil => rfl
  | cons c s ih =>
    have hc : (c == sep) = false := by simpa using h c (by simp)
    simp only [splitAll, hc, Bool.false_eq_true, if_false]
    rw [ih (fun d hd => h d (by simp [hd]))]

/-- A word of the statement is looked up in the router as it stands (no dotted form). -/
theorem hasRule_word (rules : List (Str × Str)) (db w : Str) (hw : ∀ c ∈ w, isIdentChar c = true) :
    hasRule rules db (toLower w) = rules.contains (db, toLower w) := by
  unfold hasRule
  have : splitAll '.' (toLower w) = [toLower w] := by
    apply splitAll_no_sep
    intro c hc
    simp only [toLower, List.mem_map] at hc
    obtain ⟨d, hd, hdc⟩ := hc
    rw [← hdc]
    exact lowerChar_ne_dot d (hw d hd)
  simp only [this]

/-! ### helper lemmas: what the guard sees -/

/-- A word of the statement is a name the guard sees. -/
theorem nameSeen_of_word (sql w : Str) (h : w ∈ identWords sql) : NameSeen sql w := by
  have hid : ∀ c ∈ w, isIdentChar c = true := by
    intro c hc
    have := fieldsAux_no_sep (fun c => !isIdentChar c) [] sql (by simp) w h c hc
    simpa using this
  have hne : w ≠ [] := by
    intro e; subst e
    have : ([] : Str) ∈ fieldsAux (fun c => !isIdentChar c) [] sql := h
    exact fieldsAux_nil_not_mem _ sql [] this
  intro p hp
  rw [identWords_toLower, identWords_word w hne hid] at hp
  simp only [List.map_cons, List.map_nil, List.mem_singleton] at hp
  subst hp
  exact lower_word_mem_statementWords sql w h

/-- Every word of the name is, lower-cased or not, a word of the statement. -/
theorem nameSeen_of_words_subset (sql n : Str) (h : ∀ w ∈ identWords n, w ∈ identWords sql) : NameSeen sql n := by
  intro p hp
  rw [identWords_toLower] at hp
  obtain ⟨w, hw, rfl⟩ := List.mem_map.1 hp
  exact lower_word_mem_statementWords sql w (h w hw)

/-- The two ways `Router.GetRule` / `GetShardRule` finds a rule. -/
theorem hasRule_cases (rules : List (Str × Str)) (db t : Str) (h : hasRule rules db t = true) :
    (∃ a b, splitAll '.' t = [a, b] ∧ (trimBackquote a, trimBackquote b) ∈ rules) ∨ (db, t) ∈ rules := by
  unfold hasRule at h
  simp only at h
  generalize hp : splitAll '.' t = parts at h
  match parts, h with
  | [a, b], h => exact Or.inl ⟨a, b, rfl, by simpa using h⟩
  | [], h => exact Or.inr (by simpa using h)
  | [_], h => exact Or.inr (by simpa using h)
  | _ :: _ :: _ :: _, h => exact Or.inr (by simpa using h)

/-- A name the guard sees has no rule in a statement that mentions no ruled
    table — in whatever database the router looks it up, and also when the
    router reads the name as `db.table` (`Router.GetShardRule` splits at a dot). -/
theorem seen_not_ruled (rules : List (Str × Str)) (sql n db : Str)
    (hnm : NotMentioned rules sql) (hs : NameSeen sql n) : hasRule rules db (toLower n) = false := by
  have key : ∀ d t, (∀ p ∈ identWords t, p ∈ identWords (toLower n)) → (d, t) ∉ rules := by
    intro d t hsub hmem
    obtain ⟨p, hp, hn⟩ := hnm (d, t) hmem
    exact hn (hs p (hsub p hp))
  cases hr : hasRule rules db (toLower n) with
  | false => rfl
  | true =>
    exfalso
    rcases hasRule_cases rules db _ hr with ⟨a, b, hsplit, hmem⟩ | hmem
    · have e : toLower n = a ++ '.' :: b := splitAll_two '.' _ a b hsplit
      refine key _ _ ?_ hmem
      intro p hp
      rw [identWords_trimBackquote] at hp
      rw [e, identWords_sep '.' (by decide)]
      exact List.mem_append_right _ hp
    · exact key db (toLower n) (fun p hp => hp) hmem

/-! ### the property -/

/-- What an "unshard" answer of the last step means. -/
theorem finish_unshard (g : Guard) (cfg : Cfg) (sql : Str) (r : Option (Str × Bool)) (d : Str)
    (h : finish g cfg sql r = .unshard d) :
    g.mentions sql cfg.rules = false ∧ preCreateOK cfg.phyDBs d = true ∧
      finish .none cfg sql r = .unshard d := by
  unfold finish at h ⊢
  match r, h with
  | some (ruleDB, isUnshard), h =>
    simp only at h ⊢
    split at h
    · rename_i hc
      injection h with h; subst h
      simp only [Bool.and_eq_true, Bool.not_eq_eq_eq_not, Bool.not_true] at hc
      obtain ⟨⟨h1, h2⟩, h3⟩ := hc
      refine ⟨h2, h3, ?_⟩
      simp [h1, h3, Guard.mentions]
    · cases h

/-- The two ways `preDecide` answers "unshard". -/
theorem preDecide_unshard (g : Guard) (cfg : Cfg) (db : Str) (st : Nat) (sql : Str) (tokens : List Str) (d : Str)
    (h : preDecide g cfg db st sql tokens = .unshard d) :
    (cfg.rules = [] ∧ preCreateOK cfg.phyDBs db = true ∧ d = db ∧ preDecide .none cfg db st sql tokens = .unshard d) ∨
    (∃ r, finish g cfg sql r = .unshard d ∧
      (finish .none cfg sql r = .unshard d → preDecide .none cfg db st sql tokens = .unshard d)) := by
  unfold preDecide at h ⊢
  match tokens, h with
  | t0 :: tl, h =>
    simp only at h ⊢
    by_cases h1 : (st == stmtComment || lastInsertIdGuard (t0 :: tl)) = true
    · simp only [h1, if_true] at h; cases h
    · simp only [h1] at h ⊢
      by_cases h2 : (cfg.rules.isEmpty && preCreateOK cfg.phyDBs db) = true
      · simp only [h2, if_true] at h ⊢
        injection h with h; subst h
        simp only [Bool.and_eq_true, List.isEmpty_iff] at h2
        exact Or.inl ⟨h2.1, h2.2, rfl, rfl⟩
      · simp only [h2] at h ⊢
        match hp : parseToken t0, h with
        | some kw, h =>
          simp only at h ⊢
          exact Or.inr ⟨_, h, fun hf => by simpa using hf⟩

/-- **C06, soundness of the pre-check, for every router.**  For every namespace
    (router rules — also on tables whose names need quoting —, physical
    databases), session database, statement kind and statement text: if
    `preBuildUnshardPlan` answers "unshard" (the statement is forwarded unrewritten
    to the default slice and the parser never sees it), then no sharded, linked
    or global table of any database is mentioned: each has a word in its name
    that is not, in any letter case, a word of the statement (nor a word of the
    statement without the version number of an executable comment). -/
theorem fastpath_sound_names (cfg : Cfg) (db : Str) (st : Nat) (sql : Str) (d : Str)
    (h : preBuildUnshardPlan cfg db st sql = .ok (.unshard d)) :
    NotMentioned cfg.rules sql := by
  unfold preBuildUnshardPlan at h
  split at h
  · rename_i tokens _
    have h' : preDecide .cur cfg db st sql tokens = .unshard d := by
      injection h
    rcases preDecide_unshard .cur cfg db st sql tokens d h' with ⟨hr, _⟩ | ⟨r, hf, _⟩
    · intro r hr'
      rw [hr] at hr'
      cases hr'
    · exact (mentionsShardTable_false_iff sql cfg.rules).1 (finish_unshard .cur cfg sql r d hf).1
  · cases h
  · cases h

/-- **C06, soundness of the pre-check.**  For every namespace (router rules,
    physical databases), session database, statement kind and statement text:
    if `preBuildUnshardPlan` answers "unshard" (the statement is forwarded
    unrewritten to the default slice and the parser never sees it), then no
    word of the statement is, lower-cased, the name of a sharded, linked or
    global table of any database. -/
theorem fastpath_sound (cfg : Cfg) (db : Str) (st : Nat) (sql : Str) (d : Str)
    (h : preBuildUnshardPlan cfg db st sql = .ok (.unshard d)) :
    NoRuledWord cfg.rules sql := by
  have hnm := fastpath_sound_names cfg db st sql d h
  intro w hw r hr heq
  obtain ⟨p, hp, hn⟩ := hnm r hr
  rw [heq] at hp
  exact hn (nameSeen_of_word sql w hw p hp)

example : preBuildUnshardPlan { rules := [("db_ks".toList, "t_shard".toList)], phyDBs := [] }
    "db_ks".toList 0 "select * from u where id = 1".toList = .ok (.unshard "db_ks".toList) := by decide

/-- **C06, every way of writing the name.**  If the statement contains, as a
    word (delimited on each side by the end of the text or by any character that
    is not a letter, digit, `_`, `$` or non-ASCII: blank, line break, comma,
    back-quote, dot, parenthesis, comment mark …), a spelling in any letter case
    of the name of a table with a rule, the pre-check does not answer "unshard",
    whatever precedes and follows: other tables, JOINs, sub-queries, comments. -/
theorem fastpath_never_shortcuts_mention (cfg : Cfg) (db : Str) (st : Nat) (pre name post : Str) (d : Str)
    (r : Str × Str) (hr : r ∈ cfg.rules) (hname : r.2 = toLower name)
    (hne : name ≠ []) (hid : ∀ c ∈ name, isIdentChar c = true)
    (hpre : ∀ c, pre.getLast? = some c → isIdentChar c = false)
    (hpost : ∀ c, post.head? = some c → isIdentChar c = false) :
    preBuildUnshardPlan cfg db st (pre ++ name ++ post) ≠ .ok (.unshard d) := by
  intro h
  have hs := fastpath_sound cfg db st _ d h
  have hmem : name ∈ identWords (pre ++ name ++ post) := by
    unfold identWords
    apply mem_fieldsFunc_of_delimited _ pre name post hne
    · intro c hc; simp [hid c hc]
    · intro c hc; simp [hpre c hc]
    · intro c hc; simp [hpost c hc]
  exact hs name hmem r hr hname

/-- Instances of the previous theorem for the spellings the pinned tree let through. -/
example (d : Str) : preBuildUnshardPlan { rules := [("db_ks".toList, "t_shard".toList)], phyDBs := [] }
    "db_ks".toList 0 ("select * from u join ".toList ++ "T_Shard".toList ++ " on 1=1".toList) ≠ .ok (.unshard d) :=
  fastpath_never_shortcuts_mention _ _ _ _ _ _ d ("db_ks".toList, "t_shard".toList) (by simp) (by decide)
    (by decide) (by decide) (by decide) (by decide)

/-- **C06, against the parser-based analysis.**  Under the assumption
    `parser_tables_are_words` — every table name the parser reports for the
    statement is one of its words — a statement the pre-check forwards is one in
    which `plan.Checker` finds no sharded table: `BuildPlan` would not have built
    a shard plan for it.  `tables` are the (schema, name) pairs of the parser's
    `TableName` nodes as written in the statement. -/
theorem fastpath_agrees_with_checker (cfg : Cfg) (db : Str) (st : Nat) (sql : Str) (d : Str)
    (tables : List (Str × Str))
    (h : preBuildUnshardPlan cfg db st sql = .ok (.unshard d))
    (hasm : ∀ t ∈ tables, t.2 ∈ identWords sql) :
    checkerScan cfg.rules db tables ≠ .shard := by
  have hs := fastpath_sound cfg db st sql d h
  induction tables with
  | nil => simp [checkerScan]
  | cons t rest ih =>
    obtain ⟨schema, name⟩ := t
    simp only [checkerScan]
    generalize (if (toLower schema).isEmpty = true then db else toLower schema) = db'
    by_cases h1 : (db.isEmpty && (toLower schema).isEmpty) = true
    · simp [h1]
    · simp only [h1, Bool.false_eq_true, if_false]
      by_cases hr : hasRule cfg.rules db' (toLower name) = true
      · exfalso
        have hmem : name ∈ identWords sql := hasm (schema, name) (by simp)
        have hid : ∀ c ∈ name, isIdentChar c = true := by
          intro c hc
          have := fieldsAux_no_sep (fun c => !isIdentChar c) [] sql (by simp) name hmem c hc
          simpa using this
        rw [hasRule_word _ _ _ hid] at hr
        have : (db', toLower name) ∈ cfg.rules := by simpa using hr
        exact hs name hmem _ this rfl
      · simp only [hr, Bool.false_eq_true, if_false]
        exact ih (fun t ht => hasm t (by simp [ht]))

example : checkerScan [("db_ks".toList, "t_shard".toList)] "db_ks".toList [("".toList, "T_SHARD".toList)] = .shard := by decide

/-- **C06, against the parser-based analysis, with the assumption at its weakest.**
    If the guard sees every table name the parser reports (`NameSeen`: every word
    of the lower-cased name is in the guard's word set — true of any name between
    back-quotes, whatever characters it holds), `plan.Checker` finds no sharded
    table in a statement the pre-check forwards.  The correspondence checks
    `NameSeen` for every table the parser reports on every generated statement
    (field `asm`). -/
theorem fastpath_agrees_with_checker_seen (cfg : Cfg) (db : Str) (st : Nat) (sql : Str) (d : Str)
    (tables : List (Str × Str))
    (h : preBuildUnshardPlan cfg db st sql = .ok (.unshard d))
    (hasm : ∀ t ∈ tables, NameSeen sql t.2) :
    checkerScan cfg.rules db tables ≠ .shard := by
  have hnm := fastpath_sound_names cfg db st sql d h
  induction tables with
  | nil => simp [checkerScan]
  | cons t rest ih =>
    obtain ⟨schema, name⟩ := t
    simp only [checkerScan]
    by_cases h1 : (db.isEmpty && (toLower schema).isEmpty) = true
    · simp [h1]
    · simp only [h1, Bool.false_eq_true, if_false]
      rw [seen_not_ruled cfg.rules sql name _ hnm (hasm (schema, name) (by simp))]
      simp only [Bool.false_eq_true, if_false]
      exact ih (fun t ht => hasm t (by simp [ht]))

example : NameSeen "select * from u, `Order-Items`".toList "Order-Items".toList := by decide

/-! ### the grammar of table references: the guard sees every reference

  `Model/TabRefC06.lean`.  The assumption of the theorem above becomes a lemma:
  for a statement built from the grammar (`renderStmt segs`) that is well formed
  (`wfStmt`: a bare name is delimited, or glued to the version number of an
  executable comment), the guard sees the name of every table reference. -/

/-- `M?[0-9]{5,6}`. -/
def IsVersionNumber (v : Str) : Prop :=
  ∃ m ds, v = versionText m ds ∧ (∀ c ∈ ds, isDigit c = true) ∧ (ds.length = 5 ∨ ds.length = 6)

theorem isDigit_isIdentChar : ∀ c : Char, isDigit c = true → isIdentChar c = true ∧ c ≠ 'M' := by
  intro c h
  have hr : 48 ≤ c.toNat ∧ c.toNat < 58 := by
    simp only [isDigit, Bool.and_eq_true, decide_eq_true_eq] at h
    have h1 := UInt32.le_iff_toNat_le.1 (Char.le_def.1 h.1)
    have h2 := UInt32.le_iff_toNat_le.1 (Char.le_def.1 h.2)
    have e1 : ('0' : Char).val.toNat = 48 := by decide
    have e2 : ('9' : Char).val.toNat = 57 := by decide
    simp only [Char.toNat]
    omega
  have key : ∀ n < 58, 48 ≤ n → isIdentChar (Char.ofNat n) = true ∧ Char.ofNat n ≠ 'M' := by decide
  have := key c.toNat hr.2 hr.1
  rwa [Char.ofNat_toNat] at this

/-- The name glued to a version number is one of the readings of the word without it. -/
theorem mem_withoutVersionNumber (v n : Str) (hv : IsVersionNumber v) : n ∈ withoutVersionNumber (v ++ n) := by
  obtain ⟨m, ds, rfl, hd, hlen⟩ := hv
  have hstrip : trimPrefixM (versionText m ds ++ n) = ds ++ n := by
    unfold trimPrefixM
    cases m with
    | true => simp [versionText]
    | false =>
      simp only [versionText, Bool.false_eq_true, if_false, List.nil_append]
      cases ds with
      | nil => simp at hlen
      | cons c cs =>
        have := (isDigit_isIdentChar c (hd c (by simp))).2
        simp only [List.cons_append]
        split
        · rename_i heq
          simp only [List.cons.injEq] at heq
          exact absurd heq.1 this
        · rfl
  unfold withoutVersionNumber
  simp only [hstrip]
  have htw : (ds ++ n).takeWhile isDigit = ds ++ n.takeWhile isDigit :=
    List.takeWhile_append_of_pos (fun c hc => hd c hc)
  rw [htw]
  simp only [List.length_append, List.mem_append]
  rcases hlen with h5 | h6
  · left
    have : 5 ≤ ds.length + (n.takeWhile isDigit).length := by omega
    simp only [this, if_true, List.mem_singleton]
    rw [← h5, List.drop_left]
  · right
    have : 6 ≤ ds.length + (n.takeWhile isDigit).length := by omega
    simp only [this, if_true, List.mem_singleton]
    rw [← h6, List.drop_left]

theorem versionText_isIdent (v : Str) (hv : IsVersionNumber v) : ∀ c ∈ v, isIdentChar c = true := by
  obtain ⟨m, ds, rfl, hd, _⟩ := hv
  intro c hc
  simp only [versionText, List.mem_append] at hc
  rcases hc with hc | hc
  · cases m with
    | true =>
      simp only [if_true, List.mem_singleton] at hc
      subst hc; decide
    | false => simp at hc
  · exact (isDigit_isIdentChar c (hd c hc)).1

/-- **The guard sees a table reference however it is written.**  `pre` is the
    text before the name identifier (with the schema qualification, if any),
    `post` the text after it.  A back-quoted name — any characters, back-quotes
    doubled — is seen whatever surrounds it; a bare name when it is delimited
    on both sides (end of the text or a character that is not an identifier
    character: blank, Unicode white space, punctuation, back-quote, dot, comment
    mark …), or when it follows `/*!` + a version number directly. -/
theorem name_seen (pre post : Str) (name : Ident) (ver : Bool)
    (hver : ver = true → ∃ p v, pre = p ++ versionMark ++ v ∧ IsVersionNumber v)
    (h : wfName pre.getLast? ver name post = true) :
    NameSeen (pre ++ name.render ++ post) name.name := by
  obtain ⟨q, n⟩ := name
  cases q with
  | backquote =>
    apply nameSeen_of_words_subset
    intro w hw
    simp only [Ident.render]
    rw [identWords_backquoted]
    simp [hw]
  | bare =>
    simp only [wfName, Bool.and_eq_true, Bool.not_eq_eq_eq_not, Bool.not_true, List.isEmpty_eq_false_iff,
      List.all_eq_true, Bool.or_eq_true] at h
    obtain ⟨⟨⟨hne, hid⟩, hleft⟩, hright⟩ := h
    have hpost : ∀ c, post.head? = some c → (fun c => !isIdentChar c) c = true := by
      intro c hc
      simp only [endsWord, hc, Bool.not_eq_eq_eq_not, Bool.not_true] at hright
      simp [hright]
    simp only [Ident.render]
    rcases hleft with hv | hl
    · -- glued to the version number of an executable comment
      obtain ⟨p, v, hpre, hvn⟩ := hver hv
      subst hpre
      have hvid := versionText_isIdent v hvn
      have hword : v ++ n ∈ identWords (p ++ versionMark ++ v ++ n ++ post) := by
        have e : p ++ versionMark ++ v ++ n ++ post = (p ++ versionMark) ++ (v ++ n) ++ post := by simp
        rw [e]
        unfold identWords
        apply mem_fieldsFunc_of_delimited _ _ _ _ (by simp [hne])
        · intro c hc
          simp only [List.mem_append] at hc
          rcases hc with hc | hc
          · simp [hvid c hc]
          · simp [hid c hc]
        · intro c hc
          have : c = '!' := by
            simp only [versionMark, List.getLast?_append, List.getLast?_cons_cons, List.getLast?_singleton,
              Option.some_or] at hc
            exact (Option.some.inj hc).symm
          subst this; decide
        · exact hpost
      have hcont : containsSub versionMark (p ++ versionMark ++ v ++ n ++ post) = true := by
        have e : p ++ versionMark ++ v ++ n ++ post = p ++ versionMark ++ (v ++ n ++ post) := by simp
        rw [e]; exact containsSub_mid _ _ _
      intro w hw
      rw [identWords_toLower, identWords_word n hne hid] at hw
      simp only [List.map_cons, List.map_nil, List.mem_singleton] at hw
      subst hw
      exact versionless_mem_statementWords _ (v ++ n) n hcont hword (mem_withoutVersionNumber v n hvn)
    · -- delimited on both sides
      apply nameSeen_of_word
      unfold identWords
      apply mem_fieldsFunc_of_delimited _ pre n post hne
      · intro c hc; simp [hid c hc]
      · intro c hc
        simp only [endsWord, hc, Bool.not_eq_eq_eq_not, Bool.not_true] at hl
        simp [hl]
      · exact hpost

theorem getLast_lastOf (pre s : Str) : (pre ++ s).getLast? = lastOf pre.getLast? s := by
  unfold lastOf
  rw [List.getLast?_append]
  cases s.getLast? <;> simp

/-- **The guard sees every table reference of a well-formed statement of the grammar.** -/
theorem segs_refs_seen (segs : List Seg) : ∀ (pre : Str) (ver : Bool),
    (ver = true → ∃ p v, pre = p ++ versionMark ++ v ∧ IsVersionNumber v) →
    wfSegs pre.getLast? ver segs = true →
    ∀ r ∈ refsOf segs, NameSeen (pre ++ renderStmt segs) r.name.name := by
  induction segs with
  | nil => intro _ _ _ _ r hr; simp [refsOf] at hr
  | cons seg rest ih =>
    intro pre ver hver hwf r hr
    cases seg with
    | text s =>
      simp only [wfSegs] at hwf
      simp only [refsOf] at hr
      have := ih (pre ++ s) (ver && s.isEmpty) (by
        intro hv
        simp only [Bool.and_eq_true, List.isEmpty_iff] at hv
        obtain ⟨p, v, hp, hvn⟩ := hver hv.1
        exact ⟨p, v, by simp [hv.2, hp], hvn⟩) (by rw [getLast_lastOf]; exact hwf) r hr
      simpa [renderStmt, Seg.render] using this
    | version m ds =>
      simp only [wfSegs, Bool.and_eq_true, List.all_eq_true, Bool.or_eq_true, beq_iff_eq] at hwf
      simp only [refsOf] at hr
      obtain ⟨⟨⟨hd, hlen⟩, _⟩, hrest⟩ := hwf
      have := ih (pre ++ versionMark ++ versionText m ds) true
        (fun _ => ⟨pre, versionText m ds, rfl, m, ds, rfl, hd, hlen⟩)
        (by
          rw [getLast_lastOf]
          have : (pre ++ versionMark).getLast? = some '!' := by
            simp [versionMark, List.getLast?_append]
          rw [this]; exact hrest) r hr
      simpa [renderStmt, Seg.render] using this
    | ref t =>
      simp only [wfSegs, Bool.and_eq_true] at hwf
      obtain ⟨hname, hrest⟩ := hwf
      simp only [refsOf, List.mem_cons] at hr
      have e : pre ++ renderStmt (Seg.ref t :: rest) = (pre ++ t.lead) ++ t.name.render ++ renderStmt rest := by
        simp [renderStmt, Seg.render, TabRef.render]
      rcases hr with hr | hr
      · subst hr
        rw [e]
        apply name_seen (pre ++ r.lead) (renderStmt rest) r.name (ver && r.lead.isEmpty)
        · intro hv
          simp only [Bool.and_eq_true, List.isEmpty_iff] at hv
          obtain ⟨p, v, hp, hvn⟩ := hver hv.1
          exact ⟨p, v, by simp [hv.2, hp], hvn⟩
        · rw [getLast_lastOf]; exact hname
      · have := ih (pre ++ t.render) false (by simp) (by rw [getLast_lastOf]; exact hrest) r hr
        simpa [renderStmt, Seg.render] using this

theorem stmt_refs_seen (segs : List Seg) (h : wfStmt segs = true) :
    ∀ r ∈ refsOf segs, NameSeen (renderStmt segs) r.name.name := by
  have := segs_refs_seen segs [] false (by simp) (by simpa [wfStmt] using h)
  simpa using this

/-- **C06, against the parser-based analysis, over the grammar of table
    references.**  For a well-formed statement of the grammar — table references
    bare or back-quoted (any characters, doubled back-quotes), in any letter
    case, with or without a schema (blanks and comments around the dot), glued
    to punctuation, to comment marks, to Unicode white space or to the version
    number of an executable comment, anywhere in the statement: sub-queries,
    joins, UNION branches, INSERT … SELECT, multi-table UPDATE / DELETE — and for
    every router (rules on tables whose names need quoting included), session
    database and statement kind: when the pre-check forwards the statement,
    `plan.Checker` finds no sharded table among the references (`tables`: what
    the parser reports, each one a reference of the statement), so `BuildPlan`
    would not have built a shard plan.  No assumption about the words of the
    text is left; the parser is trusted to report references of the grammar. -/
theorem fastpath_agrees_with_checker_grammar (cfg : Cfg) (db : Str) (st : Nat) (segs : List Seg) (d : Str)
    (tables : List (Str × Str))
    (hwf : wfStmt segs = true)
    (h : preBuildUnshardPlan cfg db st (renderStmt segs) = .ok (.unshard d))
    (hparser : ∀ t ∈ tables, ∃ r ∈ refsOf segs, r.parsed = t) :
    checkerScan cfg.rules db tables ≠ .shard := by
  apply fastpath_agrees_with_checker_seen cfg db st _ d tables h
  intro t ht
  obtain ⟨r, hr, hp⟩ := hparser t ht
  have := stmt_refs_seen segs hwf r hr
  rw [← hp]
  exact this

/-- The same read the other way round: a well-formed statement that holds a
    reference to a table with a rule (as `plan.Checker` resolves it, in the
    database `db'` the reference names or the session is in) never takes the
    shortcut. -/
theorem fastpath_never_shortcuts_ref (cfg : Cfg) (db : Str) (st : Nat) (segs : List Seg) (d : Str)
    (hwf : wfStmt segs = true) (r : TabRef) (hr : r ∈ refsOf segs) (db' : Str)
    (hrule : hasRule cfg.rules db' (toLower r.name.name) = true) :
    preBuildUnshardPlan cfg db st (renderStmt segs) ≠ .ok (.unshard d) := by
  intro h
  have hnm := fastpath_sound_names cfg db st _ d h
  have := seen_not_ruled cfg.rules _ r.name.name db' hnm (stmt_refs_seen segs hwf r hr)
  rw [this] at hrule
  cases hrule

/-- A statement of the grammar with the spellings the once-repaired tree let
    through: a back-quoted name that is not a word, a name after U+3000, a name
    glued to a version number; well formed, and refused by the pre-check. -/
def grammarExample : List Seg :=
  [.text "select * from u,".toList, .ref ⟨none, [], ⟨.backquote, "Order-Items".toList⟩⟩,
   .text ",\u3000".toList, .ref ⟨some ⟨.backquote, "db_ks".toList⟩, " . ".toList, ⟨.bare, "T_Shard".toList⟩⟩,
   .text " join".toList, .version true "100100".toList, .ref ⟨none, [], ⟨.bare, "t_shard".toList⟩⟩, .text "*/".toList]

example : wfStmt grammarExample = true := by decide
example : String.ofList (renderStmt grammarExample) =
    "select * from u,`Order-Items`,\u3000`db_ks` . T_Shard join/*!M100100t_shard*/" := by decide
example : (refsOf grammarExample).map TabRef.parsed =
    [([], "Order-Items".toList), ("db_ks".toList, "T_Shard".toList), ([], "t_shard".toList)] := by decide
example (d : Str) : preBuildUnshardPlan { rules := [("db_ks".toList, "t_shard".toList)], phyDBs := [] }
    "db_ks".toList 0 (renderStmt grammarExample) ≠ .ok (.unshard d) :=
  fastpath_never_shortcuts_ref _ _ _ grammarExample d (by decide) ⟨none, [], ⟨.bare, "t_shard".toList⟩⟩ (by decide)
    "db_ks".toList (by decide)
example (d : Str) : preBuildUnshardPlan { rules := [("db_ks".toList, "order-items".toList)], phyDBs := [] }
    "db_ks".toList 0 (renderStmt grammarExample) ≠ .ok (.unshard d) :=
  fastpath_never_shortcuts_ref _ _ _ grammarExample d (by decide) ⟨none, [], ⟨.backquote, "Order-Items".toList⟩⟩ (by decide)
    "db_ks".toList (by decide)

/-- The guard only removes shortcuts: whatever the current pre-check forwards,
    the pre-check of the pinned tree forwarded too, to the same database. -/
theorem guard_only_restricts (cfg : Cfg) (db : Str) (st : Nat) (sql : Str) (d : Str)
    (h : preBuildUnshardPlan cfg db st sql = .ok (.unshard d)) :
    preBuildUnshardPlanPinned cfg db st sql = .ok (.unshard d) := by
  unfold preBuildUnshardPlan at h
  unfold preBuildUnshardPlanPinned
  split at h
  · rename_i tokens heq
    have h' : preDecide .cur cfg db st sql tokens = .unshard d := by injection h
    congr 1
    rcases preDecide_unshard .cur cfg db st sql tokens d h' with ⟨_, _, _, hp⟩ | ⟨r, hf, hp⟩
    · exact hp
    · exact hp (finish_unshard .cur cfg sql r d hf).2.2
  · cases h
  · cases h

/-- The shortcut is only taken to a database whose physical name is its own. -/
theorem fastpath_database_ok (cfg : Cfg) (db : Str) (st : Nat) (sql : Str) (d : Str)
    (h : preBuildUnshardPlan cfg db st sql = .ok (.unshard d)) :
    preCreateOK cfg.phyDBs d = true := by
  unfold preBuildUnshardPlan at h
  split at h
  · rename_i tokens _
    have h' : preDecide .cur cfg db st sql tokens = .unshard d := by injection h
    rcases preDecide_unshard .cur cfg db st sql tokens d h' with ⟨_, hp, hd, _⟩ | ⟨r, hf, _⟩
    · rw [hd]; exact hp
    · exact (finish_unshard .cur cfg sql r d hf).2.1
  · cases h
  · cases h

/-- `preBuildUnshardPlan` cannot panic. -/
theorem preBuildUnshardPlan_never_panics (cfg : Cfg) (db : Str) (st : Nat) (sql : Str) :
    preBuildUnshardPlan cfg db st sql ≠ .panic := by
  obtain ⟨tokens, ht⟩ := tokenize_ok sql
  simp [preBuildUnshardPlan, ht]

/-! ### the pinned tree violated the property: witnesses

  `preBuildUnshardPlanPinned` is the pre-check before the `fix:` commit that
  added the guard.  Each witness is a statement that mentions the sharded table
  `db_ks.t_shard` (so the parser-based analysis builds a shard plan) and that
  the pinned pre-check forwarded unrewritten.  They are regression cases of
  corpus/C06. -/

def witnessCfg : Cfg := { rules := [("db_ks".toList, "t_shard".toList)], phyDBs := [("db_ks".toList, "db_ks".toList)] }

theorem fastpath_unsound_witness_case :
    preBuildUnshardPlanPinned witnessCfg "db_ks".toList 0 "select * from T_SHARD".toList
      = .ok (.unshard "db_ks".toList) := by decide

theorem fastpath_unsound_witness_comma_join :
    preBuildUnshardPlanPinned witnessCfg "db_ks".toList 0 "select * from u, t_shard".toList
      = .ok (.unshard "db_ks".toList) := by decide

theorem fastpath_unsound_witness_join :
    preBuildUnshardPlanPinned witnessCfg "db_ks".toList 0 "select * from u join t_shard on u.id = t_shard.id".toList
      = .ok (.unshard "db_ks".toList) := by decide

theorem fastpath_unsound_witness_subquery :
    preBuildUnshardPlanPinned witnessCfg "db_ks".toList 0 "select * from (select * from t_shard) x".toList
      = .ok (.unshard "db_ks".toList) := by decide

theorem fastpath_unsound_witness_backquote :
    preBuildUnshardPlanPinned witnessCfg "db_ks".toList 0 "select * from`t_shard`".toList
      = .ok (.unshard "db_ks".toList) := by decide

theorem fastpath_unsound_witness_insert_without_into :
    preBuildUnshardPlanPinned witnessCfg "db_ks".toList 2 "insert t_shard values (1)".toList
      = .ok (.unshard "db_ks".toList) := by decide

/-- … and the current pre-check refuses each of them. -/
theorem fastpath_witnesses_repaired :
    preBuildUnshardPlan witnessCfg "db_ks".toList 0 "select * from T_SHARD".toList = .ok .no ∧
    preBuildUnshardPlan witnessCfg "db_ks".toList 0 "select * from u, t_shard".toList = .ok .no ∧
    preBuildUnshardPlan witnessCfg "db_ks".toList 0 "select * from u join t_shard on u.id = t_shard.id".toList = .ok .no ∧
    preBuildUnshardPlan witnessCfg "db_ks".toList 0 "select * from (select * from t_shard) x".toList = .ok .no ∧
    preBuildUnshardPlan witnessCfg "db_ks".toList 0 "select * from`t_shard`".toList = .ok .no ∧
    preBuildUnshardPlan witnessCfg "db_ks".toList 2 "insert t_shard values (1)".toList = .ok .no := by decide

/-! ### the tree after the first repair still violated the property: witnesses

  `preBuildUnshardPlanV1` is the pre-check with the word scan as the first
  `fix:` commit introduced it.  Three classes of statements that reference a
  sharded table (the parser-based analysis builds a shard plan) still took the
  shortcut; each was repaired by one further `fix:` commit.  Regression cases
  of corpus/C06. -/

def witnessCfg2 : Cfg :=
  { rules := [("db_ks".toList, "t_shard".toList), ("db_ks".toList, "order-items".toList)],
    phyDBs := [("db_ks".toList, "db_ks".toList)] }

/-- The parser skips U+3000 (any `unicode.IsSpace` character) before a token; the
    first word scan read the word `\u3000t_shard`. -/
theorem fastpath_v1_unsound_witness_unicode_space :
    preBuildUnshardPlanV1 witnessCfg2 "db_ks".toList 0 "select * from u,\u3000t_shard".toList
      = .ok (.unshard "db_ks".toList) := by decide

/-- A rule on a table whose name is not one word could never match a word. -/
theorem fastpath_v1_unsound_witness_quoted_name :
    preBuildUnshardPlanV1 witnessCfg2 "db_ks".toList 0 "select * from u, `Order-Items`".toList
      = .ok (.unshard "db_ks".toList) := by decide

/-- The parser drops `/*!50000`; the first word scan read the word `50000t_shard`. -/
theorem fastpath_v1_unsound_witness_version_glued :
    preBuildUnshardPlanV1 witnessCfg2 "db_ks".toList 0 "select * from u,/*!50000t_shard*/".toList
      = .ok (.unshard "db_ks".toList) := by decide

/-- … and the current pre-check refuses each of them. -/
theorem fastpath_v1_witnesses_repaired :
    preBuildUnshardPlan witnessCfg2 "db_ks".toList 0 "select * from u,\u3000t_shard".toList = .ok .no ∧
    preBuildUnshardPlan witnessCfg2 "db_ks".toList 0 "select * from u, `Order-Items`".toList = .ok .no ∧
    preBuildUnshardPlan witnessCfg2 "db_ks".toList 0 "select * from u,/*!50000t_shard*/".toList = .ok .no ∧
    preBuildUnshardPlan witnessCfg2 "db_ks".toList 0 "select * from u join/*!M100100T_SHARD */ on 1=1".toList = .ok .no := by decide

end GaeaVerif.C06
