import GaeaVerif.Lemmas.TokenizeC06
import GaeaVerif.Model.FastPathC06
import GaeaVerif.Gen.Consts
/-
  C06 — The fast unsharded path never bypasses sharding.

  Theorems about `Model/FastPathC06.lean` (`preBuildUnshardPlan` and what it
  calls), whose tie to /repo is the correspondence check `gvh run C06`.

  The property compares the token pre-check with the parser-based analysis.
  The parser is not modelled (it is the reference); the property is rendered
  on the lexical layer, as DESIGN.md C06 describes:

    the pre-check answers "unshard" only for statements none of whose words —
    maximal runs of letters, digits, `_`, `$` and non-ASCII characters,
    lower-cased — is the name of a table with a shard, linked or global rule in
    any database of the router                                  (`fastpath_sound`),

  for every statement text, router, session database and statement kind; and,
  read the other way round, whatever surrounds the name — letter case,
  back-quotes, schema qualification, comments and line breaks glued to it,
  commas, JOINs, sub-queries, several FROMs — a statement that mentions a ruled
  table as a word never takes the shortcut       (`fastpath_never_shortcuts_mention`).

  The bridge to "the plan `BuildPlan` returns" is the assumption
  `parser_tables_are_words`: every table name the parser reports (`TableName.Name`)
  is a word of the text.  Under it, `fastpath_agrees_with_checker` shows that
  `plan.Checker` (modelled: `checkerScan`) finds no sharded table in a statement the
  pre-check forwards, so `BuildPlan` would not build a shard plan for it.  The
  assumption is not proved (the parser is trusted); the correspondence checks it
  on every generated statement (field `asm`), compares `checkerScan` with the real
  `plan.Checker` (field `chk`), and checks the property itself: pre-check =
  unshard never coincides with a shard plan / shard-planner error of `BuildPlan`.
-/
namespace GaeaVerif.C06
open GaeaVerif GaeaVerif.Tok GaeaVerif.FastPath

/-! ### facts regenerated from the source on every run -/

/-- The separator set of `parser.IsSqlSep` is the one the model uses. -/
theorem sqlSeps_eq_source : Tok.sqlSeps = Gen.c06_sqlSeps := by decide

/-- The keys of `mysql.ParseTokenMap` are the ones the model knows. -/
theorem parseTokenKeys_eq_source : FastPath.parseTokenKeys = Gen.c06_parseTokenKeys := by decide

/-- `mysql.ParseTokenIdStrMap` for the five statement keywords the pre-check switches on. -/
theorem keyword_neighbours_eq_source :
    Gen.c06_tokenNeighbour =
      [("select", "from"), ("delete", "from"), ("insert", "into"), ("replace", "into"), ("update", "set")] := by
  decide

/-- The statement kinds of `parser.Preview` the models use. -/
theorem stmt_kinds_eq_source :
    (FastPath.stmtSelect, FastPath.stmtInsert, FastPath.stmtReplace, FastPath.stmtUpdate,
      FastPath.stmtDelete, FastPath.stmtShow, FastPath.stmtComment)
    = (Gen.c06_StmtSelect, Gen.c06_StmtInsert, Gen.c06_StmtReplace, Gen.c06_StmtUpdate,
      Gen.c06_StmtDelete, Gen.c06_StmtShow, Gen.c06_StmtComment) := by decide

theorem lastInsertIdMark_eq_source : String.ofList FastPath.lastInsertIdMark = Gen.c06_lastInsetIdMark := by decide

/-! ### helper lemmas -/

/-- `Tokenize` cannot panic: its only index expression, `tokens[0]`, is
    evaluated only for texts that start with `/*`, which always have a token
    (`Tok.tokens_of_block_comment_ne_nil`). -/
theorem tokenize_never_panics (s : Str) : tokenize s ≠ .panic := by
  obtain ⟨t, ht⟩ := tokenize_ok s
  rw [ht]; simp

/-- No word of the statement, lower-cased, is the name of a table with a rule. -/
def NoRuledWord (rules : List (Str × Str)) (sql : Str) : Prop :=
  ∀ w ∈ identWords sql, ∀ r ∈ rules, r.2 ≠ toLower w

theorem mentionsShardTable_false_iff (sql : Str) (rules : List (Str × Str)) :
    mentionsShardTable sql rules = false ↔ NoRuledWord rules sql := by
  unfold mentionsShardTable NoRuledWord
  simp only [List.any_eq_false, List.any_eq_true, not_exists, not_and, beq_iff_eq]

/-! ### helper lemmas: words and the router -/

theorem fieldsAux_no_sep (f : Char → Bool) (cur s : Str) (hcur : ∀ c ∈ cur, f c = false) :
    ∀ w ∈ fieldsAux f cur s, ∀ c ∈ w, f c = false := by
  induction s generalizing cur with
  | nil =>
    intro w hw c hc
    simp only [fieldsAux] at hw
    split at hw
    · simp at hw
    · simp only [List.mem_singleton] at hw
      subst hw
      exact hcur c (by simpa using hc)
  | cons x s ih =>
    intro w hw
    simp only [fieldsAux] at hw
    by_cases hx : f x = true
    · simp only [hx, if_true] at hw
      split at hw
      · exact ih [] (by simp) w hw
      · simp only [List.mem_cons] at hw
        rcases hw with h | h
        · subst h
          intro c hc
          exact hcur c (by simpa using hc)
        · exact ih [] (by simp) w h
    · simp only [hx] at hw
      apply ih (x :: cur) _ w hw
      intro c hc
      simp only [List.mem_cons] at hc
      rcases hc with h | h
      · subst h; simpa using hx
      · exact hcur c h

theorem upper_shift_ne_dot : ∀ n < 91, 65 ≤ n → Char.ofNat (n + 32) ≠ '.' := by decide

theorem lowerChar_ne_dot (c : Char) (h : isIdentChar c = true) : lowerChar c ≠ '.' := by
  have hc : c ≠ '.' := by intro h'; subst h'; exact absurd h (by decide)
  unfold lowerChar
  split
  · rename_i hu
    have h1 : 65 ≤ c.toNat := by
      have := Char.le_def.1 hu.1
      exact UInt32.le_iff_toNat_le.1 this
    have h2 : c.toNat < 91 := by
      have := Char.le_def.1 hu.2
      have := UInt32.le_iff_toNat_le.1 this
      have e : ('Z' : Char).val.toNat = 90 := by decide
      simp only [Char.toNat]
      omega
    exact upper_shift_ne_dot c.toNat h2 h1
  · split
    · decide
    · split
      · decide
      · exact hc

theorem splitAll_no_sep (sep : Char) (s : Str) (h : ∀ c ∈ s, c ≠ sep) : splitAll sep s = [s] := by
  induction s with
  | nil => rfl
  | cons c s ih =>
    have hc : (c == sep) = false := by simpa using h c (by simp)
    simp only [splitAll, hc, Bool.false_eq_true, if_false]
    rw [ih (fun d hd => h d (by simp [hd]))]

/-- A word of the statement is looked up in the router as it stands (no dotted form). -/
theorem hasRule_word (rules : List (Str × Str)) (db w : Str) (hw : ∀ c ∈ w, isIdentChar c = true) :
    hasRule rules db (toLower w) = rules.contains (db, toLower w) := by
  unfold hasRule
  have : splitAll '.' (toLower w) = [toLower w] := by
    apply splitAll_no_sep
    intro c hc
    simp only [toLower, List.mem_map] at hc
    obtain ⟨d, hd, hdc⟩ := hc
    rw [← hdc]
    exact lowerChar_ne_dot d (hw d hd)
  simp only [this]

/-! ### the property -/

/-- What an "unshard" answer of the last step means. -/
theorem finish_unshard (g : Bool) (cfg : Cfg) (sql : Str) (r : Option (Str × Bool)) (d : Str)
    (h : finish g cfg sql r = .unshard d) :
    (g = true → mentionsShardTable sql cfg.rules = false) ∧ preCreateOK cfg.phyDBs d = true ∧
      finish false cfg sql r = .unshard d := by
  unfold finish at h ⊢
  match r, h with
  | some (ruleDB, isUnshard), h =>
    simp only at h ⊢
    split at h
    · rename_i hc
      injection h with h; subst h
      simp only [Bool.and_eq_true, Bool.not_eq_eq_eq_not, Bool.not_true, Bool.and_eq_false_iff] at hc
      obtain ⟨⟨h1, h2⟩, h3⟩ := hc
      refine ⟨?_, h3, ?_⟩
      · intro hg
        rcases h2 with h2 | h2
        · rw [hg] at h2; cases h2
        · exact h2
      · simp [h1, h3]
    · cases h

/-- The two ways `preDecide` answers "unshard". -/
theorem preDecide_unshard (g : Bool) (cfg : Cfg) (db : Str) (st : Nat) (sql : Str) (tokens : List Str) (d : Str)
    (h : preDecide g cfg db st sql tokens = .unshard d) :
    (cfg.rules = [] ∧ preCreateOK cfg.phyDBs db = true ∧ d = db ∧ preDecide false cfg db st sql tokens = .unshard d) ∨
    (∃ r, finish g cfg sql r = .unshard d ∧
      (finish false cfg sql r = .unshard d → preDecide false cfg db st sql tokens = .unshard d)) := by
  unfold preDecide at h ⊢
  match tokens, h with
  | t0 :: tl, h =>
    simp only at h ⊢
    by_cases h1 : (st == stmtComment || lastInsertIdGuard (t0 :: tl)) = true
    · simp only [h1, if_true] at h; cases h
    · simp only [h1] at h ⊢
      by_cases h2 : (cfg.rules.isEmpty && preCreateOK cfg.phyDBs db) = true
      · simp only [h2, if_true] at h ⊢
        injection h with h; subst h
        simp only [Bool.and_eq_true, List.isEmpty_iff] at h2
        exact Or.inl ⟨h2.1, h2.2, rfl, rfl⟩
      · simp only [h2] at h ⊢
        match hp : parseToken t0, h with
        | some kw, h =>
          simp only at h ⊢
          exact Or.inr ⟨_, h, fun hf => by simpa using hf⟩

/-- **C06, soundness of the pre-check.**  For every namespace (router rules,
    physical databases), session database, statement kind and statement text:
    if `preBuildUnshardPlan` answers "unshard" (the statement is forwarded
    unrewritten to the default slice and the parser never sees it), then no
    word of the statement is, lower-cased, the name of a sharded, linked or
    global table of any database. -/
theorem fastpath_sound (cfg : Cfg) (db : Str) (st : Nat) (sql : Str) (d : Str)
    (h : preBuildUnshardPlan cfg db st sql = .ok (.unshard d)) :
    NoRuledWord cfg.rules sql := by
  unfold preBuildUnshardPlan at h
  split at h
  · rename_i tokens _
    have h' : preDecide true cfg db st sql tokens = .unshard d := by
      injection h
    rcases preDecide_unshard true cfg db st sql tokens d h' with ⟨hr, _⟩ | ⟨r, hf, _⟩
    · intro w _ r hr'
      rw [hr] at hr'
      cases hr'
    · exact (mentionsShardTable_false_iff sql cfg.rules).1 ((finish_unshard true cfg sql r d hf).1 rfl)
  · cases h
  · cases h

example : preBuildUnshardPlan { rules := [("db_ks".toList, "t_shard".toList)], phyDBs := [] }
    "db_ks".toList 0 "select * from u where id = 1".toList = .ok (.unshard "db_ks".toList) := by decide

/-- **C06, every way of writing the name.**  If the statement contains, as a
    word (delimited on each side by the end of the text or by any character that
    is not a letter, digit, `_`, `$` or non-ASCII: blank, line break, comma,
    back-quote, dot, parenthesis, comment mark …), a spelling in any letter case
    of the name of a table with a rule, the pre-check does not answer "unshard",
    whatever precedes and follows: other tables, JOINs, sub-queries, comments. -/
theorem fastpath_never_shortcuts_mention (cfg : Cfg) (db : Str) (st : Nat) (pre name post : Str) (d : Str)
    (r : Str × Str) (hr : r ∈ cfg.rules) (hname : r.2 = toLower name)
    (hne : name ≠ []) (hid : ∀ c ∈ name, isIdentChar c = true)
    (hpre : ∀ c, pre.getLast? = some c → isIdentChar c = false)
    (hpost : ∀ c, post.head? = some c → isIdentChar c = false) :
    preBuildUnshardPlan cfg db st (pre ++ name ++ post) ≠ .ok (.unshard d) := by
  intro h
  have hs := fastpath_sound cfg db st _ d h
  have hmem : name ∈ identWords (pre ++ name ++ post) := by
    unfold identWords
    apply mem_fieldsFunc_of_delimited _ pre name post hne
    · intro c hc; simp [hid c hc]
    · intro c hc; simp [hpre c hc]
    · intro c hc; simp [hpost c hc]
  exact hs name hmem r hr hname

/-- Instances of the previous theorem for the spellings the pinned tree let through. -/
example (d : Str) : preBuildUnshardPlan { rules := [("db_ks".toList, "t_shard".toList)], phyDBs := [] }
    "db_ks".toList 0 ("select * from u join ".toList ++ "T_Shard".toList ++ " on 1=1".toList) ≠ .ok (.unshard d) :=
  fastpath_never_shortcuts_mention _ _ _ _ _ _ d ("db_ks".toList, "t_shard".toList) (by simp) (by decide)
    (by decide) (by decide) (by decide) (by decide)

/-- **C06, against the parser-based analysis.**  Under the assumption
    `parser_tables_are_words` — every table name the parser reports for the
    statement is one of its words — a statement the pre-check forwards is one in
    which `plan.Checker` finds no sharded table: `BuildPlan` would not have built
    a shard plan for it.  `tables` are the (schema, name) pairs of the parser's
    `TableName` nodes as written in the statement. -/
theorem fastpath_agrees_with_checker (cfg : Cfg) (db : Str) (st : Nat) (sql : Str) (d : Str)
    (tables : List (Str × Str))
    (h : preBuildUnshardPlan cfg db st sql = .ok (.unshard d))
    (hasm : ∀ t ∈ tables, t.2 ∈ identWords sql) :
    checkerScan cfg.rules db tables ≠ .shard := by
  have hs := fastpath_sound cfg db st sql d h
  induction tables with
  | nil => simp [checkerScan]
  | cons t rest ih =>
    obtain ⟨schema, name⟩ := t
    simp only [checkerScan]
    generalize (if (toLower schema).isEmpty = true then db else toLower schema) = db'
    by_cases h1 : (db.isEmpty && (toLower schema).isEmpty) = true
    · simp [h1]
    · simp only [h1, Bool.false_eq_true, if_false]
      by_cases hr : hasRule cfg.rules db' (toLower name) = true
      · exfalso
        have hmem : name ∈ identWords sql := hasm (schema, name) (by simp)
        have hid : ∀ c ∈ name, isIdentChar c = true := by
          intro c hc
          have := fieldsAux_no_sep (fun c => !isIdentChar c) [] sql (by simp) name hmem c hc
          simpa using this
        rw [hasRule_word _ _ _ hid] at hr
        have : (db', toLower name) ∈ cfg.rules := by simpa using hr
        exact hs name hmem _ this rfl
      · simp only [hr, Bool.false_eq_true, if_false]
        exact ih (fun t ht => hasm t (by simp [ht]))

example : checkerScan [("db_ks".toList, "t_shard".toList)] "db_ks".toList [("".toList, "T_SHARD".toList)] = .shard := by decide

/-- The guard only removes shortcuts: whatever the current pre-check forwards,
    the pre-check of the pinned tree forwarded too, to the same database. -/
theorem guard_only_restricts (cfg : Cfg) (db : Str) (st : Nat) (sql : Str) (d : Str)
    (h : preBuildUnshardPlan cfg db st sql = .ok (.unshard d)) :
    preBuildUnshardPlanPinned cfg db st sql = .ok (.unshard d) := by
  unfold preBuildUnshardPlan at h
  unfold preBuildUnshardPlanPinned
  split at h
  · rename_i tokens heq
    have h' : preDecide true cfg db st sql tokens = .unshard d := by injection h
    congr 1
    rcases preDecide_unshard true cfg db st sql tokens d h' with ⟨_, _, _, hp⟩ | ⟨r, hf, hp⟩
    · exact hp
    · exact hp (finish_unshard true cfg sql r d hf).2.2
  · cases h
  · cases h

/-- The shortcut is only taken to a database whose physical name is its own. -/
theorem fastpath_database_ok (cfg : Cfg) (db : Str) (st : Nat) (sql : Str) (d : Str)
    (h : preBuildUnshardPlan cfg db st sql = .ok (.unshard d)) :
    preCreateOK cfg.phyDBs d = true := by
  unfold preBuildUnshardPlan at h
  split at h
  · rename_i tokens _
    have h' : preDecide true cfg db st sql tokens = .unshard d := by injection h
    rcases preDecide_unshard true cfg db st sql tokens d h' with ⟨_, hp, hd, _⟩ | ⟨r, hf, _⟩
    · rw [hd]; exact hp
    · exact (finish_unshard true cfg sql r d hf).2.1
  · cases h
  · cases h

/-- `preBuildUnshardPlan` cannot panic. -/
theorem preBuildUnshardPlan_never_panics (cfg : Cfg) (db : Str) (st : Nat) (sql : Str) :
    preBuildUnshardPlan cfg db st sql ≠ .panic := by
  obtain ⟨tokens, ht⟩ := tokenize_ok sql
  simp [preBuildUnshardPlan, ht]

/-! ### the pinned tree violated the property: witnesses

  `preBuildUnshardPlanPinned` is the pre-check before the `fix:` commit that
  added the guard.  Each witness is a statement that mentions the sharded table
  `db_ks.t_shard` (so the parser-based analysis builds a shard plan) and that
  the pinned pre-check forwarded unrewritten.  They are regression cases of
  corpus/C06. -/

def witnessCfg : Cfg := { rules := [("db_ks".toList, "t_shard".toList)], phyDBs := [("db_ks".toList, "db_ks".toList)] }

theorem fastpath_unsound_witness_case :
    preBuildUnshardPlanPinned witnessCfg "db_ks".toList 0 "select * from T_SHARD".toList
      = .ok (.unshard "db_ks".toList) := by decide

theorem fastpath_unsound_witness_comma_join :
    preBuildUnshardPlanPinned witnessCfg "db_ks".toList 0 "select * from u, t_shard".toList
      = .ok (.unshard "db_ks".toList) := by decide

theorem fastpath_unsound_witness_join :
    preBuildUnshardPlanPinned witnessCfg "db_ks".toList 0 "select * from u join t_shard on u.id = t_shard.id".toList
      = .ok (.unshard "db_ks".toList) := by decide

theorem fastpath_unsound_witness_subquery :
    preBuildUnshardPlanPinned witnessCfg "db_ks".toList 0 "select * from (select * from t_shard) x".toList
      = .ok (.unshard "db_ks".toList) := by decide

theorem fastpath_unsound_witness_backquote :
    preBuildUnshardPlanPinned witnessCfg "db_ks".toList 0 "select * from`t_shard`".toList
      = .ok (.unshard "db_ks".toList) := by decide

theorem fastpath_unsound_witness_insert_without_into :
    preBuildUnshardPlanPinned witnessCfg "db_ks".toList 2 "insert t_shard values (1)".toList
      = .ok (.unshard "db_ks".toList) := by decide

/-- … and the current pre-check refuses each of them. -/
theorem fastpath_witnesses_repaired :
    preBuildUnshardPlan witnessCfg "db_ks".toList 0 "select * from T_SHARD".toList = .ok .no ∧
    preBuildUnshardPlan witnessCfg "db_ks".toList 0 "select * from u, t_shard".toList = .ok .no ∧
    preBuildUnshardPlan witnessCfg "db_ks".toList 0 "select * from u join t_shard on u.id = t_shard.id".toList = .ok .no ∧
    preBuildUnshardPlan witnessCfg "db_ks".toList 0 "select * from (select * from t_shard) x".toList = .ok .no ∧
    preBuildUnshardPlan witnessCfg "db_ks".toList 0 "select * from`t_shard`".toList = .ok .no ∧
    preBuildUnshardPlan witnessCfg "db_ks".toList 2 "insert t_shard values (1)".toList = .ok .no := by decide

end GaeaVerif.C06
