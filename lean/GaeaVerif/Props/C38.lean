import GaeaVerif.Model.Crash
import GaeaVerif.Lemmas.BufOwn
import GaeaVerif.Lemmas.BufIso
import GaeaVerif.Gen.Consts
import GaeaVerif.Props.C12
/-
  C38 — Malformed client input never crashes the proxy.

  "No byte sequence sent by a client, during the handshake or as a command,
   terminates the proxy process, hangs it, or affects other sessions; the
   client receives an error or its connection is closed."

  The theorems are about `Model/Crash.lean` (decoders with Go's index / slice
  semantics and an explicit `panic` outcome, the command loop of `Session.Run`,
  the goroutine of a connection, several connections in one process); the tie
  to /repo is the correspondence `gvh run C38` (real `Session.Handshake` /
  `Session.Run` on scripted connections, and in the thorough tier the real
  `Server` accept loop over TCP) plus the translator facts of
  `harness/extract/c38.go`, which the theorems of the first section mention.

  Main theorems (all for every byte string / packet sequence / interleaving,
  no bound):
    readHandshakeResponse_never_panics   handshake decoding is panic-free
    checkHashPassword_panics_iff         exactly when CheckHashPassword panics
    executeCommand_never_panics, run_never_panics
                                         with the DATE/TIME/DATETIME length check in place the command
                                         phase is panic-free (statement-table invariant `WF`)
    executeCommand_panic_only_in_execute without it, only COM_STMT_EXECUTE can panic
    malformed_answered_with_error        protocol-level malformed packets get an error answer
    decoders_panic_free                  the same for the current tree once both guards are in the source
    decoders_contained                   for the current tree's goroutine roots (translator facts) no
                                         input makes a connection's goroutine terminate the process,
                                         for every variant of the decoders
    sessions_isolated                    in every interleaving of several connections each connection
                                         gets exactly what it would get alone, and the process lives
  Second part (namespace GaeaVerif.C38.Own, about `Model/BufOwn.lean`): the
  pooled packet buffers that all connections of the process share
  (mysql.bufPool), for every interleaving of the atomic steps of any number of
  sessions and every arrival of client bytes:
    buffers_held_once                    no buffer is ever in the pool twice, held by two connections, or
                                         held by a connection and in the pool — whatever program the
                                         sessions run on top of mysql.Conn's ephemeral-buffer functions
    recycled_buffer_never_read           with the programs of the repaired source (readHandshakeResponse,
                                         handleHandshakeResponse, Session.Handshake, Session.Run) every
                                         pooled buffer a session reads is the one its connection holds at
                                         that moment: not in the pool, not held by anybody else
    sessions_isolated_on_shared_buffers  hence, in every interleaving, everything a session lets the outside see
                                         (decoded handshake, the auth response as the password check finds it,
                                         answers, statements sent to the backend) is exactly what it shows when
                                         it runs alone in a process of its own, on the same client bytes
    pool_get_put_never_panic             bufPool.Get / Put never panic (the bucket exists, the buffer fits)
    current_tree_*                       the same for the three decisions as the translator finds them
    *_witness                            each of the three decisions matters (the repaired defects and the
                                         seeded double put)
  Not proved here (`…_partial` in spirit, see tools/claimed/C38.json): absence of
  hangs and of Go-runtime fatal errors; the SQL layer behind `handleQuery`.
-/
namespace GaeaVerif.C38
open GaeaVerif GaeaVerif.LenEnc GaeaVerif.Crash

/-! ### facts of the current source tree (translator, regenerated on every run) -/

/-- The goroutine roots of a connection as the current source has them. -/
def treeRoots : Roots := ⟨Gen.c38OnConnRecovers, Gen.c38RunRecovers⟩

/-- `Server.onConn`, `Session.Run` and `SessionExecutor.handleQuery` each install a deferred `recover()`. -/
theorem goroutine_roots_recover :
    Gen.c38OnConnRecovers = true ∧ Gen.c38RunRecovers = true ∧ Gen.c38HandleQueryRecovers = true := by decide

/-- Every `go` statement of the session path starts a goroutine in which a panic is stopped. -/
theorem every_session_path_goroutine_is_stopped :
    Gen.c38Roots.all (fun r => r.2 == "recover" || r.2 == "delegated") = true := by decide

/-- The accept loop starts `onConn` (the root of everything a client's bytes reach) with a recover. -/
theorem accept_loop_starts_onConn_with_recover :
    ("server.go:Server.Run:onConn", "recover") ∈ Gen.c38Roots := by decide

/-- Nothing on the path calls `os.Exit` / `log.Fatal`-that-exits. -/
theorem no_process_exit_calls : Gen.c38ExitCalls = [] := by decide

/-- The modelled decoders assign to no package-level variable: what they write
    is the session's own state (the premise of the shape of `World.step`). -/
theorem decoders_write_only_session_state : Gen.c38SharedWrites = [] := by decide

/-- The command bytes and capability bits of the model are those of mysql/constants.go. -/
theorem constants_match :
    comQuit.toNat = Gen.c38ComQuit ∧ comInitDB.toNat = Gen.c38ComInitDB ∧ comQuery.toNat = Gen.c38ComQuery ∧
    comFieldList.toNat = Gen.c38ComFieldList ∧ comPing.toNat = Gen.c38ComPing ∧
    comStmtPrepare.toNat = Gen.c38ComStmtPrepare ∧ comStmtExecute.toNat = Gen.c38ComStmtExecute ∧
    comStmtSendLongData.toNat = Gen.c38ComStmtSendLongData ∧ comStmtClose.toNat = Gen.c38ComStmtClose ∧
    comStmtReset.toNat = Gen.c38ComStmtReset ∧ comSetOption.toNat = Gen.c38ComSetOption ∧
    clientConnectWithDB = Gen.c38ClientConnectWithDB ∧ clientProtocol41 = Gen.c38ClientProtocol41 ∧
    clientSecureConnection = Gen.c38ClientSecureConnection ∧ clientPluginAuth = Gen.c38ClientPluginAuth ∧
    clientPluginAuthLenencClientData = Gen.c38ClientPluginAuthLenencClientData := by decide

/-! ### helper lemmas and the per-function results -/

theorem not_panic_of_inBounds {α : Type} {d : Bytes} {pos : Int} {next : α → Int} {val : α → Option Bytes}
    {r : R α} (h : C12.InBounds d pos next val r) : r ≠ .panic := by
  intro e; subst e; exact h

theorem readUintN_ne_panic (n : Nat) (d : Bytes) (pos : Int) : readUintN n d pos ≠ .panic :=
  not_panic_of_inBounds (C12.readUintN_in_bounds n d pos)

theorem readByte_ne_panic (d : Bytes) (pos : Int) : readByte d pos ≠ .panic :=
  not_panic_of_inBounds (C12.readByte_in_bounds d pos)

theorem readNull_ne_panic (d : Bytes) (pos : Int) : readNull d pos ≠ .panic :=
  not_panic_of_inBounds (C12.readNull_in_bounds d pos)

theorem readLenEncInt_ne_panic (d : Bytes) (pos : Int) : readLenEncInt d pos ≠ .panic :=
  not_panic_of_inBounds (C12.readLenEncInt_in_bounds d pos)

theorem readBytes_ne_panic (d : Bytes) (pos size : Int) : readBytes d pos size ≠ .panic :=
  not_panic_of_inBounds (C12.readBytes_in_bounds d pos size)

theorem readLenEncStringAsBytes_ne_panic (d : Bytes) (pos : Int) : readLenEncStringAsBytes d pos ≠ .panic :=
  not_panic_of_inBounds (C12.readLenEncStringAsBytes_in_bounds d pos)

theorem hsPluginPart_ne_panic (pp : Bytes) (second : Option Bytes) (cap coll : Nat) (user auth db data : Bytes) (pos : Int) :
    hsPluginPart pp second cap coll user auth db data pos ≠ .panic := by
  unfold hsPluginPart
  have := readNull_ne_panic data pos
  repeat' split
  all_goals simp_all

theorem hsDbPart_ne_panic (pp : Bytes) (second : Option Bytes) (cap coll : Nat) (user auth data : Bytes) (pos : Int) :
    hsDbPart pp second cap coll user auth data pos ≠ .panic := by
  unfold hsDbPart
  have := readNull_ne_panic data pos
  split
  · split
    · simp_all
    · simp
    · exact hsPluginPart_ne_panic _ _ _ _ _ _ _ _ _
  · exact hsPluginPart_ne_panic _ _ _ _ _ _ _ _ _

/-- **C38 (handshake decoding).** `readHandshakeResponse` never panics, whatever the bytes. -/
theorem readHandshakeResponse_never_panics (pp data : Bytes) (second : Option Bytes) :
    readHandshakeResponse pp data second ≠ .panic := by
  unfold readHandshakeResponse
  split
  · exact absurd ‹_› (readUintN_ne_panic _ _ _)
  · simp
  · split
    · simp
    · split
      · exact absurd ‹_› (readUintN_ne_panic _ _ _)
      · simp
      · split
        · exact absurd ‹_› (readByte_ne_panic _ _)
        · simp
        · simp only
          split
          · exact absurd ‹_› (readNull_ne_panic _ _)
          · simp
          · split
            · exact absurd ‹_› (readLenEncInt_ne_panic _ _)
            · simp
            · split
              · rename_i h
                split at h
                · exact absurd h (readBytes_ne_panic _ _ _)
                · exact absurd h (readNull_ne_panic _ _)
              · simp
              · exact hsDbPart_ne_panic _ _ _ _ _ _ _ _

theorem goIdx_nat (d : Bytes) (i : Nat) :
    goIdx d (i : Int) = if i < d.length then .ok (d.getD i 0) else .panic := by
  unfold goIdx
  by_cases h : i < d.length
  · simp [h]
  · simp [h]

theorem xorLoop_spec (hash resp : Bytes) (i : Nat) (hi : i ≤ hash.length) :
    xorLoop hash resp i = if i + resp.length ≤ hash.length then .ok () else .panic := by
  induction resp generalizing i with
  | nil => simp [xorLoop, hi]
  | cons b rest ih =>
    simp only [xorLoop, goIdx_nat, List.length_cons]
    by_cases h : i < hash.length
    · simp only [h, if_true, ih (i + 1) (by omega)]
      by_cases h2 : i + 1 + rest.length ≤ hash.length
      · have : i + (rest.length + 1) ≤ hash.length := by omega
        simp [h2, this]
      · have : ¬ i + (rest.length + 1) ≤ hash.length := by omega
        simp [h2, this]
    · have : ¬ i + (rest.length + 1) ≤ hash.length := by omega
      simp [h, this]

/-- **CheckHashPassword.** With a 20-byte digest the function panics exactly
    when the stored password is non-empty, the length guard is absent and the
    client's response is longer than the digest. -/
theorem checkHashPassword_panics_iff (v : Variant) (resp hash : Bytes) (encLen : Nat) (hh : hash.length = sha1Len) :
    checkHashPassword v resp hash encLen = .panic ↔
      (encLen ≠ 0 ∧ v.hashLenGuard = false ∧ resp.length > sha1Len) := by
  unfold checkHashPassword
  simp only [xorLoop_spec hash resp 0 (by omega), hh, Nat.zero_add]
  by_cases h0 : encLen = 0
  · simp [h0]
  · cases hg : v.hashLenGuard
    · by_cases h2 : resp.length ≤ sha1Len
      · simp [h0, h2]
      · simp [h0, h2]; omega
    · by_cases h3 : resp.length = sha1Len
      · simp [h0, h3]
      · simp [h0, h3]

theorem checkHashPassword_guarded_never_panics (v : Variant) (resp hash : Bytes) (encLen : Nat)
    (hh : hash.length = sha1Len) (hg : v.hashLenGuard = true) : checkHashPassword v resp hash encLen ≠ .panic := by
  intro h
  have := (checkHashPassword_panics_iff v resp hash encLen hh).mp h
  simp [hg] at this

/-- the defect of the pinned tree, on the model: a 21-byte response for a user with a stored hash -/
theorem checkHashPassword_witness :
    checkHashPassword ⟨false, false, false⟩ (List.replicate 21 0) (List.replicate 20 0) 40 = .panic := by decide

theorem setArg_length {args a' : List Arg} {i : Nat} {a : Arg} (h : setArg args i a = some a') :
    a'.length = args.length := by
  unfold setArg at h
  split at h
  · cases h; simp
  · cases h

theorem setArg_some (args : List Arg) (i : Nat) (a : Arg) (h : i < args.length) :
    setArg args i a = some (args.set i a) := by
  unfold setArg; simp [h]

theorem goIdx_ok_iff (d : Bytes) (i : Int) : (∃ b, goIdx d i = .ok b) ↔ (0 ≤ i ∧ i < d.length) := by
  unfold goIdx
  by_cases h : 0 ≤ i ∧ i < d.length
  · simp [h]
  · simp [h]

theorem goIdx_of_bounds (d : Bytes) (i : Int) (h : 0 ≤ i ∧ i < d.length) : goIdx d i = .ok (d.getD i.toNat 0) := by
  unfold goIdx; simp [h]

theorem goSlice_length {d s : Bytes} {lo hi : Int} (h : goSlice d lo hi = .ok s) : (s.length : Int) = hi - lo := by
  unfold goSlice at h
  split at h
  · cases h
    simp only [List.length_take, List.length_drop]
    omega
  · cases h

/-! ### FormatBinary…: no panic on a payload of the announced length -/

theorem formatBinaryDate_ne_panic (n : Nat) (d : Bytes) (h : d.length = n) : formatBinaryDate n d ≠ .panic := by
  unfold formatBinaryDate
  simp only [bind, R.bind]
  split
  · simp
  · split
    · rename_i h1 h2
      have hn : 4 ≤ n := by
        simp only [Bool.or_eq_true, beq_iff_eq] at h2; omega
      rw [C12.goSlice_ok d 0 2 (by omega), goIdx_of_bounds d 2 (by omega), goIdx_of_bounds d 3 (by omega)]
      simp
    · split <;> simp

theorem formatBinaryDateTime_ne_panic (n : Nat) (d : Bytes) (h : d.length = n) : formatBinaryDateTime n d ≠ .panic := by
  unfold formatBinaryDateTime
  simp only [bind, R.bind]
  split
  · simp
  · split
    · rename_i h1 h2
      have hn : n = 4 := by simpa using h2
      rw [C12.goSlice_ok d 0 2 (by omega), goIdx_of_bounds d 2 (by omega), goIdx_of_bounds d 3 (by omega)]
      simp
    · split
      · rename_i h1 h2 h3
        have hn : n = 7 := by simpa using h3
        rw [C12.goSlice_ok d 0 2 (by omega), goIdx_of_bounds d 2 (by omega), goIdx_of_bounds d 3 (by omega),
          goIdx_of_bounds d 4 (by omega), goIdx_of_bounds d 5 (by omega), goIdx_of_bounds d 6 (by omega)]
        simp
      · split
        · rename_i h1 h2 h3 h4
          have hn : n = 11 := by simpa using h4
          rw [C12.goSlice_ok d 0 2 (by omega), goIdx_of_bounds d 2 (by omega), goIdx_of_bounds d 3 (by omega),
            goIdx_of_bounds d 4 (by omega), goIdx_of_bounds d 5 (by omega), goIdx_of_bounds d 6 (by omega),
            C12.goSlice_ok d 7 11 (by omega)]
          simp
        · split <;> simp

theorem formatBinaryTime_ne_panic (n : Nat) (d : Bytes) (h : d.length = n) : formatBinaryTime n d ≠ .panic := by
  unfold formatBinaryTime
  simp only [bind, R.bind]
  split
  · simp
  · rename_i h0
    have hn : 0 < n := by
      have : n ≠ 0 := by simpa using h0
      omega
    rw [goIdx_of_bounds d 0 (by omega)]
    simp only
    split
    · simp
    · split
      · rename_i h8
        have : n = 8 := by simpa using h8
        rw [goIdx_of_bounds d 1 (by omega), goIdx_of_bounds d 5 (by omega), goIdx_of_bounds d 6 (by omega),
          goIdx_of_bounds d 7 (by omega)]
        simp
      · split
        · rename_i h8 h12
          have : n = 12 := by simpa using h12
          rw [goIdx_of_bounds d 1 (by omega), goIdx_of_bounds d 5 (by omega), goIdx_of_bounds d 6 (by omega),
            goIdx_of_bounds d 7 (by omega), C12.goSlice_ok d 8 12 (by omega)]
          simp
        · simp

theorem temporal_format_ne_panic (t : Temporal) (n : Nat) (d : Bytes) (h : d.length = n) : t.format n d ≠ .panic := by
  cases t
  · exact formatBinaryDate_ne_panic n d h
  · exact formatBinaryTime_ne_panic n d h
  · exact formatBinaryDateTime_ne_panic n d h

/-- What the no-panic induction needs of a decoded value. -/
def ValGood (pos : Int) : ValEnd → Prop
  | .ok _ p => pos ≤ p
  | .err _ => True
  | .panic => False

theorem bindFixed_good (pv : Bytes) (pos : Int) (w : Nat) (hp : 0 ≤ pos) : ValGood pos (bindFixed pv pos w) := by
  unfold bindFixed
  split
  · trivial
  · rename_i h
    rw [C12.goSlice_ok pv pos (pos + w) (by omega)]
    simp only [ValGood]; omega

theorem bindFloat_good (pv : Bytes) (pos : Int) (w : Nat) (hp : 0 ≤ pos) : ValGood pos (bindFloat pv pos w) := by
  unfold bindFloat
  split
  · trivial
  · rename_i h
    rw [C12.goSlice_ok pv pos (pos + w) (by omega)]
    simp only
    split
    · trivial
    · simp only [ValGood]; omega

theorem bindTemporal_good (v : Variant) (hd : v.dateGuard = true) (t : Temporal) (pv : Bytes) (pos : Int)
    (hp : 0 ≤ pos) : ValGood pos (bindTemporal v t pv pos) := by
  unfold bindTemporal
  split
  · trivial
  · rename_i h
    rw [goIdx_of_bounds pv pos (by omega)]
    simp only [hd, Bool.true_and]
    split
    · trivial
    · rename_i h2
      have h2' : ¬ ((pv.length : Int) < pos + 1 + ((pv.getD pos.toNat 0).toNat : Int)) := by simpa using h2
      have hs := C12.goSlice_ok pv (pos + 1) (pos + 1 + ((pv.getD pos.toNat 0).toNat : Int)) (by omega)
      rw [hs]
      simp only
      have hl : ((pv.drop (pos + 1).toNat).take ((pos + 1 + ((pv.getD pos.toNat 0).toNat : Int)).toNat - (pos + 1).toNat)).length
          = (pv.getD pos.toNat 0).toNat := by
        simp only [List.length_take, List.length_drop]; omega
      have := temporal_format_ne_panic t _ _ hl
      split
      · simp only [ValGood]; omega
      · trivial
      · contradiction

theorem bindStr_good (pv : Bytes) (pos : Int) (_hp : 0 ≤ pos) : ValGood pos (bindStr pv pos) := by
  unfold bindStr
  split
  · trivial
  · have hb := C12.readLenEncStringAsBytes_in_bounds pv pos
    split
    · rename_i h; rw [h] at hb; exact hb
    · trivial
    · rename_i h; rw [h] at hb
      simp only [C12.InBounds] at hb
      simp only [ValGood]; omega

theorem bindValue_good (v : Variant) (hd : v.dateGuard = true) (tc : TypeClass) (pv : Bytes) (pos : Int)
    (hp : 0 ≤ pos) : ValGood pos (bindValue v tc pv pos) := by
  unfold bindValue
  cases tc with
  | null => simp [ValGood]
  | fixed w => exact bindFixed_good pv pos w hp
  | float w => exact bindFloat_good pv pos w hp
  | temporal t => exact bindTemporal_good v hd t pv pos hp
  | str => exact bindStr_good pv pos hp
  | unknown => trivial

/-- What one iteration of the binding loop guarantees. -/
def StepGood (n : Nat) (pos : Int) : Except (List Arg × BindEnd) (List Arg × Int) → Prop
  | .ok (a, p) => a.length = n ∧ pos ≤ p
  | .error (a, e) => a.length = n ∧ e ≠ .panic

/-- lengths only (any variant) -/
def StepLen (n : Nat) : Except (List Arg × BindEnd) (List Arg × Int) → Prop
  | .ok (a, _) => a.length = n
  | .error (a, _) => a.length = n

theorem storeArg_good (args : List Arg) (i : Nat) (a : Arg) (pos p : Int) (hi : i < args.length) (hp : pos ≤ p) :
    StepGood args.length pos (storeArg args i a p) := by
  unfold storeArg
  rw [setArg_some args i a hi]
  simp [StepGood, hp]

theorem storeArg_len (args : List Arg) (i : Nat) (a : Arg) (p : Int) : StepLen args.length (storeArg args i a p) := by
  unfold storeArg
  split
  · simp [StepLen]
  · rename_i h; simp [StepLen, setArg_length h]

theorem bindOne_len (v : Variant) (nb pt pv : Bytes) (args : List Arg) (i : Nat) (pos : Int) :
    StepLen args.length (bindOne v nb pt pv args i pos) := by
  unfold bindOne
  split
  · split
    · exact storeArg_len ..
    · split
      · simp [StepLen]
      · split
        · split
          · simp [StepLen]
          · split
            · exact storeArg_len ..
            · simp [StepLen]
            · simp [StepLen]
          · simp [StepLen]
        · simp [StepLen]
  · simp [StepLen]

theorem bindOne_good (v : Variant) (hd : v.dateGuard = true) (nb pt pv : Bytes) (args : List Arg) (i : Nat) (pos : Int)
    (hi : i < args.length) (hnb : i / 8 < nb.length) (hp : 0 ≤ pos) :
    StepGood args.length pos (bindOne v nb pt pv args i pos) := by
  unfold bindOne
  have e1 : ((i : Int) / 8) = ((i / 8 : Nat) : Int) := by omega
  rw [e1, goIdx_of_bounds nb _ (by omega)]
  simp only
  split
  · exact storeArg_good args i .none pos pos hi (by omega)
  · split
    · simp [StepGood]
    · rename_i hlen
      rw [goIdx_of_bounds pt (2 * (i : Int)) (by omega), goIdx_of_bounds pt (2 * (i : Int) + 1) (by omega)]
      simp only
      split
      · rename_i hnone
        have : args[i]? ≠ none := by simp [hi]
        contradiction
      · have hv := bindValue_good v hd (typeClass (pt.getD (2 * (i : Int)).toNat 0)) pv pos hp
        split
        · rename_i a p heq
          rw [heq] at hv
          exact storeArg_good args i a pos p hi hv
        · simp [StepGood]
        · rename_i heq; rw [heq] at hv; exact hv.elim
      · simp [StepGood]

theorem bindLoop_len (v : Variant) (nb pt pv : Bytes) (k i : Nat) (args : List Arg) (pos : Int) :
    (bindLoop v nb pt pv k i args pos).1.length = args.length := by
  induction k generalizing i args pos with
  | zero => simp [bindLoop]
  | succ k ih =>
    simp only [bindLoop]
    have h1 := bindOne_len v nb pt pv args i pos
    split
    · rename_i e heq; rw [heq] at h1; obtain ⟨a, b⟩ := e; simpa [StepLen] using h1
    · rename_i a p heq; rw [heq] at h1
      simp only [StepLen] at h1
      rw [ih, h1]

theorem bindLoop_good (v : Variant) (hd : v.dateGuard = true) (nb pt pv : Bytes) (k i : Nat) (args : List Arg) (pos : Int)
    (hlen : i + k ≤ args.length) (hnb : i + k ≤ 8 * nb.length) (hp : 0 ≤ pos) :
    (bindLoop v nb pt pv k i args pos).2 ≠ .panic := by
  induction k generalizing i args pos with
  | zero => simp [bindLoop]
  | succ k ih =>
    simp only [bindLoop]
    have h1 := bindOne_good v hd nb pt pv args i pos (by omega) (by omega) hp
    split
    · rename_i e heq; rw [heq] at h1; obtain ⟨a, b⟩ := e; exact h1.2
    · rename_i a p heq; rw [heq] at h1
      simp only [StepGood] at h1
      exact ih (i + 1) a p (by omega) (by omega) (by omega)

/-- the invariant of the statement table: `len(s.args) == s.paramCount` -/
def WFStmt (s : Stmt) : Prop := s.args.length = s.paramCount

theorem reset_wf (s : Stmt) : WFStmt s.reset := by simp [WFStmt, Stmt.reset]

theorem afterFailed_wf (v : Variant) (s : Stmt) (h : WFStmt s) : WFStmt (afterFailedExecute v s) := by
  unfold afterFailedExecute; split
  · exact reset_wf s
  · exact h

theorem executeBind_wf (v : Variant) (s : Stmt) (nb pv : Bytes) (h : WFStmt s) : WFStmt (executeBind v s nb pv).1 := by
  unfold executeBind
  have hl := bindLoop_len v nb s.paramTypes pv s.paramCount 0 s.args 0
  unfold bindStmtArgs
  split
  · exact reset_wf _
  · rename_i args t heq
    apply afterFailed_wf
    rw [heq] at hl
    simp only [WFStmt] at *; omega
  · rename_i args heq
    rw [heq] at hl
    simp only [WFStmt] at *; omega

theorem executeBind_ne_panic (v : Variant) (hd : v.dateGuard = true) (s : Stmt) (nb pv : Bytes) (h : WFStmt s)
    (hnb : s.paramCount ≤ 8 * nb.length) : (executeBind v s nb pv).2 ≠ .panic := by
  unfold executeBind bindStmtArgs
  have hg := bindLoop_good v hd nb s.paramTypes pv s.paramCount 0 s.args 0 (by simp only [WFStmt] at h; omega) (by omega) (by omega)
  split
  · simp
  · simp
  · rename_i args heq; rw [heq] at hg; exact (hg rfl).elim

theorem executeParams_wf (v : Variant) (s : Stmt) (data : Bytes) (h : WFStmt s) : WFStmt (executeParams v s data).1 := by
  unfold executeParams
  simp only
  split
  · exact afterFailed_wf v s h
  · split
    · split
      · split
        · exact afterFailed_wf v s h
        · split
          · exact executeBind_wf v _ _ _ h
          · exact h
      · split
        · exact executeBind_wf v _ _ _ h
        · exact h
    · exact h

theorem executeParams_ne_panic (v : Variant) (hd : v.dateGuard = true) (s : Stmt) (data : Bytes) (h : WFStmt s) :
    (executeParams v s data).2 ≠ .panic := by
  unfold executeParams
  simp only
  split
  · simp
  · rename_i hlen
    have hs := C12.goSlice_ok data 9 (9 + (((s.paramCount + 7) / 8 : Nat) : Int)) (by omega)
    rw [hs, goIdx_of_bounds data (9 + (((s.paramCount + 7) / 8 : Nat) : Int)) (by omega)]
    simp only
    have hnb : s.paramCount ≤ 8 * ((data.drop (9 : Int).toNat).take ((9 + (((s.paramCount + 7) / 8 : Nat) : Int)).toNat - (9 : Int).toNat)).length := by
      simp only [List.length_take, List.length_drop]; omega
    split
    · split
      · simp
      · rename_i hl2
        rw [C12.goSlice_ok data _ _ (by omega), C12.goSlice_ok data _ _ (by omega)]
        simp only
        exact executeBind_ne_panic v hd _ _ _ h hnb
    · rw [C12.goSlice_ok data _ _ (by omega)]
      simp only
      exact executeBind_ne_panic v hd _ _ _ h hnb

theorem executeStmt_wf (v : Variant) (s : Stmt) (data : Bytes) (h : WFStmt s) : WFStmt (executeStmt v s data).1 := by
  unfold executeStmt
  split
  · split
    · exact afterFailed_wf v s h
    · split
      · exact executeParams_wf v s data h
      · exact reset_wf s
  · exact h

theorem executeStmt_ne_panic (v : Variant) (hd : v.dateGuard = true) (s : Stmt) (data : Bytes) (h : WFStmt s)
    (hl : 9 ≤ data.length) : (executeStmt v s data).2 ≠ .panic := by
  unfold executeStmt
  rw [goIdx_of_bounds data 4 (by omega)]
  simp only
  split
  · simp
  · split
    · exact executeParams_ne_panic v hd s data h
    · simp

/-- Invariant of a session: every prepared statement's argument vector has one slot per parameter. -/
def WF (st : Sess) : Prop := ∀ p ∈ st.stmts, WFStmt p.2

theorem wf_init : WF Sess.init := by intro p hp; cases hp

theorem lookup_wf {m : List (Nat × Stmt)} {id : Nat} {s : Stmt} (hm : ∀ p ∈ m, WFStmt p.2)
    (h : lookupStmt m id = some s) : WFStmt s := by
  induction m with
  | nil => simp [lookupStmt] at h
  | cons p rest ih =>
    obtain ⟨k, s'⟩ := p
    simp only [lookupStmt] at h
    split at h
    · cases h; exact hm (k, s) (by simp)
    · exact ih (fun p hp => hm p (by simp [hp])) h

theorem store_wf {m : List (Nat × Stmt)} (id : Nat) {s : Stmt} (hm : ∀ p ∈ m, WFStmt p.2) (hs : WFStmt s) :
    ∀ p ∈ storeStmt m id s, WFStmt p.2 := by
  induction m with
  | nil => intro p hp; simp [storeStmt] at hp; subst hp; exact hs
  | cons q rest ih =>
    obtain ⟨k, s'⟩ := q
    intro p hp
    simp only [storeStmt] at hp
    split at hp
    · simp only [List.mem_cons] at hp
      rcases hp with hp | hp
      · subst hp; exact hs
      · exact hm p (by simp [hp])
    · simp only [List.mem_cons] at hp
      rcases hp with hp | hp
      · subst hp; exact hm (k, s') (by simp)
      · exact ih (fun p hp => hm p (by simp [hp])) p hp

theorem delete_wf {m : List (Nat × Stmt)} (id : Nat) (hm : ∀ p ∈ m, WFStmt p.2) :
    ∀ p ∈ deleteStmt m id, WFStmt p.2 := by
  induction m with
  | nil => intro p hp; simp [deleteStmt] at hp
  | cons q rest ih =>
    obtain ⟨k, s'⟩ := q
    intro p hp
    simp only [deleteStmt] at hp
    split at hp
    · exact hm p (by simp [hp])
    · simp only [List.mem_cons] at hp
      rcases hp with hp | hp
      · subst hp; exact hm (k, s') (by simp)
      · exact ih (fun p hp => hm p (by simp [hp])) p hp

/-! ### the handlers -/

theorem handleStmtExecute_wf (v : Variant) (st : Sess) (data : Bytes) (h : WF st) : WF (handleStmtExecute v st data).1 := by
  unfold handleStmtExecute
  split
  · exact h
  · split
    · simp only
      split
      · exact h
      · rename_i s hs
        exact store_wf _ h (executeStmt_wf v s data (lookup_wf h hs))
    · exact h

theorem handleStmtExecute_ne_panic (v : Variant) (hd : v.dateGuard = true) (st : Sess) (data : Bytes) (h : WF st) :
    (handleStmtExecute v st data).2 ≠ .panic := by
  unfold handleStmtExecute
  split
  · simp
  · rename_i hl
    rw [C12.goSlice_ok data 0 4 (by omega)]
    simp only
    split
    · simp
    · rename_i s hs
      exact executeStmt_ne_panic v hd s data (lookup_wf h hs) (by omega)

theorem handleStmtSendLongData_wf (st : Sess) (data : Bytes) (h : WF st) : WF (handleStmtSendLongData st data).1 := by
  unfold handleStmtSendLongData
  split
  · exact h
  · split
    · simp only
      split
      · exact h
      · rename_i s hs
        split
        · exact h
        · split
          · exact h
          · split
            · apply store_wf _ h
              have := lookup_wf h hs
              simp only [WFStmt, List.length_set] at *; exact this
            · exact h
          · split <;> exact h
          · exact h
    · exact h

theorem handleStmtSendLongData_ne_panic (st : Sess) (data : Bytes) (h : WF st) :
    (handleStmtSendLongData st data).2 ≠ .panic := by
  unfold handleStmtSendLongData
  split
  · simp
  · rename_i hl
    rw [C12.goSlice_ok data 0 4 (by omega), C12.goSlice_ok data 4 6 (by omega)]
    simp only
    split
    · simp
    · rename_i s hs
      have hw := lookup_wf h hs
      split
      · simp
      · rename_i hlt
        have hlt' : leNat ((data.drop (4 : Int).toNat).take ((6 : Int).toNat - (4 : Int).toNat)) < s.args.length := by
          have : s.paramCount % 65536 ≤ s.paramCount := Nat.mod_le _ _
          simp only [WFStmt] at hw; omega
        rw [C12.goSlice_ok data 6 data.length (by omega)]
        split
        · rename_i hnone
          have := List.getElem?_eq_none_iff.mp hnone
          omega
        · simp
        · simp
        · simp

theorem handleStmtReset_wf (st : Sess) (data : Bytes) (h : WF st) : WF (handleStmtReset st data).1 := by
  unfold handleStmtReset
  split
  · exact h
  · split
    · simp only
      split
      · exact h
      · exact store_wf _ h (reset_wf _)
    · exact h

theorem handleStmtReset_ne_panic (st : Sess) (data : Bytes) : (handleStmtReset st data).2 ≠ .panic := by
  unfold handleStmtReset
  split
  · simp
  · rename_i hl
    rw [C12.goSlice_ok data 0 4 (by omega)]
    simp only
    split <;> simp

theorem handleStmtClose_wf (st : Sess) (data : Bytes) (h : WF st) : WF (handleStmtClose st data).1 := by
  unfold handleStmtClose
  split
  · exact h
  · split
    · exact delete_wf _ h
    · exact h

theorem handleStmtClose_ne_panic (st : Sess) (data : Bytes) : (handleStmtClose st data).2 ≠ .panic := by
  unfold handleStmtClose
  split
  · simp
  · rename_i hl
    rw [C12.goSlice_ok data 0 4 (by omega)]
    simp

theorem handleStmtPrepare_wf (st : Sess) (sql : Bytes) (h : WF st) : WF (handleStmtPrepare st sql).1 := by
  unfold handleStmtPrepare
  split
  · exact h
  · exact store_wf _ h (by simp [WFStmt])

theorem handleStmtPrepare_ne_panic (st : Sess) (sql : Bytes) : (handleStmtPrepare st sql).2 ≠ .panic := by
  unfold handleStmtPrepare
  split <;> simp

theorem indexZero_lt' (l : Bytes) (e : Nat) (h : indexZero l = some e) : e < l.length := C12.indexZero_lt l e h

theorem handleFieldList_ne_panic (data : Bytes) : handleFieldList data ≠ .panic := by
  unfold handleFieldList indexByteZero
  split
  · simp
  · rename_i index hi
    have := indexZero_lt' data index hi
    rw [C12.goSlice_ok data 0 index (by omega), C12.goSlice_ok data (index + 1) data.length (by omega)]
    simp

theorem handleUseDB_ne_panic (allowed : List Bytes) (db : Bytes) : handleUseDB allowed db ≠ .panic := by
  unfold handleUseDB
  split
  · simp
  · split <;> simp

/-! ### ExecuteCommand -/

theorem executeCommand_wf (v : Variant) (allowed : List Bytes) (st : Sess) (cmd : UInt8) (data : Bytes) (h : WF st) :
    WF (executeCommand v allowed st cmd data).1 := by
  unfold executeCommand
  repeat' split
  all_goals first
    | exact h
    | exact handleStmtPrepare_wf st data h
    | exact handleStmtExecute_wf v st data h
    | exact handleStmtClose_wf st data h
    | exact handleStmtSendLongData_wf st data h
    | exact handleStmtReset_wf st data h

/-- Every handler but `handleStmtExecute` is panic-free for every variant. -/
theorem executeCommand_panic_only_in_execute (v : Variant) (allowed : List Bytes) (st : Sess) (cmd : UInt8) (data : Bytes)
    (h : WF st) (hp : (executeCommand v allowed st cmd data).2 = .panic) : cmd = comStmtExecute := by
  unfold executeCommand at hp
  repeat' split at hp
  all_goals first
    | (simp at hp; done)
    | exact absurd hp (handleUseDB_ne_panic allowed data)
    | exact absurd hp (handleFieldList_ne_panic data)
    | exact absurd hp (handleStmtPrepare_ne_panic st data)
    | exact absurd hp (handleStmtClose_ne_panic st data)
    | exact absurd hp (handleStmtSendLongData_ne_panic st data h)
    | exact absurd hp (handleStmtReset_ne_panic st data)
    | (rename_i hc; simpa using hc)

theorem executeCommand_never_panics (v : Variant) (hd : v.dateGuard = true) (allowed : List Bytes) (st : Sess)
    (cmd : UInt8) (data : Bytes) (h : WF st) : (executeCommand v allowed st cmd data).2 ≠ .panic := by
  intro hp
  have hc := executeCommand_panic_only_in_execute v allowed st cmd data h hp
  subst hc
  have : executeCommand v allowed st comStmtExecute data = handleStmtExecute v st data := by
    unfold executeCommand; simp [comStmtExecute, comQuit, comQuery, comPing, comInitDB, comFieldList, comStmtPrepare]
  rw [this] at hp
  exact handleStmtExecute_ne_panic v hd st data h hp

theorem run_wf (v : Variant) (allowed : List Bytes) (st : Sess) (pkts : List Bytes) (h : WF st) :
    WF (run v allowed st pkts).1 := by
  induction pkts generalizing st with
  | nil => simpa [run] using h
  | cons p rest ih =>
    cases p with
    | nil => simp only [run]; exact ih st h
    | cons cmd data =>
      simp only [run]
      have hw := executeCommand_wf v allowed st cmd data h
      split
      · rename_i st' heq; rw [heq] at hw; exact hw
      · rename_i st' r hnp heq; rw [heq] at hw
        split
        · exact hw
        · exact ih st' hw

/-- **C38 (command phase, repaired decoders).** With the length check on
    temporal parameters in place, `Session.Run` never panics, whatever packets
    the client sends after whatever history. -/
theorem run_never_panics (v : Variant) (hd : v.dateGuard = true) (allowed : List Bytes) (st : Sess) (pkts : List Bytes)
    (h : WF st) : (run v allowed st pkts).2.2 ≠ .panicked := by
  induction pkts generalizing st with
  | nil => simp [run]
  | cons p rest ih =>
    cases p with
    | nil => simp only [run]; exact ih st h
    | cons cmd data =>
      simp only [run]
      have hw := executeCommand_wf v allowed st cmd data h
      have hn := executeCommand_never_panics v hd allowed st cmd data h
      split
      · rename_i st' heq; rw [heq] at hn; exact (hn rfl).elim
      · rename_i st' r hnp heq; rw [heq] at hw
        split
        · simp
        · exact ih st' hw

/-- **C38 (containment, command phase).** If one of the two goroutine roots of a
    connection recovers, no sequence of packets makes the connection's
    goroutine terminate the process: the connection stays open, is closed, or
    is closed by the recover. For every variant of the decoders. -/
theorem command_phase_contained (roots : Roots) (hr : roots.sessionRun = true ∨ roots.onConn = true) (v : Variant)
    (allowed : List Bytes) (st : Sess) (pkts : List Bytes) :
    (connCommandPhase roots v allowed st pkts).2.2 ≠ .crash := by
  unfold connCommandPhase
  split
  · simp
  · simp
  · have : (roots.sessionRun || roots.onConn) = true := by rcases hr with h | h <;> simp [h]
    simp [this]

/-- With the repaired decoders the recover is never needed in the command phase. -/
theorem command_phase_never_recovers (roots : Roots) (v : Variant) (hd : v.dateGuard = true) (allowed : List Bytes)
    (st : Sess) (pkts : List Bytes) (h : WF st) :
    (connCommandPhase roots v allowed st pkts).2.2 = .open ∨ (connCommandPhase roots v allowed st pkts).2.2 = .closed := by
  unfold connCommandPhase
  have := run_never_panics v hd allowed st pkts h
  split
  · simp
  · simp
  · rename_i heq; rw [heq] at this; exact (this rfl).elim

theorem handleHandshakeAuth_guarded (v : Variant) (hg : v.hashLenGuard = true) (known hashed : Bytes → Bool) (i : HsInfo) :
    handleHandshakeAuth v known hashed i ≠ .panic := by
  unfold handleHandshakeAuth
  repeat' split
  all_goals first
    | exact checkHashPassword_guarded_never_panics v _ _ 40 (by simp [sha1Len]) hg
    | simp

/-- **C38 (containment, handshake).** -/
theorem handshake_phase_contained (roots : Roots) (hr : roots.onConn = true) (v : Variant) (known hashed : Bytes → Bool)
    (pp data : Bytes) (second : Option Bytes) :
    (connHandshakePhase roots v known hashed pp data second).2 ≠ .crash := by
  unfold connHandshakePhase
  repeat' split
  all_goals simp_all

/-- With the length guard of CheckHashPassword the handshake never panics. -/
theorem handshake_phase_never_panics (roots : Roots) (v : Variant) (hg : v.hashLenGuard = true)
    (known hashed : Bytes → Bool) (pp data : Bytes) (second : Option Bytes) :
    (connHandshakePhase roots v known hashed pp data second).1 ≠ .panic := by
  unfold connHandshakePhase
  have h1 := readHandshakeResponse_never_panics pp data second
  split
  · contradiction
  · simp
  · rename_i i hi
    have h2 := handleHandshakeAuth_guarded v hg known hashed i
    split
    · contradiction
    · simp

/-! ### isolation -/

theorem stepConn_no_panic_flag_of_ended (v : Variant) (allowed : List Bytes) (c : Conn) (p : Bytes) (h : c.ended = true) :
    stepConn v allowed c p = (c, none, false) := by
  unfold stepConn; simp [h]

/-- the packets of connection `j` in an interleaving -/
def packetsOf (j : Nat) (evs : List (Nat × Bytes)) : List Bytes :=
  evs.filterMap (fun e => if e.1 = j then some e.2 else none)

theorem world_step_crashed (roots : Roots) (hr : roots.sessionRun = true ∨ roots.onConn = true) (v : Variant)
    (allowed : List Bytes) (w : World) (i : Nat) (p : Bytes) (hc : w.crashed = false) :
    (World.step roots v allowed w i p).crashed = false := by
  unfold World.step
  have : (roots.sessionRun || roots.onConn) = true := by rcases hr with h | h <;> simp [h]
  simp [hc, this]

/-- **C38 (other sessions are not affected).** In any interleaving of the
    packets of any number of connections, if a goroutine root recovers, the
    process never terminates and every connection ends in the state, and has
    been sent exactly the answers, it would have got with its own packets alone. -/
theorem sessions_isolated (roots : Roots) (hr : roots.sessionRun = true ∨ roots.onConn = true) (v : Variant)
    (allowed : List Bytes) (w : World) (hc : w.crashed = false) (evs : List (Nat × Bytes)) (j : Nat) :
    (World.run roots v allowed w evs).crashed = false ∧
    ((World.run roots v allowed w evs).conns j, (World.run roots v allowed w evs).sent j)
      = aloneRun v allowed (w.conns j) (w.sent j) (packetsOf j evs) := by
  induction evs generalizing w with
  | nil => simp [World.run, packetsOf, aloneRun, hc]
  | cons e rest ih =>
    obtain ⟨i, p⟩ := e
    simp only [World.run]
    have hc' := world_step_crashed roots hr v allowed w i p hc
    have := ih (World.step roots v allowed w i p) hc'
    refine ⟨this.1, ?_⟩
    rw [this.2]
    by_cases hij : i = j
    · subst hij
      simp only [packetsOf, List.filterMap_cons, if_true, aloneRun]
      unfold World.step
      simp only [hc, Bool.false_eq_true, if_false]
      rcases hs : stepConn v allowed (w.conns i) p with ⟨c', out, pk⟩
      cases out with
      | none => simp
      | some r => simp
    · have h1 : packetsOf j ((i, p) :: rest) = packetsOf j rest := by
        simp [packetsOf, hij]
      rw [h1]
      unfold World.step
      simp only [hc, Bool.false_eq_true, if_false]
      have hji : ¬ j = i := fun h => hij h.symm
      simp [hji]

theorem lookup_none_of_not_mem (m : List (Nat × Stmt)) (id : Nat) (h : (m.map Prod.fst).contains id = false) :
    lookupStmt m id = none := by
  induction m with
  | nil => rfl
  | cons p rest ih =>
    obtain ⟨k, s⟩ := p
    simp only [List.map_cons, List.contains_cons, Bool.or_eq_false_iff, beq_eq_false_iff_ne] at h
    simp only [lookupStmt]
    rw [if_neg (fun e => h.1 e.symm)]
    exact ih h.2

theorem indexZero_none (l : Bytes) (h : l.contains 0 = false) : indexZero l = none := by
  induction l with
  | nil => rfl
  | cons b bs ih =>
    simp only [List.contains_cons, Bool.or_eq_false_iff, beq_eq_false_iff_ne] at h
    simp only [indexZero]
    rw [if_neg (fun e => h.1 e.symm), ih h.2]
    rfl

theorem goSlice_take4 (d : Bytes) (h : 4 ≤ d.length) : goSlice d 0 4 = .ok (d.take 4) := by
  rw [C12.goSlice_ok d 0 4 (by omega)]; simp

/-- **C38 (malformed input is answered with an error).** A packet that the wire
    protocol alone makes malformed gets an error answer from a live session,
    whatever the variant and the session's history. -/
theorem malformed_answered_with_error (v : Variant) (allowed : List Bytes) (st : Sess) (p : Bytes)
    (hm : specMalformed (st.stmts.map Prod.fst) p = true) :
    ∃ t, (stepConn v allowed ⟨st, false⟩ p).2.1 = some (.err t) := by
  cases p with
  | nil => exact ⟨.malform, by simp [stepConn]⟩
  | cons c d =>
    simp only [specMalformed] at hm
    simp only [stepConn, Bool.false_eq_true, if_false]
    split at hm
    · -- not a command the proxy serves
      rename_i hk
      have hk' : knownCommand c = false := by simpa using hk
      simp only [knownCommand, Bool.or_eq_false_iff, beq_eq_false_iff_ne] at hk'
      refine ⟨.unknowncmd, ?_⟩
      have : executeCommand v allowed st c d = (st, .err .unknowncmd) := by
        unfold executeCommand
        simp [hk'.1.1.1.1.1.1.1.1.1.1, hk'.1.1.1.1.1.1.1.1.1.2, hk'.1.1.1.1.1.1.1.1.2, hk'.1.1.1.1.1.1.1.2, hk'.1.1.1.1.1.1.2,
          hk'.1.1.1.1.1.2, hk'.1.1.1.1.2, hk'.1.1.1.2, hk'.1.1.2, hk'.1.2, hk'.2]
      rw [this]
    · split at hm
      · -- COM_STMT_EXECUTE
        rename_i hc
        have hc' : c = comStmtExecute := by simpa using hc
        subst hc'
        have he : executeCommand v allowed st comStmtExecute d = handleStmtExecute v st d := by
          unfold executeCommand; simp [comStmtExecute, comQuit, comQuery, comPing, comInitDB, comFieldList, comStmtPrepare]
        rw [he]
        simp only [Bool.or_eq_true, decide_eq_true_eq, Bool.not_eq_true'] at hm
        by_cases hl : d.length < 9
        · refine ⟨.malform, ?_⟩
          simp [handleStmtExecute, hl, comStmtExecute, comQuit]
        · have hlk : lookupStmt st.stmts (leNat (d.take 4)) = none := by
            rcases hm with hm | hm
            · exact absurd hm hl
            · exact lookup_none_of_not_mem _ _ hm
          refine ⟨.nostmt, ?_⟩
          simp [handleStmtExecute, hl, goSlice_take4 d (by omega), hlk, comStmtExecute, comQuit]
      · split at hm
        · -- COM_STMT_RESET
          rename_i hc
          have hc' : c = comStmtReset := by simpa using hc
          subst hc'
          have he : executeCommand v allowed st comStmtReset d = handleStmtReset st d := by
            unfold executeCommand
            simp [comStmtReset, comQuit, comQuery, comPing, comInitDB, comFieldList, comStmtPrepare, comStmtExecute, comStmtClose,
              comStmtSendLongData]
          rw [he]
          simp only [Bool.or_eq_true, decide_eq_true_eq, Bool.not_eq_true'] at hm
          by_cases hl : d.length < 4
          · refine ⟨.malform, ?_⟩
            simp [handleStmtReset, hl, comStmtReset, comQuit]
          · have hlk : lookupStmt st.stmts (leNat (d.take 4)) = none := by
              rcases hm with hm | hm
              · exact absurd hm hl
              · exact lookup_none_of_not_mem _ _ hm
            refine ⟨.nostmt, ?_⟩
            simp [handleStmtReset, hl, goSlice_take4 d (by omega), hlk, comStmtReset, comQuit]
        · split at hm
          · -- COM_FIELD_LIST
            rename_i hc
            have hc' : c = comFieldList := by simpa using hc
            subst hc'
            have hz : indexZero d = none := indexZero_none d (by simpa using hm)
            refine ⟨.malform, ?_⟩
            simp [executeCommand, handleFieldList, indexByteZero, hz, comFieldList, comQuit, comQuery, comPing, comInitDB]
          · cases hm

/-! ### the current tree -/

/-- **C38 (decoders_contained).** For the goroutine roots the current source
    has, no packet sequence, after any history and for any variant of the three
    decoders under repair, makes a connection's goroutine terminate the
    process; neither does any handshake response. -/
theorem decoders_contained (v : Variant) (allowed : List Bytes) (st : Sess) (pkts : List Bytes)
    (known hashed : Bytes → Bool) (pp data : Bytes) (second : Option Bytes) :
    (connCommandPhase treeRoots v allowed st pkts).2.2 ≠ .crash ∧
    (connHandshakePhase treeRoots v known hashed pp data second).2 ≠ .crash :=
  ⟨command_phase_contained treeRoots (Or.inr (by decide)) v allowed st pkts,
   handshake_phase_contained treeRoots (by decide) v known hashed pp data second⟩

/-- **C38 (sessions_isolated, current tree).** -/
theorem sessions_isolated_current_tree (v : Variant) (allowed : List Bytes) (w : World) (hc : w.crashed = false)
    (evs : List (Nat × Bytes)) (j : Nat) :
    (World.run treeRoots v allowed w evs).crashed = false ∧
    ((World.run treeRoots v allowed w evs).conns j, (World.run treeRoots v allowed w evs).sent j)
      = aloneRun v allowed (w.conns j) (w.sent j) (packetsOf j evs) :=
  sessions_isolated treeRoots (Or.inr (by decide)) v allowed w hc evs j

/-- The three decoders under repair as the current source has them. -/
def treeVariant : Variant := ⟨Gen.c38DateGuard, Gen.c38ResetEarly, Gen.c38HashLenGuard⟩

/-- **C38 (decoders_panic_free).** Once the current tree has the length check
    of bindStmtArgs (`Gen.c38DateGuard`) and the length guard of
    CheckHashPassword (`Gen.c38HashLenGuard`) — both arrive with other
    properties' `fix:` commits — no handshake response and no packet sequence
    panics at all: the recovers are never exercised by these decoders. -/
theorem decoders_panic_free (hd : Gen.c38DateGuard = true) (hg : Gen.c38HashLenGuard = true)
    (allowed : List Bytes) (st : Sess) (hwf : WF st) (pkts : List Bytes)
    (known hashed : Bytes → Bool) (pp data : Bytes) (second : Option Bytes) :
    (run treeVariant allowed st pkts).2.2 ≠ .panicked ∧
    (connHandshakePhase treeRoots treeVariant known hashed pp data second).1 ≠ .panic :=
  ⟨run_never_panics treeVariant hd allowed st pkts hwf,
   handshake_phase_never_panics treeRoots treeVariant hg known hashed pp data second⟩

/-! ### witnesses: the premises matter, and the defects other properties repair -/

/-- `COM_STMT_PREPARE "select ?"` -/
def wPrepare : Bytes := [22, 0x73, 0x65, 0x6c, 0x65, 0x63, 0x74, 0x20, 0x3f]
/-- `COM_STMT_EXECUTE` of statement 0 with one DATE parameter whose length byte says 2 and whose payload is missing -/
def wExecute : Bytes := [23, 0, 0, 0, 0, 0, 1, 0, 0, 0, 0, 1, 10, 0, 2]
def wPing : Bytes := [14]

/-- Without the length check a truncated DATE parameter panics in bindStmtArgs
    (the pinned tree; repaired under C16 by another `fix:` commit). -/
theorem truncated_date_witness :
    (run ⟨false, false, false⟩ [] Sess.init [wPrepare, wExecute, wPing]).2 = ([.prep 0 1], .panicked) := by decide

/-- … and with it the same packet is answered with an error and the session goes on. -/
theorem truncated_date_repaired :
    (run ⟨true, false, false⟩ [] Sess.init [wPrepare, wExecute, wPing]).2
      = ([.prep 0 1, .err .malform, .ok], .open) := by decide

/-- If neither goroutine root recovered, that packet would terminate the process … -/
theorem crash_without_recover_witness :
    (connCommandPhase ⟨false, false⟩ ⟨false, false, false⟩ [] Sess.init [wPrepare, wExecute, wPing]).2.2 = .crash := by
  decide

/-- … and with it every other connection. -/
theorem isolation_needs_recover_witness :
    (World.run ⟨false, false⟩ ⟨false, false, false⟩ [] ⟨fun _ => ⟨Sess.init, false⟩, fun _ => [], false⟩
      [(1, wPrepare), (2, wPing), (1, wExecute)]).crashed = true := by decide

/-! ### non-vacuity -/

/-- the invariant holds initially and after real traffic -/
example : WF Sess.init := wf_init
example : WF (run ⟨true, true, true⟩ [] Sess.init [wPrepare, wExecute, wPing]).1 := run_wf _ _ _ _ wf_init
/-- `run_never_panics` applies to a non-trivial run (a statement is prepared and an execute is rejected) -/
example : (run ⟨true, true, true⟩ [] Sess.init [wPrepare, wExecute, wPing]).2.2 ≠ .panicked :=
  run_never_panics ⟨true, true, true⟩ rfl [] Sess.init _ wf_init
/-- the hypothesis of `command_phase_contained` / `sessions_isolated` holds of the current tree -/
example : treeRoots.sessionRun = true ∨ treeRoots.onConn = true := Or.inr (by decide)
/-- a spec-malformed packet in a session that holds a statement: an execute naming another id -/
example : specMalformed ((run ⟨true, true, true⟩ [] Sess.init [wPrepare]).1.stmts.map Prod.fst)
    [23, 7, 0, 0, 0, 0, 1, 0, 0, 0] = true := by decide
/-- a handshake response that is decoded (protocol 4.1, secure connection, user `u`, 1-byte auth) -/
example : readHandshakeResponse [] ([0, 0x82, 0, 0, 0, 0, 0, 0, 33] ++ List.replicate 23 0 ++ [0x75, 0, 1, 9]) none
    = .info ⟨33280, 33, [0x75], [9], [], []⟩ := by decide
/-- `checkHashPassword_panics_iff`: both sides are inhabited -/
example : checkHashPassword ⟨false, false, false⟩ (List.replicate 20 0) (List.replicate 20 0) 40 = .ok () := by decide

end GaeaVerif.C38


/-!
  ## The packet buffers all connections share (Model/BufOwn.lean)

  `Sys.run cfg w evs` is any interleaving: `evs` names, step by step, which
  session moves and how (an atomic action of its goroutine, the start of a
  goroutine, the arrival of a header / of body bytes / of the end of its
  client's stream).
-/
namespace GaeaVerif.C38.Own
open GaeaVerif GaeaVerif.BufOwn

/-- the three decisions as the current source takes them (translator, harness/extract/c38own.go) -/
def treeVariant : Variant := ⟨Gen.c38CopySwitchResponse, Gen.c38CopyNullAuth, Gen.c38RecycleClears⟩

/-- the constants of the bucket arithmetic are those of the source -/
theorem pool_constants_match : minSize = Gen.c38MinPacketSize ∧ maxSize = Gen.maxPacketSize := by decide

/-- `ExecuteCommand` hands the packet's bytes to the handlers as a copy (`string`, `copy`), as their
    length, or to one of the three handlers that only read them while the command runs -/
theorem execute_command_copies_the_packet :
    ∀ u ∈ Gen.c38ExecuteCommandData, u.2 = "string" ∨ u.2 = "copy" ∨ u.2 = "len" ∨ u.2 = "se.handleFieldList" ∨
      u.2 = "se.handleStmtClose" ∨ u.2 = "se.handleStmtReset" := by decide

/-- **C38/C11 (every buffer has one holder).**  For every number of sessions,
    every program they run on top of the ephemeral-buffer functions of
    mysql.Conn and every interleaving, provided RecycleReadPacket clears the
    pointer to the buffer it has put back: at every moment no bucket holds a
    buffer twice, no two buckets hold the same buffer, a buffer a connection
    holds is not in the pool and is large enough for the packet it was taken
    for, and no two connections hold the same buffer. -/
theorem buffers_held_once (cfg : Cfg) (hv : cfg.v.recycleClears = true) (n : Nat) (evs : List (Nat × Ev)) :
    Own (Sys.run cfg (Sys.init n) evs).1 :=
  run_own cfg hv (Sys.init n) (own_init n) evs

/-- … spelled out for two connections and for a connection and the pool. -/
theorem buffers_held_once' (cfg : Cfg) (hv : cfg.v.recycleClears = true) (n : Nat) (evs : List (Nat × Ev))
    (i j : Nat) (s t : Sess) (x : Nat)
    (hi : (Sys.run cfg (Sys.init n) evs).1.sess[i]? = some s) (hj : (Sys.run cfg (Sys.init n) evs).1.sess[j]? = some t)
    (hx : s.conn.cur = some x) :
    (i ≠ j → t.conn.cur ≠ some x) ∧ ¬ InPool (Sys.run cfg (Sys.init n) evs).1.mem x :=
  have h := buffers_held_once cfg hv n evs
  ⟨fun hij => h.distinct i j s t x hij hi hj hx, ((h.held i s hi).cur x hx).1⟩

/-- **C38 (a recycled buffer is never read again).**  With the copies the
    repaired source makes (auth switch response, NUL-terminated auth response)
    and the pointer cleared by RecycleReadPacket, for every number of sessions
    running the goroutines of the proxy (initial handshake, readHandshakeResponse,
    the password check, Session.Handshake, Session.Run) in any interleaving and
    with any client bytes: whenever a session's next step reads a pooled buffer
    — the packet it has just read, or the auth response it has kept — that
    buffer is the one its connection holds; it is not in the pool and no other
    connection holds it, so nobody else can have written to it since the
    session's own client filled it. -/
theorem recycled_buffer_never_read (cfg : Cfg) (hv : cfg.v = Variant.fixed) (n : Nat) (evs : List (Nat × Ev))
    (he : ∀ e ∈ evs, RealEv cfg e.2) (i : Nat) (s : Sess)
    (hi : (Sys.run cfg (Sys.init n) evs).1.sess[i]? = some s) (id : Nat) (hid : id ∈ stepReads s) :
    s.conn.cur = some id ∧ ¬ InPool (Sys.run cfg (Sys.init n) evs).1.mem id ∧
    ∀ (j : Nat) (t : Sess), j ≠ i → (Sys.run cfg (Sys.init n) evs).1.sess[j]? = some t → t.conn.cur ≠ some id := by
  have h1 : cfg.v.copySwitch = true := by rw [hv]; rfl
  have h2 : cfg.v.copyNull = true := by rw [hv]; rfl
  have h3 : cfg.v.recycleClears = true := by rw [hv]; rfl
  have hg := run_good cfg h1 h2 (Sys.init n) (goodSys_init n) evs he i s hi
  have ho := buffers_held_once cfg h3 n evs
  have hc := good_reads_held hg id hid
  exact ⟨hc, ((ho.held i s hi).cur id hc).1, fun j t hji hj => ho.distinct i j s t id (fun e => hji e.symm) hi hj hc⟩

/-- … and what the session keeps of a handshake response is never a slice of a pooled buffer. -/
theorem kept_auth_response_is_a_copy (cfg : Cfg) (hv : cfg.v = Variant.fixed) (n : Nat) (evs : List (Nat × Ev))
    (he : ∀ e ∈ evs, RealEv cfg e.2) (i : Nat) (s : Sess)
    (hi : (Sys.run cfg (Sys.init n) evs).1.sess[i]? = some s) : s.hs.buf = none := by
  have h1 : cfg.v.copySwitch = true := by rw [hv]; rfl
  have h2 : cfg.v.copyNull = true := by rw [hv]; rfl
  exact (run_good cfg h1 h2 (Sys.init n) (goodSys_init n) evs he i s hi).noAlias

/-- **C38 (a session's input never affects another session through the shared
    packet buffers).**  With the repaired source, for every number of sessions
    running the goroutines of the proxy in any interleaving of their atomic
    steps and with any client bytes arriving in any fragmentation: what session
    `j` lets the outside see — the decoded handshake response, the auth response
    as the password check finds it, the answer to every command, the
    statements it sends to the backend, the end of its goroutine — is, item by
    item, what it shows in a process of its own that is given only `j`'s events
    (`projEvs j evs`).  The sessions share the heap of packet buffers and the
    buckets of mysql.bufPool, with sync.Pool's reuse order; the proof is a
    simulation that survives because of `buffers_held_once` (nobody else writes
    to a buffer a connection holds) and `recycled_buffer_never_read` (a session
    looks at a buffer only while its connection holds it, after its own client
    has filled the part it looks at). -/
theorem sessions_isolated_on_shared_buffers (cfg : Cfg) (hv : cfg.v = Variant.fixed) (n j : Nat) (hj : j < n)
    (evs : List (Nat × Ev)) (he : ∀ e ∈ evs, RealEv cfg e.2) :
    obsFor j (Sys.run cfg (Sys.init n) evs).2 = obsFor 0 (Sys.run cfg (Sys.init 1) (projEvs j evs)).2 :=
  sim_run cfg hv j evs _ _ (sim_init n j hj) he

/-- **bufPool.Get and bufPool.Put never panic** in any state an interleaving
    reaches: the bucket `findPool` selects exists, a pooled buffer is as large
    as its bucket and the bucket is large enough for the requested size
    (`findPool_fits`), and a buffer that is put back is one the heap knows. -/
theorem pool_get_put_never_panic (cfg : Cfg) (hv : cfg.v.recycleClears = true) (n : Nat) (evs : List (Nat × Ev)) :
    (∀ size, ∃ r, poolGet (Sys.run cfg (Sys.init n) evs).1.mem size = some r) ∧
    (∀ (i : Nat) (s : Sess) (x : Nat), (Sys.run cfg (Sys.init n) evs).1.sess[i]? = some s → s.conn.cur = some x →
      ∃ m', poolPut (Sys.run cfg (Sys.init n) evs).1.mem x = some m') := by
  have h := buffers_held_once cfg hv n evs
  refine ⟨fun size => poolGet_some h.pool size, fun i s x hi hx => ?_⟩
  obtain ⟨_, b, hb, _⟩ := (h.held i s hi).cur x hx
  exact poolPut_some h.pool (List.getElem?_eq_some_iff.mp hb).1

/-! ### the current tree -/

theorem current_tree_is_repaired : treeVariant = Variant.fixed := by decide

/-- `buffers_held_once` for the source as it is. -/
theorem current_tree_buffers_held_once (cfg : Cfg) (hc : cfg.v = treeVariant) (n : Nat) (evs : List (Nat × Ev)) :
    Own (Sys.run cfg (Sys.init n) evs).1 :=
  buffers_held_once cfg (by rw [hc]; decide) n evs

/-- `recycled_buffer_never_read` for the source as it is. -/
theorem current_tree_recycled_buffer_never_read (cfg : Cfg) (hc : cfg.v = treeVariant) (n : Nat) (evs : List (Nat × Ev))
    (he : ∀ e ∈ evs, RealEv cfg e.2) (i : Nat) (s : Sess)
    (hi : (Sys.run cfg (Sys.init n) evs).1.sess[i]? = some s) (id : Nat) (hid : id ∈ stepReads s) :
    s.conn.cur = some id ∧ ¬ InPool (Sys.run cfg (Sys.init n) evs).1.mem id ∧
    ∀ (j : Nat) (t : Sess), j ≠ i → (Sys.run cfg (Sys.init n) evs).1.sess[j]? = some t → t.conn.cur ≠ some id :=
  recycled_buffer_never_read cfg (by rw [hc]; exact current_tree_is_repaired) n evs he i s hi id hid

/-- `sessions_isolated_on_shared_buffers` for the source as it is. -/
theorem current_tree_sessions_isolated_on_shared_buffers (cfg : Cfg) (hc : cfg.v = treeVariant) (n j : Nat) (hj : j < n)
    (evs : List (Nat × Ev)) (he : ∀ e ∈ evs, RealEv cfg e.2) :
    obsFor j (Sys.run cfg (Sys.init n) evs).2 = obsFor 0 (Sys.run cfg (Sys.init 1) (projEvs j evs)).2 :=
  sessions_isolated_on_shared_buffers cfg (by rw [hc]; exact current_tree_is_repaired) n j hj evs he

/-! ### witnesses: each of the three decisions matters -/

/-- a configuration for the witnesses: server plugin "", every user known, none hashed -/
def wCfg (v : Variant) : Cfg :=
  { v := v, cv := ⟨true, true, true⟩, plugin := [], allowed := [], known := fun _ => true, hashed := fun _ => false, versionLen := 11 }

/-- handshake response: protocol 4.1 + secure connection + plugin auth, user `u`, empty auth response, plugin `x`
    (not the server's: the server asks the client to switch) -/
def wSwitchHs : Bytes := [0x00, 0x82, 0x08, 0x00, 0, 0, 0, 1, 33] ++ List.replicate 23 0 ++ [0x75, 0, 0, 0x78, 0]
/-- handshake response without CLIENT_SECURE_CONNECTION: the auth response `aa ab` is NUL-terminated -/
def wNullHs : Bytes := [0x00, 0x02, 0x00, 0x00, 0, 0, 0, 1, 33] ++ List.replicate 23 0 ++ [0x75, 0, 2, 0xaa, 0xab, 0]
/-- COM_STMT_CLOSE of statement 7: a command that is not answered -/
def wClose : Bytes := [25, 7, 0, 0, 0]

/-- the observations of a script (the schedules of the harness) -/
def obsOf (cfg : Cfg) (n : Nat) (ops : List (Nat × Op)) : List (List Obs) :=
  (runScript cfg (Sys.init n) (List.replicate n none) ops).map (·.1)

/-- The defect repaired by 184812e: when the auth switch response is kept as a
    slice of the packet buffer, the password check of session 0 sees the bytes
    another session's client sent in between (`ee ef`), not its own (`aa ab`). -/
theorem auth_switch_alias_witness :
    obsOf (wCfg ⟨false, true, true⟩) 2
      [(0, .resp), (0, .pkt wSwitchHs), (0, .pkt [0xaa, 0xab]), (1, .run), (1, .pkt [0xee, 0xef]), (0, .check)]
    = [[.blocked], [.blocked], [.doneResp (.info ⟨557568, 33, [0x75], [0xaa, 0xab], [], []⟩)], [.blocked],
       [.resp (.err .unknowncmd), .blocked], [.doneCheck (some [0xee, 0xef])]] := by decide +kernel

/-- … and with the copy it sees its own. -/
theorem auth_switch_repaired :
    obsOf (wCfg Variant.fixed) 2
      [(0, .resp), (0, .pkt wSwitchHs), (0, .pkt [0xaa, 0xab]), (1, .run), (1, .pkt [0xee, 0xef]), (0, .check)]
    = [[.blocked], [.blocked], [.doneResp (.info ⟨557568, 33, [0x75], [0xaa, 0xab], [], []⟩)], [.blocked],
       [.resp (.err .unknowncmd), .blocked], [.doneCheck (some [0xaa, 0xab])]] := by decide +kernel

/-- The defect repaired by 89c3059: a NUL-terminated auth response kept as a
    slice of the packet buffer is overwritten by another session's packet. -/
theorem null_auth_alias_witness :
    obsOf (wCfg ⟨true, false, true⟩) 2
      [(0, .resp), (0, .pkt wNullHs), (1, .run), (1, .pkt (List.replicate 40 0xee)), (0, .check)]
    = [[.blocked], [.doneResp (.info ⟨512, 33, [0x75], [0xaa, 0xab], [], []⟩)], [.blocked],
       [.resp (.err .unknowncmd), .blocked], [.doneCheck (some [0xee, 0xee])]] := by decide +kernel

theorem null_auth_repaired :
    obsOf (wCfg Variant.fixed) 2
      [(0, .resp), (0, .pkt wNullHs), (1, .run), (1, .pkt (List.replicate 40 0xee)), (0, .check)]
    = [[.blocked], [.doneResp (.info ⟨512, 33, [0x75], [0xaa, 0xab], [], []⟩)], [.blocked],
       [.resp (.err .unknowncmd), .blocked], [.doneCheck (some [0xaa, 0xab])]] := by decide +kernel

/-- the state a script leaves -/
def stateOf (cfg : Cfg) (n : Nat) (ops : List (Nat × Op)) : Option Sys :=
  ((runScript cfg (Sys.init n) (List.replicate n none) ops).getLast?).map (·.2)

/-- If RecycleReadPacket kept the pointer to the buffer it has put back, a
    command without answer followed by a zero-length packet would put the
    buffer into the pool a second time … -/
theorem double_put_witness :
    (stateOf (wCfg ⟨true, true, false⟩) 1 [(0, .run), (0, .pkt wClose), (0, .pkt [])]).map (fun w => free w.mem)
      = some [0, 0] := by decide +kernel

/-- … and two other sessions would then read their packets into the same
    buffer: session 1 has sent `16 73 65` of a COM_STMT_PREPARE "se1" when
    session 2's COM_QUERY arrives; what session 1 executes is session 2's
    command byte with its own last byte. -/
theorem double_put_crosses_sessions_witness :
    (obsOf (wCfg ⟨true, true, false⟩) 3
      [(0, .run), (0, .pkt wClose), (0, .pkt []), (1, .run), (2, .run),
       (1, .part [22, 0x73, 0x65, 0x31] 3), (2, .pkt [3, 0x73, 0x65, 0x32]), (1, .rest)]).getLast?
    = some [.resp .q, .blocked] := by decide +kernel

/-- … whereas the source as it is answers session 1's prepare. -/
theorem double_put_repaired :
    (obsOf (wCfg Variant.fixed) 3
      [(0, .run), (0, .pkt wClose), (0, .pkt []), (1, .run), (2, .run),
       (1, .part [22, 0x73, 0x65, 0x31] 3), (2, .pkt [3, 0x73, 0x65, 0x32]), (1, .rest)]).getLast?
    = some [.resp (.prep 0 0), .blocked] ∧
    (stateOf (wCfg Variant.fixed) 1 [(0, .run), (0, .pkt wClose), (0, .pkt [])]).map (fun w => free w.mem) = some [0] := by
  decide +kernel

/-! ### non-vacuity -/

/-- the invariant holds initially and in a state with a buffer held and a buffer pooled -/
example : Own (Sys.init 3) := own_init 3
example : (stateOf (wCfg Variant.fixed) 2 [(0, .run), (1, .run), (1, .part [3, 0x73] 1), (0, .pkt [14])]).map
    (fun w => (owned w.sess, free w.mem)) = some ([0], [1]) := by decide +kernel
/-- `recycled_buffer_never_read` speaks about states in which a step does read a buffer: Session.Run
    about to look at a packet it has read into buffer 0 -/
example : (Sys.run (wCfg Variant.fixed) (Sys.init 1)
    [(0, .start progRun), (0, .tick), (0, .tick), (0, .hdr 1), (0, .body [14])]).1.sess.map stepReads = [[0]] := by decide +kernel
/-- its hypotheses are satisfiable: every event of that run is a `RealEv` -/
example : ∀ e ∈ [((0 : Nat), Ev.start progRun), (0, .tick), (0, .tick), (0, .hdr 1), (0, .body [14])],
    RealEv (wCfg Variant.fixed) e.2 := by
  intro e he
  simp only [List.mem_cons, List.mem_nil_iff, or_false] at he
  rcases he with rfl | rfl | rfl | rfl | rfl <;> simp [RealEv, RealProg]
/-- `sessions_isolated_on_shared_buffers` on a run in which session 1 observes something while session 0 is in
    the middle of a packet: both sides are the non-empty list `[resp ok]` -/
example : obsFor 1 (Sys.run (wCfg Variant.fixed) (Sys.init 2)
    [(0, .start progRun), (1, .start progRun), (0, .tick), (0, .tick), (1, .tick), (1, .tick), (0, .hdr 2), (0, .body [3]),
     (1, .hdr 1), (1, .body [14]), (1, .tick)]).2 = [.resp .ok] := by decide +kernel
/-- the current tree satisfies the premises -/
example : treeVariant.recycleClears = true := by decide

end GaeaVerif.C38.Own
