import GaeaVerif.Lemmas.SessConnsPins
/-
  C23 — Keep-session clients stay pinned to their backend connections.

  Model: Model/SessionConns.lean, a session of a namespace with
  `set_for_keep_session` (`cfg.ks = true`); `run cfg ops` is any sequence of
  client commands, pings, disconnects and namespace reloads (`nsc`, between two
  commands), every command with its own backend faults and map-iteration order.

  How the English property is rendered.
   * "a single backend connection per slice for its whole lifetime": at no
     moment are two connections of one slice out (`one_conn_per_slice`), no
     backend call hits a connection that is not out
     (`never_used_after_return`), and the entry of a slice in `ksConns` does not
     change from command to command (`ks_pin_stable`, `ks_pinned_lifetime`, for
     all histories: any faults, timeouts, pings) until the session ends, the
     namespace is reloaded, or the backend loses that very connection (then it
     is closed, and replaced at the next statement - inside a transaction the
     session is closed instead, C18.tx_affinity);
   * "released when the client disconnects": `ks_release`;
   * "after a configuration change they are dropped outside a transaction":
     `ks_nschange_outside_tx` — the first command after the reload closes and
     gives back every connection pinned before, and what it pins itself stays
     (`ks_pin_stable` applies again afterwards);
   * "a client inside a transaction is disconnected with an error":
     `ks_nschange_in_tx`.
  These hold of the repaired tree (fix commits 7a39468, 75817c9, 3388583,
  40b3331, 5a42848, cb8bfb6); the old failing histories are in corpus/C23.
-/
namespace GaeaVerif.C23
open GaeaVerif.SessionConns

theorem run_snoc (cfg : Cfg) (ops : List Op) (op : Op) :
    run cfg (ops ++ [op]) = (step cfg (run cfg ops) op).1 := by
  simp [run, List.foldl_append]

/-- At no moment of any history are two connections of one slice out. -/
theorem one_conn_per_slice (cfg : Cfg) (ops : List Op) :
    (∀ c ∈ (run cfg ops).w.conns, c.dup = false) ∧
    (run cfg ops).ksConns.keys.Nodup ∧ (run cfg ops).ksConns.vals.Nodup := by
  have h := (idle_run_all cfg ops).inv.wi
  simp only [List.append_nil] at h
  refine ⟨?_, ?_, ?_⟩
  · intro c hc
    obtain ⟨i, hi, hget⟩ := List.mem_iff_getElem.1 hc
    exact (h.flags i c (by rw [List.getElem?_eq_getElem hi, hget])).2
  · have := h.nodupS
    simp only [held, CMap.keys, List.map_append] at this
    exact (List.nodup_append.1 this).2.1
  · have := h.nodupC
    simp only [held, CMap.vals, List.map_append] at this
    exact (List.nodup_append.1 this).2.1

/-- No backend call of any history hits a connection after it was given back. -/
theorem never_used_after_return (cfg : Cfg) (ops : List Op) :
    ∀ c ∈ (run cfg ops).w.conns, c.uar = false := by
  intro c hc
  have h := (idle_run_all cfg ops).inv.wi
  obtain ⟨i, hi, hget⟩ := List.mem_iff_getElem.1 hc
  exact (h.flags i c (by rw [List.getElem?_eq_getElem hi, hget])).1

/-- Between two commands every pinned connection is a connection of the slice
    it is filed under and is out. -/
theorem ks_conns_out (cfg : Cfg) (ops : List Op) :
    ∀ e ∈ (run cfg ops).ksConns, ∃ cn : Conn, (run cfg ops).w.conns[e.2]? = some cn ∧
      cn.slice = e.1 ∧ cn.returns = 0 := by
  have h := (idle_run_all cfg ops).inv.wi
  intro e he
  obtain ⟨cn, hcn, h0, hsl⟩ := h.out e (by simp [held, he])
  exact ⟨cn, hcn, hsl, h0⟩

/-- One more command on an open session with no reload pending, whatever its
    faults, timeouts and iteration order: every pinned connection is still pinned
    afterwards - unless the session has been closed (quit, a failed ping, a
    transaction that lost a connection, a response that could not be delivered),
    or the backend has lost that very connection (it is closed: a statement
    timeout, a broken connection) outside a transaction, in which case it is
    replaced: the property cannot ask for a connection the backend no longer
    provides.  Afterwards still no reload is pending. -/
theorem ks_pin_stable (cfg : Cfg) (ops : List Op) (op : Op)
    (hcmd : op.body.isCommand = true)
    (hopen : (run cfg ops).closed = false) (hnr : (run cfg ops).nsCur ≤ (run cfg ops).nsOld) :
    (∀ e ∈ (run cfg ops).ksConns,
      e ∈ (run cfg (ops ++ [op])).ksConns ∨ (run cfg (ops ++ [op])).closed = true ∨
      (isClosed e.2 (run cfg (ops ++ [op])).w = true ∧ (run cfg ops).isInTransaction = false)) ∧
    ((run cfg (ops ++ [op])).closed = true ∨
      (run cfg (ops ++ [op])).nsCur ≤ (run cfg (ops ++ [op])).nsOld) := by
  rw [run_snoc]
  have key := keep_step cfg op (qhop_none op) (idle_run_all cfg ops) hopen (Or.inr hnr) hcmd
  exact ⟨key.ks, key.ns⟩

theorem closed_step (cfg : Cfg) (s : St) (op : Op) (h : s.closed = true) : (step cfg s op).1.closed = true := by
  unfold step; simp [h]

/-- `ks_pinned_lifetime` - from any point of a history at which the session is
    open and no reload is pending, through any further commands (statements on
    any slices, transactions, pings, quit; any backend faults, statement
    timeouts, lost connections, iteration orders): the connection pinned for a
    slice is still the same at the end, unless the session has ended or the
    backend has lost that connection (it is closed). -/
theorem ks_pinned_lifetime (cfg : Cfg) (ops mid : List Op)
    (hcmd : ∀ op ∈ mid, op.body.isCommand = true)
    (hopen : (run cfg ops).closed = false) (hnr : (run cfg ops).nsCur ≤ (run cfg ops).nsOld) :
    ∀ e ∈ (run cfg ops).ksConns,
      e ∈ (run cfg (ops ++ mid)).ksConns ∨ (run cfg (ops ++ mid)).closed = true ∨
      isClosed e.2 (run cfg (ops ++ mid)).w = true := by
  -- the state of the induction: pinned / session closed / connection closed, and "closed or no reload pending"
  have gen : ∀ (mid : List Op) (ops : List Op) (e : Nat × Nat), (∀ op ∈ mid, op.body.isCommand = true) →
      (e ∈ (run cfg ops).ksConns ∨ (run cfg ops).closed = true ∨ isClosed e.2 (run cfg ops).w = true) →
      ((run cfg ops).closed = true ∨ (run cfg ops).nsCur ≤ (run cfg ops).nsOld) →
      e ∈ (run cfg (ops ++ mid)).ksConns ∨ (run cfg (ops ++ mid)).closed = true ∨
        isClosed e.2 (run cfg (ops ++ mid)).w = true := by
    intro mid
    induction mid with
    | nil => intro ops e _ h _; simpa using h
    | cons op mid ih =>
      intro ops e hc h hn
      have hstep : (e ∈ (run cfg (ops ++ [op])).ksConns ∨ (run cfg (ops ++ [op])).closed = true ∨
            isClosed e.2 (run cfg (ops ++ [op])).w = true) ∧
          ((run cfg (ops ++ [op])).closed = true ∨
            (run cfg (ops ++ [op])).nsCur ≤ (run cfg (ops ++ [op])).nsOld) := by
        cases hcl : (run cfg ops).closed with
        | true =>
          have : (run cfg (ops ++ [op])).closed = true := by rw [run_snoc]; exact closed_step cfg _ op hcl
          exact ⟨Or.inr (Or.inl this), Or.inl this⟩
        | false =>
          have hnr' : (run cfg ops).nsCur ≤ (run cfg ops).nsOld := by
            rcases hn with hn | hn
            · rw [hcl] at hn; cases hn
            · exact hn
          obtain ⟨h1, h2⟩ := ks_pin_stable cfg ops op (hc op (by simp)) hcl hnr'
          refine ⟨?_, h2⟩
          rcases h with h | h | h
          · rcases h1 e h with h3 | h3 | ⟨h3, _⟩
            · exact Or.inl h3
            · exact Or.inr (Or.inl h3)
            · exact Or.inr (Or.inr h3)
          · rw [hcl] at h; cases h
          · right; right
            have hext : Ext (run cfg ops).w (run cfg (ops ++ [op])).w := by rw [run_snoc]; exact ext_step cfg op
            exact isClosed_ext hext h
      have := ih (ops ++ [op]) e (fun o ho => hc o (by simp [ho])) hstep.1 hstep.2
      simpa using this
  intro e he
  exact gen mid ops e hcmd (Or.inl he) (Or.inr hnr)

/-- When the session has ended it pins nothing, and every connection it ever
    took was given back exactly once.  For all histories. -/
theorem ks_release (cfg : Cfg) (ops : List Op) (hcl : (run cfg ops).closed = true) :
    (run cfg ops).ksConns = [] ∧ ∀ c ∈ (run cfg ops).w.conns, c.returns = 1 := by
  have hI := idle_run_all cfg ops
  obtain ⟨htx, hks⟩ := hI.clean hcl
  refine ⟨hks, ?_⟩
  intro c hc
  obtain ⟨i, hi, hget⟩ := List.mem_iff_getElem.1 hc
  have hcn : (run cfg ops).w.conns[i]? = some c := by rw [List.getElem?_eq_getElem hi, hget]
  exact hI.inv.wi.ret i c hcn (by simp [held, htx, hks, CMap.vals])

/-! ## Namespace reload -/

theorem closeRecycle_marks {w : World} {c : Nat} {cn : Conn} (hcn : w.conns[c]? = some cn) :
    ∃ cn' : Conn, (closeRecycle c w).conns[c]? = some cn' ∧ cn'.closed = true ∧ 1 ≤ cn'.returns := by
  have hlt : c < w.conns.length := (List.getElem?_eq_some_iff.1 hcn).1
  rw [closeRecycle_eq hcn]
  refine ⟨cn.afterClose.afterRecycle, by simp [hlt], by simp [Conn.afterRecycle, Conn.afterClose],
    by simp [Conn.afterRecycle]⟩

theorem closeRecycleAll_marks : ∀ (cs : List Nat) (w : World), (∀ c ∈ cs, ∃ cn : Conn, w.conns[c]? = some cn) →
    ∀ c ∈ cs, ∃ cn' : Conn, (closeRecycleAll cs w).conns[c]? = some cn' ∧ cn'.closed = true ∧ 1 ≤ cn'.returns := by
  intro cs
  induction cs with
  | nil => intro w _ c hc; cases hc
  | cons d ds ih =>
    intro w hv c hc
    simp only [closeRecycleAll, List.foldl_cons]
    have hext : Ext w (closeRecycle d w) := ext_closeRecycle d w
    have hv' : ∀ x ∈ ds, ∃ cn : Conn, (closeRecycle d w).conns[x]? = some cn := by
      intro x hx
      obtain ⟨cn, hcn⟩ := hv x (by simp [hx])
      obtain ⟨cn', hcn', _⟩ := hext x cn hcn
      exact ⟨cn', hcn'⟩
    by_cases hcd : c ∈ ds
    · exact ih _ hv' c hcd
    · have : c = d := by simpa [hcd] using hc
      subst this
      obtain ⟨cn, hcn⟩ := hv c (by simp)
      obtain ⟨cn1, hcn1, hcl, hr⟩ := closeRecycle_marks hcn
      have hrest : Ext (closeRecycle c w) (closeRecycleAll ds (closeRecycle c w)) :=
        ext_foldl closeRecycle ext_closeRecycle _ _
      obtain ⟨cn2, hcn2, _, _, hr2, hcl2⟩ := hrest c cn1 hcn1
      exact ⟨cn2, hcn2, hcl2 hcl, Nat.le_trans hr hr2⟩

theorem clearKsConns_idem (ctx : Ctx) (s : St) : clearKsConns ctx (clearKsConns ctx s) = clearKsConns ctx s := by
  unfold clearKsConns
  split
  · rename_i hc
    have hc' : (ctx.cfg.ks && decide (s.nsCur > s.nsOld) && !s.isInTransaction) = true := hc
    simp only [St.isInTransaction] at hc' ⊢
    simp [hc', iterOrder, sortBy, CMap.vals, closeRecycleAll]
  · rename_i hc
    simp only [hc, Bool.false_eq_true, if_false]

theorem runCommand_after_clear (ctx : Ctx) (b : Body) (s : St) :
    runCommand ctx b s = runCommand ctx b (clearKsConns ctx { s with nsCtx := s.nsCur }) := by
  have e : ({ (clearKsConns ctx { s with nsCtx := s.nsCur }) with
      nsCtx := (clearKsConns ctx { s with nsCtx := s.nsCur }).nsCur } : St) =
      clearKsConns ctx { s with nsCtx := s.nsCur } := by
    unfold clearKsConns; split <;> rfl
  conv => rhs; unfold runCommand
  dsimp only
  rw [e, clearKsConns_idem]
  rfl

/-- Outside a transaction, the first command after a reload of the namespace
    closes and gives back every connection that was pinned before the reload
    (each exactly once), whatever the command, its faults and the iteration
    order. -/
theorem ks_nschange_outside_tx (cfg : Cfg) (ops : List Op) (op : Op) (hks : cfg.ks = true)
    (hcmd : op.body.isCommand = true) (hopen : (run cfg ops).closed = false)
    (hns : (run cfg ops).nsCur > (run cfg ops).nsOld) (hin : (run cfg ops).isInTransaction = false) :
    ∀ e ∈ (run cfg ops).ksConns, ∃ cn : Conn,
      (run cfg (ops ++ [op])).w.conns[e.2]? = some cn ∧ cn.closed = true ∧ cn.returns = 1 := by
  intro e he
  have hI := idle_run_all cfg ops
  have hI' := idle_run_all cfg (ops ++ [op])
  generalize hctx : ({ cfg := cfg, ord := op.ord, faults := op.faults } : Ctx) = ctx
  generalize hs0 : ({ (run cfg ops) with w := { (run cfg ops).w with trace := [] } } : St) = s0
  have e1 : (run cfg (ops ++ [op])) = (runCommand ctx op.body s0).1 := by
    rw [run_snoc, ← hctx, ← hs0]
    unfold step
    dsimp only
    simp only [hopen, Bool.false_eq_true, if_false]
    split
    · rename_i hb'; rw [hb'] at hcmd; simp [Body.isCommand] at hcmd
    · rename_i hb'; rw [hb'] at hcmd; simp [Body.isCommand] at hcmd
    · rfl
  -- the state after the connections of the old configuration were dropped
  generalize hs1 : clearKsConns ctx { s0 with nsCtx := s0.nsCur } = s1
  have hw1 : s1.w = closeRecycleAll (iterOrder ctx.ord (run cfg ops).ksConns).vals s0.w := by
    rw [← hs1, ← hs0]
    unfold clearKsConns
    have : (ctx.cfg.ks && decide ((run cfg ops).nsCur > (run cfg ops).nsOld) && !(run cfg ops).isInTransaction) = true := by
      rw [← hctx]; simp [hks, hns, hin]
    simp only [St.isInTransaction] at this ⊢
    simp only [this, if_true]
  have hmark : ∃ cn1 : Conn, s1.w.conns[e.2]? = some cn1 ∧ cn1.closed = true ∧ 1 ≤ cn1.returns := by
    rw [hw1]
    refine closeRecycleAll_marks _ _ ?_ e.2 ?_
    · intro c hc
      have hc' : c ∈ (run cfg ops).ksConns.vals := iter_vals_sub _ _ c hc
      obtain ⟨sl, hsl⟩ := mem_vals.1 hc'
      obtain ⟨cn, hcn, _⟩ := hI.inv.wi.out (sl, c) (by simp [held, hsl])
      exact ⟨cn, by rw [← hs0]; exact hcn⟩
    · exact ((iterOrder_perm ctx.ord (run cfg ops).ksConns).map (fun e : Nat × Nat => e.2)).mem_iff.2
        (mem_vals.2 ⟨e.1, he⟩)
  obtain ⟨cn1, hcn1, hcl1, hr1⟩ := hmark
  have hext : Ext s1.w (run cfg (ops ++ [op])).w := by
    rw [e1, runCommand_after_clear, hs1]
    exact ext_runCommand _
  obtain ⟨cn2, hcn2, _, _, hr2, hcl2⟩ := hext e.2 cn1 hcn1
  refine ⟨cn2, hcn2, hcl2 hcl1, ?_⟩
  -- it was given back at most once
  have h' := hI'.inv.wi
  by_cases hm : e.2 ∈ (held (run cfg (ops ++ [op])) ++ []).vals
  · obtain ⟨sl, hsl⟩ := mem_vals.1 hm
    obtain ⟨cn', hcn', h0, _⟩ := h'.out _ hsl
    rw [hcn2] at hcn'; cases hcn'; omega
  · exact h'.ret e.2 cn2 hcn2 hm

/-- Inside a transaction, the first command after a reload of the namespace is
    answered with an error (ErrTxNsChanged) and the session is closed; the
    command itself is not executed (the trace of the step holds no statement).
    With `ks_release`, the pinned connections are given back. -/
theorem ks_nschange_in_tx (cfg : Cfg) (ops : List Op) (op : Op) (hks : cfg.ks = true)
    (hcmd : op.body.isCommand = true) (hopen : (run cfg ops).closed = false)
    (hns : (run cfg ops).nsCur > (run cfg ops).nsOld) (hin : (run cfg ops).isInTransaction = true) :
    (step cfg (run cfg ops) op).2 = .err ∧ (run cfg (ops ++ [op])).closed = true := by
  have hI := idle_run_all cfg ops
  rw [run_snoc]
  have e : step cfg (run cfg ops) op = runCommand { cfg := cfg, ord := op.ord, faults := op.faults } op.body
      { (run cfg ops) with w := { (run cfg ops).w with trace := [] } } := by
    unfold step
    dsimp only
    simp only [hopen, Bool.false_eq_true, if_false]
    split
    · rename_i hb'; rw [hb'] at hcmd; simp [Body.isCommand] at hcmd
    · rename_i hb'; rw [hb'] at hcmd; simp [Body.isCommand] at hcmd
    · rfl
  rw [e]
  exact closed_runCommand_reload_in_tx (ctx := { cfg := cfg, ord := op.ord, faults := op.faults })
    (s := { (run cfg ops) with w := { (run cfg ops).w with trace := [] } }) op.body hks hns hin hI.cont hopen

/-! Non-vacuity -/

def demoOps : List Op :=
  [ { body := .qs .w [0, 1], ord := [1, 0], faults := [] },
    { body := .begin, ord := [0, 1], faults := [{ k := .b, slice := 9, mode := .e }] } ]
def demoMid : List Op :=
  [ { body := .qu .w, ord := [0, 1], faults := [{ k := .x, slice := 0, mode := .e }] },
    { body := .commit, ord := [1, 0], faults := [{ k := .c, slice := 1, mode := .e }] },
    { body := .ping, ord := [0, 1], faults := [] } ]

example : (run { ks := true, user := .w, fb := true } demoOps).ksConns = [(1, 0), (0, 1)] := by decide
example : (run { ks := true, user := .w, fb := true } (demoOps ++ demoMid)).ksConns = [(1, 0), (0, 1)] := by decide
example : (run { ks := true, user := .w, fb := true } demoOps).closed = false ∧
    (run { ks := true, user := .w, fb := true } demoOps).nsCur ≤ (run { ks := true, user := .w, fb := true } demoOps).nsOld := by decide
example : ∀ op ∈ demoMid, op.body.isCommand = true := by decide
/-- a statement timeout outside a transaction: the lost connection 1 (slice 0) is closed and replaced by connection 2,
    the connection of slice 1 stays pinned -/
def lostMid : List Op :=
  [ { body := .commit, ord := [0, 1], faults := [] },
    { body := .qu .w, ord := [0, 1], faults := [{ k := .x, slice := 0, mode := .t }] },
    { body := .qu .w, ord := [0, 1], faults := [] } ]
example : (run { ks := true, user := .w, fb := true } (demoOps ++ lostMid)).ksConns = [(1, 0), (0, 2)] ∧
    (run { ks := true, user := .w, fb := true } (demoOps ++ lostMid)).closed = false ∧
    isClosed 1 (run { ks := true, user := .w, fb := true } (demoOps ++ lostMid)).w = true := by decide
/-- the same timeout inside the transaction ends the session -/
example : (run { ks := true, user := .w, fb := true } (demoOps ++ lostMid.drop 1)).closed = true := by decide

/-- a reload outside a transaction: the old connection 0 is closed and given back, connection 1 takes over -/
def reloadOps : List Op :=
  [ { body := .qu .w, ord := [0, 1], faults := [] },
    { body := .nsc, ord := [], faults := [] } ]
example : (run { ks := true, user := .w, fb := true } reloadOps).nsCur > (run { ks := true, user := .w, fb := true } reloadOps).nsOld ∧
    (run { ks := true, user := .w, fb := true } reloadOps).ksConns = [(0, 0)] := by decide
example : ((run { ks := true, user := .w, fb := true }
    (reloadOps ++ [{ body := .qu .w, ord := [0, 1], faults := [] }])).w.conns.map fun c => (c.closed, c.returns)) =
    [(true, 1), (false, 0)] := by decide

end GaeaVerif.C23
