import GaeaVerif.Lemmas.LexC17Split
import GaeaVerif.Lemmas.LexC17Terminates
import GaeaVerif.Gen.Consts
/-
  C17 — Multi-statement text is split exactly at statement boundaries.

  Theorems about `Model/LexC17.lean` (the scanner of /repo/parser/lexer.go as
  `SplitStatementToPieces` drives it, the splitter, and the loop of
  `doMultiStmts`), stated against the reference semantics of
  `Model/LexC17Spec.lean` (texts as sequences of lexical items).  The tie to the
  Go code is the correspondence check `gvh run C17` and the facts of
  `Gen/Consts.lean` used below.
-/
namespace GaeaVerif.C17
open GaeaVerif GaeaVerif.LexC17

/-! ### the splitter cuts exactly at the `;` tokens of the scanner -/

/-- The pieces a token trace denotes: the segments of the text between the
    `;` tokens of the statement text itself (not those scanned inside a
    `/*! */` or `/*+ */` comment) that hold at least one token, each the exact
    substring; `none` where Go would panic on a slice expression. -/
def segments (blob : Bytes) : List (Tok × Bool × Nat) → Nat → Bool → List Bytes → Option (List Bytes)
  | [], _, _, pieces => some pieces
  | (tok, inner, off) :: rest, stmtBegin, empty, pieces =>
    if stmtBegin < blob.length then
      match tok with
      | .semi =>
        if inner then segments blob rest stmtBegin false pieces
        else
          match slice blob stmtBegin off with
          | none => none
          | some stmt => segments blob rest (off + 1) true (if empty then pieces else pieces ++ [stmt])
      | .other => segments blob rest stmtBegin false pieces
      | _ =>
        if stmtBegin + 1 ≤ off then
          match slice blob stmtBegin off with
          | none => none
          | some stmt => some (if empty then pieces else pieces ++ [stmt])
        else some pieces
    else some pieces

/-- **split_spec.** Whatever the text, the loop of `SplitStatementToPieces`
    returns exactly the segments between the scanner's `;` tokens that hold a
    token (`segments` of the token trace), unless the scanner panics or makes
    no progress. -/
theorem split_spec (blob : Bytes) : ∀ (fuel : Nat) (fs : List Frame) (sb : Nat) (e : Bool) (ps : List Bytes),
    (∀ x ∈ scanTrace fuel fs, x.1 ≠ .panic ∧ x.1 ≠ .stuck) →
    ∃ err, (match segments blob (scanTrace fuel fs) sb e ps with
            | some r => splitLoop blob fuel fs sb e ps = .ok r err
            | none => splitLoop blob fuel fs sb e ps = .panic) := by
  intro fuel
  induction fuel with
  | zero =>
    intro fs sb e ps h
    have := h (.stuck, false, 0) (by simp [scanTrace])
    simp at this
  | succ n ih =>
    intro fs sb e ps h
    simp only [scanTrace] at h ⊢
    simp only [splitLoop]
    by_cases hg : sb < blob.length
    · rw [if_pos hg]
      cases ht : (scan (scanFuel fs) fs).tok with
      | semi =>
        simp only [ht] at h ⊢
        simp only [segments, if_pos hg]
        by_cases hin : (scan (scanFuel fs) fs).frames.length > 1
        · simp only [hin, decide_true, if_true]
          exact ih _ _ _ _ (fun x hx => h x (by simp [hx]))
        · simp only [hin, decide_false, Bool.false_eq_true, if_false]
          cases hs : slice blob sb (scan (scanFuel fs) fs).offset with
          | none => exact ⟨false, rfl⟩
          | some stmt => exact ih _ _ _ _ (fun x hx => h x (by simp [hx]))
      | other =>
        simp only [ht] at h ⊢
        simp only [segments, if_pos hg]
        exact ih _ _ _ _ (fun x hx => h x (by simp [hx]))
      | eof =>
        simp only [ht] at h ⊢
        simp only [segments, if_pos hg]
        by_cases hle : sb + 1 ≤ (scan (scanFuel fs) fs).offset
        · simp only [if_pos hle]
          cases hs : slice blob sb (scan (scanFuel fs) fs).offset with
          | none => exact ⟨false, rfl⟩
          | some stmt => exact ⟨_, rfl⟩
        · simp only [if_neg hle]
          exact ⟨_, rfl⟩
      | panic => simp only [ht] at h; have := h _ (List.mem_singleton.mpr rfl); simp at this
      | stuck => simp only [ht] at h; have := h _ (List.mem_singleton.mpr rfl); simp at this
    · rw [if_neg hg]
      cases hsc : (scan (scanFuel fs) fs).tok <;> simp [segments, hg]

/-! ### the splitter ends for every text -/

theorem splitLoop_no_hang (blob : Bytes) : ∀ (fuel : Nat) (fs : List Frame) (sb : Nat) (e : Bool) (ps : List Bytes),
    mu fs < fuel → splitLoop blob fuel fs sb e ps ≠ .hang := by
  intro fuel
  induction fuel with
  | zero => intro fs _ _ _ h; omega
  | succ n ih =>
    intro fs sb e ps h
    simp only [splitLoop]
    split
    · have hg := scan_good (scanFuel fs) fs (by rw [scanFuel_eq]; omega)
      cases ht : (scan (scanFuel fs) fs).tok with
      | semi =>
        have hmu := hg.2 (Or.inl ht)
        simp only
        split
        · exact ih _ _ _ _ (by omega)
        · split
          · simp
          · exact ih _ _ _ _ (by omega)
      | other =>
        have hmu := hg.2 (Or.inr ht)
        exact ih _ _ _ _ (by omega)
      | eof => simp only; repeat' split
               all_goals simp
      | panic => simp
      | stuck => exact absurd ht hg.1
    · simp

/-- **split_never_hangs.** For every text whatsoever, `SplitStatementToPieces`
    returns (pieces, an error, or a recovered panic): the scanner consumes at
    least one byte with every token, so the loop cannot spin.  (On the pinned
    tree it did, for any text holding `[`, `]`, a control byte or a 4-byte
    UTF-8 character outside quotes — repaired by commit f0fdcc8.) -/
theorem split_never_hangs (blob : Bytes) : splitStatementToPieces blob ≠ .hang := by
  simp only [splitStatementToPieces]
  repeat' split
  all_goals first
    | exact splitLoop_no_hang blob _ _ _ _ _ (by simp [mu, mu1, outerFrame, splitFuel]; omega)
    | simp

/-! ### the item theorem: the pieces are the statements the text is built from -/

/-- **split_items (C17).** For every text built from lexical items — words,
    numbers, punctuation, quoted strings with backslash escapes and doubled
    quotes, back-quoted identifiers, `/* */`, `-- ` and `#` comments, white
    space and `;` — in any order and number (`Safe`: each item well formed and
    not merging with what follows), `SplitStatementToPieces` returns exactly
    the statements the text is built from (`specPieces`): the rendered groups
    between the `;` *items* that hold at least one token, in order, each the
    exact substring, without error.  A `;` inside a string, quoted identifier
    or comment is not an item and therefore never splits; groups of white
    space and comments are skipped. -/
theorem split_items (items : List Item) (hs : Safe items = true) (hx : noX items = true) :
    splitStatementToPieces (render items) = .ok (specPieces items) false := by
  simp only [splitStatementToPieces, specPieces]
  by_cases hb : render items = []
  · simp [hb]
  · rw [if_neg hb, if_neg hb]
    cases hf : (render items).findIdx? (fun x => decide (x.toNat = 0x3B)) with
    | none => rfl
    | some i =>
      simp only
      by_cases hi : i = (render items).length - 1
      · rw [if_pos hi, if_pos hi]
      · rw [if_neg hi, if_neg hi]
        have := splitLoop_items items [] [] true [] (splitFuel (render items)) hs hx
          (by have := render_length_ge items hs; simp only [splitFuel]; omega)
        simpa [outerFrame, fr] using this

/-- Item sequences without a `;` item and with at least one token. -/
def isStatement (items : List Item) : Bool := items.all (· ≠ .semi) && items.any Item.isToken

theorem specLoop_no_semi : ∀ (items : List Item) (cur : Bytes) (empty : Bool) (pieces : List Bytes),
    items.all (· ≠ .semi) = true →
    specLoop items cur empty pieces =
      (if (empty && !items.any Item.isToken) || cur ++ render items = [] then pieces
       else pieces ++ [cur ++ render items]) := by
  intro items
  induction items with
  | nil => intro cur empty pieces _; simp [specLoop, render]
  | cons it rest ih =>
    intro cur empty pieces h
    simp only [List.all_cons, Bool.and_eq_true, decide_eq_true_eq] at h
    have hne : it ≠ .semi := h.1
    have : specLoop (it :: rest) cur empty pieces = specLoop rest (cur ++ it.render) (empty && !it.isToken) pieces := by
      cases it <;> simp_all [specLoop]
    rw [this, ih _ _ _ h.2, render_cons]
    simp only [List.any_cons, List.append_assoc]
    rcases Bool.eq_false_or_eq_true it.isToken with ht | ht <;> cases empty <;> simp [ht]

/-- **A `;` inside a quoted or commented context never splits.**  A text built
    from items none of which is a `;` *item* — whatever `;` bytes its strings,
    quoted identifiers and comments hold — is a single piece: the text itself. -/
theorem semicolon_inside_never_splits (items : List Item) (hs : Safe items = true) (hx : noX items = true)
    (hst : isStatement items = true) :
    splitStatementToPieces (render items) = .ok [render items] false ∨
    splitStatementToPieces (render items) = .ok [(render items).take ((render items).length - 1)] false := by
  rw [split_items items hs hx]
  simp only [isStatement, Bool.and_eq_true] at hst
  simp only [specPieces]
  have hne : render items ≠ [] := by
    have h1 := render_length_ge items hs
    have h2 : items ≠ [] := by intro e; subst e; simp at hst
    have h3 : 1 ≤ items.length := by cases items <;> simp_all
    intro e; rw [e] at h1; simp only [List.length_nil] at h1; omega
  rw [if_neg hne]
  cases hf : (render items).findIdx? (fun x => decide (x.toNat = 0x3B)) with
  | none => left; rfl
  | some i =>
    simp only
    by_cases hi : i = (render items).length - 1
    · right; rw [if_pos hi]
    · left
      rw [if_neg hi, specLoop_no_semi items [] true [] hst.1]
      simp [hst.2, hne]

/-! ### `doMultiStmts` -/

/-- Everything `runPieces` executed before the last executed piece succeeded. -/
theorem runPieces_prefix (dq : Bytes → Bool) : ∀ ps : List Bytes,
    (runPieces dq ps).executed <+: ps ∧
    (∀ p ∈ (runPieces dq ps).executed.dropLast, dq p = true) ∧
    ((runPieces dq ps).failed = true →
      ∃ p, (runPieces dq ps).executed.getLast? = some p ∧ dq p = false) ∧
    ((runPieces dq ps).failed = false → (runPieces dq ps).executed = ps ∧ ∀ p ∈ ps, dq p = true) := by
  intro ps
  induction ps with
  | nil => simp [runPieces]
  | cons p rest ih =>
    simp only [runPieces]
    by_cases hp : dq p = true
    · simp only [hp, if_true]
      obtain ⟨h1, h2, h3, h4⟩ := ih
      refine ⟨List.prefix_cons_inj p |>.mpr h1, ?_, ?_, ?_⟩
      · intro q hq
        cases hex : (runPieces dq rest).executed with
        | nil => simp [hex] at hq
        | cons a t =>
          rw [hex] at hq h2
          simp only [List.dropLast_cons_cons, List.mem_cons] at hq
          rcases hq with rfl | hq
          · exact hp
          · exact h2 q hq
      · intro hf
        obtain ⟨q, hq1, hq2⟩ := h3 hf
        refine ⟨q, ?_, hq2⟩
        cases hex : (runPieces dq rest).executed with
        | nil => simp [hex] at hq1
        | cons a t => rw [hex] at hq1; simpa [List.getLast?_cons_cons] using hq1
      · intro hf
        obtain ⟨e1, e2⟩ := h4 hf
        exact ⟨by rw [e1], by intro q hq; simp only [List.mem_cons] at hq; rcases hq with rfl | hq; exact hp; exact e2 q hq⟩
    · simp only [hp, Bool.false_eq_true, if_false]
      refine ⟨by simp, by simp, fun _ => ⟨p, by simp, by simpa using hp⟩, by simp⟩

/-- **multi_stops_at_first_error.** `doMultiStmts` hands the pieces to
    `doQuery` in order, each unchanged, and stops at the first one that fails:
    the executed texts are a prefix of the pieces (of the whole text when there
    is a single piece); every executed text but the last succeeded; an error is
    returned exactly when the last executed text failed (or the splitter itself
    failed, in which case nothing was executed). -/
theorem multi_stops_at_first_error (dq : Bytes → Bool) (sql : Bytes) (pieces : List Bytes)
    (hsplit : splitStatementToPieces sql = .ok pieces false) :
    let stmts := if pieces.length = 1 then [sql] else pieces
    let out := doMultiStmts dq sql
    out.executed <+: stmts ∧
    (∀ p ∈ out.executed.dropLast, dq p = true) ∧
    (out.failed = true → ∃ p, out.executed.getLast? = some p ∧ dq p = false) ∧
    (out.failed = false → out.executed = stmts ∧ ∀ p ∈ stmts, dq p = true) := by
  simp only [doMultiStmts, hsplit]
  split <;> exact runPieces_prefix dq _

/-- A split error (unclosed comment), panic or hang of the splitter: nothing is executed, an error is returned. -/
theorem multi_split_failure (dq : Bytes → Bool) (sql : Bytes)
    (h : ∀ ps, splitStatementToPieces sql ≠ .ok ps false) :
    doMultiStmts dq sql = ⟨[], true⟩ := by
  cases hsp : splitStatementToPieces sql with
  | ok ps e =>
    cases e with
    | false => exact absurd hsp (h ps)
    | true => simp [doMultiStmts, hsp]
  | panic => simp [doMultiStmts, hsp]
  | hang => simp [doMultiStmts, hsp]

/-- **The whole path for item texts.**  A multi-statement query built from
    lexical items executes exactly its statements, in order, up to and
    including the first failing one. -/
theorem multi_items (dq : Bytes → Bool) (items : List Item) (hs : Safe items = true) (hx : noX items = true) :
    doMultiStmts dq (render items) =
      runPieces dq (if (specPieces items).length = 1 then [render items] else specPieces items) := by
  simp only [doMultiStmts, split_items items hs hx]
  split <;> rfl

/-! ### ties to the source -/

/-- The rule table of the scanner (`initTokenByte` in parser/misc.go, extracted
    on every run) is the set of operator characters of the model, `/` being
    handled by `startWithSlash`. -/
theorem ruleTable_bytes (c : Nat) : (c ∈ Gen.c17TokenBytes ∧ c ≠ 0x2F) ↔ isOpChar c = true := by
  simp only [Gen.c17TokenBytes, isOpChar, List.mem_cons, List.mem_nil_iff, or_false, Bool.or_eq_true, decide_eq_true_eq]
  omega

/-- The multi-character operators of the rule table are those `opLen` knows. -/
theorem ruleTable_strings : Gen.c17TokenStrings =
    [[0x7C, 0x7C], [0x26, 0x26], [0x26, 0x5E], [0x3A, 0x3D], [0x3C, 0x3D, 0x3E], [0x3E, 0x3D], [0x3C, 0x3D],
     [0x21, 0x3D], [0x3C, 0x3E], [0x3C, 0x3C], [0x3E, 0x3E], [0x5C, 0x4E]] := by decide

/-- The characters that start a scanning function, as dispatched by `plainStep`. -/
theorem ruleTable_funcs : Gen.c17TokenFuncs.map (·.2) =
    ["startWithAt", "startWithSlash", "startWithDash", "startWithSharp", "startWithXx", "startWithNn", "startWithBb",
     "startWithDot", "scanIdentifier", "scanQuotedIdent", "startWithNumber", "startString"] := by decide

theorem eofChar_eq : Gen.c17EofChar = 0x100 := by decide

theorem multiLoop_stops_on_error : Gen.c17MultiLoopStopsOnError = true := by decide

/-! ### non-vacuity -/

/-- `select 'a;b' ; /* ; */ select `c;` -- ;` + newline + `; x` (bytes spelled out so that `decide` can evaluate). -/
def exItems : List Item :=
  [.word [115, 101, 108, 101, 99, 116], .ws [32], .str 0x27 [97, 59, 98], .ws [32], .semi, .ws [32],
   .cblock [32, 59, 32], .ws [32], .word [115, 101, 108, 101, 99, 116], .ws [32], .bq [99, 59], .ws [32],
   .cdash [32, 59] true, .semi, .ws [32], .word [120]]

/-- the three statements of `exItems` -/
def exPieces : List Bytes :=
  [[115, 101, 108, 101, 99, 116, 32, 39, 97, 59, 98, 39, 32], [32, 47, 42, 32, 59, 32, 42, 47, 32, 115, 101, 108, 101, 99, 116, 32, 96, 99, 59, 96, 32, 45, 45, 32, 59, 10], [32, 120]]

example : Safe exItems = true ∧ noX exItems = true := by decide

example : specPieces exItems = exPieces := by decide

example : splitStatementToPieces (render exItems) = .ok exPieces false := by
  rw [split_items exItems (by decide) (by decide)]; decide

/-- a statement whose only `;` bytes are inside a string with an escaped quote -/
example : isStatement [.word [115, 101, 108, 101, 99, 116], .ws [32], .str 0x22 [59, 92, 34, 59]] = true := by decide

end GaeaVerif.C17
